//go:build verif

package decoy

// Conformance drivers for spec/DecoyRegistrar (extension module X05): the client-side decoy registrar.
//
//   TestVerifDecoyRegReplay  stage B: every behaviour TLC generated (Gen_DecoyRegistrar, run-to-completion form) is executed
//                            in lockstep on the REAL Register / Send: the environment's steps (what the dialer returns, what
//                            the decoy's side of the connection does, the end of the context, the sleep timer) are performed
//                            by the driver in the behaviour's order, one at a time; the steps the code takes by itself are
//                            awaited; the recorded event sequence must be exactly the behaviour.
//   TestVerifDecoyRegRandom  stage C: seeded random scripts (widths up to 5, two calls on one registrar, orders and outcomes
//                            not derived from the specification) recorded as ndjson traces for Trace_DecoyRegistrar.
//   TestVerifDecoyRegStress  stage D: no gates at all - every peer answers by itself after a random few hundred
//                            microseconds, all goroutines run freely (meant for -race); judged at quiescence.
//   TestVerifDecoyRegProbe   stage P: real-time experiments for what the untimed specification cannot say (TLS deadline
//                            against the context's, Width 0, dial deadline without context deadline).
//
// How the real code is observed (nothing in /repo is changed):
//   - ConjureSession.Dialer is the injected dialer: it parks every sender until the driver releases it with an outcome and
//     returns a *net.OpError built the way the net package does (connect: network is unreachable / connection refused /
//     i/o timeout / the context's error), or the client end of a net.Pipe wrapped in vdrConn.
//   - the other end of the pipe is a crypto/tls server with a self-signed certificate (DecoyRegistrar.insecureSkipVerify,
//     the field the package's own test uses): it waits for the driver, then shakes hands (ECDSA + AES-GCM, or RSA + CBC so
//     that GetOutKeystream fails), or closes; later it writes one raw byte / closes (readAndClose).
//   - vdrConn parks the first application-data record (the registration request) until released, lets it through or fails
//     the write, decodes it with the package's own tryDecrypt, and records SetDeadline (TLS deadline), SetReadDeadline
//     (readAndClose has started, i.e. the nil report is in the channel) and Close.
//   - the context is an implementation of context.Context with an AfterFunc method: context.WithDeadline registers the
//     child through it and calls the returned stop function when the child's cancel function runs - Send's deferred
//     childCancelFunc().  A stop call with (*DecoyRegistrar).Send on its stack is the sender's return.
//   - the collector is observed through r.logger (a logrus hook): Debugf("%v", err) per failed report, NETWORK UNREACHABLE,
//     "Successfully sent registrations, sleeping for: d".
//   - stats.TcpToDecoy / TlsToDecoy are pointers to a fresh uint32 per set call: a changed pointer = the value was set.

import (
	"bytes"
	"context"
	"crypto/ecdsa"
	"crypto/elliptic"
	crand "crypto/rand"
	"crypto/rsa"
	stdtls "crypto/tls"
	"crypto/x509"
	"crypto/x509/pkix"
	"encoding/json"
	"fmt"
	"io"
	stdlog "log"
	"math/big"
	"math/rand"
	"net"
	"os"
	"regexp"
	"runtime"
	"strconv"
	"strings"
	"sync"
	"sync/atomic"
	"syscall"
	"testing"
	"time"

	"github.com/refraction-networking/conjure/pkg/client/assets"
	"github.com/refraction-networking/conjure/pkg/core"
	"github.com/refraction-networking/conjure/pkg/transports/wrapping/min"
	pb "github.com/refraction-networking/conjure/proto"
	td "github.com/refraction-networking/gotapdance/tapdance"
	"github.com/sirupsen/logrus"
)

type vdrEv = map[string]any

const vdrCovert = "192.0.2.77:443"
const vdrMinDial = 20 * time.Millisecond

// ------------------------------------------------------------------------------------------------ world (shared)
type vdrWorld struct {
	gcm, cbc *stdtls.Config
	pubkey   [32]byte
	waitMul  time.Duration // scale of the driver's patience (larger under -race / heavy load)
}

var vdrAddrRe = regexp.MustCompile(`(\d+\.\d+\.\d+\.\d+):443`)

func vdrNewWorld(t testing.TB) *vdrWorld {
	stdlog.SetOutput(io.Discard)
	td.Logger().Out = io.Discard
	dir, err := os.MkdirTemp("", "x05_assets_")
	if err != nil {
		t.Fatalf("tempdir: %v", err)
	}
	t.Cleanup(func() { os.RemoveAll(dir) })
	_, _ = assets.AssetsSetDir(dir) // no ClientConf there: the built-in defaults stay
	var decoys []*pb.TLSDecoySpec
	for i := 0; i < 250; i++ {
		decoys = append(decoys, pb.InitTLSDecoySpec(fmt.Sprintf("10.9.%d.%d", i/200, i%200+1), fmt.Sprintf("d%d.decoy.example", i+1)))
	}
	if err := assets.Assets().SetDecoys(decoys); err != nil {
		t.Fatalf("SetDecoys: %v", err)
	}
	w := &vdrWorld{pubkey: *assets.Assets().GetConjurePubkey(), waitMul: time.Duration(vEnvInt("VERIF_WAITMUL", 1))}
	mk := func(rsaKey bool) stdtls.Certificate {
		tpl := &x509.Certificate{SerialNumber: big.NewInt(1), Subject: pkix.Name{CommonName: "decoy"},
			NotBefore: time.Now().Add(-time.Hour), NotAfter: time.Now().Add(24 * time.Hour)}
		if rsaKey {
			k, err := rsa.GenerateKey(crand.Reader, 2048)
			if err != nil {
				t.Fatalf("rsa: %v", err)
			}
			der, err := x509.CreateCertificate(crand.Reader, tpl, tpl, &k.PublicKey, k)
			if err != nil {
				t.Fatalf("cert: %v", err)
			}
			return stdtls.Certificate{Certificate: [][]byte{der}, PrivateKey: k}
		}
		k, _ := ecdsa.GenerateKey(elliptic.P256(), crand.Reader)
		der, err := x509.CreateCertificate(crand.Reader, tpl, tpl, &k.PublicKey, k)
		if err != nil {
			t.Fatalf("cert: %v", err)
		}
		return stdtls.Certificate{Certificate: [][]byte{der}, PrivateKey: k}
	}
	w.gcm = &stdtls.Config{Certificates: []stdtls.Certificate{mk(false)}, MaxVersion: stdtls.VersionTLS12,
		CipherSuites: []uint16{stdtls.TLS_ECDHE_ECDSA_WITH_AES_128_GCM_SHA256}}
	w.cbc = &stdtls.Config{Certificates: []stdtls.Certificate{mk(true)}, MaxVersion: stdtls.VersionTLS12,
		CipherSuites: []uint16{stdtls.TLS_ECDHE_RSA_WITH_AES_128_CBC_SHA}}
	// the exit hook depends on how package context treats a parent with an AfterFunc method: make sure it works here
	pc := vdrNewCtx(false, nil)
	hit := make(chan bool, 4)
	pc.onStop = func(fromSend bool) { hit <- true }
	_, cancel := context.WithDeadline(pc, time.Now().Add(time.Hour))
	cancel()
	select {
	case <-hit:
	case <-time.After(time.Second):
		t.Fatalf("context.WithDeadline does not call the stop function of an AfterFunc parent: the sender-exit hook is blind")
	}
	pc2 := vdrNewCtx(false, nil)
	pc2.end(context.Canceled)
	pc2.onStop = func(fromSend bool) { hit <- true }
	_, cancel2 := context.WithDeadline(pc2, time.Now().Add(time.Hour))
	select {
	case <-hit:
		t.Fatalf("exit hook fired at the creation of a child context")
	default:
	}
	cancel2()
	select {
	case <-hit:
	case <-time.After(time.Second):
		t.Fatalf("the cancel function of a child of an ended parent does not reach the parent: the sender-exit hook is blind")
	}
	return w
}

func (w *vdrWorld) wait(d time.Duration) time.Duration { return d * w.waitMul }

// ------------------------------------------------------------------------------------------------ context with exit hook
type vdrCtx struct {
	mu     sync.Mutex
	done   chan struct{}
	err    error
	dl     time.Time
	has    bool
	fns    map[int]func()
	n      int
	onStop func(fromSend bool)
}

func vdrNewCtx(has bool, onStop func(bool)) *vdrCtx {
	c := &vdrCtx{done: make(chan struct{}), fns: map[int]func(){}, has: has, onStop: onStop}
	if has {
		c.dl = time.Now().Add(60 * time.Second) // never reached within a run; the driver ends the context itself
	}
	return c
}
func (c *vdrCtx) Deadline() (time.Time, bool) { return c.dl, c.has }
func (c *vdrCtx) Done() <-chan struct{}       { return c.done }
func (c *vdrCtx) Err() error                  { c.mu.Lock(); defer c.mu.Unlock(); return c.err }

// Value: a child created from an ALREADY ended parent is not registered through AfterFunc (it is cancelled on the spot); its
// cancel function still runs context.removeChild, which asks the parent for its cancelCtx through Value - that call is the
// hook for senders started with an ended context.
func (c *vdrCtx) Value(k any) any {
	if c.onStop != nil && c.Err() != nil && vdrOnStack("context.removeChild") {
		c.onStop(vdrOnStack("decoy-registrar.(*DecoyRegistrar).Send"))
	}
	return nil
}
func (c *vdrCtx) AfterFunc(f func()) func() bool {
	c.mu.Lock()
	id := c.n
	c.n++
	c.fns[id] = f
	c.mu.Unlock()
	return func() bool {
		if c.onStop != nil {
			c.onStop(vdrOnStack("decoy-registrar.(*DecoyRegistrar).Send"))
		}
		c.mu.Lock()
		_, ok := c.fns[id]
		delete(c.fns, id)
		c.mu.Unlock()
		return ok
	}
}
func (c *vdrCtx) end(err error) {
	c.mu.Lock()
	if c.err != nil {
		c.mu.Unlock()
		return
	}
	c.err = err
	fns := c.fns
	c.fns = map[int]func(){}
	close(c.done)
	c.mu.Unlock()
	for _, f := range fns {
		f() // context.cancelCtx cancels its children synchronously as well
	}
}

func vdrOnStack(fn string) bool {
	pcs := make([]uintptr, 24)
	n := runtime.Callers(2, pcs)
	fr := runtime.CallersFrames(pcs[:n])
	for {
		f, more := fr.Next()
		if strings.HasSuffix(f.Function, fn) {
			return true
		}
		if !more {
			return false
		}
	}
}

func vdrGoid() uint64 {
	var buf [64]byte
	n := runtime.Stack(buf[:], false)
	f := bytes.Fields(buf[:n])
	if len(f) < 2 {
		return 0
	}
	id, _ := strconv.ParseUint(string(f[1]), 10, 64)
	return id
}

// ------------------------------------------------------------------------------------------------ one registrar under test
type vdrRun struct {
	w      *vdrWorld
	id     int
	mu     sync.Mutex
	log    []vdrEv
	grow   chan struct{}
	reg    *DecoyRegistrar
	round  int
	cur    *vdrRound
	all    []*vdrRound
	gates  bool // false: stress mode, peers answer by themselves
	rng    *rand.Rand
	prob   []string // things the driver itself found wrong (hook blind, sender stuck, ...)
	probMu sync.Mutex
	// stress mode: the outcomes the senders of the next call will meet (index = sender)
	pendingPlans []map[string]string
	// probes: a real deadline for the context; how long a successful dial takes
	deadlineIn time.Duration
	minDial    time.Duration
	exactDial  bool
}

type vdrRound struct {
	run       *vdrRun
	n         int
	w         int
	dl, pre   bool
	ctx       *vdrCtx
	sess      *td.ConjureSession
	senders   []*vdrSender // index 0 unused
	byAddr    map[string]*vdrSender
	goids     sync.Map // goroutine id -> *vdrSender
	firstNil  int
	lastColl  string // last collector event: "" | "unreach" | "other"
	tSleep    time.Time
	dSleep    time.Duration
	returned  chan struct{}
	retErr    error
	retReg    *td.ConjureReg
	tcpPtr    *uint32
	tlsPtr    *uint32
	arrivals  atomic.Int32
	allArrive chan struct{}
}

type vdrSender struct {
	rd        *vdrRound
	idx       int
	addr      string
	arrived   atomic.Bool
	dialled   atomic.Bool
	dialCmd   chan string
	childCtx  context.Context
	dlsrc     string
	conn      atomic.Pointer[vdrConn]
	station   chan string
	repLogged bool
	exited    atomic.Bool
	exitSeen  atomic.Bool
	// stress mode: the outcomes this sender will meet
	plan map[string]string
}

func vdrNewRun(w *vdrWorld, id int, gates bool) *vdrRun {
	r := &vdrRun{w: w, id: id, grow: make(chan struct{}, 1), gates: gates}
	r.reg = NewDecoyRegistrar()
	r.reg.insecureSkipVerify = true
	lg := logrus.New()
	lg.SetOutput(io.Discard)
	lg.SetLevel(logrus.DebugLevel)
	lg.AddHook(vdrHook{r})
	r.reg.logger = lg
	return r
}

func (r *vdrRun) problem(f string, a ...any) {
	r.probMu.Lock()
	r.prob = append(r.prob, fmt.Sprintf(f, a...))
	r.probMu.Unlock()
}

// add appends an event; it returns the event's position
func (r *vdrRun) addLocked(e vdrEv) int {
	r.log = append(r.log, e)
	select {
	case r.grow <- struct{}{}:
	default:
	}
	return len(r.log) - 1
}
func (r *vdrRun) add(e vdrEv) int {
	r.mu.Lock()
	defer r.mu.Unlock()
	return r.addLocked(e)
}
func (r *vdrRun) length() int {
	r.mu.Lock()
	defer r.mu.Unlock()
	return len(r.log)
}
func (r *vdrRun) snapshot() []vdrEv {
	r.mu.Lock()
	defer r.mu.Unlock()
	out := make([]vdrEv, len(r.log))
	for i, e := range r.log {
		c := vdrEv{}
		for k, v := range e {
			c[k] = v
		}
		out[i] = c
	}
	return out
}

// waitLen waits until the log has more than k events
func (r *vdrRun) waitLen(k int, d time.Duration) bool {
	dead := time.NewTimer(d)
	defer dead.Stop()
	for {
		if r.length() > k {
			return true
		}
		select {
		case <-r.grow:
		case <-time.After(2 * time.Millisecond):
		case <-dead.C:
			return r.length() > k
		}
	}
}

// the Report of sender s is logged once: by whoever sees it first (the sender's own next step or the collector's line)
func (r *vdrRun) ensureReportLocked(s *vdrSender, isNil bool) {
	if s == nil || s.repLogged {
		return
	}
	s.repLogged = true
	r.addLocked(vdrEv{"a": "Report", "s": s.idx, "nil": isNil})
}

// ------------------------------------------------------------------------------------------------ the collector's log lines
type vdrHook struct{ r *vdrRun }

func (h vdrHook) Levels() []logrus.Level { return logrus.AllLevels }
func (h vdrHook) Fire(e *logrus.Entry) error {
	r := h.r
	rd := r.cur
	m := e.Message
	switch {
	case strings.HasPrefix(m, "Registering V4 and V6"), strings.HasPrefix(m, "\tSending Reg:"), strings.HasPrefix(m, "Using width"):
		return nil
	case m == "NETWORK UNREACHABLE":
		r.add(vdrEv{"a": "Decide", "out": "unreachable", "dur": "-"})
		return nil
	case strings.HasPrefix(m, "Successfully sent registrations, sleeping for: "):
		d, err := time.ParseDuration(strings.TrimPrefix(m, "Successfully sent registrations, sleeping for: "))
		dur := "other"
		if err == nil {
			// getRandomDurationByRTT(3000, 212, 3449): 3000 ms + rttInt(stored TCP RTT) * (0..3) ms
			rtt := rttInt(r.reg.getTcpToDecoy())
			for k := 0; k <= 3; k++ {
				if d == time.Duration(3000+rtt*k)*time.Millisecond {
					dur = "rtt"
				}
			}
		}
		r.mu.Lock()
		if rd.lastColl != "other" {
			// the loop was left without a failure line: the report it took was nil - the first nil sent
			var s *vdrSender
			if rd.firstNil > 0 {
				s = rd.senders[rd.firstNil]
			}
			r.ensureReportLocked(s, true)
			r.addLocked(vdrEv{"a": "Recv", "s": rd.firstNil, "v": "nil"})
		}
		rd.tSleep, rd.dSleep = time.Now(), d
		r.addLocked(vdrEv{"a": "Decide", "out": "sleep", "dur": dur, "_d_ms": d.Milliseconds()})
		r.mu.Unlock()
		return nil
	case e.Level == logrus.DebugLevel:
		// logger.Debugf("%v", err) of the collector loop
		v := "dialerr"
		switch {
		case strings.Contains(m, "[UNREACHABLE]"):
			v = "unreach"
		case strings.Contains(m, "[TLS_ERROR]") && strings.Contains(m, " createConn: "):
			v = "tlserr"
		case strings.Contains(m, "[TLS_ERROR]") && strings.Contains(m, " createReq: "):
			v = "reqerr"
		case strings.Contains(m, "[TLS_ERROR]") && strings.Contains(m, " Write: "):
			v = "wrerr"
		case strings.HasPrefix(m, "Registration Error"):
			v = "regerr-other"
		}
		var s *vdrSender
		if a := vdrAddrRe.FindString(m); a != "" {
			s = rd.byAddr[a]
		}
		r.mu.Lock()
		idx := 0
		if s != nil {
			idx = s.idx
			r.ensureReportLocked(s, false)
		}
		if v == "unreach" {
			rd.lastColl = "unreach"
		} else {
			rd.lastColl = "other"
		}
		r.addLocked(vdrEv{"a": "Recv", "s": idx, "v": v, "_msg": m})
		r.mu.Unlock()
		return nil
	}
	r.add(vdrEv{"a": "Log", "level": e.Level.String(), "msg": m})
	return nil
}

// ------------------------------------------------------------------------------------------------ the connection
type vdrConn struct {
	net.Conn // client end of the pipe
	s        *vdrSender
	srv      net.Conn
	tlsCmd   chan string
	writeCmd chan string
	lingCmd  chan string
	mu       sync.Mutex
	closed   bool
	tlsDL    time.Time
	lingDL   time.Time
	appSeen  bool
	wrFailed bool
	regOK    bool
	hsErr    error
}

type vdrTimeout struct{}

func (vdrTimeout) Error() string   { return "i/o timeout" }
func (vdrTimeout) Timeout() bool   { return true }
func (vdrTimeout) Temporary() bool { return true }

func (c *vdrConn) Write(b []byte) (int, error) {
	c.mu.Lock()
	first := len(b) >= 5 && b[0] == 0x17 && !c.appSeen
	if first {
		c.appSeen = true
	}
	failed := c.wrFailed
	c.mu.Unlock()
	if failed {
		return 0, &net.OpError{Op: "write", Net: "tcp", Err: os.NewSyscallError("write", syscall.EPIPE)}
	}
	if first {
		// the registration request: does it decode as this session's registration (the package's own station-side decoder)?
		rec := append([]byte(nil), b...)
		c2s, _, err := tryDecrypt(rec, c.s.rd.sess.Keys.SharedSecret)
		ok := err == nil && c2s != nil && c2s.GetCovertAddress() == vdrCovert
		c.mu.Lock()
		c.regOK = ok
		c.mu.Unlock()
		c.s.signal("write")
		cmd := c.s.next(c.writeCmd, "write")
		if cmd != "ok" {
			c.mu.Lock()
			c.wrFailed = true
			c.mu.Unlock()
			return 0, &net.OpError{Op: "write", Net: "tcp", Err: os.NewSyscallError("write", syscall.EPIPE)}
		}
	}
	return c.Conn.Write(b)
}
func (c *vdrConn) SetDeadline(t time.Time) error {
	err := c.Conn.SetDeadline(t) // first the real deadline, then the record: whoever brings it forward must come after it
	c.mu.Lock()
	first := c.tlsDL.IsZero()
	if first {
		c.tlsDL = t
	}
	c.mu.Unlock()
	if first {
		c.s.signal("tls")
	}
	return err
}
func (c *vdrConn) SetReadDeadline(t time.Time) error {
	err := c.Conn.SetReadDeadline(t)
	c.mu.Lock()
	first := c.lingDL.IsZero()
	if first {
		c.lingDL = t
	}
	c.mu.Unlock()
	if first {
		// readAndClose has started: `dialError <- nil` is behind the sender
		r := c.s.rd.run
		r.mu.Lock()
		r.ensureReportLocked(c.s, true)
		r.mu.Unlock()
		c.s.signal("linger")
	}
	return err
}
func (c *vdrConn) Close() error {
	c.mu.Lock()
	c.closed = true
	c.mu.Unlock()
	return c.Conn.Close()
}
func (c *vdrConn) isClosed() bool {
	c.mu.Lock()
	defer c.mu.Unlock()
	return c.closed
}

// the decoy's side
func (c *vdrConn) serve() {
	w := c.s.rd.run.w
	cmd := c.s.next(c.tlsCmd, "tls")
	var cfg *stdtls.Config
	switch cmd {
	case "ok":
		cfg = w.gcm
	case "nokeystream":
		cfg = w.cbc
	case "timeout":
		// TLSDeadline passes: the pending handshake read fails with os.ErrDeadlineExceeded (once Send has set its deadline)
		for i := 0; i < 5000; i++ {
			c.mu.Lock()
			set := !c.tlsDL.IsZero()
			c.mu.Unlock()
			if set {
				break
			}
			time.Sleep(200 * time.Microsecond)
		}
		c.Conn.SetDeadline(time.Now())
		return
	default: // "err", "abort"
		c.srv.Close()
		return
	}
	ts := stdtls.Server(c.srv, cfg)
	if err := ts.Handshake(); err != nil {
		c.mu.Lock()
		c.hsErr = err
		c.mu.Unlock()
		c.srv.Close()
		return
	}
	go io.Copy(io.Discard, ts)
	switch c.s.next(c.lingCmd, "linger") {
	case "byte":
		c.srv.SetWriteDeadline(time.Now().Add(5 * time.Second))
		c.srv.Write([]byte{0x15})
	case "eof":
		c.srv.Close()
	case "timeout":
		// bring the 15 s read deadline of readAndClose forward: the pending Read fails with os.ErrDeadlineExceeded
		for i := 0; i < 5000; i++ {
			c.mu.Lock()
			set := !c.lingDL.IsZero()
			c.mu.Unlock()
			if set {
				break
			}
			time.Sleep(200 * time.Microsecond)
		}
		c.Conn.SetReadDeadline(time.Now())
	default:
		c.srv.Close()
	}
}

// ------------------------------------------------------------------------------------------------ senders
func (s *vdrSender) signal(st string) {
	select {
	case s.station <- st:
	default:
	}
}

// next: the command for a gate.  With gates the driver sends it; in stress mode the sender meets its planned outcome
// after a short random pause.
func (s *vdrSender) next(ch chan string, gate string) string {
	if s.rd.run.gates {
		return <-ch
	}
	select {
	case c := <-ch: // abort
		return c
	case <-time.After(time.Duration(s.rd.run.randN(400)) * time.Microsecond):
	}
	if o, ok := s.plan[gate]; ok {
		return o
	}
	return "abort"
}

func (r *vdrRun) randN(n int) int {
	r.probMu.Lock()
	defer r.probMu.Unlock()
	return r.rng.Intn(n)
}

func (s *vdrSender) waitStation(d time.Duration) string {
	select {
	case st := <-s.station:
		return st
	case <-time.After(d):
		return "stuck"
	}
}

func (rd *vdrRound) dial(ctx context.Context, network, laddr, raddr string) (net.Conn, error) {
	s := rd.byAddr[raddr]
	if s == nil {
		rd.run.problem("dial of an address that was not selected: %s", raddr)
		return nil, fmt.Errorf("verif: unknown decoy %s", raddr)
	}
	if s.dialled.Swap(true) {
		rd.run.problem("sender %d dialled twice", s.idx)
		return nil, fmt.Errorf("verif: second dial")
	}
	s.childCtx = ctx
	rd.goids.Store(vdrGoid(), s)
	// where does the dial deadline come from? (decoy-registrar.go:331-335)
	cdl, ok := ctx.Deadline()
	switch {
	case !ok:
		s.dlsrc = "none"
	case rd.dl && cdl.Equal(rd.ctx.dl):
		s.dlsrc = "ctx"
	case time.Until(cdl) > 1500*time.Millisecond && time.Until(cdl) < 4100*time.Millisecond:
		s.dlsrc = "own" // now + getRandomDuration(1931, 4013) ms
	default:
		s.dlsrc = fmt.Sprintf("other(%v)", time.Until(cdl).Round(10*time.Millisecond))
	}
	s.arrived.Store(true) // after dlsrc: whoever sees the sender as arrived may read it
	if int(rd.arrivals.Add(1)) == rd.w {
		close(rd.allArrive)
	}
	ip, _, _ := net.SplitHostPort(raddr)
	addr := &net.TCPAddr{IP: net.ParseIP(ip), Port: 443}
	operr := func(e error) error { return &net.OpError{Op: "dial", Net: "tcp", Addr: addr, Err: e} }
	t0 := time.Now()
	cmd := s.next(s.dialCmd, "dial")
	switch cmd {
	case "ok":
		// Send sets the TLS deadline to now + 2.1 .. 5.9 SECONDS per millisecond the dial took (300 ms assumed for a dial
		// below 1 ms).  A gated dial that took 1 .. 10 ms would let the handshake time out by itself in the middle of a run:
		// with gates, a successful dial takes at least vdrMinDial (TLS deadline beyond 40 s).  "timeout" of the TLS step is
		// scripted by bringing that deadline forward.
		if rd.run.exactDial {
			if d := rd.run.minDial; d > 0 {
				time.Sleep(d - time.Since(t0) + 300*time.Microsecond)
			}
		} else if rd.run.gates {
			if el := time.Since(t0); el < vdrMinDial {
				time.Sleep(vdrMinDial - el)
			}
		}
		cl, sv := net.Pipe()
		c := &vdrConn{Conn: cl, s: s, srv: sv, tlsCmd: make(chan string, 2), writeCmd: make(chan string, 2), lingCmd: make(chan string, 2)}
		s.conn.Store(c)
		go c.serve()
		return c, nil
	case "unreach":
		return nil, operr(os.NewSyscallError("connect", syscall.ENETUNREACH))
	case "refused":
		return nil, operr(os.NewSyscallError("connect", syscall.ECONNREFUSED))
	case "timeout":
		select { // Send's own dial deadline
		case <-ctx.Done():
		case <-time.After(6 * time.Second):
			rd.run.problem("sender %d: dial context without deadline did not end within 6 s", s.idx)
		}
		return nil, operr(vdrTimeout{})
	case "ctx":
		if ctx.Err() == nil {
			rd.run.problem("sender %d: dial context still live after the caller's context ended", s.idx)
			return nil, operr(context.Canceled)
		}
		return nil, operr(ctx.Err())
	}
	return nil, operr(fmt.Errorf("verif: aborted"))
}

// the sender's return (Send's deferred childCancelFunc)
func (rd *vdrRound) onStop(fromSend bool) {
	if !fromSend {
		return
	}
	v, ok := rd.goids.Load(vdrGoid())
	if !ok {
		rd.run.problem("a sender returned that never dialled")
		return
	}
	s := v.(*vdrSender)
	if s.exitSeen.Swap(true) {
		return
	}
	r := rd.run
	r.mu.Lock()
	r.ensureReportLocked(s, false)
	r.mu.Unlock()
	s.exited.Store(true) // only now: whoever sees the sender as returned finds its Report in the log
	s.signal("exit")
}

// ------------------------------------------------------------------------------------------------ the driver's operations
func (r *vdrRun) ptrs() (tcp, tls *uint32) {
	r.reg.m.Lock()
	defer r.reg.m.Unlock()
	if r.reg.stats == nil {
		return nil, nil
	}
	return r.reg.stats.TcpToDecoy, r.reg.stats.TlsToDecoy
}

func (r *vdrRun) call(w int, dl, pre bool) bool {
	r.round++
	rd := &vdrRound{run: r, n: r.round, w: w, dl: dl, pre: pre, byAddr: map[string]*vdrSender{}, returned: make(chan struct{}),
		allArrive: make(chan struct{})}
	rd.ctx = vdrNewCtx(dl, rd.onStop)
	if dl && r.deadlineIn > 0 {
		// a real deadline: the context ends by itself
		rd.ctx.dl = time.Now().Add(r.deadlineIn)
		c := rd.ctx
		time.AfterFunc(r.deadlineIn, func() { c.end(context.DeadlineExceeded) })
	}
	// a fresh session whose W decoys are distinct (selectDecoys draws with replacement)
	var keys *core.SharedKeys
	var ds []*pb.TLSDecoySpec
	for try := 0; ; try++ {
		var err error
		keys, err = core.GenerateClientSharedKeys(r.w.pubkey)
		if err != nil {
			r.problem("GenerateClientSharedKeys: %v", err)
			return false
		}
		ds, err = selectDecoys(keys.SharedSecret, 0, uint(w))
		if err != nil {
			r.problem("selectDecoys: %v", err)
			return false
		}
		seen := map[string]bool{}
		for _, d := range ds {
			seen[d.GetIpAddrStr()] = true
		}
		if len(seen) == w {
			break
		}
		if try > 200 {
			r.problem("no session with %d distinct decoys", w)
			return false
		}
	}
	rd.senders = make([]*vdrSender, w+1)
	for i, d := range ds {
		s := &vdrSender{rd: rd, idx: i + 1, addr: d.GetIpAddrStr(), dialCmd: make(chan string, 2), station: make(chan string, 8)}
		if r.pendingPlans != nil {
			s.plan = r.pendingPlans[i+1]
		}
		if r.exactDial {
			s.dialCmd <- "ok" // probe: the dial is not parked, it takes minDial
		}
		rd.senders[i+1] = s
		rd.byAddr[s.addr] = s
	}
	rd.sess = &td.ConjureSession{CovertAddress: vdrCovert, V6Support: &td.V6{}, Keys: keys, Transport: &min.ClientTransport{}, Dialer: rd.dial}
	r.reg.Width = uint(w)
	if err := r.reg.PrepareRegKeys(r.w.pubkey, keys.SharedSecret); err != nil {
		r.problem("PrepareRegKeys: %v", err)
		return false
	}
	if w == 0 {
		close(rd.allArrive)
	}
	rd.tcpPtr, rd.tlsPtr = r.ptrs()
	r.cur = rd
	r.all = append(r.all, rd)
	if pre {
		rd.ctx.end(context.Canceled)
	}
	var early vdrEv
	if !r.gates {
		// without gates the senders do not wait for the driver: Call is logged before Register is entered
		early = vdrEv{"a": "Call", "round": rd.n, "w": w, "dl": dl, "pre": pre}
		r.add(early)
	}
	go func() {
		reg, err := r.reg.Register(rd.sess, rd.ctx)
		now := time.Now()
		rd.retReg, rd.retErr = reg, err
		e := "other"
		if err == nil {
			e = "none"
		} else if re, ok := err.(td.RegError); ok && re.Code() == td.Unreachable {
			e = "unreachable"
		}
		sl := "no"
		if !rd.tSleep.IsZero() {
			el := now.Sub(rd.tSleep)
			switch {
			case el >= rd.dSleep-2*time.Millisecond && rd.ctx.Err() == nil:
				sl = "full"
			case rd.ctx.Err() != nil && el < rd.dSleep:
				sl = "cut"
			case rd.ctx.Err() != nil:
				sl = "full-and-ended"
			default:
				sl = fmt.Sprintf("short(%v of %v)", el.Round(time.Millisecond), rd.dSleep)
			}
		}
		ev := vdrEv{"a": "Return", "err": e, "reg": reg != nil, "slept": sl}
		if e == "other" {
			ev["_err"] = err.Error()
		}
		r.add(ev)
		close(rd.returned)
	}()
	select {
	case <-rd.allArrive:
	case <-rd.returned:
	case <-time.After(r.w.wait(5 * time.Second)):
	}
	src := ""
	for _, s := range rd.senders[1:] {
		if !s.arrived.Load() {
			src = "missing-sender"
			break
		}
		if src == "" {
			src = s.dlsrc
		} else if src != s.dlsrc {
			src = "mixed:" + src + "+" + s.dlsrc
		}
	}
	// Call is the first event of its round (nothing can be logged before a sender was released)
	if early != nil {
		r.mu.Lock()
		early["dlsrc"] = src
		r.mu.Unlock()
	} else {
		r.add(vdrEv{"a": "Call", "round": rd.n, "w": w, "dl": dl, "pre": pre, "dlsrc": src})
	}
	return src != "missing-sender"
}

func (r *vdrRun) sender(i int) *vdrSender {
	rd := r.cur
	if rd == nil || i < 1 || i > rd.w {
		return nil
	}
	return rd.senders[i]
}

// step performs one environment step; it returns the position of its event (-1: could not be performed)
func (r *vdrRun) step(a string, i int, o string) int {
	rd := r.cur
	W := r.w.wait(5 * time.Second)
	switch a {
	case "CtxEnd":
		k := r.add(vdrEv{"a": "CtxEnd"})
		rd.ctx.end(context.Canceled)
		return k
	case "Return": // the sleep timer
		k := r.length()
		select {
		case <-rd.returned:
		case <-time.After(r.w.wait(10 * time.Second)):
		}
		return k
	}
	s := r.sender(i)
	if s == nil {
		return -1
	}
	switch a {
	case "DialRet":
		ev := vdrEv{"a": "DialRet", "s": i, "o": o}
		k := r.add(ev)
		s.dialCmd <- o
		want := "exit"
		if o == "ok" {
			want = "tls"
		}
		d := W
		if o == "timeout" {
			d += 5 * time.Second
		}
		st := s.waitStation(d)
		tcp, _ := r.ptrs()
		r.mu.Lock()
		ev["set"] = tcp != rd.tcpPtr
		if st != want {
			ev["_station"] = st
		}
		r.mu.Unlock()
		rd.tcpPtr = tcp
		return k
	case "TlsRet":
		if s.conn.Load() == nil {
			return -1
		}
		ev := vdrEv{"a": "TlsRet", "s": i, "o": o}
		k := r.add(ev)
		s.conn.Load().tlsCmd <- o
		want := "exit"
		if o == "ok" {
			want = "write"
		}
		st := s.waitStation(W)
		_, tls := r.ptrs()
		r.mu.Lock()
		ev["set"] = tls != rd.tlsPtr
		ev["closed"] = s.conn.Load().isClosed()
		if st != want {
			ev["_station"] = st
		}
		r.mu.Unlock()
		rd.tlsPtr = tls
		return k
	case "WriteRet":
		if s.conn.Load() == nil {
			return -1
		}
		ev := vdrEv{"a": "WriteRet", "s": i, "o": o}
		r.mu.Lock()
		k := r.addLocked(ev)
		if o == "ok" && rd.firstNil == 0 {
			rd.firstNil = i
		}
		r.mu.Unlock()
		s.conn.Load().writeCmd <- o
		want := "exit"
		if o == "ok" {
			want = "linger"
		}
		st := s.waitStation(W)
		s.conn.Load().mu.Lock()
		regOK := s.conn.Load().regOK
		s.conn.Load().mu.Unlock()
		r.mu.Lock()
		ev["reg"] = o == "ok" && regOK
		ev["closed"] = s.conn.Load().isClosed()
		if st != want {
			ev["_station"] = st
		}
		r.mu.Unlock()
		return k
	case "LingerEnd":
		if s.conn.Load() == nil {
			return -1
		}
		ev := vdrEv{"a": "LingerEnd", "s": i, "how": o}
		k := r.add(ev)
		s.conn.Load().lingCmd <- o
		st := s.waitStation(W)
		r.mu.Lock()
		ev["closed"] = s.conn.Load().isClosed()
		if st != "exit" {
			ev["_station"] = st
		}
		if dl := time.Until(s.conn.Load().lingDL); dl < 9*time.Second-W || dl > 15*time.Second {
			ev["_linger_deadline"] = dl.String() // readAndClose(dialConn, 15 s)
		}
		r.mu.Unlock()
		return k
	}
	return -1
}

// cleanup releases everything a run may have left parked
func (r *vdrRun) cleanup() {
	for _, rd := range r.all {
		rd.ctx.end(context.Canceled)
		for _, s := range rd.senders[1:] {
			select {
			case s.dialCmd <- "abort":
			default:
			}
			if c := s.conn.Load(); c != nil {
				for _, ch := range []chan string{c.tlsCmd, c.writeCmd, c.lingCmd} {
					select {
					case ch <- "abort":
					default:
					}
				}
				c.srv.Close()
				c.Conn.Close()
			}
		}
	}
}

// quiet: Register returned in every round and every sender returned
func (r *vdrRun) quiet() (bool, string) {
	for _, rd := range r.all {
		select {
		case <-rd.returned:
		default:
			return false, fmt.Sprintf("Register of round %d has not returned", rd.n)
		}
		for _, s := range rd.senders[1:] {
			if !s.exited.Load() {
				return false, fmt.Sprintf("sender %d of round %d has not returned", s.idx, rd.n)
			}
		}
	}
	return true, ""
}

func vdrPublic(e vdrEv) vdrEv {
	o := vdrEv{}
	for k, v := range e {
		if !strings.HasPrefix(k, "_") {
			o[k] = v
		}
	}
	return o
}

// vdrMatches: every field of the specification's observation is in the recorded event with the same value
func vdrMatches(want, got vdrEv) bool {
	g := vNorm(got).(map[string]any)
	for k, v := range want {
		gv, ok := g[k]
		if !ok || vCanon(gv) != vCanon(v) {
			return false
		}
	}
	return true
}

var vdrEnv = map[string]bool{"Call": true, "CtxEnd": true, "DialRet": true, "TlsRet": true, "WriteRet": true, "LingerEnd": true}

// ------------------------------------------------------------------------------------------------ stage B
type vdrResult struct {
	ok      bool
	at      int
	why     string
	got     []vdrEv
	problem []string
}

func vdrReplay(w *vdrWorld, id int, beh []vdrEv) vdrResult {
	r := vdrNewRun(w, id, true)
	defer r.cleanup()
	res := vdrResult{ok: true, at: -1}
	fail := func(k int, why string) vdrResult {
		res.ok, res.at, res.why = false, k, why
		time.Sleep(3 * time.Millisecond)
		res.got = r.snapshot()
		res.problem = r.prob
		return res
	}
	for k, want := range beh {
		a, _ := want["a"].(string)
		num := func(f string) int { x, _ := want[f].(float64); return int(x) }
		str := func(f string) string { x, _ := want[f].(string); return x }
		env := vdrEnv[a] || (a == "Return" && str("slept") == "full")
		if env {
			if n := r.length(); n != k {
				return fail(k, "the real code took a step the specification does not have here")
			}
			switch a {
			case "Call":
				dl, _ := want["dl"].(bool)
				pre, _ := want["pre"].(bool)
				if !r.call(num("w"), dl, pre) && len(r.prob) > 0 {
					return fail(k, "call failed")
				}
			case "DialRet", "TlsRet", "WriteRet":
				if p := r.step(a, num("s"), str("o")); p != k {
					return fail(k, fmt.Sprintf("step not possible here (event position %d)", p))
				}
			case "LingerEnd":
				if p := r.step(a, num("s"), str("how")); p != k {
					return fail(k, fmt.Sprintf("step not possible here (event position %d)", p))
				}
			case "CtxEnd":
				r.step(a, 0, "")
			case "Return":
				r.step(a, 0, "")
			}
		}
		d := w.wait(5 * time.Second)
		if a == "Return" {
			d = w.wait(10 * time.Second)
		}
		if !r.waitLen(k, d) {
			return fail(k, "the step of the specification did not happen on the real code")
		}
		r.mu.Lock()
		got := r.log[k]
		okm := vdrMatches(want, got)
		r.mu.Unlock()
		if !okm {
			return fail(k, "different step / different observation")
		}
	}
	// nothing may follow, everything must be through
	time.Sleep(2 * time.Millisecond)
	if n := r.length(); n != len(beh) {
		return fail(len(beh), "the real code went on after the end of the behaviour")
	}
	if q, why := r.quiet(); !q {
		return fail(len(beh), why)
	}
	if len(r.prob) > 0 {
		return fail(len(beh), "driver problem")
	}
	return res
}

func vdrSendGoroutines() int {
	buf := make([]byte, 1<<20)
	for {
		n := runtime.Stack(buf, true)
		if n < len(buf) {
			buf = buf[:n]
			break
		}
		buf = make([]byte, 2*len(buf))
	}
	return bytes.Count(buf, []byte("decoy-registrar.(*DecoyRegistrar).Send("))
}

func TestVerifDecoyRegReplay(t *testing.T) {
	w := vdrNewWorld(t)
	out := vOpenOut(t)
	defer out.Close()
	var behs [][]vdrEv
	vReadLines(t, func(line []byte) {
		var b []vdrEv
		if err := json.Unmarshal(line, &b); err != nil {
			t.Fatalf("bad behaviour: %v", err)
		}
		behs = append(behs, b)
	})
	par := vEnvInt("VERIF_PAR", 400)
	var steps, mism, retried atomic.Int64
	first := make([]vdrResult, len(behs))
	jobs := make(chan int, len(behs))
	for i := range behs {
		jobs <- i
	}
	close(jobs)
	var wg sync.WaitGroup
	for p := 0; p < par; p++ {
		wg.Add(1)
		go func() {
			defer wg.Done()
			for i := range jobs {
				first[i] = vdrReplay(w, i, behs[i])
				steps.Add(int64(len(behs[i])))
			}
		}()
	}
	wg.Wait()
	// a behaviour that did not match is run once more under low load (four at a time) before it is reported
	var again []int
	for i := range behs {
		if !first[i].ok {
			again = append(again, i)
		}
	}
	second := map[int]vdrResult{}
	var smu sync.Mutex
	maxRetry := vEnvInt("VERIF_MAXRETRY", 25)
	rj := make(chan int, len(again))
	for k, i := range again {
		if k < maxRetry {
			rj <- i
		}
	}
	close(rj)
	var wg2 sync.WaitGroup
	for p := 0; p < 4; p++ {
		wg2.Add(1)
		go func() {
			defer wg2.Done()
			for i := range rj {
				res := vdrReplay(w, i, behs[i])
				retried.Add(1)
				smu.Lock()
				second[i] = res
				smu.Unlock()
			}
		}()
	}
	wg2.Wait()
	for _, i := range again {
		res := first[i]
		if r2, ok := second[i]; ok {
			if r2.ok {
				continue
			}
			res = r2
		}
		mism.Add(1)
		var wantEv, gotEv vdrEv
		if res.at >= 0 && res.at < len(behs[i]) {
			wantEv = behs[i][res.at]
		}
		if res.at >= 0 && res.at < len(res.got) {
			gotEv = res.got[res.at]
		}
		out.Emit(map[string]any{"kind": "mismatch", "idx": i, "at": res.at, "why": res.why, "want": behs[i], "got": res.got,
			"want_event": wantEv, "got_event": gotEv, "problems": res.problem})
	}
	time.Sleep(50 * time.Millisecond)
	out.Emit(map[string]any{"kind": "summary", "behaviours": len(behs), "steps": steps.Load(), "mismatches": mism.Load(),
		"retried": retried.Load(), "send_goroutines_left": vdrSendGoroutines()})
}

// ------------------------------------------------------------------------------------------------ stage C
// one random script, generated while it runs: the driver only knows the real code's events, not what the specification
// would do
func vdrRandomTrace(w *vdrWorld, id int, rng *rand.Rand, maxW int) ([]vdrEv, vdrEv, []string) {
	r := vdrNewRun(w, id, true)
	defer r.cleanup()
	script := vdrEv{"id": id}
	rounds := 1 + rng.Intn(2)
	var ops []string
	for rn := 0; rn < rounds; rn++ {
		wd := 1 + rng.Intn(maxW)
		dl := rng.Intn(2) == 0
		pre := rng.Intn(10) == 0
		allUnreach := rng.Intn(6) == 0
		wantFull := rng.Intn(8) == 0
		if !r.call(wd, dl, pre) {
			break
		}
		rd := r.cur
		ops = append(ops, fmt.Sprintf("call(w=%d dl=%v pre=%v)", wd, dl, pre))
		st := make([]string, wd+1) // the driver's own idea of where each sender is
		for i := 1; i <= wd; i++ {
			st[i] = "dial"
		}
		ended := pre
		returned := func() bool {
			select {
			case <-rd.returned:
				return true
			default:
				return false
			}
		}
		sleptAt := func() bool { r.mu.Lock(); defer r.mu.Unlock(); return !rd.tSleep.IsZero() }
		sleeping := func() bool { return sleptAt() && !returned() }
		pick := func(xs ...string) string { return xs[rng.Intn(len(xs))] }
		for {
			var live []int
			for i := 1; i <= wd; i++ {
				if st[i] != "done" {
					live = append(live, i)
				}
			}
			if len(live) == 0 {
				break
			}
			// the caller / the timer
			if !ended && rng.Intn(12) == 0 {
				r.step("CtxEnd", 0, "")
				ended = true
				ops = append(ops, "ctxend")
				continue
			}
			if sleeping() && !ended && wantFull && rng.Intn(3) == 0 {
				r.step("Return", 0, "")
				ops = append(ops, "timer")
				continue
			}
			i := live[rng.Intn(len(live))]
			switch st[i] {
			case "dial":
				o := pick("ok", "ok", "ok", "ok", "unreach", "unreach", "refused")
				if allUnreach {
					o = "unreach"
				}
				if !dl && !allUnreach && rng.Intn(60) == 0 {
					o = "timeout"
				}
				if ended && rng.Intn(2) == 0 {
					o = "ctx"
				}
				r.step("DialRet", i, o)
				if o == "ok" {
					st[i] = "tls"
				} else {
					st[i] = "done"
				}
				ops = append(ops, fmt.Sprintf("dial(%d,%s)", i, o))
			case "tls":
				o := pick("ok", "ok", "ok", "ok", "ok", "err", "timeout", "nokeystream")
				r.step("TlsRet", i, o)
				if o == "ok" {
					st[i] = "write"
				} else {
					st[i] = "done"
				}
				ops = append(ops, fmt.Sprintf("tls(%d,%s)", i, o))
			case "write":
				o := pick("ok", "ok", "ok", "err")
				r.step("WriteRet", i, o)
				if o == "ok" {
					st[i] = "linger"
				} else {
					st[i] = "done"
				}
				ops = append(ops, fmt.Sprintf("write(%d,%s)", i, o))
			case "linger":
				o := pick("byte", "eof", "timeout")
				r.step("LingerEnd", i, o)
				st[i] = "done"
				ops = append(ops, fmt.Sprintf("linger(%d,%s)", i, o))
			}
		}
		// every sender is through: the collector has left its loop; let Register return
		deadline := time.Now().Add(w.wait(5 * time.Second))
		for !returned() && !sleptAt() && time.Now().Before(deadline) {
			time.Sleep(time.Millisecond)
		}
		if !returned() {
			if !ended && !wantFull {
				r.step("CtxEnd", 0, "")
				ops = append(ops, "ctxend")
			}
			r.step("Return", 0, "")
		}
	}
	time.Sleep(2 * time.Millisecond)
	if q, why := r.quiet(); !q {
		r.problem("%s", why)
	}
	script["ops"] = ops
	return r.snapshot(), script, r.prob
}

func TestVerifDecoyRegRandom(t *testing.T) {
	w := vdrNewWorld(t)
	out := vOpenOut(t)
	defer out.Close()
	n := vEnvInt("VERIF_TRACES", 200)
	only := vEnvInt("VERIF_ONLY", -1)
	maxW := vEnvInt("VERIF_MAXW", 5)
	par := vEnvInt("VERIF_PAR", 300)
	type rec struct {
		evs    []vdrEv
		script vdrEv
		prob   []string
	}
	recs := make([]rec, n)
	jobs := make(chan int, n)
	for i := 0; i < n; i++ {
		if only < 0 || only == i {
			jobs <- i
		}
	}
	close(jobs)
	var wg sync.WaitGroup
	for p := 0; p < par; p++ {
		wg.Add(1)
		go func() {
			defer wg.Done()
			for i := range jobs {
				rng := rand.New(rand.NewSource(vSeed()*1000003 + int64(i)))
				evs, sc, prob := vdrRandomTrace(w, i, rng, maxW)
				recs[i] = rec{evs, sc, prob}
			}
		}()
	}
	wg.Wait()
	for i := 0; i < n; i++ {
		if only >= 0 && only != i {
			continue
		}
		out.Emit(map[string]any{"a": "Reset", "script": recs[i].script, "problems": recs[i].prob})
		for _, e := range recs[i].evs {
			out.Emit(e)
		}
	}
	time.Sleep(50 * time.Millisecond)
	out.Emit(map[string]any{"a": "Summary", "send_goroutines_left": vdrSendGoroutines()})
}

// ------------------------------------------------------------------------------------------------ stage D
// no gates: every peer answers by itself, the goroutines of the real code run freely.  Judged at quiescence.
func TestVerifDecoyRegStress(t *testing.T) {
	w := vdrNewWorld(t)
	out := vOpenOut(t)
	defer out.Close()
	n := vEnvInt("VERIF_RUNS", 300)
	par := vEnvInt("VERIF_PAR", 64)
	var bad, unreachRuns, okRuns, nilRuns, multiRound atomic.Int64
	jobs := make(chan int, n)
	for i := 0; i < n; i++ {
		jobs <- i
	}
	close(jobs)
	var wg sync.WaitGroup
	for p := 0; p < par; p++ {
		wg.Add(1)
		go func() {
			defer wg.Done()
			for id := range jobs {
				rng := rand.New(rand.NewSource(vSeed()*7919 + int64(id)))
				r := vdrNewRun(w, id, false)
				r.rng = rand.New(rand.NewSource(rng.Int63()))
				rounds := 1 + rng.Intn(2)
				if rounds > 1 {
					multiRound.Add(1)
				}
				for rn := 0; rn < rounds; rn++ {
					wd := 1 + rng.Intn(5)
					allUnreach := rng.Intn(5) == 0
					plans := make([]map[string]string, wd+1)
					for i := 1; i <= wd; i++ {
						pl := map[string]string{}
						pl["dial"] = []string{"ok", "ok", "ok", "unreach", "unreach", "refused"}[rng.Intn(6)]
						if allUnreach {
							pl["dial"] = "unreach"
						}
						pl["tls"] = []string{"ok", "ok", "ok", "err", "nokeystream", "timeout"}[rng.Intn(6)]
						pl["write"] = []string{"ok", "ok", "ok", "err"}[rng.Intn(4)]
						pl["linger"] = []string{"byte", "eof", "timeout"}[rng.Intn(3)]
						plans[i] = pl
					}
					// the plans must be in place before the first sender dials: call() creates the senders, so hand them over
					// through the run (the dialer reads s.plan only after s.next's pause)
					r.pendingPlans = plans
					if !r.call(wd, rng.Intn(2) == 0, false) {
						break
					}
					rd := r.cur
					// end the context a little after the collector went to sleep (or returned)
					quietBy := time.Now().Add(w.wait(8 * time.Second))
					isRet := func() bool {
						select {
						case <-rd.returned:
							return true
						default:
							return false
						}
					}
					slept := func() bool { r.mu.Lock(); defer r.mu.Unlock(); return !rd.tSleep.IsZero() }
					for !slept() && !isRet() && time.Now().Before(quietBy) {
						time.Sleep(200 * time.Microsecond)
					}
					time.Sleep(time.Duration(rng.Intn(1500)) * time.Microsecond)
					rd.ctx.end(context.Canceled)
					for time.Now().Before(quietBy) {
						if q, _ := r.quiet(); q {
							break
						}
						time.Sleep(300 * time.Microsecond)
					}
					// ---- judge
					report := func(prop, detail string) {
						bad.Add(1)
						out.Emit(map[string]any{"kind": "prop", "prop": prop, "detail": detail, "plans": plans[1:], "events": r.snapshot()})
					}
					if q, why := r.quiet(); !q {
						report("never-blocks", why)
						continue
					}
					un := 0
					for i := 1; i <= wd; i++ {
						if plans[i]["dial"] == "unreach" {
							un++
						}
					}
					var ret vdrEv
					nRecv, nDecide, nRet := 0, 0, 0
					recvOther := false
					evs := r.snapshot()
					start := 0
					for k, e := range evs {
						if e["a"] == "Call" {
							start = k
						}
					}
					reps := map[int]int{}
					for _, e := range evs[start:] {
						switch e["a"] {
						case "Recv":
							nRecv++
							if recvOther {
								report("loop-ends-at-first-other", "a report was received after the loop should have been left")
							}
							if e["v"] != "unreach" {
								recvOther = true
							}
						case "Decide":
							nDecide++
						case "Return":
							nRet++
							ret = e
						case "Report":
							reps[e["s"].(int)]++
						}
					}
					if nRet != 1 || nDecide != 1 {
						report("one-decision-one-return", fmt.Sprintf("%d Decide, %d Return events", nDecide, nRet))
						continue
					}
					for i := 1; i <= wd; i++ {
						if reps[i] != 1 {
							report("reports-exactly-once", fmt.Sprintf("sender %d: %d reports", i, reps[i]))
						}
					}
					if un == wd {
						unreachRuns.Add(1)
						if ret["err"] != "unreachable" || ret["reg"] != false {
							report("unreachable-iff-all", fmt.Sprintf("every sender unreachable, Register returned %v", ret))
						}
					} else {
						okRuns.Add(1)
						if ret["err"] != "none" || ret["reg"] != true {
							report("unreachable-iff-all", fmt.Sprintf("%d of %d senders unreachable, Register returned %v", un, wd, ret))
						}
					}
					if nRecv < 1 {
						report("return-needs-report", "Register returned without having received a report")
					}
					for _, e := range evs[start:] {
						if e["a"] == "Recv" && e["v"] == "nil" {
							nilRuns.Add(1)
						}
					}
					tcp, _ := r.ptrs()
					if tcp == nil {
						report("rtt-ready", "no TCP RTT stored after a call that returned")
					}
				}
				r.cleanup()
			}
		}()
	}
	wg.Wait()
	time.Sleep(50 * time.Millisecond)
	out.Emit(map[string]any{"kind": "summary", "runs": n, "bad": bad.Load(), "all_unreachable": unreachRuns.Load(), "reachable": okRuns.Load(),
		"nil_received": nilRuns.Load(), "two_calls": multiRound.Load(), "send_goroutines_left": vdrSendGoroutines()})
}

// ------------------------------------------------------------------------------------------------ stage P
// Real-time experiments for what the untimed specification cannot say.  Each emits one row {kind:"probe", name, ...}; the
// check records them (they describe the tree as it is; none of them is a verdict).
func TestVerifDecoyRegProbe(t *testing.T) {
	w := vdrNewWorld(t)
	out := vOpenOut(t)
	defer out.Close()

	// 1. a context with a real deadline 300 ms away, one decoy that accepts the connection and then says nothing
	{
		r := vdrNewRun(w, 2, true)
		r.deadlineIn = 300 * time.Millisecond
		r.call(1, true, false)
		rd := r.cur
		s := rd.senders[1]
		t0 := time.Now()
		r.step("DialRet", 1, "ok")
		dialMs := time.Since(t0).Milliseconds()
		s.conn.Load().mu.Lock()
		tlsDL := s.conn.Load().tlsDL
		s.conn.Load().mu.Unlock()
		time.Sleep(time.Until(rd.ctx.dl) + 400*time.Millisecond)
		returned := false
		select {
		case <-rd.returned:
			returned = true
		default:
		}
		out.Emit(map[string]any{"kind": "probe", "name": "tls-deadline-vs-context-deadline",
			"dial_deadline_source": s.dlsrc, "dial_ms": dialMs,
			"tls_deadline_after_context_deadline_s": tlsDL.Sub(rd.ctx.dl).Seconds(),
			"tls_deadline_from_dial_return_s": tlsDL.Sub(t0).Seconds(),
			"context_err_400ms_after_deadline": fmt.Sprint(rd.ctx.Err()),
			"register_returned_400ms_after_deadline": returned,
			"sender_returned_400ms_after_deadline": s.exited.Load(),
			"connection_closed": s.conn.Load().isClosed()})
		r.cleanup()
		select {
		case <-rd.returned:
		case <-time.After(w.wait(10 * time.Second)):
		}
	}
	// 2. Width 0: no sender, nobody ever writes to (or closes) dialErrors
	{
		r := vdrNewRun(w, 3, true)
		r.call(0, false, true) // context already ended
		rd := r.cur
		returned := false
		select {
		case <-rd.returned:
			returned = true
		case <-time.After(500 * time.Millisecond):
		}
		out.Emit(map[string]any{"kind": "probe", "name": "width-0", "context_ended_before_call": true,
			"register_returned_within_500ms": returned, "events": r.snapshot()})
	}
	// 3. the TLS deadline as a function of the time the dial took (decoy-registrar.go:358-360)
	for _, ms := range []int{0, 1, 5, 40} {
		r := vdrNewRun(w, 10+ms, true)
		r.minDial = time.Duration(ms) * time.Millisecond
		r.exactDial = true
		t0 := time.Now()
		r.call(1, false, false)
		s := r.cur.senders[1]
		if st := s.waitStation(w.wait(5 * time.Second)); st != "tls" {
			t.Fatalf("probe 3: sender at %s", st)
		}
		s.conn.Load().mu.Lock()
		tlsDL := s.conn.Load().tlsDL
		s.conn.Load().mu.Unlock()
		tcp, _ := r.ptrs()
		var stored uint32
		if tcp != nil {
			stored = *tcp
		}
		out.Emit(map[string]any{"kind": "probe", "name": "tls-deadline-vs-dial-time", "dial_ms_asked": ms, "stored_tcp_rtt_ms": stored,
			"tls_deadline_s": tlsDL.Sub(t0).Seconds() - float64(ms)/1000})
		r.step("TlsRet", 1, "err")
		select {
		case <-r.cur.returned:
		case <-time.After(100 * time.Millisecond):
		}
		r.cleanup()
		select {
		case <-r.cur.returned:
		case <-time.After(w.wait(10 * time.Second)):
		}
	}
	// 5. NewDecoyRegistrarWithDialer: "dialContext is a custom dialer to use when establishing TCP connections to decoys" - which
	// dialer do the senders use?
	{
		r := vdrNewRun(w, 60, true)
		var regDialer atomic.Int32
		lg, skip := r.reg.logger, r.reg.insecureSkipVerify
		r.reg = NewDecoyRegistrarWithDialer(func(ctx context.Context, network, addr string) (net.Conn, error) {
			regDialer.Add(1)
			return nil, fmt.Errorf("verif: the registrar's own dialer")
		})
		r.reg.logger, r.reg.insecureSkipVerify = lg, skip
		r.call(2, false, false)
		sess := int(r.cur.arrivals.Load())
		r.step("DialRet", 1, "refused")
		r.step("DialRet", 2, "refused")
		r.step("CtxEnd", 0, "")
		select {
		case <-r.cur.returned:
		case <-time.After(w.wait(10 * time.Second)):
		}
		out.Emit(map[string]any{"kind": "probe", "name": "registrar-dialer", "senders": 2, "dials_through_session_dialer": sess,
			"dials_through_registrar_dialer": int(regDialer.Load())})
		r.cleanup()
	}
	// 4. the second session's PrepareRegKeys while a sender of the first is still on its way (one registrar per
	// tapdance.Dialer, PrepareRegKeys per DialConjure): which keys does the late sender's registration carry?
	{
		r := vdrNewRun(w, 50, true)
		r.call(2, false, false)
		rd := r.cur
		r.step("DialRet", 1, "ok")
		r.step("DialRet", 2, "ok")
		r.step("TlsRet", 1, "ok")
		k1 := r.step("WriteRet", 1, "ok")
		r.waitLen(8, w.wait(5*time.Second)) // ... Report, Recv, Decide
		r.step("CtxEnd", 0, "")
		select {
		case <-rd.returned:
		case <-time.After(w.wait(10 * time.Second)):
		}
		// Register has returned; the caller starts its next session on the same registrar
		keys2, _ := core.GenerateClientSharedKeys(w.pubkey)
		_ = r.reg.PrepareRegKeys(w.pubkey, keys2.SharedSecret)
		r.step("TlsRet", 2, "ok")
		k := r.step("WriteRet", 2, "ok")
		ev := r.snapshot()[k]
		out.Emit(map[string]any{"kind": "probe", "name": "late-sender-after-next-PrepareRegKeys",
			"first_sender_registration_decodes": r.snapshot()[k1]["reg"], "late_sender_registration_decodes_with_its_session_secret": ev["reg"]})
		r.step("LingerEnd", 1, "byte")
		r.step("LingerEnd", 2, "byte")
		r.cleanup()
	}
}
