SPECIFICATION GenSpec
CONSTANTS
  Kind = "obfs4"
  Variant = "asfound"
  KnownIds = {0, 1}
  FieldIds = {}
  SetArgs <- SetArgsG
  OvArgs <- OvArgsG
  Secrets = {"s1"}
  ReaderOk = {TRUE, FALSE}
  Seeds = {"sd1"}
  DeadConns = {FALSE, TRUE}
  MaxConns = 1
  MaxWrites = 2
  WriteSizes = {0, 5000}
  MaxPeer = 1
  PeerSizes = {4}
  Depth = 5
INVARIANT Emit
CHECK_DEADLOCK FALSE
