//go:build verif

package regprocessor

// X09 - the caller of the overrides: RegProcessor.processBdReq with a real PrefixOverride loaded from a file whose single line is
// always selected (bar >= max: no random draw, so the process-wide crypto reader the caller passes does not matter).  One row per
// (client's disable flag, phantom subnets support port randomisation, client randomises, port column of the file): what the
// registration response finally carries - the parameters written by the override, and where its DstPort comes from.

import (
	"encoding/json"
	"fmt"
	"os"
	"path/filepath"
	"testing"

	"github.com/refraction-networking/conjure/pkg/core"
	"github.com/refraction-networking/conjure/pkg/core/interfaces"
	"github.com/refraction-networking/conjure/pkg/phantoms"
	"github.com/refraction-networking/conjure/pkg/regserver/overrides"
	"github.com/refraction-networking/conjure/pkg/station/lib"
	"github.com/refraction-networking/conjure/pkg/transports/wrapping/prefix"
	pb "github.com/refraction-networking/conjure/proto"
	"google.golang.org/protobuf/proto"
	"google.golang.org/protobuf/types/known/anypb"
)

const xcPhantomToml = `
[Networks]
    [Networks.1]
        Generation = 1
        [[Networks.1.WeightedSubnets]]
            Weight = 9
            RandomizeDstPort = %v
            Subnets = ["192.122.190.0/24", "2001:48a8:687f:1::/64"]
`

const (
	xcFileID     = 4  // TLSClientHello: known to the station's transport, default port 443
	xcClientID   = 3  // HTTPResp: the client's own choice, default port 80
	xcClientPort = 80
)

func TestVerifPrefixOverrideCaller(t *testing.T) {
	out := vOpenOut(t)
	defer out.Close()
	dir := t.TempDir()
	sel := map[bool]*phantoms.PhantomIPSelector{}
	for _, psr := range []bool{false, true} {
		p := filepath.Join(dir, fmt.Sprintf("phantoms_%v.toml", psr))
		if err := os.WriteFile(p, []byte(fmt.Sprintf(xcPhantomToml, psr)), 0o644); err != nil {
			t.Fatal(err)
		}
		os.Setenv("PHANTOM_SUBNET_LOCATION", p)
		s, err := phantoms.GetPhantomSubnetSelector()
		if err != nil {
			t.Fatalf("phantom selector: %v", err)
		}
		sel[psr] = s
	}
	n := 0
	vReadLines(t, func(line []byte) {
		var beh []map[string]any
		if err := json.Unmarshal(line, &beh); err != nil {
			t.Fatalf("row %d: %v", n, err)
		}
		n++
		row := beh[len(beh)-1]
		if row["a"] != "Caller" {
			t.Fatalf("row %d is %v", n, row["a"])
		}
		dis, psr, rnd := row["dis"].(string), row["psr"].(bool), row["rnd"].(string)
		fport := int(row["fport"].(float64))
		got := map[string]any{"a": "Caller", "dis": dis, "psr": psr, "rnd": rnd, "fport": fport}
		func() {
			defer func() {
				if p := recover(); p != nil {
					got["err"] = fmt.Sprintf("panic: %v", p)
				}
			}()
			fp := filepath.Join(dir, "prefixes.conf")
			if err := os.WriteFile(fp, []byte(fmt.Sprintf("# always selected\n1 1 %d %d Xx-xfx\n", xcFileID, fport)), 0o600); err != nil {
				t.Fatal(err)
			}
			po, err := overrides.NewPrefixTransportOverride(fp)
			if err != nil {
				t.Fatalf("load: %v", err)
			}
			p := &RegProcessor{ipSelector: sel[psr], transports: map[pb.TransportType]lib.Transport{pb.TransportType_Prefix: prefix.DefaultSet()},
				regOverrides: interfaces.Overrides{po}}
			tt := pb.TransportType_Prefix
			prm := &pb.PrefixTransportParams{PrefixId: proto.Int32(xcClientID)}
			switch rnd {
			case "true":
				prm.RandomizeDstPort = proto.Bool(true)
			case "false":
				prm.RandomizeDstPort = proto.Bool(false)
			}
			a, _ := anypb.New(prm)
			c2s := &pb.ClientToStation{Transport: &tt, TransportParams: a, V4Support: proto.Bool(true), DecoyListGeneration: proto.Uint32(1),
				ClientLibVersion: proto.Uint32(uint32(core.CurrentClientLibraryVersion())), CovertAddress: proto.String("192.0.2.7:443")}
			switch dis {
			case "yes":
				c2s.DisableRegistrarOverrides = proto.Bool(true)
			case "no":
				c2s.DisableRegistrarOverrides = proto.Bool(false)
			}
			w := &pb.C2SWrapper{SharedSecret: vSecret(fmt.Sprintf("x09-caller-%d", n)), RegistrationPayload: c2s}
			resp, err := p.processBdReq(w)
			if err != nil {
				got["err"] = err.Error()
				return
			}
			got["err"] = "none"
			got["seenpsr"] = resp.GetPhantomsSupportPortRand()
			got["fwdsame"] = proto.Equal(resp, w.GetRegistrationResponse())
			port := int(resp.GetDstPort())
			switch {
			case port == fport:
				got["port"] = "file"
			case port == xcClientPort:
				got["port"] = "client"
			case port == 443:
				got["port"] = "443"
			case port >= 1024 && port <= 65535:
				got["port"] = "range"
			default:
				got["port"] = fmt.Sprintf("?%d", port)
			}
			got["tp"] = "none"
			if tp := resp.GetTransportParams(); tp != nil {
				q := &pb.PrefixTransportParams{}
				if err := proto.Unmarshal(tp.Value, q); err != nil {
					got["tp"] = "undecodable"
				} else if q.GetPrefixId() == xcFileID && string(q.GetPrefix()) == "Xx-xfx" {
					got["tp"] = "file"
				} else {
					got["tp"] = fmt.Sprintf("?%v", q)
				}
			}
		}()
		out.Emit(map[string]any{"kind": "row", "want": row, "got": got})
	})
	out.Emit(map[string]any{"kind": "summary", "rows": n})
}
