---------------------------- MODULE Gen_DnsTunnel ----------------------------
(* Behaviour generator for stage B (spec -> implementation replay): carries the history of observations and prints each
   behaviour as JSON when it reaches Depth or when nothing is left to do.  Exhaustive mode enumerates every path (hist is
   part of the state); -simulate samples long ones. *)
EXTENDS DnsTunnel, Json
CONSTANT Depth
VARIABLE hist
GenInit == Init /\ hist = <<>>
GenNext == /\ Len(hist) < Depth
           /\ Next
           /\ hist' = Append(hist, obs')
GenSpec == GenInit /\ [][GenNext]_<<vars, hist>>
Emit == (Len(hist) < Depth /\ ~Terminal) \/ PrintT(ToJson(hist))
=============================================================================
