// stub of the `redis` crate for the X07 harness.  FlowTracker::new() starts SessionTracker's ingest thread
// (sessions.rs ingest_from_pubsub -> get_redis_conn); here no Redis is reachable: get_connection() fails, the thread ends in
// its own `expect("Can't get Redis connection")` and the tracker is driven synchronously through its methods.  (The pub/sub
// ingest path itself is C10's subject: rust/stubs/redis.rs.)  One thread per FlowTracker would otherwise stay parked for
// each of the ~10^5 trackers a run creates.
#[derive(Debug)] pub struct RedisError(pub String);
impl std::fmt::Display for RedisError { fn fmt(&self, f: &mut std::fmt::Formatter) -> std::fmt::Result { write!(f, "{}", self.0) } }
pub type RedisResult<T> = Result<T, RedisError>;
pub struct Client;
impl Client {
    pub fn open(_u: &str) -> RedisResult<Client> { Ok(Client) }
    pub fn get_connection(&self) -> RedisResult<Connection> { Err(RedisError("verif: no redis in the X07 harness".into())) }
}
pub struct Connection;
impl Connection { pub fn as_pubsub(&mut self) -> PubSub { PubSub } }
pub struct PubSub;
impl PubSub {
    pub fn subscribe(&mut self, _c: &str) -> RedisResult<()> { Ok(()) }
    pub fn get_message(&mut self) -> RedisResult<Msg> { loop { std::thread::sleep(std::time::Duration::from_secs(3600)); } }
}
pub struct Msg(Vec<u8>);
pub trait FromPayload: Sized { fn from_payload(b: &[u8]) -> RedisResult<Self>; }
impl FromPayload for Vec<u8> { fn from_payload(b: &[u8]) -> RedisResult<Self> { Ok(b.to_vec()) } }
impl Msg { pub fn get_payload<T: FromPayload>(&self) -> RedisResult<T> { T::from_payload(&self.0) } }
