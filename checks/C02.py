"""C02 - only proof of a validated registration's secret on that phantom opens a tunnel.

A  TLC exhaustive: spec/Registry (which registrations a lookup on a phantom can return: valid, unexpired, scoped to the
   phantom - Lookup / Look projection, OneRecordPerRegistration, ExpiredNeverMatchesAfterSweep) and spec/Classify
   (MatchSound: a match implies the flight is genuine, unaltered and for a registration currently valid on this phantom
   with the same transport and prefix; ConsumeExact).
B  every history of one phantom's table that TLC enumerates from Gen_Classify (<= 3 connections: R's flight / another client / a probe;
   Validate / SweepIdle / Retrack between them; the sweeper removing R between a matching lookup and MarkActive) is replayed into the
   real RegistrationManager + handler: after every step the real table entry of R, and for every connection matched / marked used,
   must equal what TLC computed; each history's event log is also validated as one trace of Classify.tla.
C  real runs of handleNewTCPConn with real transports against a registry built from real registrations in several states
   (valid / tracked-but-unvalidated / expired and swept / same secret on another phantom or with another transport /
   prefix registration without parameters): genuine flights of the real client transports are offered unaltered
   (must match exactly their registration), replayed against other phantoms, produced for another transport or prefix,
   aimed at unvalidated / expired registrations, and altered bit by bit (every bit of the min tag and of the prefix tag in
   the thorough tier, a seeded sample in quick; obfs4 representative / padding / mark / MAC) or truncated.  The oracle (ok /
   which registration) is computed from the case definition; every event log and outcome is validated against Classify.tla.
"""
import json
import vlib
import classify_common as cc


def world():
    R = lambda name, secret, t, pid, state, ph, **kw: dict({"name": name, "secret": secret, "transport": t, "prefix_id": pid, "state": state, "phantom": ph}, **kw)
    regs = [R("rmin", "s-min", "min", 0, "valid", "P1"),
            R("rpx1", "s-px1", "prefix", 1, "valid", "P1"),
            R("rpx0", "s-px0", "prefix", 0, "valid", "P1"),
            R("rpx9", "s-px9", "prefix", 9, "valid", "P1"),
            R("robfs", "s-obfs", "obfs4", 0, "valid", "P1"),
            R("rtr_min", "s-trm", "min", 0, "tracked", "P1"),
            R("rtr_px", "s-trp", "prefix", 4, "tracked", "P1"),
            R("rtr_obfs", "s-tro", "obfs4", 0, "tracked", "P1"),
            R("rexp_min", "s-exm", "min", 0, "expired", "P1"),
            R("rexp_px", "s-exp", "prefix", 2, "expired", "P1"),
            # the same secrets on another phantom, and with another transport
            R("rmin_p2", "s-min", "min", 0, "valid", "P2"),
            R("rshare_px", "s-share", "prefix", 3, "valid", "P2"),
            R("rshare_min", "s-share", "min", 0, "valid", "P1"),
            R("rpx5_p2", "s-px5", "prefix", 5, "valid", "P2"),
            R("robfs_p2", "s-obfs-b", "obfs4", 0, "valid", "P2"),
            R("rnil", "s-nil", "prefix", 0, "valid", "P3", nil_params=True),
            # IPv6 phantoms: two populated ones and an empty one (V6c)
            R("rmin6", "s-min6", "min", 0, "valid", "V6a"),
            R("rpx6", "s-px6", "prefix", 1, "valid", "V6a"),
            R("robfs6", "s-obfs6", "obfs4", 0, "valid", "V6b"),
            R("rmin6b", "s-min6b", "min", 0, "valid", "V6b"),
            R("rtr6", "s-tr6", "min", 0, "tracked", "V6b"),
            # duplicate registration MESSAGES for sessions already validated above, naming other parameters: ingest ignores a duplicate
            # (nothing of it is validated), so the session stays bound to the prefix it was validated with
            R("rpx1_dup5", "s-px1", "prefix", 5, "dupignored", "P1"),
            R("rpx9_dup0", "s-px9", "prefix", 0, "dupignored", "P1"),
            R("rpx6_dup3", "s-px6", "prefix", 3, "dupignored", "V6a")]
    return {"phantoms": {"P1": "192.122.190.10", "P2": "192.122.190.11", "P3": "192.122.190.12", "P0": "192.122.190.9",
                         "V6a": "2001:48a8:687f:1::a:1", "V6b": "2001:48a8:687f:1::b:2", "V6c": "2001:48a8:687f:1::c:3"}, "regs": regs}


def reorder(w, how, rng):
    """The same registrations reached through a different HISTORY of register / validate / expire operations: the driver
    creates registrations in list order (an expired one is registered, validated, aged and swept at its position)."""
    regs = list(w["regs"])
    if how == "expire-last":        # nothing is validated on the phantom after the sweep removed the expired ones
        regs = [r for r in regs if r["state"] != "expired"] + [r for r in regs if r["state"] == "expired"]
    elif how == "expire-first":
        regs = [r for r in regs if r["state"] == "expired"] + [r for r in regs if r["state"] != "expired"]
    elif how == "shuffle":
        rng.shuffle(regs)
    # a duplicate message can only follow the registration it duplicates
    regs = [r for r in regs if r["state"] != "dupignored"] + [r for r in regs if r["state"] == "dupignored"]
    return dict(w, regs=regs)


def gen_cases(ctx, thorough, w=None, tag="", sections=(1, 2, 3, 4, 5)):
    rng = ctx.rng
    w = w or world()
    cases = []
    n = [0]

    def add(st, cuts=(), dst="P1", **kw):
        n[0] += 1
        if add.section in sections:
            cases.append(cc.case("c02%s-%d" % (tag, n[0]), dst, st, cuts, **kw))
    add.section = 1

    px = {"rpx1": 1, "rpx0": 0, "rpx9": 9, "rshare_px": 3, "rpx5_p2": 5, "rtr_px": 4, "rexp_px": 2, "rnil": 0, "rpx6": 1}
    home = {r["name"]: r["phantom"] for r in w["regs"]}
    # 1. unaltered genuine flights: to their own phantom (must match exactly that registration) and to every other phantom
    for r in w["regs"]:
        if r["state"] == "dupignored":
            continue
        kw = {"from": r["name"], "early": 24, "late": 8}
        if r["transport"] == "prefix":
            kw["client_px"] = px[r["name"]]
        for dst in sorted(w["phantoms"]):
            add(cc.stream(**kw), [rng.randrange(1, 30)], dst=dst)
    add.section = 2
    # 2. produced for another transport / another prefix than the one registered
    for frm, ct in (("rmin", "prefix"), ("rmin", "obfs4"), ("rpx1", "min"), ("rpx1", "obfs4"), ("robfs", "min"), ("robfs", "prefix"),
                    ("rshare_min", "prefix"), ("rshare_px", "min")):
        add(cc.stream(**{"from": frm, "client_t": ct, "client_px": 3 if frm.startswith("rshare") else 1, "early": 24}), [7], dst=home[frm])
        add(cc.stream(**{"from": frm, "client_t": ct, "client_px": 3 if frm.startswith("rshare") else 1, "early": 24}), [7],
            dst="P2" if home[frm] == "P1" else "P1")
    for frm, reg_px in (("rpx1", 1), ("rpx0", 0), ("rpx9", 9)):
        for cpx in cc.PLEN:
            if cpx != reg_px:
                add(cc.stream(**{"from": frm, "client_px": cpx, "early": 24}), [rng.randrange(1, 60)], dst="P1")
    # a prefix registration without parameters names no prefix: no prefix's flight may open it
    for cpx in (0, 1, 9):
        add(cc.stream(**{"from": "rnil", "client_px": cpx, "early": 24}), [5], dst="P3")
    add.section = 3
    # 3. altered anywhere in the tag
    min_bits = range(256) if thorough else rng.sample(range(256), 64)
    for b in min_bits:
        add(cc.stream(**{"from": "rmin", "flip": b, "early": 24}), [rng.randrange(1, 40)], dst="P1")
    for frm, pid in (("rpx1", 1), ("rpx0", 0)):
        plen = cc.PLEN[pid]
        allbits = range(plen * 8, (plen + 64) * 8)
        bits = allbits if thorough else rng.sample(allbits, 48) + [(plen + 31) * 8 + 6, (plen + 31) * 8 + 7, (plen + 31) * 8 + 5, (plen + 32) * 8]
        for b in bits:
            add(cc.stream(**{"from": frm, "client_px": pid, "flip": b, "early": 24}), [rng.randrange(1, plen + 70)], dst="P1")
    # obfs4: representative (front), MAC / mark (from the end), padding (from the end, beyond mark + MAC)
    k = 24 if thorough else 6
    for b in rng.sample(range(0, 31 * 8), k):
        add(cc.stream(**{"from": "robfs", "flip": b}), [100], dst="P1")
    for be in rng.sample(range(0, 16 * 8), k) + rng.sample(range(16 * 8, 32 * 8), k) + rng.sample(range(40 * 8, 60 * 8), k):
        add(cc.stream(**{"from": "robfs", "flip_end": be}), [100], dst="P1")
    add.section = 4
    # 4. truncated at every length (min) / at structural boundaries (prefix)
    for t in (range(1, 32) if thorough else (1, 16, 31)):
        add(cc.stream(**{"from": "rmin", "trunc": t}), [], dst="P1")
    for t in (15, 16, 17, 47, 79):
        add(cc.stream(**{"from": "rpx1", "client_px": 1, "trunc": t}), [], dst="P1")
    add.section = 5
    # 5. random byte streams against the populated phantoms
    for L in (32, 64, 80, 200, 8192):
        for dst in ("P1", "P2"):
            add(cc.stream(gen="random", len=L), [rng.randrange(1, 32)], dst=dst)
    return w, cases


def run(ctx):
    thorough = ctx.tier == "thorough"
    # ---- A
    rdir = ctx.spec_copy("Registry")
    r = ctx.tlc(rdir, "Registry.tla", "MC_Registry.cfg", timeout=900)
    ctx.require_design_ok(r, "Registry (lookup scoping / validity)")
    cc.stage_a(ctx)
    # ---- C
    w, cases = gen_cases(ctx, thorough)
    ctx.log("C: %d connections" % len(cases))
    results = []
    B = 450
    for i in range(0, len(cases), B):
        results += cc.run_cases(ctx, [(w, cases[i:i + B])], par=B)
    # the same registry contents reached through other histories (order of register / validate / expire+sweep operations):
    # the registry-state-sensitive cases (unaltered flights to every phantom, other transport / prefix) are repeated on each
    hist = ["expire-last", "shuffle"] + (["expire-first", "shuffle", "shuffle"] if thorough else [])
    for hi, how in enumerate(hist):
        w2 = reorder(w, how, ctx.rng)
        _, c2 = gen_cases(ctx, thorough, w=w2, tag="h%d" % hi, sections=(1, 2))
        results += cc.run_cases(ctx, [(w2, c2)], par=B)
    ctx.stage("C", histories=["list-order"] + hist)
    summary = cc.validate(ctx, "C02", results, "c02")
    nmatch = sum(1 for (_, _, r) in results if r["final"].get("matched"))
    should = 0
    for (ww, cs, rec) in results:
        c = cc.oracle(ww, cs, rec["final"].get("flight_len", 0), rec["final"].get("c2s_written", 0))
        should += 1 if c["ok"] else 0
    ctx.log("C: %d traces, %d accepted, %d rejected; %d matched (oracle: %d)" % (summary["traces"], summary["accepted"], summary["rejected"], nmatch, should))
    if should < 5 or should > len(results) - 50:
        raise vlib.InfraError("case mix is vacuous (%d of %d should match)" % (should, len(results)))
    if summary["rejected"] == 0:
        ctx.stage("C", corrupted_trace_rejected_at=cc.binding_demo(ctx, results[:80], summary["sdir"]))
    # ---- B + C over table HISTORIES: the registry states "reachable by sequences of register / validate / expire operations" together with the
    # connections that meet them - R's flight arriving before validation, after expiry, after the sweeper removed R under a handler's
    # feet (and MarkActive came too late), after a re-registration - every history TLC enumerates from Gen_Classify, replayed step by step
    hsum = cc.histories_stage(ctx, "C02", "c02", compare_used=False)   # (marking used is C04's clause)
    ctx.cov["traces_validated_against_impl"] = summary["accepted"] + hsum["accepted"]
    classes = set(hsum["distinct"])
    for (_, cs, _r) in results:
        st = cs["stream"]
        classes.add((st["from"], st["client_t"], st["client_px"], cs["dst"], st["flip"], st["flip_end"], st["trunc"], st["gen"], st["len"]))
    ctx.cov["evaluations"] = len(results) + hsum["connections"]
    ctx.cov["distinct_nontrivial"] = len(classes)
    ctx.cov["rule"] = ("one case = (registration whose flight is used, client transport / prefix, destination phantom, altered bit, "
                       "truncation, garbage kind); every destination except P0 carries >= 1 registration; distinct by that tuple; "
                       "plus one per distinct table history (initial state, operations, connection kinds, sweeper race) replayed")
    ctx.sample({"case": cases[0], "oracle": cc.oracle(w, cases[0], 32, 64)})
    ctx.sample({"case": cases[-20]})
    ctx.stage("C", connections=len(results), matched=nmatch, oracle_should_match=should, **{k: v for k, v in summary.items() if k != "sdir"})
    ctx.assumptions += ["the two masked high bits of an Elligator representative carry no information: flipping them must still match",
                        "expired = older than the unused lifetime and removed by a sweep (the 3-minute sweeper); C08 covers the schedule",
                        "cryptographic unforgeability of HMAC / Elligator+AES-CTR / ntor is assumed; the check decides the matching logic"]
