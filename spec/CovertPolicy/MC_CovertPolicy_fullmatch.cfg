SPECIFICATION Spec
CONSTANT MatchMode = "full"
CONSTANT PubMode = "all"
CONSTANT StoreLiteral = TRUE
INVARIANTS DialedIsChecked CheckedIsPermitted ResolvedOnce PermittedLiteralAccepted MalformedRejected
CHECK_DEADLOCK FALSE
