SPECIFICATION GenSpec
CONSTANTS
  Profile = "gchain"
  Defects = {"scanErrIgnored", "badWeightSkipped", "wsRejects", "noRangeCheck", "deadKept", "typeUrlRewritten", "chainNotAtomic", "chainMixesPort", "randIgnoresReader", "pkgIgnoresFlag", "callerNeverSetsPsr", "callerRecomputesPort"}
  Broken = {}
  Depth = 8
  GenMode = "call"
INVARIANT Emit
CHECK_DEADLOCK FALSE
