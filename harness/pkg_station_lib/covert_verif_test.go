//go:build verif

package lib

// Driver for spec/CovertPolicy (property C06).
//   TestVerifCovertRows      every (input, policy) row TLC emitted is concretised (several concrete strings per abstract
//                            class, concrete CIDR sets, scripted DNS answers) and run through the real
//                            ParseOrResolveBlocklisted; result class, resolved address and number of lookups are compared.
//                            An independent oracle (net/netip) re-checks that every accepted address is permitted.
//   TestVerifCovertCoupling  the real ingestRegistration stores the result and the real Proxy dials it: loopback
//                            listeners on a permitted and on a forbidden address record which one is dialed when a
//                            name's answer changes between lookups.
//   TestVerifCovertRandom    seeded random strings x policies: whatever is accepted must be a literal IP:port that the
//                            netip oracle permits; well-formed permitted literals must be accepted as the same address.

import (
	"encoding/json"
	"fmt"
	"io"
	"math/rand"
	"net"
	"net/netip"
	"os"
	"strconv"
	"strings"
	"sync"
	"testing"
	"time"

	"context"

	"github.com/refraction-networking/conjure/pkg/core"
	"github.com/refraction-networking/conjure/pkg/station/log"
	"github.com/refraction-networking/conjure/pkg/transports/wrapping/min"
	pb "github.com/refraction-networking/conjure/proto"
	"google.golang.org/protobuf/proto"
)

// ------------------------------------------------------------------ scripted DNS
type vdns struct {
	mu      sync.Mutex
	conn    net.PacketConn
	answers map[string][]string // name -> the n-th A/AAAA lookup round gets answers[n]
	rounds  map[string]int      // lookup rounds seen per name (A queries)
	aaaa    map[string]int
}

func vdnsStart(t testing.TB) *vdns {
	pc, err := net.ListenPacket("udp", "127.0.0.1:0")
	if err != nil {
		t.Fatalf("dns listen: %v", err)
	}
	d := &vdns{conn: pc, answers: map[string][]string{}, rounds: map[string]int{}, aaaa: map[string]int{}}
	go d.serve()
	net.DefaultResolver = &net.Resolver{PreferGo: true, Dial: func(ctx context.Context, network, address string) (net.Conn, error) {
		var dd net.Dialer
		return dd.DialContext(ctx, "udp", pc.LocalAddr().String())
	}}
	return d
}

func (d *vdns) set(name string, answers []string) {
	d.mu.Lock()
	d.answers[strings.ToLower(name)] = answers
	d.rounds[strings.ToLower(name)] = 0
	d.aaaa[strings.ToLower(name)] = 0
	d.mu.Unlock()
}

func (d *vdns) lookups(name string) int {
	d.mu.Lock()
	defer d.mu.Unlock()
	n := d.rounds[strings.ToLower(name)]
	if a := d.aaaa[strings.ToLower(name)]; a > n {
		n = a
	}
	return n
}

func (d *vdns) serve() {
	buf := make([]byte, 1500)
	for {
		n, addr, err := d.conn.ReadFrom(buf)
		if err != nil {
			return
		}
		q := append([]byte(nil), buf[:n]...)
		if n < 12 {
			continue
		}
		// parse the single question
		off := 12
		labels := []string{}
		for off < n && q[off] != 0 {
			l := int(q[off])
			if off+1+l > n {
				break
			}
			labels = append(labels, string(q[off+1:off+1+l]))
			off += 1 + l
		}
		off++
		if off+4 > n {
			continue
		}
		qtype := int(q[off])<<8 | int(q[off+1])
		qend := off + 4
		name := strings.ToLower(strings.Join(labels, "."))
		d.mu.Lock()
		var round int
		if qtype == 1 {
			round = d.rounds[name]
			d.rounds[name]++
		} else if qtype == 28 {
			round = d.aaaa[name]
			d.aaaa[name]++
		}
		ans, known := d.answers[name]
		d.mu.Unlock()
		resp := append([]byte(nil), q[:qend]...)
		resp[2] = 0x81 // QR, RD
		resp[3] = 0x80 // RA, NOERROR
		resp[6], resp[7], resp[8], resp[9], resp[10], resp[11] = 0, 0, 0, 0, 0, 0
		if !known || round >= len(ans) {
			resp[3] = 0x83 // NXDOMAIN
			_, _ = d.conn.WriteTo(resp, addr)
			continue
		}
		ip := net.ParseIP(ans[round])
		var rdata []byte
		if v4 := ip.To4(); v4 != nil && qtype == 1 {
			rdata = v4
		} else if ip.To4() == nil && qtype == 28 {
			rdata = ip.To16()
		}
		if rdata != nil {
			resp[7] = 1
			resp = append(resp, 0xc0, 0x0c, byte(qtype>>8), byte(qtype), 0, 1, 0, 0, 0, 0, byte(len(rdata)>>8), byte(len(rdata)))
			resp = append(resp, rdata...)
		}
		_, _ = d.conn.WriteTo(resp, addr)
	}
}

// ------------------------------------------------------------------ concretisation
var vcovAddr = map[string]string{"pub4": "93.184.216.34", "priv4": "10.1.2.3", "loop4": "127.0.0.1", "loopnet4": "127.0.0.2", "pub6": "2606:2800:220:1::1", "ula6": "fd12:3456::1"}

// a second address per class for "blockedlit" rows: literals whose text a configured pattern matches (as a prefix)
var vcovAddrB = map[string]string{"pub4": "93.184.77.5", "priv4": "10.77.2.3", "loopnet4": "127.77.0.1", "pub6": "2606:2800:77::1", "ula6": "fd12:77::1"}

// the domain patterns of a policy with patterns, in the styles operators write them: a whole-host pattern, an unanchored one,
// a prefix, a suffix, and address prefixes (the pattern stage sees the host text of literals too)
var vcovPatterns = []string{`.*\.blocked\.test$`, `partial\.example`, `^intra\.`, `\.internal$`,
	`^93\.184\.77\.`, `^10\.77\.`, `^127\.77\.`, `^2606:2800:77:`, `^fd12:77:`}

var vcovNet = map[string]string{"n10": "10.0.0.0/8", "n127": "127.0.0.0/8", "n127h": "127.0.0.1/32", "nfc": "fc00::/7", "npub4": "93.184.0.0/16", "npub6": "2606:2800::/32"}

func vcovPorts(class string) []string {
	switch class {
	case "ok":
		return []string{"443", "80", "65535", "1"}
	case "empty":
		return []string{""}
	case "oversized":
		return []string{"65536", "99999", "4294967377"}
	case "nonnumeric":
		return []string{"0x50", "http", "8o", "80 ", "８０"}
	case "negative":
		return []string{"-1", "-80"}
	}
	return nil
}

type vcovInp struct {
	Form    string   `json:"form"`
	Port    string   `json:"port"`
	Addr    string   `json:"addr"`
	Answers []string `json:"answers"`
	Pm      string   `json:"pm"` // blocked forms: the pattern matches the whole host / a proper part of it
}
type vcovPol struct {
	Block    []string `json:"block"`
	Allow    []string `json:"allow"`
	Patterns bool     `json:"patterns"`
	Pub      bool     `json:"pub"` // covert_blocklist_public_addrs
}

// the subnets of this machine's interfaces, as covert_blocklist_public_addrs is specified to add them
func vcovLocalNets() []netip.Prefix {
	res := []netip.Prefix{}
	addrs, _ := net.InterfaceAddrs()
	for _, a := range addrs {
		if n, ok := a.(*net.IPNet); ok {
			if pf, err := netip.ParsePrefix(n.String()); err == nil {
				res = append(res, pf.Masked())
			}
		}
	}
	return res
}

// the symbolic addresses must relate to the real interfaces as the specification assumes: 127.0.0.1 and 127.0.0.2 (and the
// pattern-matched 127.77.0.1) inside the loopback subnet, every other one outside every interface subnet
func vcovCheckLocal(t testing.TB) {
	in := func(a string) bool {
		ip := netip.MustParseAddr(a)
		for _, pf := range vcovLocalNets() {
			if pf.Contains(ip) {
				return true
			}
		}
		return false
	}
	for _, m := range []map[string]string{vcovAddr, vcovAddrB} {
		for k, a := range m {
			if want := k == "loop4" || k == "loopnet4"; in(a) != want {
				t.Fatalf("environment: address %s (%s) inside a local interface subnet = %v, the specification assumes %v", a, k, in(a), want)
			}
		}
	}
}
type vcovRow struct {
	Inp     vcovInp `json:"inp"`
	Pol     vcovPol `json:"pol"`
	Result  string  `json:"result"`
	Lookups int     `json:"lookups"`
	Dialed  string  `json:"dialed"`
}

// concrete host spellings of an abstract input (several per class)
func vcovHosts(in *vcovInp, id int) (hosts []string, name string) {
	a := vcovAddr[in.Addr]
	is6 := strings.Contains(a, ":")
	switch in.Form {
	case "lit":
		if is6 {
			ip := net.ParseIP(a)
			full := fmt.Sprintf("%x:%x:%x:%x:%x:%x:%x:%x", uint16(ip[0])<<8|uint16(ip[1]), uint16(ip[2])<<8|uint16(ip[3]), uint16(ip[4])<<8|uint16(ip[5]),
				uint16(ip[6])<<8|uint16(ip[7]), uint16(ip[8])<<8|uint16(ip[9]), uint16(ip[10])<<8|uint16(ip[11]), uint16(ip[12])<<8|uint16(ip[13]), uint16(ip[14])<<8|uint16(ip[15]))
			hosts = []string{"[" + a + "]", "[" + strings.ToUpper(a) + "]", "[" + full + "]"}
		} else {
			hosts = []string{a}
		}
	case "mapped":
		if is6 {
			hosts = []string{"[" + a + "]"}
		} else {
			hosts = []string{"[::ffff:" + a + "]", "[0:0:0:0:0:ffff:" + a + "]"}
		}
	case "zone":
		if is6 {
			hosts = []string{"[" + a + "%lo]"}
		} else {
			hosts = []string{a} // IPv4 has no zones: plain literal
		}
	case "bare":
		hosts = []string{a}
	case "nobracket":
		if is6 {
			hosts = []string{a}
		} else {
			hosts = []string{a + ":1:2"} // a.b.c.d:1:2[:port] -> too many colons
		}
	case "name":
		name = fmt.Sprintf("covert%d.verif.test", id)
		hosts = []string{name}
	case "blockedname":
		if in.Pm == "whole" {
			hosts = []string{fmt.Sprintf("covert%d.blocked.test", id)}
		} else {
			// matched by an unanchored pattern in the middle, by a prefix pattern, by a suffix pattern
			hosts = []string{fmt.Sprintf("covert%d.partial.example.test", id), fmt.Sprintf("intra.covert%d.test", id), fmt.Sprintf("covert%d.internal", id)}
		}
		name = hosts[0]
	case "blockedlit":
		b := vcovAddrB[in.Addr]
		if strings.Contains(b, ":") {
			hosts = []string{"[" + b + "]"}
		} else {
			hosts = []string{b}
		}
	case "garbage":
		hosts = []string{"not an address", "[::1", "]:[", "\x00\x01", "a b"}
	case "empty":
		hosts = []string{""}
	}
	return
}

func vcovConfig(p *vcovPol) *RegConfig {
	c := &RegConfig{}
	for _, n := range p.Block {
		c.CovertBlocklistSubnets = append(c.CovertBlocklistSubnets, vcovNet[n])
	}
	for _, n := range p.Allow {
		c.CovertAllowlistSubnets = append(c.CovertAllowlistSubnets, vcovNet[n])
	}
	if p.Patterns {
		c.CovertBlocklistDomains = append([]string(nil), vcovPatterns...)
	}
	c.CovertBlocklistPublicAddrs = p.Pub
	c.ParseBlocklists()
	return c
}

// independent oracle: is ip permitted by the policy's concrete CIDRs?
func vcovPermitted(p *vcovPol, ip netip.Addr) bool {
	ip = ip.Unmap().WithZone("")
	in := func(names []string) bool {
		for _, n := range names {
			if netip.MustParsePrefix(vcovNet[n]).Contains(ip) {
				return true
			}
		}
		return false
	}
	if len(p.Allow) > 0 {
		return in(p.Allow)
	}
	if p.Pub {
		for _, pf := range vcovLocalNets() {
			if pf.Contains(ip) {
				return false
			}
		}
	}
	return !in(p.Block)
}

func TestVerifCovertRows(t *testing.T) {
	out := vOpenOut(t)
	defer out.Close()
	dns := vdnsStart(t)
	vcovCheckLocal(t)
	nrows, ncalls, nmis := 0, 0, 0
	cfgCache := map[string]*RegConfig{}
	vReadLines(t, func(line []byte) {
		var r vcovRow
		if err := json.Unmarshal(line, &r); err != nil {
			t.Fatalf("row: %v", err)
		}
		nrows++
		pk, _ := json.Marshal(r.Pol)
		cfg := cfgCache[string(pk)]
		if cfg == nil {
			cfg = vcovConfig(&r.Pol)
			cfgCache[string(pk)] = cfg
		}
		hosts, name := vcovHosts(&r.Inp, nrows)
		ports := vcovPorts(r.Inp.Port)
		if r.Inp.Port == "missing" {
			ports = []string{"\x00none"}
		}
		// rows differ from each other in many irrelevant dimensions: one port spelling per row, rotating
		ports = ports[nrows%len(ports) : nrows%len(ports)+1]
		for _, h := range hosts {
			for _, p := range ports {
				var s string
				switch {
				case p == "\x00none":
					s = h
				case r.Inp.Form == "bare":
					s = strings.Trim(h, "[]") // no port at all
				case r.Inp.Form == "nobracket" || r.Inp.Form == "garbage":
					s = h + ":" + p
				default:
					s = h + ":" + p
				}
				if name != "" {
					name = h // every spelling of a name form is a name of its own
					ans := []string{}
					for _, a := range r.Inp.Answers {
						ans = append(ans, vcovAddr[a])
					}
					dns.set(name, ans)
				}
				ncalls++
				var got string
				var lookup bool
				var pan any
				func() {
					defer func() { pan = recover() }()
					got, lookup = cfg.ParseOrResolveBlocklisted(s)
				}()
				res := map[string]any{"input": s}
				bad := ""
				nl := 0
				if name != "" {
					nl = dns.lookups(name)
				}
				wantAddr := ""
				if r.Result != "rejected" {
					wantAddr = vcovAddr[r.Result]
					if r.Inp.Form == "blockedlit" {
						wantAddr = vcovAddrB[r.Result]
					}
				}
				switch {
				case pan != nil:
					bad = "panic"
					res["panic"] = fmt.Sprint(pan)
				case wantAddr == "" && got != "":
					bad = "accepted-but-spec-rejects"
				case wantAddr != "" && got == "":
					bad = "rejected-but-spec-accepts"
				case wantAddr != "":
					ap, err := netip.ParseAddrPort(got)
					if err != nil {
						bad = "result-not-literal"
					} else {
						wp, _ := strconv.Atoi(p)
						if ap.Addr().Unmap().WithZone("") != netip.MustParseAddr(wantAddr) || int(ap.Port()) != wp {
							bad = "wrong-address"
						} else if !vcovPermitted(&r.Pol, ap.Addr()) {
							bad = "oracle-forbids"
						}
					}
				}
				if bad == "" && name != "" && nl != r.Lookups {
					bad = fmt.Sprintf("lookups-%d-want-%d", nl, r.Lookups)
				}
				_ = lookup
				if bad != "" {
					nmis++
					if nmis <= 200 {
						res["kind"], res["bad"], res["got"], res["row"], res["lookups"] = "mismatch", bad, got, r, nl
						out.Emit(res)
					}
				}
			}
		}
	})
	out.Emit(map[string]any{"kind": "summary", "rows": nrows, "calls": ncalls, "mismatches": nmis})
}

// ------------------------------------------------------------------ coupling: ingest stores, proxy dials
func TestVerifCovertCoupling(t *testing.T) {
	out := vOpenOut(t)
	defer out.Close()
	dns := vdnsStart(t)
	os.Setenv("PHANTOM_SUBNET_LOCATION", vingSubnetFile(t))
	// listeners on the permitted (127.0.0.2) and on the forbidden (127.0.0.3) address, same port
	lnOK, err := net.Listen("tcp", "127.0.0.2:0")
	if err != nil {
		t.Fatalf("listen: %v", err)
	}
	port := lnOK.Addr().(*net.TCPAddr).Port
	lnBad, err := net.Listen("tcp", fmt.Sprintf("127.0.0.3:%d", port))
	if err != nil {
		t.Fatalf("listen forbidden: %v", err)
	}
	var mu sync.Mutex
	hits := map[string]int{}
	acc := func(ln net.Listener, who string) {
		for {
			c, err := ln.Accept()
			if err != nil {
				return
			}
			mu.Lock()
			hits[who]++
			mu.Unlock()
			c.Close()
		}
	}
	go acc(lnOK, "permitted")
	go acc(lnBad, "forbidden")
	defer lnOK.Close()
	defer lnBad.Close()

	conf := &RegConfig{EnableIPv4: true, EnableIPv6: true, CovertBlocklistSubnets: []string{"127.0.0.3/32", "10.0.0.0/8"}}
	conf.ParseBlocklists()
	rm := NewRegistrationManager(conf)
	rm.Logger = log.New(io.Discard, "", 0)
	rm.LivenessTester = &vingLive{}
	_ = rm.AddTransport(pb.TransportType_Min, min.Transport{})
	rm.registeredDecoys.registerForDetector = func(*DecoyRegistration) {}
	rm.registeredDecoys.updateInDetector = func(*DecoyRegistration) {}

	scripts := []struct {
		name    string
		answers []string
		covert  string
	}{
		{"rebind", []string{"127.0.0.2", "127.0.0.3", "127.0.0.3"}, ""},    // permitted at admission, forbidden afterwards
		{"stable", []string{"127.0.0.2", "127.0.0.2", "127.0.0.2"}, ""},    // control
		{"forbidden", []string{"127.0.0.3", "127.0.0.2", "127.0.0.2"}, ""}, // forbidden at admission: never admitted, never dialed
		{"literal", nil, fmt.Sprintf("127.0.0.2:%d", port)},
		{"literal-forbidden", nil, fmt.Sprintf("127.0.0.3:%d", port)},
	}
	for i, sc := range scripts {
		mu.Lock()
		hits = map[string]int{}
		mu.Unlock()
		name := fmt.Sprintf("%s%d.verif.test", sc.name, i)
		covert := sc.covert
		if covert == "" {
			dns.set(name, sc.answers)
			covert = fmt.Sprintf("%s:%d", name, port)
		}
		tt := pb.TransportType_Min
		gen := uint32(957)
		ver := core.CurrentClientLibraryVersion()
		tr, fl := true, false
		c2s := &pb.ClientToStation{Transport: &tt, DecoyListGeneration: &gen, ClientLibVersion: &ver, V4Support: &tr, V6Support: &fl,
			CovertAddress: &covert, Flags: &pb.RegistrationFlags{Prescanned: &tr}}
		src := pb.RegistrationSource_API
		raw, _ := proto.Marshal(&pb.C2SWrapper{SharedSecret: vSecret("couple-" + sc.name), RegistrationPayload: c2s, RegistrationSource: &src,
			RegistrationAddress: net.ParseIP("198.51.100.7").To4()})
		regs, err := rm.parseRegMessage(raw)
		if err != nil || len(regs) != 1 {
			t.Fatalf("parse: %v", err)
		}
		reg := regs[0]
		rm.ingestRegistration(reg)
		visible := len(rm.GetRegistrations(reg.PhantomIp)) > 0
		stored := reg.Covert
		lookupsAtAdmission := dns.lookups(name)
		dialed := false
		if visible {
			// a connection arrives: the real Proxy dials the registration's covert
			a, b := net.Pipe()
			done := make(chan struct{})
			go func() { Proxy(reg, b, rm.Logger); close(done) }()
			time.Sleep(150 * time.Millisecond)
			a.Close()
			select {
			case <-done:
			case <-time.After(5 * time.Second):
			}
			dialed = true
		}
		time.Sleep(50 * time.Millisecond)
		mu.Lock()
		h := map[string]int{"permitted": hits["permitted"], "forbidden": hits["forbidden"]}
		mu.Unlock()
		out.Emit(map[string]any{"kind": "coupling", "script": sc.name, "visible": visible, "stored": stored, "proxied": dialed,
			"lookups_at_admission": lookupsAtAdmission, "lookups_total": dns.lookups(name), "hits": h, "port": port})
	}
}

// ------------------------------------------------------------------ random strings x policies
func TestVerifCovertRandom(t *testing.T) {
	out := vOpenOut(t)
	defer out.Close()
	_ = vdnsStart(t) // every name is NXDOMAIN
	rng := rand.New(rand.NewSource(vSeed()))
	n := vEnvInt("VERIF_N", 20000)
	pols := []vcovPol{}
	blocks := [][]string{{}, {"n10"}, {"n10", "n127", "nfc"}, {"n127"}, {"n127h"}, {"n127h", "n10"}}
	allows := [][]string{{}, {"npub4"}, {"npub4", "npub6"}, {"n10"}, {}}
	for _, b := range blocks {
		for _, a := range allows {
			for _, pub := range []bool{false, true} {
				pols = append(pols, vcovPol{Block: b, Allow: a, Patterns: true, Pub: pub})
			}
		}
	}
	// the shipped policy (cmd/application/app_config.toml) is one of the policies, loaded through the real parser
	shipped := vcovShipped(t)
	pieces := []string{"127.0.0.2", "::ffff:127.1.2.3", "127.255.255.254", "10.1.2.3", "93.184.216.34", "127.0.0.1", "fd12:3456::1", "2606:2800:220:1::1", "::ffff:10.1.2.3", "fe80::1%lo", "[", "]", ":", "::", "443", "65536",
		"0x50", "-1", "", " ", "a.verif.test", "x.blocked.test", "%", "1", "0", ".", "00", "010.1.2.3", "0xa.1.2.3", "10.1.2.3.", "fc00::1", "FD00::1", "::1", "0.0.0.0", "169.254.1.1", "192.168.1.1", "172.16.0.9"}
	bad := 0
	for i := 0; i < n; i++ {
		var s string
		switch rng.Intn(3) {
		case 0:
			k := 1 + rng.Intn(5)
			for j := 0; j < k; j++ {
				s += pieces[rng.Intn(len(pieces))]
			}
		case 1:
			h := pieces[rng.Intn(15)]
			if strings.Contains(h, ":") {
				h = "[" + h + "]"
			}
			s = h + ":" + []string{"443", "80", "65535", "65536", "", "x"}[rng.Intn(6)]
		default:
			b := make([]byte, rng.Intn(24))
			rng.Read(b)
			s = string(b)
		}
		var cfg *RegConfig
		var pol *vcovPol
		if i%17 == 0 && shipped != nil {
			cfg = shipped
		} else {
			pol = &pols[rng.Intn(len(pols))]
			cfg = vcovConfig(pol)
		}
		var got string
		var pan any
		func() {
			defer func() { pan = recover() }()
			got, _ = cfg.ParseOrResolveBlocklisted(s)
		}()
		why := ""
		if pan != nil {
			why = "panic"
		} else if got != "" {
			ap, err := netip.ParseAddrPort(got)
			if err != nil {
				why = "result-not-literal"
			} else if pol != nil && !vcovPermitted(pol, ap.Addr()) {
				why = "oracle-forbids"
			} else if pol == nil && vcovShippedForbids(ap.Addr()) {
				why = "shipped-policy-forbids"
			}
		} else if ap, err := netip.ParseAddrPort(s); err == nil && ap.Addr().Zone() == "" && pol != nil && vcovPermitted(pol, ap.Addr()) {
			why = "permitted-literal-rejected"
		}
		if why != "" {
			bad++
			if bad <= 100 {
				out.Emit(map[string]any{"kind": "mismatch", "bad": why, "input": s, "got": got, "policy": pol})
			}
		}
	}
	out.Emit(map[string]any{"kind": "summary", "calls": n, "mismatches": bad})
}

var vcovShippedNets []netip.Prefix

func vcovShipped(t testing.TB) *RegConfig {
	wd, _ := os.Getwd()
	p := wd + "/../../../cmd/application/app_config.toml"
	if _, err := os.Stat(p); err != nil {
		return nil
	}
	os.Setenv("CJ_STATION_CONFIG", p)
	c, err := ParseConfig()
	if err != nil || c == nil || c.RegConfig == nil {
		return nil
	}
	vcovShippedNets = nil
	for _, s := range c.RegConfig.CovertBlocklistSubnets {
		if pf, err := netip.ParsePrefix(strings.TrimSpace(s)); err == nil {
			vcovShippedNets = append(vcovShippedNets, pf)
		}
	}
	if c.RegConfig.CovertBlocklistPublicAddrs {
		vcovShippedNets = append(vcovShippedNets, vcovLocalNets()...)
	}
	return c.RegConfig
}

// what the shipped file SAYS is forbidden (its entries as a human reads them), independent of how the code parsed them
func vcovShippedForbids(ip netip.Addr) bool {
	ip = ip.Unmap().WithZone("")
	for _, pf := range vcovShippedNets {
		if pf.Contains(ip) {
			return true
		}
	}
	return false
}
