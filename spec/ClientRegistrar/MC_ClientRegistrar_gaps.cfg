\* as-found variant against the intended-only invariants (run with -continue): every one of them must be violated -
\* these are the divergences between the code and what a caller relies on (each is confirmed on the real code by stage B)
SPECIFICATION Spec
CONSTANTS
  Variant = "asfound"
  Configs <- CfgMC
  ApiOutcomes = {"neterr", "s404", "s500", "garbage", "R0", "R1", "R2", "RT", "RB", "RE"}
  DnsOutcomes = {"servfail", "garbage", "nosuccess", "nobidi", "R0", "R1", "R2", "RT", "RB", "RE"}
VIEW view
INVARIANTS I_NoWireAfterCancel I_NoFallbackAfterCancel I_NoInflightAfterCancel I_RegReflectsAccepted
           I_ErrorIndicationRespected I_AcceptedHasAddr I_FailureIsRegFailed
CHECK_DEADLOCK FALSE
