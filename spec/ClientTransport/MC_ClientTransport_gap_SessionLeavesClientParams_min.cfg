\* min as found against the intended-only law I_SessionLeavesClientParams: must be violated (divergence D13)
SPECIFICATION Spec
CONSTANTS
  Kind = "min"
  Variant = "asfound"
  KnownIds = {0, 1}
  FieldIds = {}
  SetArgs <- SetArgsG
  OvArgs <- OvArgsG
  Secrets = {"s1"}
  ReaderOk = {TRUE, FALSE}
  Seeds = {"sd1"}
  DeadConns = {FALSE, TRUE}
  MaxConns = 1
  MaxWrites = 1
  WriteSizes = {3}
  MaxPeer = 0
  PeerSizes = {4}
VIEW view
PROPERTIES I_SessionLeavesClientParams
CHECK_DEADLOCK FALSE
