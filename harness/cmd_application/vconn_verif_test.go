//go:build verif

package main

// A scripted in-memory duplex connection between a "peer" (client end) and the station's connection handler
// (station end).  The client->station direction is segmented: bytes written by the peer are released to the station
// in segments ending at the configured absolute cut offsets, with a pause between segments; every Read of the
// station returns at most one segment (as a TCP receive would).  Deadlines are honoured.  Every call on the station
// end is recorded, with per-connection order, as an event for Trace_Classify.

import (
	"io"
	"net"
	"os"
	"sync"
	"time"
)

type vEvent = map[string]any

type vTimeoutErr struct{}

func (vTimeoutErr) Error() string   { return "i/o timeout" }
func (vTimeoutErr) Timeout() bool   { return true }
func (vTimeoutErr) Temporary() bool { return true }

type vDuplex struct {
	mu     sync.Mutex
	wakeS  chan struct{} // signalled on every state change (station reader)
	wakeP  chan struct{} // (peer reader)
	wakeR  chan struct{} // (releaser)
	start  time.Time
	events []vEvent

	// client -> station
	pending    []byte   // written by the peer, not yet released
	segs       [][]byte // released segments not yet read by the station
	released   int      // absolute offset released so far
	cuts       []int
	pace       time.Duration
	nextAt     time.Time
	peerClosed bool // peer closed its sending side
	eofLogged  bool
	flipAt     int // absolute bit offset to flip in the c2s stream (-1: none)
	flipEnd    int // bit offset counted back from the end of the peer's FIRST write (-1: none)
	c2sWritten int
	truncAt    int // peer's stream is cut (and closed) after this many bytes (-1: none)

	// station -> client
	s2c       []byte
	s2cClosed bool
	s2cTotal  int

	rdDeadline time.Time
	stClosed   bool
	readTotal  int
	deadlines  []int64 // ms relative to start of every SetDeadline (0 = cleared)
	sawTimeout bool

	remote, local net.Addr
	matched       string
	matchedReg    any
	stop          chan struct{}
	sweepOnMatch  bool // the expiry sweeper removes the matched registration between the transport's lookup and MarkActive
}

func newVDuplex(remote, local net.Addr, cuts []int, pace time.Duration) *vDuplex {
	d := &vDuplex{wakeS: make(chan struct{}, 1), wakeP: make(chan struct{}, 1), wakeR: make(chan struct{}, 1), start: time.Now(), cuts: cuts, pace: pace, remote: remote, local: local,
		flipAt: -1, flipEnd: -1, truncAt: -1, stop: make(chan struct{})}
	go d.releaser()
	return d
}

func (d *vDuplex) signal() {
	for _, ch := range []chan struct{}{d.wakeS, d.wakeP, d.wakeR} {
		select {
		case ch <- struct{}{}:
		default:
		}
	}
}

func (d *vDuplex) ms() int64 { return time.Since(d.start).Milliseconds() }

func (d *vDuplex) logLocked(e vEvent) {
	e["ms"] = d.ms()
	d.events = append(d.events, e)
}

func (d *vDuplex) log(e vEvent) {
	d.mu.Lock()
	d.logLocked(e)
	d.mu.Unlock()
}

// releaser moves bytes from pending to segs according to cuts / pace (the "network")
func (d *vDuplex) releaser() {
	for {
		d.mu.Lock()
		changed := false
		for len(d.pending) > 0 && !time.Now().Before(d.nextAt) && !d.stClosed {
			end := d.released + len(d.pending)
			hitCut := false
			for _, c := range d.cuts {
				if c > d.released && c <= end {
					end = c
					hitCut = true
					break
				}
			}
			k := end - d.released
			seg := append([]byte(nil), d.pending[:k]...)
			d.pending = d.pending[k:]
			d.released = end
			d.segs = append(d.segs, seg)
			d.logLocked(vEvent{"a": "Send", "k": k})
			changed = true
			if hitCut {
				d.nextAt = time.Now().Add(d.pace)
			}
		}
		if d.peerClosed && len(d.pending) == 0 && !d.eofLogged && !time.Now().Before(d.nextAt) {
			d.eofLogged = true
			d.logLocked(vEvent{"a": "PeerClose"})
			changed = true
		}
		wait := time.Hour
		if (len(d.pending) > 0 || (d.peerClosed && !d.eofLogged)) && !d.stClosed {
			wait = time.Until(d.nextAt)
			if wait < 0 {
				wait = 0
			}
		}
		d.mu.Unlock()
		if changed {
			d.signal()
		}
		select {
		case <-d.stop:
			return
		case <-d.wakeR:
		case <-time.After(wait):
		}
	}
}

// ---------------------------------------------------------------- station end
type vConn struct{ d *vDuplex }

func (c *vConn) Read(p []byte) (int, error) {
	d := c.d
	for {
		d.mu.Lock()
		if d.stClosed {
			d.mu.Unlock()
			return 0, net.ErrClosed
		}
		if len(d.segs) > 0 {
			seg := d.segs[0]
			n := copy(p, seg)
			if n == len(seg) {
				d.segs = d.segs[1:]
			} else {
				d.segs[0] = seg[n:]
			}
			d.readTotal += n
			d.logLocked(vEvent{"a": "Read", "n": n})
			d.mu.Unlock()
			return n, nil
		}
		if d.eofLogged {
			d.logLocked(vEvent{"a": "ReadEOF"})
			d.mu.Unlock()
			return 0, io.EOF
		}
		dl := d.rdDeadline
		if !dl.IsZero() && !time.Now().Before(dl) {
			d.sawTimeout = true
			d.logLocked(vEvent{"a": "ReadTimeout"})
			d.mu.Unlock()
			return 0, &net.OpError{Op: "read", Net: "tcp", Source: d.local, Addr: d.remote, Err: vTimeoutErr{}}
		}
		d.mu.Unlock()
		wait := 50 * time.Millisecond
		if !dl.IsZero() {
			if u := time.Until(dl); u < wait {
				wait = u
			}
		}
		if wait < 0 {
			wait = 0
		}
		select {
		case <-d.wakeS:
		case <-time.After(wait):
		}
	}
}

func (c *vConn) Write(p []byte) (int, error) {
	d := c.d
	d.mu.Lock()
	defer d.mu.Unlock()
	if d.stClosed {
		return 0, net.ErrClosed
	}
	d.s2c = append(d.s2c, p...)
	d.s2cTotal += len(p)
	d.logLocked(vEvent{"a": "Write", "n": len(p)})
	d.signal()
	return len(p), nil
}

func (c *vConn) Close() error {
	d := c.d
	d.mu.Lock()
	if !d.stClosed {
		d.stClosed = true
		d.s2cClosed = true
		d.logLocked(vEvent{"a": "Close"})
	}
	d.mu.Unlock()
	d.signal()
	return nil
}

func (c *vConn) LocalAddr() net.Addr  { return c.d.local }
func (c *vConn) RemoteAddr() net.Addr { return c.d.remote }
func (c *vConn) SetDeadline(t time.Time) error {
	d := c.d
	d.mu.Lock()
	d.rdDeadline = t
	ms, ahead := int64(0), int64(0)
	if !t.IsZero() {
		ms = t.Sub(d.start).Milliseconds()
		// how far ahead of the call itself: never more than what the handler drew, however late the handler was scheduled
		ahead = time.Until(t).Milliseconds()
	}
	d.deadlines = append(d.deadlines, ms)
	d.logLocked(vEvent{"a": "SetDeadline", "dl": ms, "ahead": ahead})
	d.mu.Unlock()
	d.signal()
	return nil
}
func (c *vConn) SetReadDeadline(t time.Time) error  { return c.SetDeadline(t) }
func (c *vConn) SetWriteDeadline(t time.Time) error { return nil }

// ---------------------------------------------------------------- peer end
type vPeer struct {
	d          *vDuplex
	rdDeadline time.Time
}

func (p *vPeer) Write(b []byte) (int, error) {
	d := p.d
	d.mu.Lock()
	defer d.mu.Unlock()
	if d.peerClosed {
		return 0, os.ErrClosed
	}
	if d.stClosed {
		return 0, io.ErrClosedPipe
	}
	bb := append([]byte(nil), b...)
	if d.flipEnd >= 0 && d.c2sWritten == 0 && len(bb)*8 > d.flipEnd {
		d.flipAt = len(bb)*8 - 1 - d.flipEnd
		d.flipEnd = -1
	}
	if d.flipAt >= 0 {
		byteOff := d.flipAt / 8
		if byteOff >= d.c2sWritten && byteOff < d.c2sWritten+len(bb) {
			bb[byteOff-d.c2sWritten] ^= 1 << (uint(d.flipAt) % 8)
		}
	}
	n := len(bb)
	if d.truncAt >= 0 && d.c2sWritten+n >= d.truncAt {
		keep := d.truncAt - d.c2sWritten
		if keep < 0 {
			keep = 0
		}
		bb = bb[:keep]
		d.peerClosed = true
	}
	d.pending = append(d.pending, bb...)
	d.c2sWritten += n
	d.signal()
	return n, nil
}

func (p *vPeer) Read(b []byte) (int, error) {
	d := p.d
	for {
		d.mu.Lock()
		if len(d.s2c) > 0 {
			n := copy(b, d.s2c)
			d.s2c = d.s2c[n:]
			d.mu.Unlock()
			return n, nil
		}
		if d.s2cClosed {
			d.mu.Unlock()
			return 0, io.EOF
		}
		dl := p.rdDeadline
		d.mu.Unlock()
		if !dl.IsZero() && !time.Now().Before(dl) {
			return 0, vTimeoutErr{}
		}
		select {
		case <-d.wakeP:
		case <-time.After(20 * time.Millisecond):
		}
	}
}

// Close: the peer closes the connection (FIN after everything it wrote has been delivered)
func (p *vPeer) Close() error {
	d := p.d
	d.mu.Lock()
	d.peerClosed = true
	d.mu.Unlock()
	d.signal()
	return nil
}
func (p *vPeer) LocalAddr() net.Addr                { return p.d.remote }
func (p *vPeer) RemoteAddr() net.Addr               { return p.d.local }
func (p *vPeer) SetDeadline(t time.Time) error      { p.rdDeadline = t; return nil }
func (p *vPeer) SetReadDeadline(t time.Time) error  { p.rdDeadline = t; return nil }
func (p *vPeer) SetWriteDeadline(t time.Time) error { return nil }
