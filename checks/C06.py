"""C06 - the station never dials a covert address that policy forbids.

A  TLC exhaustive on spec/CovertPolicy over all abstract inputs x policies x resolver scripts: DialedIsChecked,
   CheckedIsPermitted, ResolvedOnce, PermittedLiteralAccepted, MalformedRejected; the instance in which ingest keeps the
   client's string (re-resolution at dial time) must violate.
B  every row TLC emitted is concretised (several spellings per abstract class, concrete CIDR sets, a scripted DNS server
   answering the n-th lookup with the n-th answer) and run through the real ParseOrResolveBlocklisted: accept / reject,
   the resolved address, the number of lookups, and an independent net/netip containment oracle.  Coupling rows go
   through the real ingestRegistration and the real Proxy with loopback listeners on a permitted and a forbidden address.
C  seeded random strings x policies (incl. the shipped app_config.toml loaded through the real parser).
S  session histories (spec/CovertPolicy/CovertSession.tla): the policy over ALL registration messages of one session.  TLC checks
   DialedWasChecked, StoredIsCheckedLiteral, NoLookupAtDial, ... for the instances in which a duplicate message is ignored / re-checked;
   the instance in which a duplicate refreshes the tracked registration's client-supplied fields (covert included) without the policy
   must violate.  Every history of bounded depth (first message of every policy class, later messages of every class for the same
   session, the first worker's release, connections, in every order) is run through the real parseRegMessage / ingestRegistration /
   GetRegistrations / Proxy; the recording (phase, stored covert, DNS lookups per message, listener dialed) is validated by
   Trace_CovertSession with DupMode = "any".
"""
import copy, json, os
import vlib

PKG = "pkg/station/lib"
FILES = ["common/vcommon_test.go", "pkg_station_lib/ingest_sched_verif_test.go", "pkg_station_lib/covert_verif_test.go",
         "pkg_station_lib/covert_session_verif_test.go"]
ST_FIELDS = ("phase", "stored", "lookups", "dialLookups", "dialed")


def sessions(ctx, sdir, thorough):
    """Stage S: multi-message histories of one session."""
    r = ctx.tlc(sdir, "CovertSession.tla", "MC_CovertSession.cfg", timeout=600)
    ctx.require_design_ok(r, "CovertSession (duplicates ignored)")
    for cfg, what in (("MC_CovertSession_recheck.cfg", "duplicates re-checked"), ("MC_CovertSession_any.cfg", "either")):
        ctx.require_design_ok(ctx.tlc(sdir, "CovertSession.tla", cfg, timeout=600), "CovertSession (%s)" % what)
    b = ctx.tlc(sdir, "CovertSession.tla", "MC_CovertSession_refresh.cfg", timeout=300, count=False)
    if b["inv"] not in ("StoredIsCheckedLiteral", "DialedWasChecked", "NoLookupAtDial"):
        raise vlib.InfraError("the instance whose duplicates refresh the tracked covert unchecked should violate, got %s" % b["inv"])
    b2 = ctx.tlc(sdir, "CovertSession.tla", "MC_CovertSession_refresh_dial.cfg", timeout=300, count=False)
    if b2["inv"] not in ("DialedWasChecked", "NoLookupAtDial"):
        raise vlib.InfraError("the refreshing instance should dial an unchecked address, got %s" % b2["inv"])
    ctx.stage("A", nonvacuity_sessions="instance in which a duplicate message refreshes the tracked registration's covert without the policy "
              "violates %s and (checked alone) %s" % (b["inv"], b2["inv"]))

    g = ctx.tlc(sdir, "Gen_CovertSession.tla", "Gen_CovertSession_thorough.cfg" if thorough else "Gen_CovertSession.cfg", timeout=900, workers=8, count=False)
    if g["inv"]:
        raise vlib.InfraError("session history generator failed: " + g["out"][-1500:])
    # longer histories (4 messages, 4 connections), sampled
    sim = ctx.tlc(sdir, "Gen_CovertSession.tla", "Gen_CovertSession_sim.cfg", timeout=900, workers=4, count=False,
                  simulate="num=%d" % (4000 if thorough else 400), depth=9, deadlock=False, extra=["-seed", str(ctx.seed)])
    with open(g["beh_file"]) as fi:
        lines = fi.readlines()
    nexh = len(lines)
    with open(sim["beh_file"]) as fi:
        lines += sorted(set(fi.readlines()))
    ctx.rng.shuffle(lines)
    # every path of the bound is replayed (quick: depth 4, thorough: depth 5); "decisive" ones have a connection after a later message
    def decisive(beh):
        acts = [o["a"] for o in beh]
        return "Dup" in acts and "Connect" in acts[acts.index("Dup"):]
    kept = []
    for i, line in enumerate(lines):
        beh = json.loads(line)
        kept.append((line, beh))
    hin = os.path.join(ctx.scratch, "session_hist.ndjson")
    with open(hin, "w") as fo:
        for line, _ in kept:
            fo.write(line)
    hout = os.path.join(ctx.scratch, "session_out.ndjson")
    res = ctx.go_test(PKG, FILES, "lib", "^TestVerifCovertSessions$", env={"VERIF_IN": hin, "VERIF_OUT": hout}, timeout=3000)
    rows = ctx.read_results(hout)
    summ = [x for x in rows if x.get("kind") == "summary"]
    hist = [x for x in rows if x.get("kind") == "hist"]
    if not summ or len(hist) != len(kept):
        raise vlib.InfraError("session driver did not finish (%d of %d histories):\n%s" % (len(hist), len(kept), res["out"][-3000:]))
    ctx.log("S: %d histories (%d exhaustive), %d steps, %d connections" % (len(kept), nexh, summ[0]["steps"], summ[0]["connections"]))

    def strip(ev):
        e = {"a": ev["a"], "st": {k: ev["st"][k] for k in ST_FIELDS}}
        if "c" in ev:
            e["c"] = ev["c"]
        return e
    traces, deviating, ndup_conn, direct = [], [], 0, {}
    for h, (_, beh) in zip(hist, kept):
        tr = [strip(e) for e in h["events"]]
        traces.append(tr)
        # as built, duplicates are ignored: the generator's own expectation.  A deviation from it is not a verdict (the
        # property allows re-checking); it only tells where to look when the trace specification rejects.
        diff = [(i, k) for i, (e, o) in enumerate(zip(tr, beh)) for k in ST_FIELDS if e["st"][k] != o["st"][k]]
        if diff:
            deviating.append((len(traces) - 1, diff))
        if decisive(beh):
            ndup_conn += 1
        # the property read directly off the recording (independent of the specification): the forbidden listener is never
        # reached, no name is looked up while a connection is served, a usable registration holds one of the literals
        for ei, e in enumerate(h["events"]):
            st = e["st"]
            seq = " > ".join(x["a"] + ("(%s)" % x["c"] if "c" in x else "") for x in h["events"][:ei + 1])
            if e["a"] == "Connect" and st["dialed"][-1] == "F":
                direct.setdefault("session:forbidden-address-dialed", (seq, h, ei))
            if e["a"] == "Connect" and st["dialLookups"] > (h["events"][ei - 1]["st"]["dialLookups"] if ei else 0):
                direct.setdefault("session:name-resolved-at-dial-time", (seq, h, ei))
            if st["phase"] == "valid" and st["stored"] == "raw":
                direct.setdefault("session:usable-registration-holds-unchecked-string", (seq, h, ei))
    if ndup_conn < 100:
        raise vlib.InfraError("session histories are vacuous: only %d with a connection after a later message" % ndup_conn)

    for key, (seq, h, ei) in sorted(direct.items()):
        st = h["events"][ei]["st"]
        ctx.violation(key, "history %s under policy kind %s: dialed %s, lookups while serving connections %d, stored covert %r"
                      % (seq, h["pk"], st["dialed"], st["dialLookups"], st.get("stored_raw")), {"history": h, "event_index": ei})

    def describe(ti, ei):
        h, beh = hist[ti], kept[ti][1]
        ev = h["events"][ei]
        want = beh[ei]["st"]
        fields = ["%s=%s" % (k, json.dumps(ev["st"][k]).replace('"', "").replace(" ", "")) for k in ST_FIELDS if ev["st"][k] != want[k]]
        seq = " > ".join(e["a"] + ("(%s)" % e["c"] if "c" in e else "") for e in h["events"][:ei + 1])
        key = "session:rejected:%s%s:%s" % (ev["a"], ":" + ev["c"] if "c" in ev else "", ",".join(fields) or "state")
        what = ("history %s under policy kind %s: after this step the real code holds %s (stored covert %r); no behaviour of CovertSession in which "
                "duplicates are ignored or re-checked does" % (seq, h["pk"], json.dumps({k: ev["st"][k] for k in ST_FIELDS}), ev["st"].get("stored_raw")))
        return key, what, {"history": h, "as_built_expectation": beh, "event_index": ei}

    def validate(idx, name):
        ok, reached, total, tr = ctx.validate_traces(sdir, "Trace_CovertSession.tla", "Trace_CovertSession.cfg", [traces[i] for i in idx], name="trace.ndjson", timeout=1500)
        if ok:
            return None
        # locate the event: traces are concatenated, each preceded by a Reset line
        pos = 0
        for i in idx:
            n = len(traces[i]) + 1
            if reached < pos + n:
                return i, max(0, reached - pos - 1), tr
            pos += n
        return idx[-1], len(traces[idx[-1]]) - 1, tr

    all_idx = list(range(len(traces)))
    bad = validate(all_idx, "all")
    nrej = 0
    if bad:
        # report the rejected history, then look at the other deviating ones for further distinct keys
        cand = [ti for ti, _ in deviating]
        seen = set()
        while bad and nrej < 8:
            ti, ei, tr = bad
            key, what, detail = describe(ti, ei)
            if tr["inv"]:
                key = "session:invariant:%s:%s" % (tr["inv"], key.split(":", 2)[2])
            detail["tlc"] = tr["out"][-1500:]
            ctx.violation(key, what, detail)
            nrej += 1
            seen.add(key)
            # next candidate whose first deviation is of a kind not yet reported
            rest = []
            for ci in cand:
                if ci == ti:
                    continue
                d0 = [d for d in deviating if d[0] == ci][0][1][0][0]
                if describe(ci, d0)[0] not in seen:
                    rest.append(ci)
            cand = rest
            bad = validate(cand[:200], "rest") if cand else None
    else:
        # demonstrate the binding: the recording of a history with a forbidden later message, altered to what a station that
        # adopts that message's covert would have recorded, must be rejected
        alt = None
        for ti, tr in enumerate(traces):
            for ei, e in enumerate(tr):
                if e["a"] == "Dup" and e.get("c") == "litF" and e["st"]["phase"] == "valid" and e["st"]["stored"] in ("P1", "P2"):
                    alt = copy.deepcopy(tr)
                    for later in alt[ei:]:
                        later["st"]["stored"] = "F"
                        if later["a"] == "Connect":
                            later["st"]["dialed"][-1] = "F"
                    break
            if alt:
                break
        if not alt:
            raise vlib.InfraError("no history to alter for the binding demonstration")
        ok2, reached2, _, _ = ctx.validate_traces(sdir, "Trace_CovertSession.tla", "Trace_CovertSession.cfg", [traces[0], alt], timeout=300)
        if ok2:
            raise vlib.InfraError("session binding is vacuous: altered recording accepted")
        ctx.stage("S", altered_recording_rejected_at=reached2)
    ctx.sample({"stage": "S", "history": [e["a"] + ("(%s)" % e["c"] if "c" in e else "") for e in hist[0]["events"]], "final": hist[0]["events"][-1]["st"]})
    ctx.stage("S", histories=len(kept), exhaustive=nexh, sampled_long=len(lines) - nexh, steps=summ[0]["steps"], connections=summ[0]["connections"],
              connection_after_later_message=ndup_conn, deviating_from_as_built=len(deviating), rejected=nrej)
    return len(traces), summ[0]["steps"]


def run(ctx):
    thorough = ctx.tier == "thorough"
    sdir = ctx.spec_copy("CovertPolicy")
    r = ctx.tlc(sdir, "CovertPolicy.tla", "MC_CovertPolicy.cfg", timeout=900)
    ctx.require_design_ok(r, "CovertPolicy")
    b = ctx.tlc(sdir, "CovertPolicy.tla", "MC_CovertPolicy_rebind.cfg", timeout=300, count=False)
    if b["inv"] not in ("ResolvedOnce", "DialedIsChecked", "CheckedIsPermitted"):
        raise vlib.InfraError("rebind instance should violate, got %s" % b["inv"])
    b2 = ctx.tlc(sdir, "CovertPolicy.tla", "MC_CovertPolicy_fullmatch.cfg", timeout=300, count=False)
    if b2["inv"] != "CheckedIsPermitted":
        raise vlib.InfraError("the instance whose patterns must match the whole host should violate CheckedIsPermitted, got %s" % b2["inv"])
    b3 = ctx.tlc(sdir, "CovertPolicy.tla", "MC_CovertPolicy_pubskip.cfg", timeout=300, count=False)
    if b3["inv"] != "CheckedIsPermitted":
        raise vlib.InfraError("the instance that skips interface subnets whose address is already covered should violate CheckedIsPermitted, got %s" % b3["inv"])
    ctx.stage("A", nonvacuity="instance that re-resolves at dial time violates %s; instance whose domain patterns must match the whole host "
              "(instead of being searched in it) violates CheckedIsPermitted; instance whose covert_blocklist_public_addrs skips an interface "
              "subnet when a configured entry covers the interface address violates CheckedIsPermitted" % b["inv"])

    g = ctx.tlc(sdir, "Gen_CovertPolicy.tla", "Gen_CovertPolicy.cfg", timeout=900, workers=8, count=False)
    if g["inv"]:
        raise vlib.InfraError("row generator failed: " + g["out"][-1500:])
    rows_file = os.path.join(ctx.scratch, "covert_rows.ndjson")
    n = 0
    keep_every = 1 if thorough else 4
    with open(g["beh_file"]) as fi, open(rows_file, "w") as fo:
        lines = fi.readlines()
        ctx.rng.shuffle(lines)
        for i, line in enumerate(lines):
            row = json.loads(line)
            # names are where the resolver script matters: keep all of them; thin out the rest in the quick tier
            if row["inp"]["form"] in ("name", "blockedname") and (thorough or i % 2 == 0) or i % keep_every == 0:
                fo.write(line)
                n += 1
                if n in (1, 999):
                    ctx.sample(row)
    ctx.log("B: %d of %d rows" % (n, len(lines)))
    outp = os.path.join(ctx.scratch, "covert_out.ndjson")
    res = ctx.go_test(PKG, FILES, "lib", "^TestVerifCovertRows$", env={"VERIF_IN": rows_file, "VERIF_OUT": outp}, timeout=3000)
    rows = ctx.read_results(outp)
    summ = [x for x in rows if x.get("kind") == "summary"]
    if not summ:
        raise vlib.InfraError("covert driver did not finish:\n" + res["out"][-3000:])
    for m in [x for x in rows if x.get("kind") == "mismatch"]:
        row = m["row"]
        ctx.violation("covert-row:%s:form=%s:port=%s" % (m["bad"], row["inp"]["form"], row["inp"]["port"]),
                      "ParseOrResolveBlocklisted(%r) -> %r; spec: %s (lookups %s) under policy %s: %s"
                      % (m["input"], m["got"], row["result"], row["lookups"], json.dumps(row["pol"]), m["bad"]), m)
    ctx.stage("B", rows=summ[0]["rows"], calls=summ[0]["calls"], mismatches=summ[0]["mismatches"])

    # coupling through ingest + proxy
    cp = os.path.join(ctx.scratch, "coupling.ndjson")
    ctx.go_test(PKG, FILES, "lib", "^TestVerifCovertCoupling$", env={"VERIF_OUT": cp}, timeout=600)
    crow = {x["script"]: x for x in ctx.read_results(cp) if x.get("kind") == "coupling"}
    if len(crow) != 5:
        raise vlib.InfraError("coupling driver incomplete: %s" % list(crow))
    def bad(script, what, detail):
        ctx.violation("covert-coupling:%s:%s" % (script, what), "ingest+proxy coupling, script %s: %s (%s)" % (script, what, json.dumps(detail)), detail)
    for s in ("rebind", "stable", "literal"):
        x = crow[s]
        if not x["visible"]:
            bad(s, "permitted-covert-not-admitted", x)
            continue
        if x["hits"]["forbidden"] > 0:
            bad(s, "forbidden-address-dialed", x)
        if x["hits"]["permitted"] != 1:
            bad(s, "permitted-address-not-dialed-once", x)
        if s != "literal" and x["lookups_total"] != 1:
            bad(s, "name-resolved-%d-times" % x["lookups_total"], x)
        if x["stored"] != "127.0.0.2:%d" % x["port"]:
            bad(s, "stored-covert-is-not-the-checked-literal", x)
    for s in ("forbidden", "literal-forbidden"):
        x = crow[s]
        if x["visible"] or x["hits"]["forbidden"] > 0 or x["hits"]["permitted"] > 0:
            bad(s, "forbidden-covert-admitted-or-dialed", x)
    ctx.stage("B", coupling=crow)

    # random strings
    rp = os.path.join(ctx.scratch, "random.ndjson")
    ctx.go_test(PKG, FILES, "lib", "^TestVerifCovertRandom$", env={"VERIF_OUT": rp, "VERIF_N": 300000 if thorough else 30000}, timeout=1800)
    rr = ctx.read_results(rp)
    rs = [x for x in rr if x.get("kind") == "summary"]
    if not rs:
        raise vlib.InfraError("random covert driver did not finish")
    for m in [x for x in rr if x.get("kind") == "mismatch"]:
        ctx.violation("covert-random:%s" % m["bad"], "ParseOrResolveBlocklisted(%r) -> %r under %s: %s" % (m["input"], m["got"], json.dumps(m.get("policy")), m["bad"]), m)
    ctx.stage("C", random_calls=rs[0]["calls"], mismatches=rs[0]["mismatches"])

    ntr, nsteps = sessions(ctx, sdir, thorough)
    ctx.cov["evaluations"] = summ[0]["calls"] + rs[0]["calls"] + 5 + nsteps
    ctx.cov["distinct_nontrivial"] = summ[0]["rows"] + ntr
    ctx.cov["traces_validated_against_impl"] = ntr
    ctx.cov["rule"] = ("distinct = rows of the (input class, port class, address / resolver script, policy) table; all reach at least the parse stage; "
                       "+ distinct session histories (message classes x release x connections, every order)")
    ctx.assumptions += ["'accepted unchanged' is read as: the same IP address and port (textual normalisation such as lower-casing or un-mapping is allowed)",
                        "DNS answers come from an in-process UDP server installed through net.DefaultResolver (PreferGo)",
                        "the dial is observed with loopback listeners (127.0.0.2 permitted, 127.0.0.3 forbidden)",
                        "session histories: one session = one shared secret with the min transport; expiry between the messages of a history is not "
                        "modelled (C08); whether a duplicate message is ignored or re-checked is left open, as the property does"]
