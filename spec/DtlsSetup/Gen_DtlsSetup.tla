--------------------------- MODULE Gen_DtlsSetup ---------------------------
(* Prints, for every reachable state in which the caller owns an established connection, what the driver can arrange from
   outside - role, context kind, whether the context's deadline has passed / it was cancelled since - with the verdict of
   the specification: application data still flows (ok) and no deadline is armed on the transport the caller handed in. *)
EXTENDS DtlsSetup, Json
Emit == (pc = "established" /\ uses = 0) =>
          PrintT(ToJson([kind |-> "row", role |-> role, ctx |-> ctx, expired |-> expired, cancelled |-> cancelled,
                         ok |-> ~TimedOut, raw_armed |-> rawDl = "ctx"]))
=============================================================================
