SPECIFICATION Spec
CONSTANTS
  StationLegacySkip = 104
  StationRandMinVer = 3
  ClientPortSource = "session"
INVARIANTS Agreement OldClients443 RandomOnlyIfSubnetAllows
CHECK_DEADLOCK FALSE
