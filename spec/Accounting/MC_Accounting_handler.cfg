\* handler level: every path of handleNewTCPConn
SPECIFICATION SpecHandler
CONSTANTS
  Conns = {"c1"}
  Kons = {}
  Asns = {"a1"}
  CCs = {"", "US"}
  Variant = "as_found"
  Broken = "none"
  MaxLoops = 1
  MaxPrints = 1
  MaxAuth = 0
VIEW view
INVARIANTS TypeOK NoBadCall PhaseMatches LegalWhenDone StatActiveExact StatBalanced OncePerConn GaugeExact QuiescentZero AsnSumsEpoch OutcomeSum
CHECK_DEADLOCK FALSE
