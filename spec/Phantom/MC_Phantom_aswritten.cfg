SPECIFICATION Spec
CONSTANTS
  CfgNames = {"hostbits"}
  LibVers = {0, 1, 2}
  Fams = {4, 6}
  NSel = 1
  Mode = "enum"
  ProcSeedKs = {}
  RNG = "local"
  AddrBytes = "fill"
  NetBase = "as-written"
  DerivedMode = "once"
VIEW view
INVARIANTS TypeOK Contained WellFormed
CHECK_DEADLOCK FALSE
