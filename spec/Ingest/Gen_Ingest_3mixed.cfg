SPECIFICATION GenSpec
CONSTANTS
  Scenario = "3mixed"
  Protocol = "atomic"
  SweepRecheck = TRUE
  ShareEnabled = TRUE
  ShareMode = "detached"
  ReloadProtocol = "snapshot"
INVARIANT Emit
CHECK_DEADLOCK FALSE
