SPECIFICATION GenSpec
CONSTANTS
  LD = {"valid"}
  LC = {"unset"}
  ND = {"unset", "valid"}
  NC = {"unset"}
  CBS = {"A"}
  CAS = {"unset"}
  CBD = {"A"}
  PBL = {"A"}
  GEO = {"unset"}
  WK = {"unset"}
  PUB = {"unset"}
  FK = {"ok"}
  SF = {"S1"}
  RCBS = {"B", "bad", "badfirst"}
  RCAS = {"unset", "badonly"}
  RCBD = {"B", "bad", "badfirst"}
  RPBL = {"unset"}
  RGEO = {"unset"}
  RPUB = {"unset"}
  RFK = {"ok", "syntax", "wrongtype", "unreadable"}
  RSF = {"S2", "malformed"}
  WithShipped = FALSE
  Defects = {}
  Depth = 3
  GoodWeight = 6
  Mode = "exh"
INVARIANT Emit
CHECK_DEADLOCK FALSE
