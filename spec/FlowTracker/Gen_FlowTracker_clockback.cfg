SPECIFICATION GenSpec
CONSTANTS
  FlowInfo <- FlowsApi3
  Keys = {"k1", "k2"}
  T = 2
  K = 20
  SessTimeouts = {1, 3, 30}
  TickSteps <- BackSteps2
  MaxT = 0
  MaxQ = 3
  MaxLag = 2
  StaleEvent = "kills"
  DropRemoves = TRUE
  DueCmp = "le"
  KeepLonger = TRUE
  Level = "api"
  FlagKinds = {"syn", "synack", "ack", "pshack", "rst", "rstack", "fin", "finack", "synfin", "synrst"}
  PayloadKinds = {"none", "app_tag", "app_notag", "app_short", "hs", "teststr"}
  FrameKinds = {"eth", "vlan", "arp", "vlan_other"}
  Depth = 30
INVARIANT Emit
CHECK_DEADLOCK FALSE
