//go:build verif

package dnsregserver

// Drivers for spec/Wire (property C11) on the DNS registrar:
//
//   TestVerifWireDNSReg     entry point "dnsreg": DNSRegServer.processRequest with every wrapper shape (real RegProcessor
//                           from the overlay bridge behind it) + mutation neighbourhood.
//   TestVerifWireResponder  entry point "responder": a real DNSRegServer built by NewDNSRegServer (real responder on a
//                           loopback UDP socket, RecvAndRespond running, processRequest behind it).  Every row is turned
//                           into DNS query bytes (envelope classes, name encodings, base32 / length prefix / Noise classes)
//                           and sent as one datagram; a nominal probe query follows every row and must be answered
//                           (the responder is alive and not stuck).  The same bytes are also handed directly to
//                           dns.MessageFromWireFormat (+ re-serialisation and DecodeRDataTXT of what parses) under
//                           recover(): entry "responder" variant "parse".  A panic inside the responder's per-request
//                           goroutine kills the test binary: checks/C11.py attributes it to the row in flight (progress
//                           marker) and resumes behind it.
//   TestVerifWireCodecs     entry points "msgformat" and "rdatatxt": Remove{Request,Response}Format and DecodeRDataTXT.

import (
	"bytes"
	"encoding/base32"
	"encoding/binary"
	"fmt"
	"io"
	golog "log"
	"net"
	"os"
	"path/filepath"
	"runtime"
	"strings"
	"sync"
	"testing"
	"time"

	"github.com/flynn/noise"
	"github.com/refraction-networking/conjure/pkg/metrics"
	"github.com/refraction-networking/conjure/pkg/registrars/dns-registrar/dns"
	"github.com/refraction-networking/conjure/pkg/registrars/dns-registrar/encryption"
	"github.com/refraction-networking/conjure/pkg/registrars/dns-registrar/msgformat"
	"github.com/refraction-networking/conjure/pkg/regserver/regprocessor"
	pb "github.com/refraction-networking/conjure/proto"
	log "github.com/sirupsen/logrus"
	"google.golang.org/protobuf/proto"
)

type vwDNSWorld struct {
	p    *regprocessor.RegProcessor
	mt   *metrics.Metrics
	lg   *log.Logger
	toml string
}

func vwNewDNSWorld(t testing.TB) *vwDNSWorld {
	dir, err := os.MkdirTemp(os.Getenv("VERIF_TMP"), "verif_c11_")
	if err != nil {
		t.Fatal(err)
	}
	t.Cleanup(func() { os.RemoveAll(dir) })
	w := &vwDNSWorld{toml: filepath.Join(dir, "phantom_subnets.toml")}
	if err := os.WriteFile(w.toml, []byte(vwPhantomToml), 0o644); err != nil {
		t.Fatal(err)
	}
	w.lg = log.New()
	w.lg.SetOutput(io.Discard)
	w.mt = metrics.NewMetrics(log.NewEntry(w.lg), 24*time.Hour)
	w.p, _, err = regprocessor.VerifWireProcessor(regprocessor.VerifWireCfg{Auth: true, Ovr: "rand"}, w.toml, w.mt, vSeed())
	if err != nil {
		t.Fatalf("processor: %v", err)
	}
	return w
}

func TestVerifWireDNSReg(t *testing.T) {
	r := vwNewRunner(t)
	w := vwNewDNSWorld(t)
	srv := map[string]*DNSRegServer{
		"equal": {processor: w.p, logger: log.NewEntry(w.lg), metrics: w.mt, latestCCGen: vwGenKnown},
		"newer": {processor: w.p, logger: log.NewEntry(w.lg), metrics: w.mt, latestCCGen: vwGenNewer},
	}
	r.each([]string{"dnsreg"}, func(row *vwRow) {
		f := row.F
		s := srv[f["ccgen"]]
		raw := vwWrapperBytes(f, fmt.Sprintf("dns-%d", row.idx))
		deliver := func(variant string, b []byte) {
			r.mark(row.idx, variant)
			res := vwGuard(func() (string, string) {
				out, err := s.processRequest(b)
				if err != nil {
					return "error", "no response"
				}
				dr := &pb.DnsResponse{}
				if err := proto.Unmarshal(out, dr); err != nil {
					return "error", "response does not decode"
				}
				if dr.GetSuccess() {
					return "accepted", ""
				}
				return "error", "success=false"
			})
			if res.Outcome != "hang" && res.Outcome != "panic" && !regprocessor.VerifSelectorLockFree(w.p) {
				res = vwResult{Outcome: "hang", Detail: "the call returned (" + res.Outcome + ") but the registrar still holds its phantom-selector lock: the next reload and every registration after it block",
					Site: "regprocessor.selectorMutex"}
				w.p, _, _ = regprocessor.VerifWireProcessor(regprocessor.VerifWireCfg{Auth: true, Ovr: "rand"}, w.toml, w.mt, vSeed())
				for _, sv := range srv {
					sv.processor = w.p
				}
			}
			r.record(row, variant, res)
		}
		deliver("", raw)
		if r.wantMut(row) {
			for _, m := range r.muts(row, raw) {
				deliver(fmt.Sprintf("%s@%d", m.Kind, m.Pos), m.Raw)
			}
		}
	})
	r.finish(map[string]any{"driver": "dnsreg"})
}

// ------------------------------------------------------------------ DNS query construction

var vwB32 = base32.StdEncoding.WithPadding(base32.NoPadding)

const vwDomain = "r.example.com"

type vwDNSBuilder struct {
	pub      []byte // the responder's Noise public key
	otherPub []byte
}

func (b *vwDNSBuilder) inner(class string, salt string) []byte {
	f := map[string]string{"secret": "exact32", "payload": "present", "source": "bddns", "regaddr": "absent", "decoyaddr": "absent", "rr": "absent",
		"respbytes": "absent", "sig": "absent", "unk": "absent", "transport": "min", "gen": "known", "libver": "cur", "v4": "absent", "v6": "true",
		"covert": "absent", "flags": "absent", "noovr": "absent", "purl": "none", "pbytes": "nil", "extras": "absent"}
	switch class {
	case "bd":
	case "uni":
		f["source"] = "dns"
	case "nopayload":
		f["payload"] = "absent"
	case "garbage":
		return bytes.Repeat([]byte{0xff}, 20)
	case "empty":
		return []byte{}
	}
	return vwWrapperBytes(f, salt)
}

func (b *vwDNSBuilder) noiseMsg(class string, plain []byte) []byte {
	enc := func(pub []byte) []byte {
		cfg := encryption.NewConfig()
		cfg.Initiator = true
		cfg.PeerStatic = pub
		hs, err := noise.NewHandshakeState(cfg)
		if err != nil {
			panic(err)
		}
		msg, _, _, err := hs.WriteMessage(nil, plain)
		if err != nil {
			panic(err)
		}
		return msg
	}
	switch class {
	case "valid":
		return enc(b.pub)
	case "empty":
		return []byte{}
	case "len31":
		return enc(b.pub)[:31]
	case "len32":
		return enc(b.pub)[:32]
	case "len47":
		return enc(b.pub)[:47]
	case "badtag":
		m := enc(b.pub)
		m[len(m)-1] ^= 0x55
		return m
	case "wrongkey":
		return enc(b.otherPub)
	case "trailing":
		return append(enc(b.pub), 1, 2, 3, 4, 5)
	}
	panic("noise class " + class)
}

func vwChunks(p []byte, n int) [][]byte {
	var out [][]byte
	for len(p) > 0 {
		k := n
		if k > len(p) {
			k = len(p)
		}
		out = append(out, p[:k])
		p = p[k:]
	}
	return out
}

func vwPlainName(labels [][]byte) []byte {
	var b []byte
	for _, l := range labels {
		b = append(b, byte(len(l)))
		b = append(b, l...)
	}
	return append(b, 0)
}

func vwDNSRR(name []byte, typ, class uint16, ttl uint32, rdlen int, rdata []byte) []byte {
	b := append([]byte(nil), name...)
	b = binary.BigEndian.AppendUint16(b, typ)
	b = binary.BigEndian.AppendUint16(b, class)
	b = binary.BigEndian.AppendUint32(b, ttl)
	b = binary.BigEndian.AppendUint16(b, uint16(rdlen))
	return append(b, rdata...)
}

// query builds the datagram of a row
func (b *vwDNSBuilder) query(f map[string]string, id uint16, salt string) []byte {
	msg := b.noiseMsg(f["noise"], b.inner(f["inner"], salt))
	// length prefix
	var framed []byte
	switch f["lenprefix"] {
	case "ok":
		framed = append([]byte{byte(len(msg))}, msg...)
	case "plus1":
		framed = append([]byte{byte(len(msg) + 1)}, msg...)
	case "bigger":
		framed = append([]byte{byte(len(msg) + 10)}, msg...)
	case "smaller":
		n := len(msg) - 5
		if n < 0 {
			n = 0
		}
		framed = append([]byte{byte(n)}, msg...)
	case "zero":
		framed = append([]byte{0}, msg...)
	}
	enc := []byte(vwB32.EncodeToString(framed))
	switch f["b32"] {
	case "valid":
	case "lower":
		enc = bytes.ToLower(enc)
	case "badchar":
		if len(enc) > 3 {
			enc[3] = '1'
		} else {
			enc = append(enc, '1')
		}
	case "padded":
		enc = append(enc, '=', '=')
	case "badlen":
		for len(enc)%8 != 1 {
			enc = append(enc, 'A')
		}
	}
	var pre [][]byte
	switch f["name"] {
	case "nolabels":
	case "small":
		pre = vwChunks(enc, 30)
	default:
		pre = vwChunks(enc, 63)
	}
	var suf [][]byte
	switch f["suffix"] {
	case "right":
		suf = [][]byte{[]byte("r"), []byte("example"), []byte("com")}
	case "mixedcase":
		suf = [][]byte{[]byte("R"), []byte("ExAmple"), []byte("COM")}
	case "wrong":
		suf = [][]byte{[]byte("r"), []byte("example"), []byte("org")}
	case "short":
		suf = [][]byte{[]byte("com")}
	case "root":
	}
	const qOff = 12
	var name, tail []byte // tail: bytes placed behind the regular sections (pointer targets)
	tailRef := func(off int) []byte { return []byte{0xc0 | byte(off>>8&0x3f), byte(off)} }
	// the name's encoding; pointer targets are resolved after the rest of the message is known
	type late struct{ kind string }
	var lt *late
	switch f["name"] {
	case "labels", "small", "nolabels":
		name = vwPlainName(append(append([][]byte{}, pre...), suf...))
	case "over255":
		ls := append([][]byte{}, pre...)
		for i := 0; i < 5; i++ {
			ls = append(ls, bytes.Repeat([]byte{'A'}, 63))
		}
		name = vwPlainName(append(ls, suf...))
	case "ptr_self":
		name = tailRef(qOff)
	case "ptr_oob":
		name = []byte{0xff, 0xff}
	case "rsv40":
		name = append([]byte{0x40 | 5}, []byte("abcde\x00")...)
	case "rsv80":
		name = append([]byte{0x80 | 5}, []byte("abcde\x00")...)
	case "overrun":
		name = append([]byte{63}, []byte("0123456789")...)
	case "ptr_suffix", "ptr_chain10", "ptr_chain11":
		lt = &late{f["name"]}
		// prefix labels, then a 2-byte pointer that is filled in below
		name = vwPlainName(pre)
		name = name[:len(name)-1]
		name = append(name, 0xc0, 0x00)
	}
	qtype := map[string]uint16{"txt": 16, "a": 1, "t255": 255}[f["qtype"]]
	question := append(append([]byte(nil), name...), 0, 0, 0, 1)
	binary.BigEndian.PutUint16(question[len(name):], qtype)
	if f["name"] == "overrun" {
		question = name // the message ends inside the label
	}
	var qsec []byte
	qd := 1
	switch f["qd"] {
	case "one":
		qsec = question
	case "zero":
		qd = 0
	case "two":
		qsec = append(append([]byte(nil), question...), question...)
		qd = 2
	case "hdr_more":
		qsec = question
		qd = 2
	case "hdr_less":
		qsec = question
		qd = 0
	}
	aRR := vwDNSRR(vwPlainName([][]byte{[]byte("x"), []byte("example"), []byte("com")}), 1, 1, 60, 4, []byte{192, 0, 2, 1})
	var ansec, nssec, arsec []byte
	an, ns, ar := 0, 0, 0
	switch f["extrarr"] {
	case "answer":
		ansec, an = aRR, 1
	case "authority":
		nssec, ns = aRR, 1
	case "additional":
		arsec, ar = aRR, 1
	}
	nopt := map[string]int{"none": 0, "one": 1, "two": 2}[f["opt"]]
	size := map[string]uint16{"s4096": 4096, "s0": 0, "s511": 511, "s1231": 1231, "s1232": 1232, "s65535": 65535}[f["optsize"]]
	ver := uint32(0)
	if f["optver"] == "v1" {
		ver = 1
	}
	for i := 0; i < nopt; i++ {
		var opt []byte
		switch f["optrd"] {
		case "empty":
			opt = vwDNSRR([]byte{0}, 41, size, ver<<16, 0, nil)
		case "some":
			opt = vwDNSRR([]byte{0}, 41, size, ver<<16, 4, []byte{0, 10, 0, 0})
		case "overrun":
			opt = vwDNSRR([]byte{0}, 41, size, ver<<16, 50, []byte{1, 2, 3})
		}
		arsec = append(arsec, opt...)
		ar++
	}
	flags := uint16(0x0100)
	if f["qr"] == "response" {
		flags |= 0x8000
	}
	flags |= map[string]uint16{"query": 0, "status": 2, "op15": 15}[f["opcode"]] << 11
	hdr := make([]byte, 12)
	binary.BigEndian.PutUint16(hdr[0:], id)
	binary.BigEndian.PutUint16(hdr[2:], flags)
	binary.BigEndian.PutUint16(hdr[4:], uint16(qd))
	binary.BigEndian.PutUint16(hdr[6:], uint16(an))
	binary.BigEndian.PutUint16(hdr[8:], uint16(ns))
	binary.BigEndian.PutUint16(hdr[10:], uint16(ar))
	out := append(append(append(append(hdr, qsec...), ansec...), nssec...), arsec...)
	if lt != nil && len(qsec) > 0 {
		// pointer targets live behind the regular sections
		base := len(out)
		switch lt.kind {
		case "ptr_suffix":
			tail = vwPlainName(suf)
		default:
			n := 9 // ptr_chain10: the pointer in the name + 9 more = 10 pointers
			if lt.kind == "ptr_chain11" {
				n = 10
			}
			for i := 0; i < n; i++ {
				tail = append(tail, tailRef(base+2*(i+1))...)
			}
			tail = append(tail, vwPlainName(suf)...)
		}
		// patch every copy of the question's pointer
		ptr := tailRef(base)
		for k := 0; k+len(name) <= len(qsec); k += len(question) {
			copy(out[12+k+len(name)-2:], ptr)
		}
		out = append(out, tail...)
	}
	if f["trail"] == "bytes" {
		out = append(out, 0xde, 0xad, 0x00)
	}
	return out
}

// ------------------------------------------------------------------ UDP exchange

type vwUDP struct {
	c    *net.UDPConn
	mu   sync.Mutex
	got  map[uint16][]byte
	cond *sync.Cond
}

func vwNewUDP(t testing.TB, to net.Addr) *vwUDP {
	c, err := net.DialUDP("udp", nil, to.(*net.UDPAddr))
	if err != nil {
		t.Fatalf("dial responder: %v", err)
	}
	u := &vwUDP{c: c, got: map[uint16][]byte{}}
	u.cond = sync.NewCond(&u.mu)
	go func() {
		buf := make([]byte, 65536)
		for {
			n, err := c.Read(buf)
			if err != nil {
				if strings.Contains(err.Error(), "closed") {
					return
				}
				continue // ICMP errors surface here; keep reading
			}
			if n >= 2 {
				id := binary.BigEndian.Uint16(buf)
				u.mu.Lock()
				u.got[id] = append([]byte(nil), buf[:n]...)
				u.cond.Broadcast()
				u.mu.Unlock()
			}
		}
	}()
	return u
}

func (u *vwUDP) clear() {
	u.mu.Lock()
	u.got = map[uint16][]byte{}
	u.mu.Unlock()
}

// wait returns the response with the given id, waiting at most d
func (u *vwUDP) wait(id uint16, d time.Duration) []byte {
	deadline := time.Now().Add(d)
	u.mu.Lock()
	defer u.mu.Unlock()
	for {
		if b, ok := u.got[id]; ok {
			delete(u.got, id)
			return b
		}
		left := time.Until(deadline)
		if left <= 0 {
			return nil
		}
		tm := time.AfterFunc(left, func() { u.mu.Lock(); u.cond.Broadcast(); u.mu.Unlock() })
		u.cond.Wait()
		tm.Stop()
	}
}

func vwClassifyDNS(resp []byte) (string, string) {
	if resp == nil {
		return "ignored", "no response"
	}
	m, err := dns.MessageFromWireFormat(resp)
	if err != nil {
		return "error", "response does not parse: " + err.Error()
	}
	if m.Rcode() != dns.RcodeNoError {
		return "error", fmt.Sprintf("rcode %d", m.Rcode())
	}
	if len(m.Answer) != 1 {
		return "error", "no answer"
	}
	txt, err := dns.DecodeRDataTXT(m.Answer[0].Data)
	if err != nil || len(txt) == 0 {
		return "error", "empty answer"
	}
	return "accepted", ""
}

func TestVerifWireResponder(t *testing.T) {
	r := vwNewRunner(t)
	w := vwNewDNSWorld(t)
	golog.SetOutput(io.Discard) // the responder logs through the standard logger
	priv := vwBytes("dns-privkey", 32)
	srv, err := NewDNSRegServer(vwDomain, "127.0.0.1:0", priv, w.p, vwGenKnown, log.NewEntry(w.lg), w.mt)
	if err != nil {
		t.Fatalf("NewDNSRegServer: %v", err)
	}
	served := make(chan error, 1)
	go func() { served <- srv.ListenAndServe() }()
	b := &vwDNSBuilder{pub: encryption.PubkeyFromPrivkey(priv), otherPub: encryption.PubkeyFromPrivkey(vwBytes("dns-other", 32))}
	u := vwNewUDP(t, srv.dnsResponder.VerifLocalAddr())
	nomF := map[string]string{"qr": "query", "opcode": "query", "qd": "one", "opt": "one", "optver": "v0", "optsize": "s4096", "optrd": "empty",
		"extrarr": "none", "suffix": "right", "qtype": "txt", "name": "labels", "b32": "valid", "lenprefix": "ok", "noise": "valid", "inner": "uni",
		"trail": "none"}
	nprobe := 0
	probe := func() bool {
		// a nominal query must be answered (retried: UDP over loopback can drop under load)
		for try := 0; try < 5; try++ {
			nprobe++
			id := uint16(0xf000 + nprobe%0x0fff)
			if _, err := u.c.Write(b.query(nomF, id, fmt.Sprintf("probe-%d", nprobe))); err != nil {
				continue
			}
			if resp := u.wait(id, vwCallTimeout/5); resp != nil {
				if o, _ := vwClassifyDNS(resp); o == "accepted" {
					return true
				}
			}
		}
		return false
	}
	if !probe() {
		t.Fatalf("the responder does not answer a nominal query")
	}
	time.Sleep(50 * time.Millisecond)
	baseline := runtime.NumGoroutine()
	settle := func() (string, bool) {
		deadline := time.Now().Add(vwCallTimeout / 2)
		for runtime.NumGoroutine() > baseline {
			if time.Now().After(deadline) {
				site, _ := vwHangSite("RecvAndRespond.func1")
				if site == "unknown" {
					site = "responder.RecvAndRespond"
				}
				return site, false
			}
			time.Sleep(100 * time.Microsecond)
		}
		return "", true
	}
	r.each([]string{"responder"}, func(row *vwRow) {
		f := row.F
		id := uint16(row.idx % 0xf000)
		raw := b.query(f, id, fmt.Sprintf("resp-%d", row.idx))
		direct := func(variant string, q []byte) {
			// the parser and the codecs on the same bytes, in this goroutine
			res := vwGuard(func() (string, string) {
				m, err := dns.MessageFromWireFormat(q)
				for _, qq := range m.Question {
					_ = qq.Name.String()
					_, _ = qq.Name.TrimSuffix(dns.Name{[]byte("r"), []byte("example"), []byte("com")})
				}
				if _, e2 := m.WireFormat(); e2 != nil && err == nil {
					return "error", "parsed message does not serialise"
				}
				for _, rr := range append(append(m.Answer, m.Authority...), m.Additional...) {
					_, _ = dns.DecodeRDataTXT(rr.Data)
				}
				if err != nil {
					return "error", ""
				}
				return "accepted", ""
			})
			if res.Outcome == "panic" || res.Outcome == "hang" {
				r.record(row, variant, res)
			}
		}
		deliver := func(variant string, q []byte) {
			r.mark(row.idx, variant)
			direct(variant+"parse", q)
			select {
			case err := <-served:
				t.Fatalf("RecvAndRespond returned: %v", err)
			default:
			}
			u.clear()
			if _, err := u.c.Write(q); err != nil {
				r.record(row, variant, vwResult{Outcome: "ignored", Detail: "datagram not sent: " + err.Error()})
				return
			}
			// A nominal probe is sent right behind the row's datagram.  The responder reads datagrams in order, so
			// once the probe is answered the row's datagram has been read and its handler goroutine started; once the
			// number of goroutines is back at its baseline that handler has finished: whatever answer the row gets
			// has been written by then.  A handler that never finishes is a hang (NeverHangs), with its stack.
			if !probe() {
				r.record(row, variant, vwResult{Outcome: "hang", Detail: "the responder stopped answering nominal queries", Site: "responder.RecvAndRespond"})
				return
			}
			if site, ok := settle(); !ok {
				r.record(row, variant, vwResult{Outcome: "hang", Detail: "a request handler goroutine did not finish", Site: site})
				baseline = runtime.NumGoroutine() // the stuck one stays; do not blame the following rows
				return
			}
			o, d := vwClassifyDNS(u.wait(id, 2*time.Millisecond))
			r.record(row, variant, vwResult{Outcome: o, Detail: d})
		}
		deliver("", raw)
		if r.wantMut(row) {
			for _, m := range r.muts(row, raw) {
				deliver(fmt.Sprintf("%s@%d", m.Kind, m.Pos), m.Raw)
			}
		}
	})
	alive := probe()
	if !alive {
		r.record(&vwRow{Ep: "responder", F: map[string]string{}, idx: -1}, "final-probe",
			vwResult{Outcome: "hang", Detail: "the responder stopped answering nominal queries", Site: "responder.RecvAndRespond"})
	}
	r.finish(map[string]any{"driver": "responder", "probes": nprobe})
	_ = srv.Close()
}

// ------------------------------------------------------------------ the small codecs

func TestVerifWireCodecs(t *testing.T) {
	r := vwNewRunner(t)
	r.each([]string{"msgformat", "rdatatxt"}, func(row *vwRow) {
		f := row.F
		var raw []byte
		var call func(b []byte) (string, string)
		if row.Ep == "msgformat" {
			n := map[string]int{"l0": 0, "l1": 1, "l2": 2, "l3": 3, "l40": 40, "l300": 300}[f["len"]]
			raw = vwBytes("mf", n)
			hdr := 1
			if f["fn"] == "response" {
				hdr = 2
			}
			if n >= hdr {
				body := n - hdr
				v := body
				switch f["prefix"] {
				case "bigger":
					v = body + 1
				case "smaller":
					v = body / 2
				case "zero":
					v = 0
				case "max":
					v = 65535
				}
				if hdr == 1 {
					raw[0] = byte(v)
				} else {
					binary.BigEndian.PutUint16(raw, uint16(v))
				}
			}
			call = func(b []byte) (string, string) {
				var out []byte
				var err error
				if f["fn"] == "request" {
					out, err = msgformat.RemoveRequestFormat(b)
				} else {
					out, err = msgformat.RemoveResponseFormat(b)
				}
				if err != nil {
					return "error", ""
				}
				if len(out) > len(b)-hdr {
					return "accepted", "more bytes than the message carries behind its length prefix"
				}
				return "accepted", ""
			}
		} else {
			size := map[string]int{"s0": 0, "s1": 1, "s255": 255, "s256": 256, "s1000": 1000}[f["size"]]
			data := vwBytes("txt", size)
			switch f["chunks"] {
			case "none":
				raw = nil
			case "one":
				if size > 255 {
					data = data[:255]
				}
				raw = append([]byte{byte(len(data))}, data...)
			case "many":
				raw = dns.EncodeRDataTXT(data)
				raw = append(raw, 3, 'a', 'b', 'c')
			}
			switch f["last"] {
			case "overrun":
				raw = append(raw, 200, 1, 2, 3)
			case "zero":
				raw = append(raw, 0)
			case "max255":
				raw = append(append(raw, 255), vwBytes("t255", 255)...)
			}
			call = func(b []byte) (string, string) {
				if _, err := dns.DecodeRDataTXT(b); err != nil {
					return "error", ""
				}
				return "accepted", ""
			}
		}
		deliver := func(variant string, b []byte) {
			r.mark(row.idx, variant)
			b = vwExact(b)
			r.record(row, variant, vwGuard(func() (string, string) { return call(b) }))
		}
		deliver("", raw)
		// the whole neighbourhood: these inputs are tiny
		for _, m := range vwMutations(raw, r.rng, 400, 32) {
			deliver(fmt.Sprintf("%s@%d", m.Kind, m.Pos), m.Raw)
		}
	})
	r.finish(map[string]any{"driver": "codecs"})
}
