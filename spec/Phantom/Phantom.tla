------------------------------ MODULE Phantom ------------------------------
(***************************************************************************)
(* Phantom address selection (pkg/phantoms): PhantomIPSelector.Select and   *)
(* SelectPhantom.  A configuration is a sequence of weighted groups of     *)
(* CIDR blocks; a selection                                                 *)
(*   1. picks one group by weighted choice,                                 *)
(*   2. keeps the group's blocks of the requested address family,           *)
(*   3. maps an id to (block, offset) and returns block.base + offset       *)
(*      together with the group's port-randomisation flag.                  *)
(* Three algorithms exist, selected by the client library version:         *)
(*   v0   (libver 0)  selectPhantomImplV0: off-by-one id ranges             *)
(*        (min,max] over sizes-1, id = seed mod total0 only if > total0;    *)
(*        host bits from math/rand                                          *)
(*   v1   (libver 1)  selectPhantomImplVarint: id ranges [min,max], id =    *)
(*        seed mod total; host bits from math/rand                          *)
(*   v2+  (libver>=2) selectPhantomImplHkdf: id drawn in [0,total) from an  *)
(*        HKDF stream, offset = id - min                                    *)
(* and two weighted-choice routines:                                        *)
(*   v2+  getSubnetsHkdf: sort ascending, "subtract until negative"         *)
(*   v0/1 getSubnetsVarint: mroth/weightedrand v1.0.0 (sort ascending,      *)
(*        running totals, r = Intn(max)+1, first total >= r).               *)
(* HKDF / math/rand outputs cannot be computed by TLC; they are the         *)
(* *draws* of a seed:  seed = [w, id, h]                                    *)
(*   w   0-based weighted-choice draw (rand.Int(hkdf, totW) resp. Intn)     *)
(*   id  v2+: rand.Int(hkdf, total);  v0/v1: the seed as an integer         *)
(*   h   v0/v1: the math/rand host bits (mod the largest block size)        *)
(* The conformance driver recomputes the draws of every real seed with an   *)
(* independent interpreter and looks the case up here.                      *)
(*                                                                         *)
(* The legacy algorithms read a math/rand generator in four steps           *)
(*   Seed1 (mrand.Seed) - Pick (Intn) - Seed2 (mrand.Seed) - Read           *)
(* RNG = "global": one process-wide generator (compat.go before the fix,   *)
(*                 H-C14-2): selectors interleave at these four points      *)
(* RNG = "local" : one generator per selection (what purity demands)        *)
(* AddrBytes = "minimal": net.IP(big.Int.Bytes()) (H-C14-1, leading zero    *)
(*             bytes of the address are dropped)                            *)
(* AddrBytes = "fill"   : address always has the family's byte width        *)
(*                                                                         *)
(* State derived from a configuration.  A configuration object (one         *)
(* SubnetConfig: built at station start, replaced as a whole by a reload)   *)
(* may keep state derived from its groups - e.g. their parsed form, index   *)
(* for index - which every weighted selection on that object reads.  The    *)
(* selection is a function of (configuration, seed, version), so the        *)
(* derived table must be the identity on the groups whatever the schedule   *)
(* of the FIRST uses of a fresh object:                                     *)
(* derived[c] : sequence, position k holds the group whose blocks/flag a    *)
(*              selection that chose group k gets (<<>> = not built yet)    *)
(* DerivedMode = "once": the first use builds the whole table in one        *)
(*              atomic step (per-call parsing, eager build and sync.Once    *)
(*              are all this instance)                                      *)
(* DerivedMode = "lazy-unsynchronised": `if table == nil { for each group:  *)
(*              table = append(table, ...) }` without a lock - two first    *)
(*              uses interleave, positions shift, group k resolves to       *)
(*              another group for the rest of the object's life (a broken   *)
(*              instance: must violate Pure)                                *)
(***************************************************************************)
EXTENDS Integers, Sequences, FiniteSets, TLC

CONSTANTS CfgNames,   \* configurations explored (subset of DOMAIN Configs)
          LibVers,    \* subset of 0..4
          Fams,       \* subset of {4, 6}
          NSel,       \* number of selectors
          Mode,       \* "enum": every draw of every configuration; "proc": seeds from ProcSeeds
          ProcSeedKs, \* "proc" mode: abstract seeds (naturals)
          RNG,        \* "local" | "global"
          AddrBytes,  \* "fill"  | "minimal"
          DerivedMode,\* "once" | "lazy-unsynchronised": how the per-configuration derived table is built on first use
          NetBase     \* "masked": a block's network is the configured address with its host bits cleared, however the CIDR was
                      \*           written (10.0.0.5/29 is 10.0.0.0/29 - net.ParseCIDR);  "as-written": the configured address is
                      \*           taken as the base as it stands (a broken instance: must violate Contained)

VARIABLES inp,   \* [Procs -> input]    input = [c, lv, fam, gen, seed]
          pc,    \* [Procs -> {"start","seeded1","picked","seeded2","done"}]
          grp,   \* [Procs -> group chosen by the legacy weighted pick (0 = none yet)]
          rng,   \* the process-global generator [s |-> seed, p |-> position] (RNG = "global")
          lrng,  \* [Procs -> generator]                                     (RNG = "local")
          res,   \* [Procs -> result or None]
          derived, \* [CfgNames -> table derived from the configuration object on first use] (<<>> = fresh object)
          dpc,   \* [Procs -> {"idle","build","ready"}] where the selector stands with respect to the derived table
          dk,    \* [Procs -> next group the selector appends while it builds the table (0 = not building)]
          obs    \* last completed selection

vars == <<inp, pc, grp, rng, lrng, res, derived, dpc, dk, obs>>
view == <<inp, pc, grp, rng, lrng, res, derived, dpc, dk>>

None == [none |-> TRUE]
Procs == 1..NSel

\* ------------------------------------------------------------------ configurations
\* ho = host part of the address AS WRITTEN in the configuration (the CIDR text is base + ho / prefix length; ho = 0: canonical)
N4h(base, hb, ho) == [fam |-> 4, hi |-> "", hz |-> 0, base |-> base, hb |-> hb, ho |-> ho]
N4(base, hb) == N4h(base, hb, 0)
\* IPv6 block: hi = upper part written as an address (low 32 bits zero), hz = number of leading
\* zero bytes of hi (16 when hi = "::"), base = low part, hb = host bits
N6h(hi, hz, base, hb, ho) == [fam |-> 6, hi |-> hi, hz |-> hz, base |-> base, hb |-> hb, ho |-> ho]
N6(hi, hz, base, hb) == N6h(hi, hz, base, hb, 0)
G(w, rp, nets) == [w |-> w, rp |-> rp, nets |-> nets]

B10 == 167772160          \* 10.0.0.0
B100 == 1681915904        \* 100.64.0.0
P6 == "2001:db8::"
Z6 == "64:ff9b::"         \* 0064:ff9b:: - first byte zero

Configs ==
  [ one   |-> << G(1, FALSE, << N4(B10 + 7, 0), N6(P6, 0, 9, 0) >>) >>,
    sizes |-> << G(1, TRUE,  << N4(B10, 0), N4(B10 + 2, 1), N4(B10 + 4, 2), N4(B10 + 8, 3),
                                N6(P6, 0, 0, 0), N6(P6, 0, 2, 1), N6(P6, 0, 4, 2), N6(P6, 0, 8, 3) >>) >>,
    wts   |-> << G(3, FALSE, << N4(B10, 2), N6(P6, 0, 0, 1) >>),
                 G(1, TRUE,  << N4(B10 + 16, 1), N6(P6, 0, 16, 2) >>) >>,
    ties  |-> << G(2, TRUE,  << N4(B10, 1) >>),
                 G(2, FALSE, << N4(B10 + 8, 1), N6(P6, 0, 8, 0) >>),
                 G(1, FALSE, << N4(B10 + 16, 0), N6(P6, 0, 0, 1) >>),
                 G(2, TRUE,  << N4(B100, 2) >>) >>,
    zero  |-> << G(0, TRUE,  << N4(B10, 2), N6(P6, 0, 32, 2) >>),
                 G(2, FALSE, << N4(B10 + 8, 1), N6(P6, 0, 0, 0) >>),
                 G(0, FALSE, << N6(P6, 0, 8, 1), N4(B10 + 32, 1) >>) >>,
    dup   |-> << G(1, TRUE,  << N4(B10, 2), N4(B10, 2), N4(B10, 3), N4(B10 + 4, 2), N6(P6, 0, 0, 1), N6(P6, 0, 0, 1) >>),
                 G(1, FALSE, << N4(B10, 2), N6(P6, 0, 0, 2) >>) >>,
    lead0 |-> << G(1, TRUE,  << N4(8, 3), N4(65536, 1), N6("::", 16, 8, 2), N6(Z6, 1, 0, 1) >>),
                 G(1, FALSE, << N4(256, 0), N6("::", 16, 65536, 0) >>) >>,
    fam   |-> << G(1, FALSE, << N4(B10, 1) >>), G(1, TRUE, << N6(P6, 0, 0, 1) >>) >>,
    allzero |-> << G(0, TRUE, << N4(B10, 1), N6(P6, 0, 0, 1) >>), G(0, FALSE, << N4(B10 + 8, 0) >>) >>,
    hostbits |-> << G(1, TRUE,  << N4h(B10, 3, 5), N6h(P6, 0, 0, 2, 3) >>),
                    G(2, FALSE, << N4h(B10 + 16, 2, 1), N4(B10 + 32, 1), N4h(B100, 0, 0), N6h(P6, 0, 16, 3, 7) >>) >>,
    mix3  |-> << G(1, FALSE, << N4(B10, 0), N4(B10 + 1, 0), N6(P6, 0, 0, 0) >>),
                 G(1, TRUE,  << N6(P6, 0, 16, 3), N4(B100, 3) >>),
                 G(2, FALSE, << N4(B10 + 8, 2), N4(B100 + 8, 1), N4(B10 + 12, 0), N6(P6, 0, 4, 2), N6(P6, 0, 64, 1) >>) >> ]

Groups(c) == Configs[c]
Size(n) == 2 ^ n.hb
Base(n) == IF NetBase = "masked" THEN n.base ELSE n.base + n.ho    \* the address offsets are counted from
FamW(f) == IF f = 4 THEN 4 ELSE 16

ASSUME CfgNames \subseteq DOMAIN Configs
ASSUME \A c \in DOMAIN Configs : \A g \in 1..Len(Groups(c)) :
          /\ Len(Groups(c)[g].nets) >= 1
          /\ \A k \in 1..Len(Groups(c)[g].nets) : /\ Groups(c)[g].nets[k].base % Size(Groups(c)[g].nets[k]) = 0
                                                     /\ Groups(c)[g].nets[k].ho \in 0..(Size(Groups(c)[g].nets[k]) - 1)

RECURSIVE SumTo(_, _)
SumTo(f, k) == IF k = 0 THEN 0 ELSE f[k] + SumTo(f, k - 1)     \* f[1] + ... + f[k]

Weights(c) == [g \in 1..Len(Groups(c)) |-> Groups(c)[g].w]
TotW(c) == SumTo(Weights(c), Len(Groups(c)))
\* A configuration whose weights are all zero offers nothing to select: every version must fail with an
\* error (weightedrand refuses it for v0/v1; the v2+ routine has to refuse it before rand.Int(_, 0)).
NoWeight(c) == TotW(c) = 0

\* ------------------------------------------------------------------ weighted choice
\* sort.Slice on <= 12 elements is an insertion sort, i.e. stable: ascending weight, ties in configuration order
SortedIdx(W) ==
  LET n == Len(W)
      Rank(i) == Cardinality({j \in 1..n : W[j] < W[i] \/ (W[j] = W[i] /\ j < i)}) + 1
  IN  [k \in 1..n |-> CHOOSE i \in 1..n : Rank(i) = k]

\* getSubnetsHkdf: "Decrement rnd by each weight until it's < 0"
RECURSIVE Decr(_, _, _, _)
Decr(order, W, k, rnd) ==
  IF k > Len(order) THEN 0
  ELSE LET r2 == rnd - W[order[k]] IN IF r2 < 0 THEN order[k] ELSE Decr(order, W, k + 1, r2)
ChooseHkdf(c, w0) == Decr(SortedIdx(Weights(c)), Weights(c), 1, w0)

\* weightedrand.Chooser: totals[i] = running total, r = Intn(max)+1, searchInts = smallest i with totals[i] >= r
ChooseLegacy(c, w0) ==
  LET W == Weights(c)
      order == SortedIdx(W)
      n == Len(order)
      sw == [k \in 1..n |-> W[order[k]]]
      totals == [k \in 1..n |-> SumTo(sw, k)]
      r == w0 + 1
  IN  order[CHOOSE k \in 1..n : totals[k] >= r /\ \A j \in 1..(k - 1) : totals[j] < r]

\* ------------------------------------------------------------------ family filter and id ranges
Nets(c, g) == Groups(c)[g].nets
\* V4Only / V6Only: indices (in configuration order) of the group's blocks of the family
FIdx(c, g, fam) == SelectSeq([k \in 1..Len(Nets(c, g)) |-> k], LAMBDA k : Nets(c, g)[k].fam = fam)

Sizes(c, g, F) == [k \in 1..Len(F) |-> Size(Nets(c, g)[F[k]])]
SizesM1(c, g, F) == [k \in 1..Len(F) |-> Size(Nets(c, g)[F[k]]) - 1]
GroupTotal(c, g, fam) == LET F == FIdx(c, g, fam) IN SumTo(Sizes(c, g, F), Len(F))

MinBytes(x) == IF x = 0 THEN 0 ELSE IF x < 256 THEN 1 ELSE IF x < 65536 THEN 2 ELSE IF x < 16777216 THEN 3 ELSE 4
\* number of bytes of the address handed back to the caller
ByteLen(net, off) ==
  IF AddrBytes = "fill" THEN FamW(net.fam)
  ELSE IF net.fam = 4 THEN MinBytes(Base(net) + off)
  ELSE IF net.hz = 16 THEN MinBytes(Base(net) + off)
  ELSE 16 - net.hz

Ok(c, g, n, off) ==
  LET net == Nets(c, g)[n] IN
  [ok |-> TRUE, g |-> g, n |-> n, off |-> off, fam |-> net.fam, hi |-> net.hi, low |-> Base(net) + off,
   rp |-> Groups(c)[g].rp, blen |-> ByteLen(net, off)]
Err(kind) == [ok |-> FALSE, err |-> kind]

\* v2+ ------------------------------------------------------------------------------------------
AddrHkdf(c, g, fam, id) ==
  LET F == FIdx(c, g, fam)
      sz == Sizes(c, g, F)
      total == SumTo(sz, Len(F))
      lo(k) == SumTo(sz, k - 1)
      hiK(k) == SumTo(sz, k) - 1
  IN  IF total <= 0 THEN Err("missing")
      ELSE LET ks == {k \in 1..Len(F) : lo(k) <= id /\ id <= hiK(k)} IN
           IF ks = {} THEN Err("nil")
           ELSE LET k == CHOOSE k \in ks : \A k2 \in ks : k2 <= k      \* the loop keeps the last match
                IN  Ok(c, g, F[k], id - lo(k))
\* id = rand.Int(hkdf, total): always below the total of the chosen group
SelHkdfG(c, fam, g, idr) ==
  LET t == GroupTotal(c, g, fam)
  IN  AddrHkdf(c, g, fam, IF t = 0 THEN 0 ELSE idr % t)
SelHkdf(c, fam, w0, idr) == SelHkdfG(c, fam, ChooseHkdf(c, w0), idr)

\* v1 -------------------------------------------------------------------------------------------
AddrV1(c, g, fam, idraw, h) ==
  LET F == FIdx(c, g, fam)
      sz == Sizes(c, g, F)
      total == SumTo(sz, Len(F))
      lo(k) == SumTo(sz, k - 1)
      hiK(k) == SumTo(sz, k) - 1
  IN  IF total <= 0 THEN Err("missing")
      ELSE LET id == IF idraw >= total THEN idraw % total ELSE idraw
               ks == {k \in 1..Len(F) : lo(k) <= id /\ id <= hiK(k)} IN
           IF ks = {} THEN Err("nil")
           ELSE LET k == CHOOSE k \in ks : \A k2 \in ks : k2 <= k
                IN  Ok(c, g, F[k], h % sz[k])

\* v0 -------------------------------------------------------------------------------------------
AddrV0(c, g, fam, idraw, h) ==
  LET F == FIdx(c, g, fam)
      sz == Sizes(c, g, F)
      s1 == SizesM1(c, g, F)
      total == SumTo(s1, Len(F))
      lo(k) == SumTo(s1, k - 1)
      hiK(k) == SumTo(s1, k)
  IN  IF total <= 0 THEN Err("missing")
      ELSE LET id == IF idraw > total THEN idraw % total ELSE idraw
               ks == {k \in 1..Len(F) : lo(k) < id /\ id <= hiK(k)} IN
           IF ks = {} THEN Err("v0bug")
           ELSE LET k == CHOOSE k \in ks : \A k2 \in ks : k2 <= k
                IN  Ok(c, g, F[k], h % sz[k])

AddrLegacy(c, lv, g, fam, idraw, h) == IF lv = 0 THEN AddrV0(c, g, fam, idraw, h) ELSE AddrV1(c, g, fam, idraw, h)
\* TRUE iff the legacy algorithm reaches SelectAddrFromSubnet (the second Seed/Read pair)
LegacyReachesRead(c, lv, g, fam, idraw) == AddrLegacy(c, lv, g, fam, idraw, 0).ok

\* the total the id is reduced by (v0: sum of sizes-1) for the group the draw w selects; the driver needs it
\* to turn a real seed into the draw id
RedTotal(c, lv, fam, w0) ==
  IF NoWeight(c) THEN 0
  ELSE IF lv >= 2 THEN GroupTotal(c, ChooseHkdf(c, w0), fam)
  ELSE LET g == ChooseLegacy(c, w0)
           F == FIdx(c, g, fam)
       IN  IF lv = 1 THEN SumTo(Sizes(c, g, F), Len(F)) ELSE SumTo(SizesM1(c, g, F), Len(F))

\* ------------------------------------------------------------------ seeds, generators
MaxSz(c) == CHOOSE m \in {1, 2, 4, 8} :
               /\ \E g \in 1..Len(Groups(c)) : \E k \in 1..Len(Nets(c, g)) : Size(Nets(c, g)[k]) = m
               /\ \A g \in 1..Len(Groups(c)) : \A k \in 1..Len(Nets(c, g)) : Size(Nets(c, g)[k]) <= m
MaxTotal(c, fam) == LET T == {GroupTotal(c, g, fam) : g \in 1..Len(Groups(c))}
                    IN CHOOSE m \in T : \A t \in T : t <= m

\* value the generator [s, p] hands to Intn / to Read (two views of one stream)
ValW(r) == r.s.w + 5 * r.p
ValH(r) == r.s.h + 3 * r.p
FreshRng(seed) == [s |-> seed, p |-> 0]
NoRng == [s |-> [w |-> 0, id |-> 0, h |-> 0], p |-> 0]

\* the function the property speaks of: the result of a selection run alone
Serial(i) ==
  IF i.gen # "known" THEN Err("generation")
  ELSE IF NoWeight(i.c) THEN Err("noweight")
  ELSE IF i.lv >= 2 THEN SelHkdf(i.c, i.fam, i.seed.w % TotW(i.c), i.seed.id)
  ELSE AddrLegacy(i.c, i.lv, ChooseLegacy(i.c, ValW(FreshRng(i.seed)) % TotW(i.c)), i.fam, i.seed.id,
                  ValH(FreshRng(i.seed)) % MaxSz(i.c))

\* ------------------------------------------------------------------ inputs
EnumSeeds(c, lv, fam) ==
  IF NoWeight(c) THEN {[w |-> 0, id |-> 0, h |-> 0]}
  ELSE IF lv >= 2
  THEN {[w |-> w, id |-> id, h |-> 0] : w \in 0..(TotW(c) - 1), id \in 0..(IF MaxTotal(c, fam) = 0 THEN 0 ELSE MaxTotal(c, fam) - 1)}
  ELSE {[w |-> w, id |-> id, h |-> h] : w \in 0..(TotW(c) - 1), id \in 0..(MaxTotal(c, fam) + 2), h \in 0..(MaxSz(c) - 1)}
\* rand.Int(reader, total) never returns id >= total of the chosen group
ValidSeed(c, lv, fam, s) ==
  (lv >= 2 /\ ~NoWeight(c)) => LET t == GroupTotal(c, ChooseHkdf(c, s.w), fam) IN (s.id < t \/ (t = 0 /\ s.id = 0))
EnumInputs ==
  UNION {UNION {UNION {
     {[c |-> c, lv |-> lv, fam |-> fam, gen |-> "known", seed |-> s] : s \in {s \in EnumSeeds(c, lv, fam) : ValidSeed(c, lv, fam, s)}}
       \cup {[c |-> c, lv |-> lv, fam |-> fam, gen |-> "unknown", seed |-> [w |-> 0, id |-> 0, h |-> 0]]}
     : fam \in Fams} : lv \in LibVers} : c \in CfgNames}
ProcSeed(k) == [w |-> k, id |-> 3 * k + 1, h |-> 5 * k + 2]
ProcInputs ==
  {[c |-> c, lv |-> lv, fam |-> fam, gen |-> "known", seed |-> ProcSeed(k)] :
     c \in CfgNames, lv \in LibVers, fam \in Fams, k \in ProcSeedKs}
Inputs == IF Mode = "enum" THEN EnumInputs ELSE ProcInputs

\* ------------------------------------------------------------------ behaviour
Init == /\ inp \in [Procs -> Inputs]
        /\ pc = [i \in Procs |-> "start"]
        /\ grp = [i \in Procs |-> 0]
        /\ rng = NoRng
        /\ lrng = [i \in Procs |-> NoRng]
        /\ res = [i \in Procs |-> None]
        /\ derived = [c \in CfgNames |-> <<>>]          \* every configuration object is fresh
        /\ dpc = [i \in Procs |-> "idle"]
        /\ dk = [i \in Procs |-> 0]
        /\ obs = [a |-> "Init"]

Get(i) == IF RNG = "global" THEN rng ELSE lrng[i]
Put(i, r) == IF RNG = "global" THEN rng' = r /\ UNCHANGED lrng
             ELSE lrng' = [lrng EXCEPT ![i] = r] /\ UNCHANGED rng
Finish(i, r) == /\ res' = [res EXCEPT ![i] = r]
                /\ pc' = [pc EXCEPT ![i] = "done"]
                /\ obs' = [a |-> "Select", i |-> i, inp |-> inp[i], res |-> r]

\* ---- the table derived from a configuration object
Identity(c) == [g \in 1..Len(Groups(c)) |-> g]
\* the group whose blocks and flag a selection that chose group g gets (a position not built yet is parsed by the call itself)
Via(c, g) == IF g \in 1..Len(derived[c]) THEN derived[c][g] ELSE g
\* only a weighted selection on a known generation reads the table
NeedsDerived(i) == inp[i].gen = "known" /\ ~NoWeight(inp[i].c)
Ready(i) == NeedsDerived(i) => dpc[i] = "ready"

\* first thing a selection does with the configuration object: `if table == nil`
DeriveFirstUse(i) ==
  /\ pc[i] = "start" /\ dpc[i] = "idle" /\ NeedsDerived(i)
  /\ LET c == inp[i].c IN
       IF derived[c] # <<>>
       THEN dpc' = [dpc EXCEPT ![i] = "ready"] /\ UNCHANGED <<derived, dk>>
       ELSE IF DerivedMode = "once"
       THEN /\ derived' = [derived EXCEPT ![c] = Identity(c)]
            /\ dpc' = [dpc EXCEPT ![i] = "ready"] /\ UNCHANGED dk
       ELSE dpc' = [dpc EXCEPT ![i] = "build"] /\ dk' = [dk EXCEPT ![i] = 1] /\ UNCHANGED derived
  /\ UNCHANGED <<inp, pc, grp, rng, lrng, res, obs>>

\* "lazy-unsynchronised": one `table = append(table, parse(group k))` of the selector's build loop
DeriveAppend(i) ==
  /\ dpc[i] = "build"
  /\ LET c == inp[i].c IN
       /\ derived' = [derived EXCEPT ![c] = Append(@, dk[i])]
       /\ IF dk[i] >= Len(Groups(c))
          THEN dpc' = [dpc EXCEPT ![i] = "ready"] /\ dk' = [dk EXCEPT ![i] = 0]
          ELSE dk' = [dk EXCEPT ![i] = @ + 1] /\ UNCHANGED dpc
  /\ UNCHANGED <<inp, pc, grp, rng, lrng, res, obs>>

\* unknown generation (any version) and the v2+ algorithm touch no shared state but the derived table: one step
SelectPure(i) ==
  /\ pc[i] = "start" /\ Ready(i)
  /\ inp[i].gen # "known" \/ inp[i].lv >= 2 \/ NoWeight(inp[i].c)
  /\ Finish(i, IF NeedsDerived(i)
               THEN SelHkdfG(inp[i].c, inp[i].fam, Via(inp[i].c, ChooseHkdf(inp[i].c, inp[i].seed.w % TotW(inp[i].c))), inp[i].seed.id)
               ELSE Serial(inp[i]))
  /\ UNCHANGED <<inp, grp, rng, lrng, derived, dpc, dk>>

\* compat.go getSubnetsVarint: mrand.Seed(seedInt)
Seed1(i) ==
  /\ pc[i] = "start" /\ inp[i].gen = "known" /\ inp[i].lv < 2 /\ ~NoWeight(inp[i].c) /\ Ready(i)
  /\ Put(i, FreshRng(inp[i].seed))
  /\ pc' = [pc EXCEPT ![i] = "seeded1"]
  /\ UNCHANGED <<inp, grp, res, obs, derived, dpc, dk>>

\* compat.go getSubnetsVarint: c.Pick() = rand.Intn(max)+1; then filter + id range search
Pick(i) ==
  /\ pc[i] = "seeded1"
  /\ LET r == Get(i)
         g == Via(inp[i].c, ChooseLegacy(inp[i].c, ValW(r) % TotW(inp[i].c)))    \* the chosen group's parsed form comes from the table
     IN  /\ Put(i, [r EXCEPT !.p = @ + 1])
         /\ grp' = [grp EXCEPT ![i] = g]
         /\ IF LegacyReachesRead(inp[i].c, inp[i].lv, g, inp[i].fam, inp[i].seed.id)
            THEN pc' = [pc EXCEPT ![i] = "picked"] /\ UNCHANGED <<res, obs>>
            ELSE Finish(i, AddrLegacy(inp[i].c, inp[i].lv, g, inp[i].fam, inp[i].seed.id, 0))
  /\ UNCHANGED <<inp, derived, dpc, dk>>

\* compat.go SelectAddrFromSubnet: mrand.Seed(seedInt)
Seed2(i) ==
  /\ pc[i] = "picked"
  /\ Put(i, FreshRng(inp[i].seed))
  /\ pc' = [pc EXCEPT ![i] = "seeded2"]
  /\ UNCHANGED <<inp, grp, res, obs, derived, dpc, dk>>

\* compat.go SelectAddrFromSubnet: mrand.Read(randBytes); mask; add to the block's base
Read(i) ==
  /\ pc[i] = "seeded2"
  /\ LET r == Get(i) IN
       /\ Put(i, [r EXCEPT !.p = @ + 1])
       /\ Finish(i, AddrLegacy(inp[i].c, inp[i].lv, grp[i], inp[i].fam, inp[i].seed.id, ValH(r) % MaxSz(inp[i].c)))
  /\ UNCHANGED <<inp, grp, derived, dpc, dk>>

Next == \E i \in Procs : DeriveFirstUse(i) \/ DeriveAppend(i) \/ SelectPure(i) \/ Seed1(i) \/ Pick(i) \/ Seed2(i) \/ Read(i)
Spec == Init /\ [][Next]_vars

\* ------------------------------------------------------------------ properties
Done(i) == pc[i] = "done"

TypeOK == /\ \A i \in Procs : pc[i] \in {"start", "seeded1", "picked", "seeded2", "done"}
          /\ \A i \in Procs : Done(i) <=> res[i] # None
          /\ \A i \in Procs : dpc[i] \in {"idle", "build", "ready"} /\ (dpc[i] = "build" <=> dk[i] > 0)

\* whatever the schedule of the first uses, position k of a configuration's derived table is group k
DerivedSound == \A c \in CfgNames : /\ Len(derived[c]) <= Len(Groups(c))
                                    /\ \A k \in 1..Len(derived[c]) : derived[c][k] = k

InNet(net, r) == net.fam = r.fam /\ net.hi = r.hi /\ net.base <= r.low /\ r.low < net.base + Size(net)

\* the address lies inside a configured block of the requested family (of the requested generation)
Contained == \A i \in Procs : (Done(i) /\ res[i].ok) =>
   /\ inp[i].gen = "known"
   /\ res[i].fam = inp[i].fam
   /\ \E g \in 1..Len(Groups(inp[i].c)) : \E k \in 1..Len(Nets(inp[i].c, g)) : InNet(Nets(inp[i].c, g)[k], res[i])

\* the address has the family's byte width
WellFormed == \A i \in Procs : (Done(i) /\ res[i].ok) => res[i].blen = FamW(inp[i].fam)

\* port randomisation is granted only by a block that contains the address and whose group allows it
RandPortFromSubnet == \A i \in Procs : (Done(i) /\ res[i].ok) =>
   /\ res[i].rp = Groups(inp[i].c)[res[i].g].rp
   /\ InNet(Nets(inp[i].c, res[i].g)[res[i].n], res[i])
   /\ res[i].rp => \E g \in 1..Len(Groups(inp[i].c)) : Groups(inp[i].c)[g].rp /\
                     \E k \in 1..Len(Nets(inp[i].c, g)) : InNet(Nets(inp[i].c, g)[k], res[i])

\* the result depends on the inputs alone, whatever the other selectors do
Pure == \A i \in Procs : Done(i) => res[i] = Serial(inp[i])

UnknownGenerationFails == \A i \in Procs : (Done(i) /\ inp[i].gen # "known") => ~res[i].ok

\* v1 and v2+ fail only when the chosen group has no address of the family or nothing has weight (v0 may hit its legacy bug)
NoSpuriousError == \A i \in Procs : (Done(i) /\ ~res[i].ok /\ inp[i].gen = "known" /\ inp[i].lv >= 1) => res[i].err \in {"missing", "noweight"}

\* nothing is ever selected from a configuration without weight
NoWeightFails == \A i \in Procs : (Done(i) /\ NoWeight(inp[i].c)) => ~res[i].ok

\* a zero-weight group is never chosen
ZeroWeightNeverChosen == \A i \in Procs : (Done(i) /\ res[i].ok) => Groups(inp[i].c)[res[i].g].w > 0
=============================================================================
