//go:build verif

package lib

// Driver for spec/Detector (property C10): admitted registrations of every shape are produced by the real ingest, marked
// active and finally the station is shut down (Cleanup); everything the real sendToDetector / clearDetector publish is
// captured by an in-process RESP server that stands in for Redis.  The captured payloads are written out (hex) for the
// real detector logic (src/sessions.rs behind stub crates) together with what the registration's fields are.

import (
	"bufio"
	"encoding/hex"
	"encoding/json"
	"fmt"
	"io"
	"net"
	"os"
	"strconv"
	"sync"
	"testing"
	"time"

	"context"

	"github.com/go-redis/redis/v8"
	"github.com/refraction-networking/conjure/pkg/core"
	"github.com/refraction-networking/conjure/pkg/station/log"
	"github.com/refraction-networking/conjure/pkg/transports"
	"github.com/refraction-networking/conjure/pkg/transports/wrapping/min"
	"github.com/refraction-networking/conjure/pkg/transports/wrapping/obfs4"
	"github.com/refraction-networking/conjure/pkg/transports/wrapping/prefix"
	pb "github.com/refraction-networking/conjure/proto"
	"google.golang.org/protobuf/proto"
	"google.golang.org/protobuf/types/known/anypb"
)

// ---- minimal RESP server: PING, PUBLISH (and whatever else go-redis sends at connection set-up)
type vresp struct {
	ln   net.Listener
	mu   sync.Mutex
	pubs [][]byte
}

func vrespStart(t testing.TB) *vresp {
	ln, err := net.Listen("tcp", "127.0.0.1:0")
	if err != nil {
		t.Fatalf("resp listen: %v", err)
	}
	s := &vresp{ln: ln}
	go func() {
		for {
			c, err := ln.Accept()
			if err != nil {
				return
			}
			go s.serve(c)
		}
	}()
	return s
}

func (s *vresp) serve(c net.Conn) {
	defer c.Close()
	r := bufio.NewReader(c)
	for {
		line, err := r.ReadString('\n')
		if err != nil || len(line) < 3 || line[0] != '*' {
			return
		}
		n, _ := strconv.Atoi(line[1 : len(line)-2])
		args := make([][]byte, 0, n)
		for i := 0; i < n; i++ {
			l, err := r.ReadString('\n')
			if err != nil || l[0] != '$' {
				return
			}
			sz, _ := strconv.Atoi(l[1 : len(l)-2])
			b := make([]byte, sz+2)
			if _, err := io.ReadFull(r, b); err != nil {
				return
			}
			args = append(args, b[:sz])
		}
		if len(args) == 0 {
			return
		}
		switch string(args[0]) {
		case "ping", "PING":
			c.Write([]byte("+PONG\r\n"))
		case "publish", "PUBLISH":
			if len(args) == 3 {
				s.mu.Lock()
				s.pubs = append(s.pubs, append([]byte(nil), args[2]...))
				s.mu.Unlock()
			}
			c.Write([]byte(":1\r\n"))
		default:
			c.Write([]byte("+OK\r\n"))
		}
	}
}

func (s *vresp) count() int {
	s.mu.Lock()
	defer s.mu.Unlock()
	return len(s.pubs)
}

// a UDP transport (the station's DTLS transport needs a DNAT device and a UDP listener; what matters here is GetProto)
type vudpTransport struct{ min.Transport }

func (vudpTransport) Name() string         { return "verif-udp" }
func (vudpTransport) GetProto() pb.IPProto { return pb.IPProto_Udp }
func (vudpTransport) GetIdentifier(d transports.Registration) string {
	return string(core.ConjureHMAC(d.SharedSecret(), "verifUdpTransport"))
}

func TestVerifDetectorAnnouncements(t *testing.T) {
	out := vOpenOut(t)
	defer out.Close()
	os.Setenv("PHANTOM_SUBNET_LOCATION", vingSubnetFile(t))
	srv := vrespStart(t)
	// point the station's Redis client at the stand-in (the address is hard-coded in initRedisClient)
	once.Do(func() {})
	client = redis.NewClient(&redis.Options{Addr: srv.ln.Addr().String(), PoolSize: 1})
	if _, err := client.Ping(context.Background()).Result(); err != nil {
		t.Fatalf("stand-in redis: %v", err)
	}

	rm := NewRegistrationManager(&RegConfig{EnableIPv4: true, EnableIPv6: true})
	rm.Logger = log.New(io.Discard, "", 0)
	rm.LivenessTester = &vingLive{}
	priv := [32]byte{1, 2, 3}
	pt, err := prefix.Default([][32]byte{priv})
	if err != nil {
		t.Fatal(err)
	}
	_ = rm.AddTransport(pb.TransportType_Min, min.Transport{})
	_ = rm.AddTransport(pb.TransportType_Obfs4, obfs4.Transport{})
	_ = rm.AddTransport(pb.TransportType_Prefix, pt)
	_ = rm.AddTransport(pb.TransportType_DTLS, vudpTransport{})

	type shape struct {
		tr         pb.TransportType
		v6         bool
		registrant string
		portOv     int    // registrar destination-port override (0 none)
		ipOv       string // registrar phantom override ("" none)
		ip6raw     []byte // raw bytes put into the response's ipv6addr field (family-mismatched overrides)
		mayRefuse  bool   // the station may refuse this message; if it admits it, its announcements must be acceptable
	}
	shapes := []shape{}
	for _, tr := range []pb.TransportType{pb.TransportType_Min, pb.TransportType_Obfs4, pb.TransportType_Prefix, pb.TransportType_DTLS} {
		for _, v6 := range []bool{false, true} {
			regs := []string{"v4", "v4mapped"}
			if v6 {
				regs = []string{"absent", "v4", "v6", "v4mapped"}
			}
			for _, rg := range regs {
				shapes = append(shapes, shape{tr: tr, v6: v6, registrant: rg})
			}
		}
	}
	shapes = append(shapes, shape{tr: pb.TransportType_Min, registrant: "v4", portOv: 8443}, shape{tr: pb.TransportType_Min, v6: true, registrant: "absent", portOv: 51234},
		shape{tr: pb.TransportType_Prefix, registrant: "v4", ipOv: "192.122.190.77"}, shape{tr: pb.TransportType_Min, v6: true, registrant: "v6", ipOv: "2001:48a8:687f:1::77"},
		shape{tr: pb.TransportType_Obfs4, registrant: "v4mapped", portOv: 1022, ipOv: "192.122.190.78"})
	// registrar overrides whose address family does not fit the registration / the registrant: an IPv4 address (v4-mapped 16 bytes, or
	// 4 raw bytes) in the IPv6 override field.  Refusing the message is fine; announcing something the detector rejects is not.
	for _, rg := range []string{"absent", "v6", "v4", "v4mapped"} {
		shapes = append(shapes, shape{tr: pb.TransportType_Min, v6: true, registrant: rg, ip6raw: net.ParseIP("192.0.2.7").To16(), mayRefuse: true},
			shape{tr: pb.TransportType_Prefix, v6: true, registrant: rg, ip6raw: net.ParseIP("192.0.2.8").To4(), mayRefuse: true, portOv: 8080})
	}

	emitNew := func(i int, sh shape, reg *DecoyRegistration, op string, before int) bool {
		deadline := time.Now().Add(2 * time.Second)
		for srv.count() <= before && time.Now().Before(deadline) {
			time.Sleep(100 * time.Microsecond)
		}
		srv.mu.Lock()
		defer srv.mu.Unlock()
		if len(srv.pubs) != before+1 {
			out.Emit(map[string]any{"kind": "nopublish", "shape": fmt.Sprint(sh), "op": op, "published": len(srv.pubs) - before})
			return false
		}
		p := srv.pubs[before]
		var registrant string
		switch sh.registrant {
		case "v4", "v4mapped":
			registrant = "198.51.100.7"
		case "v6":
			registrant = "2001:db8::7"
		}
		lifetime := defaultUnusedTimeout
		if op == "Update" {
			lifetime = defaultActiveTimeout
		}
		out.Emit(map[string]any{"kind": "publish", "n": before + 1, "hex": hex.EncodeToString(p), "op": op, "id": fmt.Sprintf("r%d", i),
			"reg": map[string]any{"phantom": reg.PhantomIp.String(), "v6": reg.PhantomIp.To4() == nil, "port": int(reg.PhantomPort),
				"proto": reg.PhantomProto.String(), "registrant": registrant, "registrant_class": sh.registrant, "transport": sh.tr.String()},
			"station_lifetime_ns": lifetime.Nanoseconds()})
		return true
	}

	for i, sh := range shapes {
		var regs []*DecoyRegistration
		var err error
		// the test subnet file's second weighted group has no IPv6 subnet: some secrets cannot get an IPv6 phantom; try others
		for attempt := 0; attempt < 40; attempt++ {
			secret := vSecret(fmt.Sprintf("det-%d-%d", i, attempt))
			gen := uint32(957)
			ver := core.CurrentClientLibraryVersion()
			c4, c6, tr := !sh.v6, sh.v6, true
			covert := "192.0.2.5:443"
			tt := sh.tr
			c2s := &pb.ClientToStation{Transport: &tt, DecoyListGeneration: &gen, ClientLibVersion: &ver, V4Support: &c4, V6Support: &c6,
				CovertAddress: &covert, Flags: &pb.RegistrationFlags{Prescanned: &tr}}
			if sh.tr == pb.TransportType_Prefix {
				id, fl := int32(1), false
				c2s.TransportParams, _ = anypb.New(&pb.PrefixTransportParams{PrefixId: &id, RandomizeDstPort: &fl})
			}
			src := pb.RegistrationSource_API
			w := &pb.C2SWrapper{SharedSecret: secret, RegistrationPayload: c2s, RegistrationSource: &src}
			switch sh.registrant {
			case "v4":
				w.RegistrationAddress = net.ParseIP("198.51.100.7").To4()
			case "v6":
				w.RegistrationAddress = net.ParseIP("2001:db8::7")
			case "v4mapped":
				w.RegistrationAddress = net.ParseIP("198.51.100.7").To16()
			}
			if sh.portOv != 0 || sh.ipOv != "" || sh.ip6raw != nil {
				rr := &pb.RegistrationResponse{}
				if sh.ip6raw != nil {
					rr.Ipv6Addr = sh.ip6raw
				}
				if sh.portOv != 0 {
					rr.DstPort = proto.Uint32(uint32(sh.portOv))
				}
				if ip := net.ParseIP(sh.ipOv); ip != nil {
					if v4 := ip.To4(); v4 != nil {
						rr.Ipv4Addr = proto.Uint32(uint32(v4[0])<<24 | uint32(v4[1])<<16 | uint32(v4[2])<<8 | uint32(v4[3]))
					} else {
						rr.Ipv6Addr = ip.To16()
					}
				}
				w.RegistrationResponse = rr
			}
			raw, _ := proto.Marshal(w)
			regs, err = rm.parseRegMessage(raw)
			if err == nil && len(regs) == 1 {
				break
			}
		}
		if err != nil || len(regs) != 1 {
			if sh.mayRefuse {
				out.Emit(map[string]any{"kind": "refused", "shape": fmt.Sprint(sh), "err": fmt.Sprint(err)})
				continue
			}
			out.Emit(map[string]any{"kind": "notadmitted", "shape": fmt.Sprint(sh), "err": fmt.Sprint(err)})
			continue
		}
		before := srv.count()
		rm.ingestRegistration(regs[0])
		if len(rm.GetRegistrations(regs[0].PhantomIp)) == 0 {
			if sh.mayRefuse {
				out.Emit(map[string]any{"kind": "refused", "shape": fmt.Sprint(sh), "err": "not visible after ingest"})
				continue
			}
			out.Emit(map[string]any{"kind": "notadmitted", "shape": fmt.Sprint(sh), "err": "not visible after ingest"})
			continue
		}
		if !emitNew(i, sh, regs[0], "New", before) {
			continue
		}
		// a connection uses every other registration
		if i%2 == 0 {
			before = srv.count()
			rm.MarkActive(regs[0])
			emitNew(i, sh, regs[0], "Update", before)
		}
	}
	// shutdown
	before := srv.count()
	rm.Cleanup()
	deadline := time.Now().Add(2 * time.Second)
	for srv.count() <= before && time.Now().Before(deadline) {
		time.Sleep(100 * time.Microsecond)
	}
	srv.mu.Lock()
	if len(srv.pubs) == before+1 {
		out.Emit(map[string]any{"kind": "publish", "n": before + 1, "hex": hex.EncodeToString(srv.pubs[before]), "op": "Clear", "id": "clear"})
	} else {
		out.Emit(map[string]any{"kind": "nopublish", "op": "Clear", "published": len(srv.pubs) - before})
	}
	srv.mu.Unlock()
	out.Emit(map[string]any{"kind": "summary", "shapes": len(shapes), "published": srv.count()})
}

// ---------------------------------------------------------------- lifetime histories (Detector.tla: Duplicate, TickBy, StState)
//
// TestVerifDetectorLifetime replays TLC-generated histories over two registrations (a: IPv4 phantom, b: IPv6 phantom) on the real
// station: Validate = the registration MESSAGE through parseRegMessage + ingestRegistration, Dup = the same message again (ingest
// treats it as a duplicate: nothing may change, nothing is published), Activate = MarkActive of the tracked registration,
// Tick(d) = every expiry record back-dated by d seconds followed by the sweep.  Every published message is recorded with the
// logical time at which it was sent (the detector harness applies it under that clock), and after every operation the REAL
// station's view of both registrations (tracked at all, marked used) is recorded for Trace_Detector.
func TestVerifDetectorLifetime(t *testing.T) {
	out := vOpenOut(t)
	defer out.Close()
	os.Setenv("PHANTOM_SUBNET_LOCATION", vingSubnetFile(t))
	srv := vrespStart(t)
	once.Do(func() {})
	client = redis.NewClient(&redis.Options{Addr: srv.ln.Addr().String(), PoolSize: 1})
	if _, err := client.Ping(context.Background()).Result(); err != nil {
		t.Fatalf("stand-in redis: %v", err)
	}
	type regdef struct {
		id         string
		v6         bool
		registrant net.IP
		regtxt     string
		regclass   string
	}
	defs := map[string]regdef{"a": {"a", false, net.ParseIP("198.51.100.7").To4(), "198.51.100.7", "v4"}, "b": {"b", true, net.ParseIP("2001:db8::7"), "2001:db8::7", "v6"}}
	nbeh := 0
	vReadLines(t, func(line []byte) {
		var ops []struct {
			A  string `json:"a"`
			ID string `json:"id"`
			Op string `json:"op"`
			D  int64  `json:"d"`
		}
		if err := json.Unmarshal(line, &ops); err != nil {
			t.Fatalf("behaviour: %v", err)
		}
		nbeh++
		// a station "process" as cmd/application/main.go runs it: the ingest pipeline (HandleRegUpdates) lives under the process
		// context; a graceful shutdown is  cancel(); wg.Wait(); then the deferred regManager.Cleanup()  - in that order
		var stopPipeline func()
		newStation := func() *RegistrationManager {
			if stopPipeline != nil {
				stopPipeline()
			}
			rm := NewRegistrationManager(&RegConfig{EnableIPv4: true, EnableIPv6: true})
			rm.Logger = log.New(io.Discard, "", 0)
			rm.LivenessTester = &vingLive{}
			rm.IngestWorkerCount = 10
			_ = rm.AddTransport(pb.TransportType_Min, min.Transport{})
			ctx, cancel := context.WithCancel(context.Background())
			wg := new(sync.WaitGroup)
			wg.Add(1)
			regChan := make(chan interface{})
			go rm.HandleRegUpdates(ctx, regChan, wg)
			stopPipeline = func() { cancel(); wg.Wait(); stopPipeline = nil }
			// the pipeline is up before the first registration (main.go starts it before the ZMQ ingester delivers anything): an
			// unparsable message is taken off the unbuffered channel only by the running distributor loop (a worker then drops it)
			regChan <- []byte{0xff}
			return rm
		}
		rm := newStation()
		// messages of the two registrations of this behaviour (secrets for which the selection in their family works)
		raws := map[string][]byte{}
		phantoms := map[string]net.IP{}
		info := []map[string]any{}
		for _, id := range []string{"a", "b"} {
			d := defs[id]
			for attempt := 0; attempt < 60; attempt++ {
				secret := vSecret(fmt.Sprintf("life-%d-%s-%d", nbeh, id, attempt))
				gen := uint32(957)
				ver := core.CurrentClientLibraryVersion()
				c4, c6, tr := !d.v6, d.v6, true
				covert := "192.0.2.5:443"
				tt := pb.TransportType_Min
				c2s := &pb.ClientToStation{Transport: &tt, DecoyListGeneration: &gen, ClientLibVersion: &ver, V4Support: &c4, V6Support: &c6,
					CovertAddress: &covert, Flags: &pb.RegistrationFlags{Prescanned: &tr}}
				src := pb.RegistrationSource_API
				raw, _ := proto.Marshal(&pb.C2SWrapper{SharedSecret: secret, RegistrationPayload: c2s, RegistrationSource: &src, RegistrationAddress: d.registrant})
				regs, err := rm.parseRegMessage(raw)
				if err == nil && len(regs) == 1 {
					raws[id], phantoms[id] = raw, regs[0].PhantomIp
					info = append(info, map[string]any{"id": id, "phantom": regs[0].PhantomIp.String(), "v6": d.v6, "port": int(regs[0].PhantomPort),
						"proto": regs[0].PhantomProto.String(), "registrant": d.regtxt, "registrant_class": d.regclass})
					break
				}
			}
			if raws[id] == nil {
				t.Fatalf("no usable secret for registration %s", id)
			}
		}
		evs := []map[string]any{{"a": "Regs", "regs": info}}
		var clock int64
		state := func() {
			tr, us := map[string]bool{}, map[string]bool{}
			for _, id := range []string{"a", "b"} {
				tr[id] = rm.CountRegistrations(phantoms[id]) > 0
				us[id] = false
				for _, to := range rm.registeredDecoys.decoysTimeouts {
					if to.decoy == phantoms[id].String() && to.status == regStatusUsed {
						us[id] = true
					}
				}
			}
			evs = append(evs, map[string]any{"a": "StState", "tracked": tr, "used": us})
		}
		pubWait := 2 * time.Second
		waitPub := func(before, want int) [][]byte {
			deadline := time.Now().Add(pubWait)
			for srv.count() < before+want && time.Now().Before(deadline) {
				time.Sleep(100 * time.Microsecond)
			}
			if want == 0 {
				time.Sleep(3 * time.Millisecond)
			}
			srv.mu.Lock()
			defer srv.mu.Unlock()
			return append([][]byte(nil), srv.pubs[before:]...)
		}
		for _, op := range ops {
			before := srv.count()
			switch op.A {
			case "Packets":
				// detector side only: every session it tracks forwards a packet at this time (applied by the detector harness)
				evs = append(evs, map[string]any{"a": "Packets", "clock": clock})
			case "Crash":
				// the station process dies without Cleanup and is started again: a new manager, the same detector
				rm = newStation()
				evs = append(evs, map[string]any{"a": "Crash"})
			case "NoClear":
				t.Fatalf("the specification of the intended station never shuts down without a Clear")
			case "Publish":
				if op.Op == "Clear" {
					// graceful shutdown (main.go: cancel(); wg.Wait(); deferred regManager.Cleanup())
					stopPipeline()
					rm.Cleanup()
					pubWait = 250 * time.Millisecond // clearDetector publishes synchronously: what was not sent when Cleanup returned never will be
					got := waitPub(before, 1)
					pubWait = 2 * time.Second
					for _, p := range got {
						evs = append(evs, map[string]any{"a": "Publish", "id": "clear", "op": "Clear", "hex": hex.EncodeToString(p), "clock": clock})
					}
					if len(got) != 1 {
						evs = append(evs, map[string]any{"a": "PublishCount", "id": "clear", "op": "Clear", "n": len(got), "clock": clock})
					}
					rm = newStation() // whatever comes later is another process
					break
				}
				if op.Op == "New" {
					regs, err := rm.parseRegMessage(raws[op.ID])
					if err != nil || len(regs) != 1 {
						t.Fatalf("message of %s no longer parses: %v", op.ID, err)
					}
					rm.ingestRegistration(regs[0])
				} else {
					for _, r := range vMapAs[*DecoyRegistration](rm.registeredDecoys.getRegistrations(phantoms[op.ID])) {
						rm.MarkActive(r)
					}
				}
				got := waitPub(before, 1)
				for _, p := range got {
					evs = append(evs, map[string]any{"a": "Publish", "id": op.ID, "op": op.Op, "hex": hex.EncodeToString(p), "clock": clock})
				}
				if len(got) != 1 {
					evs = append(evs, map[string]any{"a": "PublishCount", "id": op.ID, "op": op.Op, "n": len(got)})
				}
			case "Dup":
				regs, err := rm.parseRegMessage(raws[op.ID])
				if err != nil || len(regs) != 1 {
					t.Fatalf("message of %s no longer parses: %v", op.ID, err)
				}
				rm.ingestRegistration(regs[0])
				got := waitPub(before, 0)
				evs = append(evs, map[string]any{"a": "Dup", "id": op.ID})
				for _, p := range got {
					evs = append(evs, map[string]any{"a": "Publish", "id": op.ID, "op": "unexpected", "hex": hex.EncodeToString(p), "clock": clock})
				}
			case "Tick":
				rm.registeredDecoys.m.Lock()
				for _, to := range rm.registeredDecoys.decoysTimeouts {
					to.registrationTime = to.registrationTime.Add(-time.Duration(op.D) * time.Second)
				}
				rm.registeredDecoys.m.Unlock()
				clock += op.D
				rm.RemoveOldRegistrations()
				evs = append(evs, map[string]any{"a": "Tick", "d": op.D, "clock": clock})
			}
			state()
		}
		if stopPipeline != nil {
			stopPipeline()
		}
		out.Emit(map[string]any{"kind": "history", "n": nbeh, "events": evs})
	})
	out.Emit(map[string]any{"kind": "summary", "behaviours": nbeh})
}
