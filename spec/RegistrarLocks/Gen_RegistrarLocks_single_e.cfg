SPECIFICATION GenSpec
CONSTANTS
  ReqV4 = {}
  ReqV6 = {}
  ReqDual = {}
  ReqFail = {"u1"}
  ReqFail6 = {"w1"}
  ErrorPath = "plain"
  Reloads = {"m1", "m2"}
  ToB = {"m1"}
  Bad = {}
  ReloadOrder = "load-first"
  Protocol = "single"
INVARIANT Emit
CHECK_DEADLOCK FALSE
