SPECIFICATION GenSpec
CONSTANTS
  Acceptors = {"a1", "a2", "a3"}
  Dialers = {"d1", "d2", "d3"}
  Secrets = {"s1", "s2", "s3"}
  AllowForged = TRUE
  KeyMode = "random"
  CertMode = "checked"
  Defers = "lifo"
  Depth = 36
  MaxForged = 1
INVARIANT Emit
CHECK_DEADLOCK FALSE
