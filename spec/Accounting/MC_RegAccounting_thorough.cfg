\* as found, both families, one free call, one print
SPECIFICATION Spec
CONSTANTS
  Regs = {"r1", "r2"}
  Srcs = {"detector", "api"}
  RFams = {"v4", "v6"}
  Gens = {"g1"}
  TTs = {"min"}
  LVs = {"l1"}
  Variant = "as_found"
  Broken = "none"
  MapWindow = TRUE
  MaxPrints = 1
  MaxFree = 1
VIEW view
CONSTRAINT Canon
INVARIANTS TypeOK ActiveExact TotalsExact Breakdowns NoDoubleCount
PROPERTIES PrintKeepsGauges
CHECK_DEADLOCK FALSE
