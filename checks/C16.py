"""C16 - DTLS sessions: same secret on both ends, right acceptor, faithful byte stream.

Three sub-models (DESIGN.md section 4, C16) plus the certificate derivation:

 1. spec/DtlsListener   connMap / connToCert, acceptors (registerCert, registerChannel, wait, deferred removals),
                        handshakes (hello, verify, lookup, deliver), cancellation at any pc, forged dialers.
    A  TLC exhaustive: NoCrossDelivery, OnlyMatchingCompletes, NothingLeftRegistered,
       DuplicateSecretDoesNotDisturbFirst (+ EntriesHaveOwners, DeliveredOnce); three broken instances must fail.
    B  scenarios = external part of simulated TLC behaviours, run on a real Listener (loopback UDP, real
       DialWithContext / AcceptWithContext, several scenarios share one listener); invariants checked on what
       actually happened (secret-tagged message over every accepted connection, maps read in-package).
    C  start/end-of-call logs of every scenario validated by Trace_DtlsListener (handshake internals silent).
 2. spec/SctpStream/SctpStream   msgStream -> hbConn.recvLoop -> recvCh -> hbConn.Read -> SCTPConn.Read(bufLen).
    A  StreamFidelity, HeartbeatsNeverSurface, ErrorAfterItsData, NoSpuriousError (+ ErrorSticky ...); the
       as-implemented (pre-repair) instance must violate ErrorAfterItsData.
    B  EVERY behaviour TLC generates is replayed on the real hbConn + SCTPConn over a scripted msgStream with the
       same constants (maxMessageSize = M = 3; simulated ones with M = 5, 8).  SLOW READER (Gen_SctpBacklog): the
       reader stalls until 2 .. Cap+1 messages wait unread (Cap = the real recvChBufSize: queue full + the message
       recvLoop holds in its blocked send), heartbeats interleaved, then reads and arrivals interleave and all is
       read out.  Receive buffers have an identity in the model (BufMode "fresh" | "ring"): an instance that
       recycles Cap buffers must violate StreamFidelity / HeartbeatsNeverSurface.
    C  seeded random histories at the production size (65536, production heartbeat payload) -> Trace_SctpStream.
 3. spec/SctpStream/SctpWrite, HbWatchdog   write flow control (bound = limit + one maximal write) and the
    heartbeat watchdog (dead peer closes within 2 intervals, never while heartbeats keep arriving); every generated
    behaviour replayed on the real code (scripted stream, 64 KiB units; 50 ms heartbeat interval).
 +  certsFromSeed / clientHelloRandomFromSeed on sampled secrets.

The specifications model the INTENDED behaviour; a divergence of the real code is judged by a property-level oracle
in the driver (bytes returned vs bytes fed, observed timeline, tags read) - only those are violations.  A divergence
of the projected state without any property-level consequence means the model misrepresents the code (exit 2).
"""
import json, os, re, copy, threading, time, hashlib
import vlib

PKG = "pkg/dtls"
COMMON = "common/vcommon_test.go"
FILES = [COMMON, "pkg_dtls/stream_verif_test.go", "pkg_dtls/session_verif_test.go", "pkg_dtls/listener_verif_test.go",
         "pkg_dtls/setup_verif_test.go"]


class Par:
    """run ctx.tlc calls in background threads (TLC is a subprocess; starts are staggered because vlib names
    its output files by a millisecond stamp)"""
    lock = threading.Lock()

    def __init__(self):
        self.th = []

    def go(self, name, fn, *a, **kw):
        box = {"name": name}

        def run():
            try:
                box["r"] = fn(*a, **kw)
            except BaseException as e:  # noqa
                box["e"] = e
        t = threading.Thread(target=run)
        with Par.lock:
            time.sleep(0.03)
            t.start()
        self.th.append((t, box))
        return box

    def join(self):
        for t, box in self.th:
            t.join()
        for t, box in self.th:
            if "e" in box:
                raise box["e"]
        self.th = []


def expect_inv(r, inv, what):
    if r["inv"] != inv:
        raise vlib.InfraError("%s should violate %s, got %s" % (what, inv, r["inv"]))


def run(ctx):
    thorough = ctx.tier == "thorough"
    ncpu = os.cpu_count() or 4
    # vlib names TLC's output file by a millisecond stamp: keep the starts of concurrent runs a few ms apart
    raw_tlc = ctx.tlc

    def spaced_tlc(*a, **kw):
        with Par.lock:
            time.sleep(0.005)
        return raw_tlc(*a, **kw)
    ctx.tlc = spaced_tlc
    sS = ctx.spec_copy("SctpStream")
    sL = ctx.spec_copy("DtlsListener")
    bg = Par()

    # ------------------------------------------------------------------ A (listener MC runs in the background)
    mcL = bg.go("L", ctx.tlc, sL, "DtlsListener.tla", "MC_DtlsListener_thorough.cfg" if thorough else "MC_DtlsListener.cfg",
                workers=min(8, ncpu), timeout=3000 if thorough else 900)
    # small ones, sequential-ish in a second lane
    def small_runs():
        res = {}
        res["stream"] = ctx.tlc(sS, "SctpStream.tla", "MC_SctpStream_thorough.cfg" if thorough else "MC_SctpStream.cfg", workers=4, timeout=900)
        res["stream_asimpl"] = ctx.tlc(sS, "SctpStream.tla", "MC_SctpStream_asimpl.cfg", workers=2, timeout=300, count=False)
        res["stream_asimpl2"] = ctx.tlc(sS, "SctpStream.tla", "MC_SctpStream_asimpl2.cfg", workers=2, timeout=300, count=False)
        res["stream_ring"] = ctx.tlc(sS, "SctpStream.tla", "MC_SctpStream_ring.cfg", workers=2, timeout=300, count=False)
        res["stream_ringhb"] = ctx.tlc(sS, "SctpStream.tla", "MC_SctpStream_ringhb.cfg", workers=2, timeout=300, count=False)
        res["stream_ringsafe"] = ctx.tlc(sS, "SctpStream.tla", "MC_SctpStream_ringsafe.cfg", workers=2, timeout=300)
        res["write"] = ctx.tlc(sS, "SctpWrite.tla", "MC_SctpWrite.cfg", workers=4, timeout=600)
        res["write_nowait"] = ctx.tlc(sS, "SctpWrite.tla", "MC_SctpWrite_nowait.cfg", workers=2, timeout=300, count=False)
        res["hb"] = ctx.tlc(sS, "HbWatchdog.tla", "MC_HbWatchdog.cfg", workers=2, timeout=300)
        res["hb_unarmed"] = ctx.tlc(sS, "HbWatchdog.tla", "MC_HbWatchdog_unarmed.cfg", workers=2, timeout=300, count=False)
        res["hb_dataok"] = ctx.tlc(sS, "HbWatchdog.tla", "MC_HbWatchdog_dataok.cfg", workers=2, timeout=300, count=False)
        res["L_anykey"] = ctx.tlc(sL, "DtlsListener.tla", "MC_DtlsListener_anykey.cfg", workers=2, timeout=300, count=False)
        res["L_unchecked"] = ctx.tlc(sL, "DtlsListener.tla", "MC_DtlsListener_unchecked.cfg", workers=2, timeout=300, count=False)
        res["L_nodefer"] = ctx.tlc(sL, "DtlsListener.tla", "MC_DtlsListener_nodefer.cfg", workers=2, timeout=300, count=False)
        return res
    mcS = bg.go("S", small_runs)

    # ------------------------------------------------------------------ behaviour generation (foreground)
    gen = Par()
    g_s2 = gen.go("s2", ctx.tlc, sS, "Gen_SctpStream.tla", "Gen_SctpStream_exh2.cfg", workers=4, timeout=900, count=False)
    g_s3 = gen.go("s3", ctx.tlc, sS, "Gen_SctpStream.tla", "Gen_SctpStream_exh3t.cfg" if thorough else "Gen_SctpStream_exh3.cfg",
                  workers=6, timeout=3000, count=False)
    nsim = 20000 if thorough else 1500
    g_m5 = gen.go("m5", ctx.tlc, sS, "Gen_SctpStream.tla", "Gen_SctpStream_sim5.cfg", workers=2, timeout=900, count=False,
                  simulate="num=%d" % nsim, depth=41, deadlock=False, extra=["-seed", str(ctx.seed)])
    g_m8 = gen.go("m8", ctx.tlc, sS, "Gen_SctpStream.tla", "Gen_SctpStream_sim8.cfg", workers=2, timeout=900, count=False,
                  simulate="num=%d" % nsim, depth=41, deadlock=False, extra=["-seed", str(ctx.seed + 1000)])
    # slow reader: long behaviours (the real queue capacity cannot be made small), sampled; goal level and errOK are
    # chosen in the initial state
    nslow = 1500 if thorough else 120
    g_bl = gen.go("bl", ctx.tlc, sS, "Gen_SctpBacklog.tla", "Gen_SctpBacklog.cfg", workers=2, timeout=1500, count=False,
                  simulate="num=%d" % nslow, depth=421, deadlock=False, extra=["-seed", str(ctx.seed + 2000)])
    g_w = gen.go("w", ctx.tlc, sS, "Gen_SctpWrite.tla", "Gen_SctpWrite.cfg", workers=4, timeout=900, count=False)
    # directed at the overshoot: long enough (7 driver actions) for fill - drain - refill - write through on the stale token
    # (buffered > limit) - NEXT write, which must be held back
    g_wo = gen.go("wo", ctx.tlc, sS, "Gen_SctpWrite.tla", "Gen_SctpWrite_over_thorough.cfg" if thorough else "Gen_SctpWrite_over.cfg",
                  workers=4, timeout=900, count=False)
    g_h = gen.go("h", ctx.tlc, sS, "Gen_HbWatchdog.tla", "Gen_HbWatchdog_thorough.cfg" if thorough else "Gen_HbWatchdog.cfg",
                 workers=2, timeout=300, count=False)
    nscen = 1200 if thorough else 96
    g_l = gen.go("l", ctx.tlc, sL, "Gen_DtlsListener.tla", "Gen_DtlsListener_sim.cfg", workers=2, timeout=900, count=False,
                 simulate="num=%d" % (nscen * 6), depth=70, deadlock=False, extra=["-seed", str(ctx.seed)])
    gen.join()
    for b in (g_s2, g_s3, g_m5, g_m8, g_bl, g_w, g_wo, g_h, g_l):
        if b["r"]["inv"]:
            raise vlib.InfraError("generator %s failed: %s" % (b["name"], b["r"]["out"][-1500:]))

    # ------------------------------------------------------------------ 2. read path: B (replay every behaviour)
    prop_viol = []   # (key, what, detail) from the property-level oracles
    shape = []       # divergences of the projected state only

    def dedup(files, path, cap=None, pick=None):
        seen, n = set(), 0
        with open(path, "w") as fo:
            for fn in files:
                with open(fn) as fi:
                    for line in fi:
                        h = hashlib.md5(line.encode()).digest()
                        if h in seen:
                            continue
                        seen.add(h)
                        if pick is not None and not pick(h):
                            continue
                        fo.write(line)
                        n += 1
                        if cap and n >= cap:
                            return n
        return n

    stream_sets = [("M3", 3, [g_s2["r"]["beh_file"], g_s3["r"]["beh_file"]]), ("M5", 5, [g_m5["r"]["beh_file"]]),
                   ("M8", 8, [g_m8["r"]["beh_file"]]), ("M3slow", 3, [g_bl["r"]["beh_file"]])]
    spec_cap = int(re.search(r"^\s*Cap\s*=\s*(\d+)", open(os.path.join(sS, "Gen_SctpBacklog.cfg")).read(), re.M).group(1))
    slow = {"capacity": spec_cap, "behaviours": 0, "queue_full": 0, "held": 0, "held_error": 0, "heartbeat_on_full_queue": 0, "arrival_on_full_queue": 0,
            "messages_beyond_capacity": 0, "levels": {}}
    stream_beh = stream_steps = 0
    stream_nontrivial = 0
    for tag, m, files in stream_sets:
        path = os.path.join(ctx.scratch, "stream_beh_%s.ndjson" % tag)
        n = dedup(files, path)
        if n < (1000 if tag == "M3" else 100):   # (M3slow: at least 100 of the 240 / 3 000 sampled)
            raise vlib.InfraError("too few stream behaviours generated for %s: %d" % (tag, n))
        outp = os.path.join(ctx.scratch, "stream_replay_%s.ndjson" % tag)
        res = ctx.go_test(PKG, FILES, "dtls", "^TestVerifStreamReplay$", env={"VERIF_IN": path, "VERIF_OUT": outp, "VERIF_M": m},
                          timeout=3000)
        rows = ctx.read_results(outp)
        summ = [x for x in rows if x.get("kind") == "summary"]
        if not summ:
            raise vlib.InfraError("stream replay driver did not finish:\n" + res["out"][-3000:])
        summ = summ[0]
        if summ.get("recvch_cap") != spec_cap:
            raise vlib.InfraError("the real receive queue holds %s messages, the specification's Cap is %d: the model misrepresents the code "
                                  "(set Cap in spec/SctpStream/*.cfg)" % (summ.get("recvch_cap"), spec_cap))
        stream_beh += summ["behaviours"]
        stream_steps += summ["steps"]
        for r in rows:
            if r.get("kind") != "mismatch":
                continue
            if r.get("prop"):
                prop_viol.append(stream_violation(r))
            else:
                shape.append(("stream", r))
        # non-trivial: at least one data-bearing item and one read
        with open(path) as f:
            for i, line in enumerate(f):
                b = json.loads(line)
                if tag == "M3slow":
                    slow_features(b, slow)
                    if i == 7:
                        ctx.sample({"stage": "B stream, slow reader", "M": m, "behaviour": compress_ops([fmt_stream(x) for x in b])})
                if any(x["a"] == "Feed" and x["n"] > 0 for x in b) and any(x["a"] in ("Read", "ReadStart") for x in b):
                    stream_nontrivial += 1
                if tag == "M3" and i in (5, 20011):
                    ctx.sample({"stage": "B stream", "M": m, "behaviour": [fmt_stream(x) for x in b]})
        ctx.stage("B_stream_" + tag, behaviours=summ["behaviours"], steps=summ["steps"], mismatches=summ["mismatches"],
                  property_level=summ["property"], shape_only=summ["shape"], truncated=summ["truncated"])
        ctx.log("B stream %s: %d behaviours, %d steps, %d property-level / %d shape-only divergences" %
                (tag, summ["behaviours"], summ["steps"], summ["property"], summ["shape"]))
    # the slow-reader class must really be in the replayed set: queue full, a message held by recvLoop, a heartbeat and
    # a message arriving on the full queue, an error held behind the backlog, more messages in total than the queue holds
    for need, least in (("queue_full", 20), ("held", 20), ("heartbeat_on_full_queue", 5), ("arrival_on_full_queue", 20),
                        ("messages_beyond_capacity", 20), ("held_error", 1)):
        if slow[need] < least:
            raise vlib.InfraError("slow-reader behaviours are vacuous: %s in %d of %d behaviours (need %d): %s" %
                                  (need, slow[need], slow["behaviours"], least, slow))
    ctx.stage("B_stream_slow_reader", **slow)
    ctx.log("B stream slow reader: %s" % json.dumps(slow))

    # ------------------------------------------------------------------ 3a. write flow control: B
    pathw = os.path.join(ctx.scratch, "write_beh.ndjson")
    capw = None if thorough else 20000
    modw = 1 if thorough else 3
    nw = dedup([g_w["r"]["beh_file"]], pathw, cap=capw, pick=lambda h: (h[0] + ctx.seed) % modw == 0)
    nover = 0
    with open(pathw, "a") as fo:
        for line in open(g_wo["r"]["beh_file"]):
            fo.write(line if line.endswith("\n") else line + "\n")
            nw += 1
            nover += 1 if any(x.get("st", {}).get("amt", 0) > 4 for x in json.loads(line)) else 0
    if nover < 50:
        raise vlib.InfraError("the directed write behaviours never overshoot the limit (%d)" % nover)
    if nw < 5000:
        raise vlib.InfraError("too few write behaviours: %d" % nw)
    outw = os.path.join(ctx.scratch, "write_replay.ndjson")
    res = ctx.go_test(PKG, FILES, "dtls", "^TestVerifWriteReplay$", env={"VERIF_IN": pathw, "VERIF_OUT": outw}, timeout=3000)
    rows = ctx.read_results(outw)
    summ = [x for x in rows if x.get("kind") == "summary"]
    if not summ:
        raise vlib.InfraError("write replay driver did not finish:\n" + res["out"][-3000:])
    sw = summ[0]
    for r in rows:
        if r.get("kind") != "mismatch":
            continue
        if r.get("prop"):
            prop_viol.append(("write:%s" % r["prop"],
                              "buffered amount reached %d bytes (limit %d + one maximal write %d) after %s" %
                              (r.get("maxAmt", -1), 256 * 1024, 128 * 1024, " ; ".join(r.get("ops", []))), r))
        else:
            shape.append(("write", r))
    if sw["with_blocked_writer"] < 100:
        raise vlib.InfraError("write replay is vacuous: only %d behaviours held a writer back" % sw["with_blocked_writer"])
    ctx.stage("B_write", behaviours=sw["behaviours"], steps=sw["steps"], mismatches=sw["mismatches"],
              with_blocked_writer=sw["with_blocked_writer"], unit_bytes=65536)
    ctx.log("B write: %d behaviours (%d hold a writer back), %d mismatches" % (sw["behaviours"], sw["with_blocked_writer"], sw["mismatches"]))
    with open(pathw) as f:
        for i, line in enumerate(f):
            if i == 4321:
                ctx.sample({"stage": "B write", "behaviour": [fmt_write(x) for x in json.loads(line)]})

    # ------------------------------------------------------------------ certificates
    outc = os.path.join(ctx.scratch, "certs.ndjson")
    ctx.go_test(PKG, FILES, "dtls", "^TestVerifCerts$", env={"VERIF_OUT": outc, "VERIF_SECRETS": 400 if thorough else 60}, timeout=900)
    rows = ctx.read_results(outc)
    sc = [x for x in rows if x.get("kind") == "summary"]
    if not sc:
        raise vlib.InfraError("certificate driver did not finish")
    sc = sc[0]
    for r in rows:
        if r.get("kind") == "violation":
            prop_viol.append((r["key"], "certificate derivation: %s (%s)" % (r["key"], json.dumps({k: v for k, v in r.items() if k not in ("kind", "key")})[:300]), r))
    ctx.stage("certs", secrets=sc["secrets"], cross_pairs=sc["pairs"], violations=sc["violations"], sample=sc["sample"])
    ctx.log("certs: %d secrets derived twice, %d cross pairs" % (sc["secrets"], sc["pairs"]))

    # ------------------------------------------------------------------ 2. read path: C (production-size traces)
    trp = os.path.join(ctx.scratch, "stream_traces.ndjson")
    ntr = 400 if thorough else 60
    nslowtr = 48 if thorough else 12
    ctx.go_test(PKG, FILES, "dtls", "^TestVerifStreamRandom$", env={"VERIF_OUT": trp, "VERIF_TRACES": ntr + nslowtr, "VERIF_ITEMS": 14,
                                                                      "VERIF_SLOW": nslowtr}, timeout=900)
    stream_traces, cur = [], None
    tainted = 0
    for e in ctx.read_results(trp):
        if e["a"] == "Reset":
            cur = {"ev": [], "bad": False}
            stream_traces.append(cur)
        elif e["a"] == "PropertyViolation":
            cur["bad"] = True
            tainted += 1
            prop_viol.append(stream_violation({"prop": e["prop"], "situation": e["situation"], "ops": e["ops"], "got": e["got"],
                                               "want": None, "err": e.get("err"), "m": 65536}))
        else:
            cur["ev"].append(e)
    good_stream_traces = [t["ev"] for t in stream_traces if not t["bad"] and t["ev"]]
    slow_traces = sum(1 for t in stream_traces if any(e.get("st", {}).get("held") for e in t["ev"]))
    if slow_traces < nslowtr // 4 and not tainted:
        raise vlib.InfraError("production-size slow-reader traces are vacuous: recvLoop held a message in %d of %d" % (slow_traces, nslowtr))

    # ------------------------------------------------------------------ 2. read path: free-running slow reader (oracle only)
    outf = os.path.join(ctx.scratch, "stream_freerun.ndjson")
    res = ctx.go_test(PKG, FILES, "dtls", "^TestVerifStreamFreeRun$", env={"VERIF_OUT": outf, "VERIF_ROUNDS": 96 if thorough else 32},
                      race=thorough, timeout=1500)
    rows = ctx.read_results(outf)
    sf = [x for x in rows if x.get("kind") == "summary"]
    racy = "WARNING: DATA RACE" in res["out"]
    if not sf and not racy:
        raise vlib.InfraError("free-running stream driver did not finish:\n" + res["out"][-3000:])
    fr = [x for x in rows if x.get("kind") == "freerun"]
    for r in fr:
        if r["prop"]:
            prop_viol.append(stream_violation({
                "prop": r["prop"], "situation": "free-running:slow-reader", "m": r["m"], "err": r.get("err") or r.get("broke"),
                "ops": ["peer pushes %d messages (%d bytes) with %d heartbeats interleaved%s as fast as they are taken; the reader falls behind "
                        "until the peer is stuck (backlog up to %d of %d queued), catches up in bursts, %d times; %d reads" %
                        (r["messages"], r["bytes"], r["heartbeats"], " then a stream error" if r["with_error"] else "", r["max_backlog"],
                         r["cap"], r["stalls"], r["reads"])],
                "got": {"rd": {"bytes_read": r["read"], "first_wrong_offset": r["first_bad_offset"], "got": r.get("got_at"), "want": r.get("want_at")}},
                "want": None}))
    if racy:
        # thorough tier only (-race): the race detector saw two unsynchronised accesses.  Only a report that pairs the receive
        # loop's write into its buffer with the reader's copy of a queued message is the property's business.
        blocks = res["out"].split("WARNING: DATA RACE")[1:]
        mine = [b for b in blocks if "recvLoop" in b.split("==================")[0] and ("hbConn).Read" in b or "SCTPConn).Read" in b)]
        if not mine:
            raise vlib.InfraError("the race detector reports a race that does not involve the receive buffers:\n" + blocks[0][:3000])
        prop_viol.append(("stream:StreamFidelity:receive-buffer-race:free-running:slow-reader",
                          "read path: recvLoop writes into a receive buffer while the reader is still copying a queued message out of it "
                          "(race detector, free-running slow reader): the bytes read can be those of a later message", {"race": mine[0][:4000]}))
    if not racy:
        deep = sum(1 for r in fr if r["max_backlog"] >= r["cap"])
        if deep < len(fr) // 2:
            raise vlib.InfraError("free-running slow reader is vacuous: the receive queue was full in only %d of %d rounds" % (deep, len(fr)))
        ctx.stage("C_stream_free_running", rounds=len(fr), race_detector=thorough, queue_full_rounds=deep,
                  messages=sum(r["messages"] for r in fr), stalls=sum(r["stalls"] for r in fr), reads=sum(r["reads"] for r in fr))
        ctx.log("stream free-running slow reader: %d rounds, queue full in %d, %d messages, %d stalls" %
                (len(fr), deep, sum(r["messages"] for r in fr), sum(r["stalls"] for r in fr)))

    # ------------------------------------------------------------------ wait for stage A before the timing-sensitive parts
    bg.join()
    rL, rs = mcL["r"], mcS["r"]
    ctx.require_design_ok(rL, "DtlsListener")
    ctx.require_design_ok(rs["stream"], "SctpStream intended")
    ctx.require_design_ok(rs["stream_ringsafe"], "SctpStream with a ring of Cap + 2 recycled receive buffers")
    expect_inv(rs["stream_ring"], "StreamFidelity", "read path recycling Cap receive buffers (slot reused while its message is queued)")
    expect_inv(rs["stream_ringhb"], "HeartbeatsNeverSurface", "read path recycling Cap receive buffers (heartbeat read into a queued message's buffer)")
    ctx.require_design_ok(rs["write"], "SctpWrite")
    ctx.require_design_ok(rs["hb"], "HbWatchdog")
    expect_inv(rs["stream_asimpl"], "ErrorAfterItsData", "as-implemented read path (data with error dropped)")
    expect_inv(rs["stream_asimpl2"], "ErrorAfterItsData", "as-implemented read path (closed vs queue with equal priority)")
    expect_inv(rs["write_nowait"], "BufferedBounded", "write path without the flow-control wait")
    expect_inv(rs["hb_unarmed"], "DeadPeerCloses", "watchdog never armed")
    expect_inv(rs["hb_dataok"], "DeadPeerCloses", "watchdog counting data as heartbeats")
    expect_inv(rs["L_anykey"], "NoCrossDelivery", "listener looking channels up by any key")
    expect_inv(rs["L_unchecked"], "OnlyMatchingCompletes", "listener not verifying the client certificate")
    expect_inv(rs["L_nodefer"], "NothingLeftRegistered", "listener without the deferred removeCert")
    ctx.log("A: listener %d states, stream %d, write %d, watchdog %d; 10 broken instances fail as expected" %
            (rL["distinct"], rs["stream"]["distinct"], rs["write"]["distinct"], rs["hb"]["distinct"]))
    ctx.stage("A", listener_invariants=["NoCrossDelivery", "OnlyMatchingCompletes", "NothingLeftRegistered",
                                        "DuplicateSecretDoesNotDisturbFirst", "EntriesHaveOwners", "DeliveredOnce"],
              stream_invariants=["StreamFidelity", "HeartbeatsNeverSurface", "ErrorAfterItsData", "NoSpuriousError", "ErrorSticky",
                                 "PendingMeansEmpty", "DeferredErrorHasData", "ReceiveBufferUnreferenced", "QueueBounded", "HeldMeansFull"],
              write_invariants=["BufferedBounded", "WaitingHasWakeup", "MutexOK", "OvershootOnlyOnce"],
              watchdog_invariants=["DeadPeerCloses", "NoEarlyClose"],
              nonvacuity="10 deliberately broken instances (asimpl x2, ring, ringhb, nowait, unarmed, dataok, anykey, unchecked, nodefer) each violate "
                         "their invariant; a ring of Cap + 2 receive buffers satisfies all of them")

    # ------------------------------------------------------------------ 3b. watchdog: B (real time)
    pathh = os.path.join(ctx.scratch, "hb_beh.ndjson")
    nh = dedup([g_h["r"]["beh_file"]], pathh)
    outh = os.path.join(ctx.scratch, "hb_replay.ndjson")
    res = ctx.go_test(PKG, FILES, "dtls", "^TestVerifWatchdog$", env={"VERIF_IN": pathh, "VERIF_OUT": outh, "VERIF_HB_MS": 50,
                                                                        "VERIF_PAR": 64}, timeout=3000)
    rows = ctx.read_results(outh)
    sh = [x for x in rows if x.get("kind") == "summary"]
    if not sh:
        raise vlib.InfraError("watchdog driver did not finish:\n" + res["out"][-3000:])
    sh = sh[0]
    for r in rows:
        if r.get("kind") == "violation":
            prop_viol.append(("watchdog:%s" % r["prop"],
                              "heartbeat watchdog (interval %d ms, stream %s read deadlines) broke %s on tick sequence %s; close at %.1f ms, heartbeats at %s ms (reproduced twice)" %
                              (r["interval_ms"], "honouring" if r["honorDeadline"] else "ignoring", r["prop"], "".join(k[0] for k in r["kinds"]),
                               r["run2"]["closeAt"] / 1e6, [round(x / 1e6, 1) for x in (r["run2"]["hbAfter"] or [])]), r))
    if sh["inconclusive"] * 100 > 15 * max(1, sh["runs"]):
        raise vlib.InfraError("watchdog timing too noisy on this machine: %d of %d runs inconclusive" % (sh["inconclusive"], sh["runs"]))
    ctx.stage("B_watchdog", scenarios=sh["scenarios"], runs=sh["runs"], matched_spec_prediction=sh["matched"],
              inconclusive=sh["inconclusive"], retried=sh["retried"], interval_ms=sh["interval_ms"])
    ctx.log("B watchdog: %d runs, %d match the specification tick by tick, %d inconclusive" % (sh["runs"], sh["matched"], sh["inconclusive"]))

    # ------------------------------------------------------------------ 1. listener: B (scenarios on a real Listener)
    scen, classes = pick_scenarios(g_l["r"]["beh_file"], nscen, ctx)
    pathl = os.path.join(ctx.scratch, "listener_scen.ndjson")
    with open(pathl, "w") as f:
        for s in scen:
            f.write(json.dumps(s) + "\n")
    outl = os.path.join(ctx.scratch, "listener_out.ndjson")
    res = ctx.go_test(PKG, FILES, "dtls", "^TestVerifListenerScenarios$",
                      env={"VERIF_IN": pathl, "VERIF_OUT": outl, "VERIF_PAR": 16, "VERIF_LISTENERS": 2}, timeout=3000)
    rows = ctx.read_results(outl)
    sl = [x for x in rows if x.get("kind") == "summary"]
    if not sl:
        raise vlib.InfraError("listener driver did not finish:\n" + res["out"][-3000:])
    sl = sl[0]
    outcomes = {}
    checked = {}
    ltraces = []
    for r in rows:
        if r.get("kind") == "scenario":
            for v in (r.get("viol") or []) + (r.get("expect") or []):
                if v.get("infra"):
                    raise vlib.InfraError("listener scenario could not run: %s" % v["infra"])
                prop_viol.append((v["key"], "%s [scenario: %s] (reproduced on a second, solitary run)" % (v["what"], fmt_scen(r["acts"])), r))
            for k in r.get("checked") or []:
                checked[k] = checked.get(k, 0) + 1
            for p, o in r["outcomes"].items():
                k = p[0] + ":" + (o.split("|")[0].split(":")[0] if o.startswith("conn") else o)
                outcomes[k] = outcomes.get(k, 0) + 1
        elif r.get("kind") == "trace":
            ltraces.append([{k: v for k, v in e.items() if k != "errText"} for e in r["events"]])
    listener_bad = any(k.startswith("listener:") for k, _, _ in prop_viol)   # vacuity is judged only on a clean run
    for need in ("a:conn", "a:ctx", "a:already", "d:ok=true", "d:ok=false"):
        if outcomes.get(need, 0) < 3 and not listener_bad:
            raise vlib.InfraError("listener scenarios are vacuous: outcome %s seen %d times (%s)" % (need, outcomes.get(need, 0), outcomes))
    for need in ("listener:UndisturbedPairCompletes", "listener:DuplicateSecretDoesNotDisturbFirst"):
        if checked.get(need, 0) < 3 and not listener_bad:
            raise vlib.InfraError("listener scenarios are vacuous: expectation %s applied %d times (%s)" % (need, checked.get(need, 0), checked))
    ctx.stage("B_listener", scenarios=sl["scenarios"], retried=sl["retried"], outcomes=outcomes, expectations_applied=checked, scenario_features=classes["features"],
              distinct_classes=classes["distinct"])
    ctx.log("B listener: %d scenarios (%d distinct classes), outcomes %s" % (sl["scenarios"], classes["distinct"], outcomes))
    ctx.sample({"stage": "B listener", "scenario": fmt_scen(scen[0]), "trace": [fmt_lev(e) for e in ltraces[0]]})

    # ------------------------------------------------------------------ 4. set-up life cycle (spec/DtlsSetup): A + B (real time)
    sD = ctx.spec_copy("DtlsSetup")
    rD = ctx.tlc(sD, "DtlsSetup.tla", "MC_DtlsSetup.cfg", workers=2, timeout=300)
    ctx.require_design_ok(rD, "DtlsSetup")
    expect_inv(ctx.tlc(sD, "DtlsSetup.tla", "MC_DtlsSetup_wrappedonly.cfg", workers=2, timeout=300, count=False),
               "SetupDeadlineEndsWithSetup", "set-up that disarms its deadline on the wrapped connection only")
    gD = ctx.tlc(sD, "Gen_DtlsSetup.tla", "Gen_DtlsSetup.cfg", workers=1, timeout=300, count=False)
    if gD["inv"] or gD["nbeh"] < 15:
        raise vlib.InfraError("DtlsSetup row generation failed: %s" % gD["out"][-1500:])
    outd = os.path.join(ctx.scratch, "setup_rows_out.ndjson")
    res = ctx.go_test(PKG, FILES, "dtls", "^TestVerifSetupLifecycle$", env={"VERIF_IN": gD["beh_file"], "VERIF_OUT": outd}, timeout=900)
    rowsd = ctx.read_results(outd)
    sd = [x for x in rowsd if x.get("kind") == "summary"]
    if not sd:
        raise vlib.InfraError("set-up life-cycle driver did not finish:\n" + res["out"][-3000:])
    nset = 0
    for r in rowsd:
        if r.get("kind") != "result":
            continue
        nset += 1
        what = "%s set up under a %s context%s%s" % (r["role"], r["ctx"], ", deadline passed since" if r["expired"] else "",
                                                   ", cancelled since" if r["cancelled"] else "")
        if r["setup_err"]:
            raise vlib.InfraError("set-up life cycle: %s could not be established in three attempts: %s" % (what, r["setup_err"]))
        if r["raw_armed"] and not r["want_raw_armed"]:
            prop_viol.append(("setup:SetupDeadlineEndsWithSetup:%s:%s" % (r["role"], r["ctx"]),
                              "%s: a deadline is still armed on the transport the caller handed in after the set-up returned" % what, r))
        if r["flow_err"] and r["want_ok"]:
            prop_viol.append(("setup:EstablishedOutlivesContext:%s:%s%s%s" % (r["role"], r["ctx"], ":expired" if r["expired"] else "", ":cancelled" if r["cancelled"] else ""),
                              "%s: application data no longer flows over the established connection (%s)" % (what, r["flow_err"]), r))
    ctx.stage("B_setup", rows=nset, retried=sd[0]["retried"], states=rD["distinct"],
              nonvacuity="instance that disarms the set-up deadline on the wrapped connection only violates SetupDeadlineEndsWithSetup")
    ctx.log("B set-up life cycle: %d rows (role x context x what became of the context afterwards)" % nset)

    # ------------------------------------------------------------------ C: trace validation (both specs, in parallel)
    tv = Par()
    chunks = 8 if thorough else 2
    lchunks = [ltraces[i::chunks] for i in range(chunks)]
    lres = []
    for i, ch in enumerate(lchunks):
        if ch:
            d = ctx.spec_copy("DtlsListener")
            lres.append((ch, tv.go("tl%d" % i, ctx.validate_traces, d, "Trace_DtlsListener.tla", "Trace_DtlsListener.cfg", ch, timeout=3000)))
    sres = None
    if good_stream_traces:
        d = ctx.spec_copy("SctpStream")
        sres = tv.go("ts", ctx.validate_traces, d, "Trace_SctpStream.tla", "Trace_SctpStream.cfg", good_stream_traces, timeout=1500)
    # binding demonstrations: one corrupted field must make TLC reject
    badl = corrupt_listener(ltraces)
    d = ctx.spec_copy("DtlsListener")
    bl = tv.go("bl", ctx.validate_traces, d, "Trace_DtlsListener.tla", "Trace_DtlsListener.cfg", badl, timeout=1500)
    bs = None
    if good_stream_traces:
        bads = corrupt_stream(good_stream_traces)
        d = ctx.spec_copy("SctpStream")
        bs = tv.go("bs", ctx.validate_traces, d, "Trace_SctpStream.tla", "Trace_SctpStream.cfg", bads, timeout=900)
    tv.join()

    nval = 0
    for ch, box in lres:
        ok, reached, total, tr = box["r"]
        if ok:
            nval += len(ch)
            continue
        flat = flatten(ch)
        bad = flat[reached] if reached < len(flat) else None
        if tr["inv"]:
            prop_viol.append(("trace:listener:invariant:%s" % tr["inv"], "a recorded real listener trace reaches a state violating %s" % tr["inv"],
                              {"tlc": tr["out"][-3000:]}))
        else:
            prop_viol.append(("trace:listener:rejected:%s" % describe_lev(bad),
                              "recorded real listener trace is not a behaviour of DtlsListener.tla at event %d: %s (preceded by %s)" %
                              (reached, json.dumps(bad), " ; ".join(fmt_lev(e) for e in flat[max(0, reached - 8):reached])),
                              {"event_index": reached, "event": bad, "previous": flat[max(0, reached - 12):reached]}))
    if bl["r"][0]:
        raise vlib.InfraError("listener trace binding is vacuous: corrupted trace accepted")
    stream_rejected = None
    if sres is not None:
        ok, reached, total, tr = sres["r"]
        if ok:
            nval += len(good_stream_traces)
        else:
            flat = flatten(good_stream_traces)
            stream_rejected = (reached, flat[reached] if reached < len(flat) else None, tr, flat[max(0, reached - 6):reached])
        if bs["r"][0]:
            raise vlib.InfraError("stream trace binding is vacuous: corrupted trace accepted")
    ctx.cov["traces_validated_against_impl"] = nval
    ctx.stage("C", listener_traces=len(ltraces), stream_traces=len(good_stream_traces), stream_traces_with_property_violation=tainted,
              stream_traces_slow_reader=slow_traces,
              validated=nval, corrupted_listener_trace_rejected_at=bl["r"][1],
              corrupted_stream_trace_rejected_at=(bs["r"][1] if bs else None))
    ctx.log("C: %d listener traces + %d production-size stream traces, %d validated" % (len(ltraces), len(good_stream_traces), nval))
    if good_stream_traces:
        ctx.sample({"stage": "C stream (maxMessageSize 65536)", "trace_prefix": [fmt_stream(x) for x in good_stream_traces[0][:10]]})

    # ------------------------------------------------------------------ verdicts
    for key, what, detail in prop_viol:
        ctx.violation(key, what, detail)
    if stream_rejected is not None:
        reached, bad, tr, prev = stream_rejected
        if tr["inv"]:
            ctx.violation("trace:stream:invariant:%s" % tr["inv"], "a recorded real stream trace reaches a state violating %s" % tr["inv"],
                          {"tlc": tr["out"][-3000:]})
        elif not any(key.startswith("stream:") for key, _, _ in prop_viol):
            raise vlib.InfraError("production-size stream trace rejected by Trace_SctpStream at event %d (%s after %s) although no property-level "
                                  "divergence was observed: the model misrepresents the code" % (reached, json.dumps(bad), json.dumps(prev)))
        else:
            ctx.notes.append("a production-size stream trace is also rejected by Trace_SctpStream at event %d (%s): projected-state "
                             "consequence of the violations reported above" % (reached, json.dumps(bad)[:300]))
    if shape:
        kinds = {}
        for which, r in shape:
            kinds.setdefault(which, []).append(r)
        msg = "; ".join("%s: %d (e.g. after %s want %s got %s)" % (k, len(v), " ; ".join(v[0].get("ops", [])), json.dumps(v[0].get("want"))[:300],
                                                                  json.dumps(v[0].get("got"))[:300]) for k, v in kinds.items())
        unexplained = [k for k in kinds if not any(key.startswith(k + ":") for key, _, _ in prop_viol)]
        if unexplained:
            raise vlib.InfraError("the real code diverges from the specification in the projected state only (%s path; no property-level "
                                  "consequence observed): the model misrepresents the code - %s" % ("/".join(unexplained), msg))
        ctx.notes.append("projected-state divergences accompanying the violations above: " + msg[:1500])

    ctx.cov["evaluations"] = stream_beh + len(fr) + sw["behaviours"] + sh["runs"] + sl["scenarios"] + len(stream_traces) + sc["secrets"]
    ctx.cov["distinct_nontrivial"] = stream_nontrivial + classes["distinct"]
    ctx.cov["exhaustive"] = False
    ctx.cov["rule"] = ("stream: a case is one (item sequence, read-size sequence) behaviour, de-duplicated by hash; non-trivial = carries at "
                       "least one data byte and one read (%d); listener: a case is a scenario class = external call sequence with "
                       "participants and secrets renamed in order of appearance; non-trivial = at least one acceptor and one dialer (%d). "
                       "Write-path, watchdog and certificate cases are counted in evaluations only."
                       % (stream_nontrivial, classes["distinct"]))
    ctx.assumptions += [
        "the scripted msgStream implements pion/sctp's contract: Read returns one whole message; onBufferReleased fires the low-threshold "
        "callback when the amount crosses from above the threshold to it or below (transcribed from pion/sctp v1.8.35 stream.go)",
        "a data message byte-identical to the heartbeat payload cannot be told from a heartbeat (inherent to the design); messages that "
        "contain, start with or are a prefix of the payload are exercised and must be delivered",
        "slow reader: recvCh (capacity read from the real object) is filled to capacity and one message beyond (held by recvLoop) with the "
        "reader stalled; recvLoop's timeout on that blocked send (it closes the connection after one heartbeat interval) is kept out by an "
        "interval of one hour and is not modelled; taking a message out of recvCh and copying it are one atomic step in the model and in the "
        "stepwise driver (a ring of exactly Cap + 1 recycled buffers is unsafe only inside that window): that window is reached only by the "
        "free-running slow-reader stage (unscheduled; byte oracle, plus the race detector in the thorough tier), i.e. by sampling",
        "watchdog: hbLoop's non-atomic check-then-reset of `waiting` is modelled as atomic (window of nanoseconds); timing verdicts are "
        "one-sided (close >= 1 interval after the last heartbeat handed over; close <= 2 intervals + slack after it), reproduced twice",
        "listener: handshake internals are not scheduled; order is imposed only on the calls (AcceptWithContext / Dial / cancel); invariants are "
        "checked on the order that actually happened and the call logs are validated against the specification with silent internal steps",
        "listeners are shared by concurrently running scenarios and never closed (closing the pion/transport UDP listener with packets in "
        "flight can panic inside that library: 'sync: WaitGroup is reused before previous Wait has returned')",
        "certificate / hello-random determinism and collision freedom are decided by executing the derivations on sampled secrets",
    ]


# ---------------------------------------------------------------------------------------------------- helpers
def stream_violation(r):
    prop = r["prop"]
    sit = r.get("situation") or "none"
    key = "stream:%s:%s" % (prop, sit)
    what = ("read path (maxMessageSize %s): %s after %s - real call returned %s%s" %
            (r.get("m"), explain_stream(prop, sit), " ; ".join(compress_ops(r.get("ops", []))), json.dumps((r.get("got") or {}).get("rd")),
             (", specification: %s" % json.dumps(r["want"].get("rd"))) if r.get("want") else ""))
    if r.get("err"):
        what += " (error text: %s)" % r["err"]
    return (key, what, r)


def explain_stream(prop, sit):
    base = {
        "ErrorAfterItsData:error-before-data": "an error was returned while bytes released before/with it were still undelivered",
        "ErrorAfterItsData:data-after-error": "data was returned after an error had been reported",
        "StreamFidelity:wrong-bytes": "the bytes returned are not the next bytes of the peer's messages",
        "StreamFidelity:fed-bytes-never-delivered": "a read blocks although released bytes are undelivered",
        "StreamFidelity:receiver-stalled": "the receive loop stopped taking messages",
        "StreamFidelity:read-broke": "SCTPConn.Read panicked or returned an impossible byte count",
        "HeartbeatsNeverSurface": "a heartbeat payload surfaced as data",
        "NoSpuriousError": "an error was returned although the stream produced none",
        "NoSpuriousError:closed-without-error": "the connection closed although the stream produced no error",
        "ErrorNeverReported": "the stream error is never reported to the reader",
    }.get(prop, prop)
    slow_reader = sit.endswith(":slow-reader")
    sit = sit[:-len(":slow-reader")] if slow_reader else sit
    where = {"queued": "messages received and not yet read", "with-error": "bytes that arrived together with the error",
             "queued+with-error": "queued messages and bytes that arrived with the error", "none": "no data outstanding"}.get(sit, sit)
    return "%s [outstanding: %s%s]" % (base, where, "; the reader had fallen behind by the whole receive queue" if slow_reader else "")


def compress_ops(ops):
    """long operation lists (slow-reader behaviours have hundreds of steps): runs of arrivals / reads are summarised"""
    if len(ops) <= 40:
        return list(ops)
    out, i = [], 0
    while i < len(ops):
        kind = "Feed" if ops[i].startswith("Feed") else "Read"
        j = i
        while j < len(ops) and ops[j].startswith("Feed") == (kind == "Feed"):
            j += 1
        run = ops[i:j]
        if len(run) <= 3:
            out += run
        elif kind == "Feed":
            nhb = sum(1 for x in run if x.startswith("Feed(hb"))
            out.append("[%d arrivals: %d messages, %d heartbeats]" % (len(run), len(run) - nhb, nhb))
        else:
            out.append("[%d reads]" % len(run))
        i = j
    return out


def slow_features(b, acc):
    """what a slow-reader behaviour exercises (evidence + vacuity guard); capacity = the largest queue length the spec produced"""
    CAP = acc["capacity"]
    acc["behaviours"] += 1
    feeds = [x for x in b if x["a"] == "Feed"]
    level = max([x["st"]["chan"] + (1 if x["st"].get("held") else 0) for x in b] or [0])
    acc["levels"][str(level)] = acc["levels"].get(str(level), 0) + 1
    full = any(x["st"]["chan"] >= CAP for x in b)
    acc["queue_full"] += 1 if full else 0
    acc["held"] += 1 if any(x["st"].get("held") for x in b) else 0
    acc["held_error"] += 1 if any(x["k"] == "err" and x["st"].get("held") for x in feeds) else 0
    prev_full = False
    hbf = arr = False
    for x in b:
        if x["a"] == "Feed" and prev_full:
            arr = True
            hbf = hbf or x["k"] == "hb"
        prev_full = x["st"]["chan"] >= CAP and not x["st"].get("held")
    acc["heartbeat_on_full_queue"] += 1 if hbf else 0
    acc["arrival_on_full_queue"] += 1 if arr else 0
    acc["messages_beyond_capacity"] += 1 if full and sum(1 for x in feeds if x["k"] != "hb") > CAP + 8 else 0


def fmt_stream(x):
    if x["a"] == "Feed":
        s = "Feed(%s%s)" % (x["k"], ",%d" % x["n"] if x["k"] != "hb" else "")
        if isinstance(x.get("rd"), dict) and "none" not in x["rd"]:
            s += "->pending read returns (%s,%s)" % (x["rd"].get("n"), "err" if x["rd"].get("err") else "nil")
        return s
    if x["a"] == "Read":
        return "Read(%d)->(%s,%s)" % (x["b"], x["rd"].get("n"), "err" if x["rd"].get("err") else "nil")
    return "%s(%s)" % (x["a"], x.get("b"))


def fmt_write(x):
    st = x.get("st", {})
    if x["a"] == "Call":
        return "Write(%s,%d)->amt=%s busy=%s" % (x["w"], x["n"], st.get("amt"), st.get("busy"))
    if x["a"] == "Drain":
        return "Drain(%d)->amt=%s busy=%s" % (x["k"], st.get("amt"), st.get("busy"))
    return "Close"


def fmt_scen(acts):
    out = []
    for a in acts:
        pre = "" if not a.get("q") else "... "
        if a["a"] == "AcceptStart":
            out.append("%sAccept(%s,%s)" % (pre, a["p"], a["s"]))
        elif a["a"] == "DialStart":
            out.append("%sDial(%s,%s%s)" % (pre, a["p"], a["s"], "" if a["s"] == a.get("c") else ",forged cert " + str(a.get("c"))))
        else:
            out.append("%sCancel(%s)" % (pre, a["p"]))
    return " ".join(out)


def fmt_lev(e):
    a = e["a"]
    if a == "AcceptStart":
        return "AcceptStart(%s,%s)" % (e["p"], e["s"])
    if a == "DialStart":
        return "DialStart(%s,%s,%s)" % (e["p"], e["s"], e["c"])
    if a == "AcceptReturn":
        return "AcceptReturn(%s,%s%s)" % (e["p"], e["out"], "," + e["peer"] if e.get("peer") else "")
    if a == "DialReturn":
        return "DialReturn(%s,%s)" % (e["p"], "ok" if e["ok"] else "err")
    if a == "Final":
        return "Final(connMap=%d,connToCert=%d)" % (e["nchan"], e["ncert"])
    if a == "Cancel":
        return "Cancel(%s)" % e["p"]
    return a


def describe_lev(e):
    if not e:
        return "end"
    a = e["a"]
    if a == "AcceptReturn":
        return "AcceptReturn:%s" % e["out"]
    if a == "DialReturn":
        return "DialReturn:%s" % ("ok" if e["ok"] else "err")
    if a == "Final":
        return "Final:connMap=%d,connToCert=%d" % (e["nchan"], e["ncert"])
    return a


def flatten(traces):
    flat = []
    for t in traces:
        flat.append({"a": "Reset"})
        flat += t
    return flat


def corrupt_listener(ltraces):
    bad = copy.deepcopy([t for t in ltraces if t][:6])
    for t in bad:
        for e in t:
            if e["a"] == "Final":
                e["ncert"] += 1
                return bad
    raise vlib.InfraError("no listener event to corrupt for the binding demonstration")


def corrupt_stream(traces):
    bad = copy.deepcopy(traces[:4])
    for t in bad:
        for e in t:
            if e["a"] == "Read" and e["rd"].get("n", 0) > 1:
                e["rd"]["n"] -= 1
                return bad
    raise vlib.InfraError("no stream event to corrupt for the binding demonstration")


def scenario_features(acts):
    f = set()
    acc = {}      # acceptor -> secret
    cancelled = set()
    seen_dial = set()
    dup = {}      # secret -> first acceptor, once a later acceptor asked for the same secret (after a pause)
    for a in acts:
        if a["a"] == "AcceptStart":
            if a["s"] in acc.values():
                f.add("duplicate-secret")
                first = [p for p, s in acc.items() if s == a["s"]][0]
                if a["q"] > 0 or any(x["q"] > 0 for x in acts[acts.index([y for y in acts if y["a"] == "AcceptStart" and y["p"] == first][0]) + 1: acts.index(a) + 1]):
                    dup.setdefault(a["s"], first)
            acc[a["p"]] = a["s"]
        elif a["a"] == "Cancel":
            f.add("cancel")
            cancelled.add(a["p"])
        elif a["a"] == "DialStart":
            live = [p for p, s in acc.items() if s == a["s"] and p not in cancelled]
            if a["s"] != a["c"]:
                f.add("forged-registered" if live else "forged")
            elif live:
                f.add("pair")
                if a["s"] in dup and dup[a["s"]] not in cancelled and a["s"] not in seen_dial:
                    f.add("dup-then-dial")
                if a["s"] in seen_dial:
                    f.add("second-dial-same-secret")
            elif a["s"] in acc.values():
                f.add("dial-after-cancel")
            else:
                f.add("dial-unregistered")
            seen_dial.add(a["s"])
    return f


def scenario_class(acts):
    ren = {}

    def r(kind, x):
        k = (kind, x)
        if k not in ren:
            ren[k] = "%s%d" % (kind, 1 + sum(1 for kk in ren if kk[0] == kind))
        return ren[k]
    out = []
    for a in acts:
        if a["a"] == "AcceptStart":
            out.append(("A", r("a", a["p"]), r("s", a["s"]), a["q"] > 0))
        elif a["a"] == "DialStart":
            out.append(("D", r("d", a["p"]), r("s", a["s"]), r("s", a["c"]), a["q"] > 0))
        else:
            out.append(("C", r("a", a["p"]), a["q"] > 0))
    return json.dumps(out)


def pick_scenarios(beh_file, n, ctx):
    """choose n scenarios from the simulated behaviours: half by feature richness, half in generation order"""
    allb, seen = [], set()
    with open(beh_file) as f:
        for line in f:
            acts = json.loads(line)
            # cancellations after the last call was started are left to the driver's final sweep (every accept still
            # waiting is cancelled 250 ms after the last action), so that late handshakes can finish
            while acts and acts[-1]["a"] == "Cancel":
                acts.pop()
            c = scenario_class(acts)
            if c in seen or not acts:
                continue
            seen.add(c)
            if not any(a["a"] == "AcceptStart" for a in acts) or not any(a["a"] == "DialStart" for a in acts):
                continue
            allb.append((acts, scenario_features(acts), c))
    if len(allb) < n // 2:
        raise vlib.InfraError("too few distinct listener scenarios generated: %d" % len(allb))
    need_feats = ("pair", "duplicate-secret", "dup-then-dial", "cancel", "forged-registered", "dial-unregistered", "dial-after-cancel")
    picked = []
    for ft in need_feats:                       # a quota per key feature first
        got = [i for i in range(len(allb)) if ft in allb[i][1] and i not in picked][: max(4, n // 12)]
        picked += got
    picked = picked[: (2 * n) // 3]
    rich = [i for i in sorted(range(len(allb)), key=lambda i: (-len(allb[i][1]), i)) if i not in picked][: max(0, (n - len(picked)) // 2)]
    rest = [i for i in range(len(allb)) if i not in set(rich) and i not in set(picked)][: n - len(rich) - len(picked)]
    chosen = [allb[i] for i in sorted(picked + rich + rest)]
    feats = {}
    for acts, fs, c in chosen:
        for x in fs:
            feats[x] = feats.get(x, 0) + 1
    for need in need_feats:
        if feats.get(need, 0) < 3:
            raise vlib.InfraError("listener scenario selection lacks feature %s (%s)" % (need, feats))
    return [c[0] for c in chosen], {"features": feats, "distinct": len({c[2] for c in chosen})}
