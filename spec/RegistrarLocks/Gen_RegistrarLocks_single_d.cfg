SPECIFICATION GenSpec
CONSTANTS
  ReqV4 = {"f1"}
  ReqV6 = {}
  ReqDual = {"d1"}
  ReqFail = {}
  ReqFail6 = {}
  ErrorPath = "plain"
  Reloads = {"m1", "m2"}
  ToB = {"m2"}
  Bad = {"m1"}
  ReloadOrder = "load-first"
  Protocol = "single"
INVARIANT Emit
CHECK_DEADLOCK FALSE
