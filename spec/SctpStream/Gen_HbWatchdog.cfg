SPECIFICATION GenSpec
CONSTANTS
  TPI = 2
  MaxTicks = 100
  Mode = "asimpl"
  Depth = 6
INVARIANT Emit
CHECK_DEADLOCK FALSE
