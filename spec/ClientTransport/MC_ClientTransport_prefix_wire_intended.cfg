\* prefix intended: wire
SPECIFICATION Spec
CONSTANTS
  Kind = "prefix"
  Variant = "intended"
  KnownIds = {0, 1}
  FieldIds = {}
  SetArgs <- SetArgsW
  OvArgs <- OvArgsW
  Secrets = {"s1"}
  ReaderOk = {TRUE}
  Seeds = {"sd1"}
  DeadConns = {FALSE, TRUE}
  MaxConns = 1
  MaxWrites = 2
  WriteSizes = {5000}
  MaxPeer = 0
  PeerSizes = {4}
VIEW view
INVARIANTS TypeOK HeaderOnce HeaderAlone DataExact OwnPrefixKnown I_ReportedIsUsed I_ParamsImplyPrefix I_TagBeforeData
PROPERTIES Core I_NoPanic I_FailedUnchanged I_GettersPure I_PortNonZero I_WrapOkMeansHeaderSent I_FlushPolicyHonoured I_SessionLeavesClientParams I_PortFromEffective
CHECK_DEADLOCK FALSE
