SPECIFICATION Spec
CONSTANTS
  MinTag = 2
  PfxTag = 3
  ObfsMin = 3
  ObfsMax = 6
  MaxRead = 3
  DeadlineSource = "private"
  MarkMode = "release"
  MaxW = 2
  LookupMode = "stale-after-validate"
  MaxConns = 2
  Cases <- SessCases
VIEW view
INVARIANTS NoBytes NoEarlyClose KeepsReading MatchSound ConsumeExact FoundWhenComplete NeverDropsMatching MarkedUsed TableSound RegistryFree DeadlineUnpredictable
CHECK_DEADLOCK FALSE
