# Claims table (exec'd by bin/mkmanifest).  One entry per property that has a working check.
CLAIMS["C08"] = dict(
    category="model_checking",
    technique="TLA+ spec Registry.tla: TLC exhaustive + replay of all bounded paths into real RegisteredDecoys + trace validation of random real histories",
    text="Registry.tla models decoys/decoysTimeouts with one action per locked method; TLC checks PostSweepExact, "
         "OneRecordPerRegistration, NeverRemovedEarly exhaustively (2 secrets x 2 phantoms x 2 transports, <=2..3 tracked). "
         "Every path of depth 4 (quick) / 5 (thorough) plus thousands of simulated depth-16 behaviours are replayed on the "
         "real object with real transports and default lifetimes (state compared after every step), and random real "
         "histories over 8 secrets x 3 phantoms x 3 transports are validated against the spec with all invariants on.",
    note="Time is advanced by back-dating stored registration times to age classes around the 10 min / 6 h limits (+-2 s); "
         "sweeps run to completion (interleavings are C09); TLC bounds as stated in the cfg files.",
)
CLAIMS["C09"] = dict(
    category="model_checking",
    technique="TLA+ specs Ingest.tla + Pipeline.tla: TLC exhaustive (serialisability, liveness) + replay of every enumerated interleaving into the real code through verifhook.Yield gates + trace validation of HandleRegUpdates + race-detector conformance of the atomicity assumption",
    text="Ingest.tla models workers, sweeper and connection handler with one action per lock-protected section; TLC checks that "
         "every terminal outcome equals some serial order's outcome (SerialOutcomes computed in TLA+), VisibleOnlyAfterValidate, "
         "AnnounceOnce, ShareOnce, NoCrash and termination for 8 (quick) / 10 (thorough) scenarios. Every maximal interleaving "
         "(2 245 quick) is replayed on the real ingestRegistration/removeOldRegistrations/lookup+MarkActive with a deterministic "
         "scheduler at the Yield gates, state compared after every step and real final outcomes checked against the serial set. "
         "Pipeline.tla (distributor, buffer, workers, cancel) is checked for DropsCounted/NeverBlocksReceiver/ShutdownBounded and "
         "bound by validating overload+shutdown event logs of the real HandleRegUpdates. A -race stress checks the spec's "
         "atomicity assumption.",
    note="Interleavings are enumerated at lock-release points only (the race detector run is what justifies treating locked "
         "sections as atomic); a registration is assumed not to expire while its own ingest is in progress; one sweeper. "
         "Known finding H-C09-2 (unsynchronised OnReload publication) is listed in known_findings.json.",
)
