SPECIFICATION TraceSpec
CONSTANTS
  LD = {"unset", "zero", "valid", "bad"}
  LC = {"unset", "zero", "valid", "neg"}
  ND = {"unset", "zero", "valid", "bad"}
  NC = {"unset", "zero", "valid", "neg"}
  CBS = {"unset", "empty", "A", "B", "ws", "bad", "badfirst"}
  CAS = {"unset", "empty", "A", "ws", "bad", "badfirst", "badonly"}
  CBD = {"unset", "A", "B", "bad", "badfirst"}
  PBL = {"unset", "empty", "A", "ws", "bad", "badfirst"}
  GEO = {"unset", "empty", "missing", "garbage"}
  WK = {"unset", "zero", "valid"}
  PUB = {"unset", "true"}
  FK = {"ok", "syntax", "wrongtype", "unreadable"}
  SF = {"S1", "S2", "malformed", "missing", "badgen"}
  RCBS = {"unset", "empty", "A", "B", "ws", "bad", "badfirst"}
  RCAS = {"unset", "empty", "A", "ws", "bad", "badfirst", "badonly"}
  RCBD = {"unset", "A", "B", "bad", "badfirst"}
  RPBL = {"unset", "empty", "A", "ws", "bad", "badfirst"}
  RGEO = {"unset", "empty", "missing"}
  RPUB = {"unset", "true"}
  RFK = {"ok", "syntax", "wrongtype", "unreadable"}
  RSF = {"S1", "S2", "malformed", "missing", "badgen"}
  WithShipped = TRUE
  Defects = {}
INVARIANTS NoCrash HousekeepingTotal AcceptedMeansEnforced NothingExtra
POSTCONDITION Post
CHECK_DEADLOCK FALSE
