--------------------------- MODULE Trace_Pipeline ---------------------------
(* Validates event logs recorded from the real HandleRegUpdates.  Logged events:
     Offer    the driver sent one message on the input channel                    (spec action Offer)
     Finish   the driver released one worker parked inside ingestRegistration      (WFinish)
     Cancel   the context was cancelled                                            (Cancel)
     Returned HandleRegUpdates returned                                            (DReturn)
     Quiesce  no step: the driver waited until the pipeline was quiescent and read the counters
              (ingested, dropped, buffer length from the real RegistrationManager; workers parked at the gate);
              the specification must be in a quiescent state with exactly these values.
   The distributor's and the workers' own steps (DRecv, DDispatch, WTake, WExit) are not logged: they are
   silent steps TLC interleaves as needed (finite: each consumes a message or ends a process). *)
EXTENDS Pipeline, Json, TLCExt, Sequences
TraceLog == ndJsonDeserialize("trace.ndjson")
VARIABLE l
tvars == <<vars, l>>

Matches(e) == /\ ingested = e.st.ingested /\ dropped = e.st.dropped /\ buf = e.st.buf /\ busy = e.st.busy
Quiescent == ~ENABLED DRecv /\ ~ENABLED DDispatch /\ ~ENABLED WTake

TraceInit == Init /\ l = 1
TraceReset == /\ l <= Len(TraceLog) /\ TraceLog[l].a = "Reset"
              /\ chan' = 0 /\ buf' = 0 /\ busy' = 0 /\ exited' = 0 /\ dpc' = "recv" /\ cancelled' = FALSE
              /\ offered' = 0 /\ ingested' = 0 /\ accepted' = 0 /\ dropped' = 0 /\ obs' = [a |-> "Init"]
              /\ l' = l + 1
TraceStep == /\ l <= Len(TraceLog) /\ l' = l + 1
             /\ LET e == TraceLog[l] IN
                CASE e.a = "Offer"    -> Offer
                  [] e.a = "Finish"   -> WFinish
                  [] e.a = "Cancel"   -> Cancel
                  [] e.a = "Returned" -> DReturn
                  [] e.a = "Quiesce"  -> Quiescent /\ Matches(e) /\ UNCHANGED vars
                  [] OTHER            -> FALSE
Silent == /\ (DRecv \/ DDispatch \/ WTake \/ WExit) /\ UNCHANGED l
TraceNext == TraceReset \/ TraceStep \/ Silent
TraceSpec == TraceInit /\ [][TraceNext]_tvars
ASSUME TLCSet(1, 0)
HighWater == TLCSet(1, IF TLCGet(1) < l THEN l ELSE TLCGet(1))
Post == PrintT(<<"TRACE_REACHED", TLCGet(1) - 1>>) /\ TLCGet(1) - 1 = Len(TraceLog)
=============================================================================
