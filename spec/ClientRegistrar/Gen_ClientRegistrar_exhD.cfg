SPECIFICATION GenSpec
CONSTANTS
  Variant = "asfound"
  Configs <- CfgGenD
  ApiOutcomes = {"s500", "R1", "RB"}
  DnsOutcomes = {"servfail", "R1"}
  Depth = 40
INVARIANT Emit
CHECK_DEADLOCK FALSE
