\* thorough tier, message-shaped entry points: strength 3
SPECIFICATION GenSpec
CONSTANTS
  EPs = {"station.ingest"}
  Strength = 3
  MissingGuards = {}
  Modes = {"design", "sample"}
  NSample = 20000
INVARIANTS TypeOK NeverCrash NeverHangs NoFourthValue AlwaysAnswersHTTP AcceptedOnlyWhenComplete StatusMatchesOutcome NominalAccepted Emit
CHECK_DEADLOCK FALSE
