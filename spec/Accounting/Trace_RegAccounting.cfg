SPECIFICATION TraceSpec
CONSTANTS
  Regs = {}
  Srcs = {"api"}
  RFams = {"v4"}
  Gens = {"g1"}
  TTs = {"min"}
  LVs = {"l1"}
  Variant = "as_found"
  Broken = "none"
  MapWindow = FALSE
  MaxPrints = 0
  MaxFree = 0
POSTCONDITION Post
CHECK_DEADLOCK FALSE
