------------------------- MODULE Gen_RegistrarLocks -------------------------
(* Behaviour generator for stage B (spec -> implementation replay) of C13.
   Enumerates EVERY maximal interleaving of the bounded scenario at the granularity the
   conformance driver can force on the real RegProcessor:
     controllable steps  RLock / Select / RUnlock of a request (gates inside the wrapping
                         ipSelector, start of the request goroutine) and Load of a reload
                         (start of the ReloadSubnets goroutine);
     automatic steps     Announce / Acquire / Swap / Unlock of a reload and Build of a request
                         run by themselves in the real code as soon as they are enabled, so the
                         generator gives them priority (they commute with every controllable
                         step that stays enabled; the orders given up here are explored by
                         the exhaustive MC configs and sampled by the ungated stress runs).
   Reloads are started one after the other (the SIGHUP handler of cmd/registration-server is
   one goroutine); requests of the same family are started in name order (symmetry).
   Every step carries q = "quiescent after this step" (no automatic step pending): only there
   does the driver compare the real projected state with st.
   A behaviour is printed when it is maximal: everything returned ("done") or nothing can
   move ("stuck" = deadlock of the real lock protocol). *)
EXTENDS RegistrarLocks, Json
VARIABLE hist

\* taking the read lock AGAIN right after releasing it ("per-selection") has no gate in between either
ReLockEn(r) == RLockEn(r) /\ rpc[r] > 1 /\ Prog(r)[rpc[r] - 1].op = "runlock"
AutoEnabled == (\E m \in Reloads : AnnounceEn(m) \/ AcquireEn(m) \/ SwapEn(m) \/ UnlockEn(m))
               \/ (\E r \in Requests : BuildEn(r) \/ ClassifyEn(r) \/ ReLockEn(r))
AutoNext == (\E m \in Reloads : Announce(m) \/ Acquire(m) \/ Swap(m) \/ Unlock(m))
            \/ (\E r \in Requests : Build(r) \/ Classify(r) \/ (ReLockEn(r) /\ RLock(r)))

\* "x1" < "x2" < ... : order ids of one family by their last character via a fixed table
Rank(s) == CHOOSE i \in 1..9 : \E pre \in {"d", "f", "s", "m", "u", "w"} : s = pre \o ToString(i)
SameKind(a, b) == (a \in ReqFail /\ b \in ReqFail) \/ (a \in ReqFail6 /\ b \in ReqFail6) \/ (a \in ReqDual /\ b \in ReqDual) \/ (a \in ReqV4 /\ b \in ReqV4) \/ (a \in ReqV6 /\ b \in ReqV6)
MayStart(r) == \A q \in Requests : (SameKind(q, r) /\ Rank(q) < Rank(r)) => rpc[q] > 1
MayLoad(m) == \A q \in Reloads : q # m => (mpc[q] = "done" \/ (mpc[q] = "load" /\ Rank(q) > Rank(m)))

CtrlReqEn(r) == (RLockEn(r) /\ ~ReLockEn(r) /\ (rpc[r] = 1 => MayStart(r))) \/ SelectEn(r) \/ RUnlockEn(r)
CtrlEnabled == (\E r \in Requests : CtrlReqEn(r)) \/ (\E m \in Reloads : LoadEn(m) /\ MayLoad(m))
CtrlNext == (\E r \in Requests : (~ReLockEn(r) /\ RLock(r) /\ (rpc[r] = 1 => MayStart(r))) \/ Select(r) \/ RUnlock(r))
            \/ (\E m \in Reloads : MayLoad(m) /\ Load(m))

GenInit == Init /\ hist = <<>>
GenNext == /\ IF AutoEnabled THEN AutoNext ELSE CtrlNext
           /\ hist' = Append(hist, [a |-> obs'.a, p |-> obs'.p, f |-> obs'.f, q |-> ~AutoEnabled', st |-> Proj'])
GenSpec == GenInit /\ [][GenNext]_<<vars, hist>>

Stuck == ~AllDone /\ ~AutoEnabled /\ ~CtrlEnabled
Emit == (AllDone \/ Stuck) =>
          PrintT(ToJson([term |-> IF AllDone THEN "done" ELSE "stuck",
                         whole |-> WholeGeneration,
                         resp |-> resp,
                         steps |-> hist]))
=============================================================================
