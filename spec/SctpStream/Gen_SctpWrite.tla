---------------------------- MODULE Gen_SctpWrite ----------------------------
(* Behaviour generator for the write path.  The driver can only act at quiescence
   (every real writer returned or parked), so a generated behaviour is a sequence of
   driver actions, each followed by the internal steps run to quiescence; the state
   recorded for an action is the quiescent state that follows it. *)
EXTENDS SctpWrite, Json
CONSTANT Depth
VARIABLES hist, cur
None == [none |-> TRUE]
GenInit == Init /\ hist = <<>> /\ cur = None
GenExternal == /\ cur = None /\ Quiescent /\ Len(hist) < Depth
               /\ External /\ cur' = obs' /\ UNCHANGED hist
GenInternal == /\ ~Quiescent /\ Internal /\ UNCHANGED <<hist, cur>>
GenSnap == /\ cur # None /\ Quiescent
           /\ hist' = Append(hist, cur @@ [st |-> Proj]) /\ cur' = None
           /\ UNCHANGED vars
GenNext == GenExternal \/ GenInternal \/ GenSnap
GenSpec == GenInit /\ [][GenNext]_<<vars, hist, cur>>
Emit == (Len(hist) = Depth /\ cur = None) => PrintT(ToJson(hist))
=============================================================================
