SPECIFICATION Spec
CONSTANTS
  L = 4
  TH = 2
  WriteSizes = {0, 1, 2, 3}
  DrainSizes = {1, 2, 3}
  Writers = {"w1", "w2"}
  MaxCalls = 7
  Mode = "asimpl"
VIEW view
INVARIANTS TypeOK BufferedBounded WaitingHasWakeup MutexOK
PROPERTIES OvershootOnlyOnce
CHECK_DEADLOCK FALSE
