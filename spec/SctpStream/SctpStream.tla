----------------------------- MODULE SctpStream -----------------------------
(***************************************************************************)
(* Read path of an established DTLS/SCTP session (pkg/dtls/heartbeat.go,   *)
(* pkg/dtls/sctpconn.go):                                                  *)
(*                                                                         *)
(*   msgStream.Read --> hbConn.recvLoop --> recvCh --> hbConn.Read         *)
(*                  --> SCTPConn.Read(bufLen)  (readBuffer / readOffset /  *)
(*                      readLength / readErr, large-buffer bypass)         *)
(*                                                                         *)
(* The source is a sequence of items  msg(n) | hb | err(n): a message of n *)
(* bytes, a keep-alive heartbeat, or a stream error that may come together *)
(* with n >= 0 bytes of data (io.Reader allows (n > 0, err)).  The source  *)
(* ends with its first error.                                              *)
(*                                                                         *)
(* Data bytes are numbered consecutively in the order the peer sent them   *)
(* (stream positions 0, 1, 2, ...), so a state needs only counters:        *)
(*   fedBytes   bytes handed to recvLoop so far (with or before an error)  *)
(*   delivered  bytes returned to the caller of SCTPConn.Read so far       *)
(* and a Read that returns n bytes returns positions delivered..+n-1       *)
(* (`off` in the observation); the conformance driver decodes the position *)
(* from the content of the bytes the real code returned.                   *)
(*                                                                         *)
(* One action per driver-visible call:                                     *)
(*   Feed(k, n)    the scripted stream releases one item to recvLoop and   *)
(*                 waits until recvLoop has processed it (it asks for the  *)
(*                 next message, or it closed the stream)                  *)
(*   Read(b)       SCTPConn.Read with a b-byte buffer, issued when it can  *)
(*                 complete without waiting                                *)
(*   ReadStart(b)  SCTPConn.Read issued when nothing is available: it      *)
(*                 stays pending and completes inside a later Feed         *)
(*                                                                         *)
(* Mode = "intended": what the property demands - data queued before a     *)
(*   stream error, and data that arrives together with it, is delivered    *)
(*   before the error is reported.                                         *)
(* Mode = "asimpl": the pre-repair code (H-C16-1): recvLoop drops the      *)
(*   bytes that come with an error and hbConn.Read selects between the     *)
(*   closed flag and the queue with equal priority.  Only used to show     *)
(*   that the invariants are not vacuous; never a verdict by itself.       *)
(***************************************************************************)
EXTENDS Naturals, Sequences, TLC

CONSTANTS M,           \* maxMessageSize
          MsgLens,     \* admissible message lengths (subset of 1..M)
          ErrLens,     \* bytes that may accompany an error (subset of 0..M)
          ReadSizes,   \* admissible caller buffer lengths (>= 1; >= M bypasses the buffer)
          MaxItems,    \* bound on the number of source items
          MaxPostErr,  \* reads issued after the error has been reported
          Mode         \* "intended" | "asimpl"

VARIABLES fed,        \* items released so far
          fedBytes,   \* data bytes released so far
          srcErr,     \* the source produced its error (nothing follows)
          ch,         \* recvCh: sequence of [n |-> bytes, err |-> BOOLEAN]
          closed,     \* hbConn.closed
          bufRem,     \* SCTPConn: readLength - readOffset
          bufErr,     \* SCTPConn: readErr # nil
          delivered,  \* bytes returned to the caller
          pending,    \* 0, or the buffer length of a Read that is waiting
          errSeen,    \* the caller has been given an error
          postErr,    \* reads issued after errSeen
          obs

None == [none |-> TRUE]
vars == <<fed, fedBytes, srcErr, ch, closed, bufRem, bufErr, delivered, pending, errSeen, postErr, obs>>
view == <<fed, fedBytes, srcErr, ch, closed, bufRem, bufErr, delivered, pending, errSeen, postErr>>

Min(a, b) == IF a < b THEN a ELSE b
RECURSIVE SumN(_)
SumN(s) == IF s = <<>> THEN 0 ELSE Head(s).n + SumN(Tail(s))

Proj(c, br, be, dl, cl) == [chan |-> Len(c), buf |-> br, bufErr |-> (be /\ br > 0), delivered |-> dl, closed |-> cl]

Init == /\ fed = 0 /\ fedBytes = 0 /\ srcErr = FALSE /\ ch = <<>> /\ closed = FALSE
        /\ bufRem = 0 /\ bufErr = FALSE /\ delivered = 0 /\ pending = 0
        /\ errSeen = FALSE /\ postErr = 0
        /\ obs = [a |-> "Init"]

\* ---- what the caller-side code computes --------------------------------
\* A read can complete without waiting for the peer:
Readable(c, cl, br) == br > 0 \/ Len(c) > 0 \/ cl

\* hbConn.Read into a buffer that can hold any message.  Result <<n, err, ch'>>.
\* fromQueue: take the head of the queue; fromClosed: report the closed connection.
FromQueue(c) == <<Head(c).n, Head(c).err, Tail(c)>>
FromClosed(c) == <<0, TRUE, c>>
HbReads(c, cl) ==
  IF Mode = "asimpl"
    THEN (IF Len(c) > 0 THEN {FromQueue(c)} ELSE {}) \cup (IF cl THEN {FromClosed(c)} ELSE {})
    ELSE IF Len(c) > 0 THEN {FromQueue(c)} ELSE {FromClosed(c)}

\* SCTPConn.Read(b) on state (c, cl, br, be): set of [n, err, ch, br, be] results
ReadResults(b, c, cl, br, be) ==
  IF br > 0
    THEN LET n == Min(b, br) IN
         {[n |-> n, err |-> (br - n = 0) /\ be, ch |-> c, br |-> br - n, be |-> be]}
    ELSE IF b >= M
      THEN \* bypass the intermediate buffer
           {[n |-> r[1], err |-> r[2], ch |-> r[3], br |-> 0, be |-> be] : r \in HbReads(c, cl)}
      ELSE {LET n == Min(b, r[1]) IN
            [n |-> n, err |-> (r[1] - n = 0) /\ r[2], ch |-> r[3], br |-> r[1] - n, be |-> r[2]] : r \in HbReads(c, cl)}

ReadObs(b, r, off) == [n |-> r.n, err |-> r.err, off |-> off]

\* ---- actions -----------------------------------------------------------
CanFeed == ~srcErr /\ fed < MaxItems
CanRead == pending = 0 /\ Readable(ch, closed, bufRem) /\ (errSeen => postErr < MaxPostErr)
CanStart == pending = 0 /\ ~Readable(ch, closed, bufRem)

\* effect of one item on the queue / closed flag
FeedEffect(k, n) ==
  CASE k = "hb"  -> [ch |-> ch, closed |-> closed]
    [] k = "msg" -> [ch |-> Append(ch, [n |-> n, err |-> FALSE]), closed |-> closed]
    [] k = "err" -> IF Mode = "asimpl"
                      THEN [ch |-> ch, closed |-> TRUE]                        \* bytes dropped, error not queued
                      ELSE [ch |-> Append(ch, [n |-> n, err |-> TRUE]), closed |-> TRUE]

Feed(k, n) ==
  /\ CanFeed
  /\ \/ k = "hb" /\ n = 0
     \/ k = "msg" /\ n \in MsgLens
     \/ k = "err" /\ n \in ErrLens
  /\ LET e == FeedEffect(k, n) IN
     /\ fed' = fed + 1
     /\ fedBytes' = fedBytes + n
     /\ srcErr' = (k = "err")
     /\ closed' = e.closed
     /\ IF pending # 0 /\ Readable(e.ch, e.closed, bufRem)
          THEN \E r \in ReadResults(pending, e.ch, e.closed, bufRem, bufErr) :
                 /\ ch' = r.ch /\ bufRem' = r.br /\ bufErr' = r.be
                 /\ delivered' = delivered + r.n
                 /\ errSeen' = (errSeen \/ r.err)
                 /\ pending' = 0
                 /\ obs' = [a |-> "Feed", k |-> k, n |-> n, rd |-> ReadObs(pending, r, delivered),
                            st |-> Proj(r.ch, r.br, r.be, delivered + r.n, e.closed)]
          ELSE /\ ch' = e.ch
               /\ UNCHANGED <<bufRem, bufErr, delivered, errSeen, pending>>
               /\ obs' = [a |-> "Feed", k |-> k, n |-> n, rd |-> None,
                          st |-> Proj(e.ch, bufRem, bufErr, delivered, e.closed)]
  /\ UNCHANGED postErr

Read(b) ==
  /\ CanRead
  /\ b \in ReadSizes
  /\ \E r \in ReadResults(b, ch, closed, bufRem, bufErr) :
       /\ ch' = r.ch /\ bufRem' = r.br /\ bufErr' = r.be
       /\ delivered' = delivered + r.n
       /\ errSeen' = (errSeen \/ r.err)
       /\ postErr' = IF errSeen THEN postErr + 1 ELSE postErr
       /\ obs' = [a |-> "Read", b |-> b, rd |-> ReadObs(b, r, delivered),
                  st |-> Proj(r.ch, r.br, r.be, delivered + r.n, closed)]
  /\ UNCHANGED <<fed, fedBytes, srcErr, closed, pending>>

ReadStart(b) ==
  /\ CanStart
  /\ b \in ReadSizes
  /\ pending' = b
  /\ obs' = [a |-> "ReadStart", b |-> b, st |-> Proj(ch, bufRem, bufErr, delivered, closed)]
  /\ UNCHANGED <<fed, fedBytes, srcErr, ch, closed, bufRem, bufErr, delivered, errSeen, postErr>>

Next == \/ Feed("hb", 0)
        \/ \E n \in MsgLens : Feed("msg", n)
        \/ \E n \in ErrLens : Feed("err", n)
        \/ \E b \in ReadSizes : Read(b) \/ ReadStart(b)

Spec == Init /\ [][Next]_vars

Terminal == ~CanFeed /\ ~CanRead /\ ~CanStart

\* ------------------------------ properties ------------------------------
TypeOK == /\ fed \in 0..MaxItems /\ fedBytes \in Nat /\ srcErr \in BOOLEAN /\ closed \in BOOLEAN
          /\ bufRem \in 0..M /\ bufErr \in BOOLEAN /\ delivered \in Nat
          /\ pending \in {0} \cup ReadSizes /\ errSeen \in BOOLEAN
          /\ \A i \in 1..Len(ch) : ch[i].n \in 0..M /\ ch[i].err \in BOOLEAN

\* reads return the concatenation of the peer's messages: every byte released by the source is
\* delivered, buffered or queued - none is lost, none is invented (heartbeats add nothing)
StreamFidelity == delivered + bufRem + SumN(ch) = fedBytes
HeartbeatsNeverSurface == delivered <= fedBytes

\* a stream error is reported only after the data that came before or with it
ErrorAfterItsData == errSeen => delivered = fedBytes

\* the caller sees an error only if the stream produced one
NoSpuriousError == errSeen => srcErr

\* once reported, the error stays: no data after it, every further read fails
ErrorSticky == [][errSeen => (delivered' = delivered /\ (obs'.a = "Read" => obs'.rd.err))]_vars

\* a pending read never coexists with something it could have returned
PendingMeansEmpty == pending # 0 => ~Readable(ch, closed, bufRem)

\* the error is stored only together with the buffered tail it belongs to
DeferredErrorHasData == (bufErr /\ bufRem > 0) => srcErr
=============================================================================
