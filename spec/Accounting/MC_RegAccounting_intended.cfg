\* intended variant: every law
SPECIFICATION Spec
CONSTANTS
  Regs = {"r1", "r2"}
  Srcs = {"detector", "api"}
  RFams = {"v4", "v6"}
  Gens = {"g1"}
  TTs = {"min"}
  LVs = {"l1"}
  Variant = "intended"
  Broken = "none"
  MapWindow = TRUE
  MaxPrints = 2
  MaxFree = 0
VIEW view
CONSTRAINT Canon
INVARIANTS TypeOK ActiveExact TotalsExact Breakdowns NoDoubleCount MapLedger Ledger RegConservation CrossObject
PROPERTIES PrintKeepsGauges
CHECK_DEADLOCK FALSE
