"""Shared machinery of the Classify checks (C02, C03, C04): case generation helpers, the oracle that turns a case
definition into the specification's terms, running the cases on the real handler, trace validation."""
import json, os, copy
import vlib

PKG = "cmd/application"
FILES = ["common/vcommon_test.go", "cmd_application/vconn_verif_test.go", "cmd_application/classify_verif_test.go"]
BRIDGE = [("pkg/station/lib", ["pkg_station_lib/bridge_verif.go"], "lib")]

# static prefix lengths of the default prefixes (pkg/transports/wrapping/prefix/prefix.go defaultPrefixes)
PLEN = {0: 0, 1: 16, 2: 17, 3: 14, 4: 6, 5: 8, 6: 5, 7: 5, 8: 6, 9: 21}
PFX_TAG, MIN_TAG = 64, 32


def stream(**kw):
    s = {"from": "", "client_px": 0, "client_t": "", "flush": 0, "gen": "random", "len": 0, "flip": -1, "flip_end": -1,
         "trunc": -1, "early": 0, "late": 0}
    s.update(kw)
    return s


def case(cid, dst, st, cuts=(), pace_ms=3, peer_close=False, src_ip="203.0.113.77"):
    return {"id": cid, "dst": dst, "src_ip": src_ip, "stream": st, "cuts": sorted(set(int(c) for c in cuts if c > 0)),
            "pace_ms": pace_ms, "peer_close": peer_close}


def oracle(world, cs, flight_len, total):
    """The case in the terms of Classify.tla, computed from the case DEFINITION (never from what the code did)."""
    st = cs["stream"]
    regs = {r["name"]: r for r in world["regs"]}
    occ = sum(1 for r in world["regs"] if r["phantom"] == cs["dst"] and r["state"] in ("valid", "tracked"))
    c = {"t": "none", "ok": False, "terr": False, "H": 0, "pofs": 0, "total": total, "occ": occ, "reg": ""}
    if st["from"]:
        r = regs[st["from"]]
        ct = st["client_t"] or r["transport"]
        c["t"] = ct
        if ct == "min":
            H = MIN_TAG
        elif ct == "prefix":
            c["pofs"] = PLEN[st["client_px"]]
            H = c["pofs"] + PFX_TAG
            if 0 <= st["flip"] < c["pofs"] * 8:
                c["pofs"] = 0             # an altered static prefix no longer matches any prefix's static bytes
        else:
            H = flight_len
        c["H"] = H
        # the two top bits of the representative's last byte are masked by the decoder: they are not part of the tag
        masked = ct == "prefix" and st["flip"] in ((PLEN[st["client_px"]] + 31) * 8 + 6, (PLEN[st["client_px"]] + 31) * 8 + 7)
        untouched = (st["flip"] < 0 or masked) and st["flip_end"] < 0 and (st["trunc"] < 0 or st["trunc"] >= H)
        # registrations on the destination phantom that this flight's secret + transport could open
        cands = [x for x in world["regs"] if x["phantom"] == cs["dst"] and x["state"] == "valid"
                 and x["secret"] == r["secret"] and x["transport"] == ct]
        if ct == "obfs4" and cands and st["trunc"] < 0 and st["flip"] < 0 and st["flip_end"] >= 0:
            # structure of the obfs4 client handshake from its end: MAC (16 bytes) | mark (16 bytes) | padding | representative
            byte_from_end = st["flip_end"] // 8
            if byte_from_end < 16 or 32 <= byte_from_end < H - 32:
                c["terr"] = True          # mark still found, MAC check fails inside the server handshake
        if untouched and cands:
            if ct == "prefix":
                exact = [x for x in cands if x["prefix_id"] == st["client_px"] and not x.get("nil_params")]
                if exact:
                    c["ok"] = True
                    c["reg"] = exact[0]["name"]
                else:
                    c["terr"] = True      # valid tag, but the registration names another prefix (or none)
            else:
                c["ok"] = True
                c["reg"] = cands[0]["name"]
    else:
        g = st["gen"]
        if g.startswith("static:"):
            c["pofs"] = PLEN[int(g.split(":")[1])]
    return c


FINAL_KEYS = {"matched": "", "matched_reg": "", "used": False, "want_n": 0, "fwd_ok": False, "reply_ok": False,
              "covert_conns": 0, "to_peer": 0, "unread": 0}


def run_cases(ctx, worlds_cases, par=300, timeout=3000, epoch_ms=0):
    """worlds_cases: list of (world, [cases]).  Returns list of (world, case, record)."""
    inp = os.path.join(ctx.scratch, "classify_in_%d.ndjson" % len(os.listdir(ctx.scratch)))
    outp = inp.replace("_in_", "_out_")
    idx = {}
    with open(inp, "w") as f:
        for w, cases in worlds_cases:
            f.write(json.dumps({"world": w}) + "\n")
            for c in cases:
                if c["id"] in idx:
                    raise vlib.InfraError("duplicate case id " + c["id"])
                idx[c["id"]] = (w, c)
                f.write(json.dumps(c) + "\n")
    res = ctx.go_test(PKG, FILES, "main", "^TestVerifClassify$", env={"VERIF_IN": inp, "VERIF_OUT": outp, "VERIF_PAR": par, "VERIF_EPOCH_MS": epoch_ms},
                      extra_overlays=BRIDGE, timeout=timeout)
    try:
        rows = ctx.read_results(outp)
    except ValueError:
        raise vlib.InfraError("classify driver died:\n" + res["out"][-4000:])
    if not any(r.get("kind") == "summary" for r in rows):
        raise vlib.InfraError("classify driver did not finish:\n" + res["out"][-3000:])
    # secondary invariant (connStats state machine of cmd/application/conns.go): at quiescence nothing is in flight, every
    # connection was counted once as new and once as resolved, and the outcome counters add up
    matched_total = sum(1 for r in rows if "case" in r and r["final"].get("matched"))
    cs = [r for r in rows if r.get("kind") == "connstats"]
    tot = {"cases": 0, "found": 0}
    for c in cs:
        if c.get("rollovers"):
            continue    # epochs rolled over while connections were open: a reset drops the in-flight gauges (extension X04, D4) - no balance to judge
        n = c["cases"]
        tot["cases"] += n
        tot["found"] += c["outcomes"]["found"]
        problems = []
        if any(v != 0 for v in c["in_flight"].values()):
            problems.append("in-flight states not zero at quiescence: %s" % c["in_flight"])
        if c["new"] != n or c["resolved"] != n:
            problems.append("new=%d resolved=%d for %d connections" % (c["new"], c["resolved"], n))
        if sum(c["outcomes"].values()) != n:
            problems.append("outcome counters %s do not add up to %d" % (c["outcomes"], n))
        for pr in problems:
            ctx.violation("connstats:%s" % pr.split(":")[0].split("=")[0].replace(" ", "-"),
                          "connection statistics do not balance after a batch of %d connections: %s" % (n, pr), c)
    if cs and not any(c.get("rollovers") for c in cs) and tot["found"] != matched_total:
        ctx.violation("connstats:found-count", "statistics count %d found connections, %d were matched" % (tot["found"], matched_total), {"stats": cs})
    ctx.stage("C", connstats_batches=len(cs))
    # application data too short to identify its covert connection (< 8 bytes) and carried by several cases: exactly as many
    # covert connections received those bytes as cases were matched
    for g in [r for r in rows if r.get("kind") == "covert_group"]:
        if g["conns"] != g["matched"]:
            ctx.violation("covert-conns:group-mismatch", "%d matched connections carried the application data %s but %d covert connections "
                          "received exactly it" % (g["matched"], g["data"], g["conns"]), g)
    out = []
    for r in rows:
        if "case" in r:
            w, c = idx[r["case"]]
            out.append((w, c, r))
    if len(out) != len(idx):
        raise vlib.InfraError("classify driver returned %d of %d cases" % (len(out), len(idx)))
    return out


def to_trace(w, cs, rec):
    fin = rec["final"]
    c = oracle(w, cs, fin.get("flight_len", 0), fin.get("c2s_written", 0))
    tr = [{"a": "Start", "c": c, "case": cs["id"]}]
    for e in rec["ev"]:
        e = dict(e)
        e.pop("ms", None)
        if e["a"] == "Verdict":
            e.setdefault("left", 0)
            e.pop("err", None)
        if e["a"] == "Panic":
            e["a"] = "Panic"
        tr.append(e)
    f = dict(FINAL_KEYS)
    for k in FINAL_KEYS:
        if k in fin and fin[k] is not None:
            f[k] = fin[k]
    f["a"] = "Final"
    tr.append(f)
    return tr, c


def validate(ctx, pid, results, label):
    """Trace-validates all case records; on rejection isolates and reports the offending cases."""
    sdir = ctx.spec_copy("Classify")
    traces, metas = [], []
    for (w, cs, rec) in results:
        tr, c = to_trace(w, cs, rec)
        traces.append(tr)
        metas.append((w, cs, rec, c))
    nviol = 0
    pending = list(range(len(traces)))
    rounds = 0
    accepted_total = 0
    while pending and rounds < 40:
        rounds += 1
        ok, reached, total, r = ctx.validate_traces(sdir, "Trace_Classify.tla", "Trace_Classify.cfg", [traces[i] for i in pending],
                                                    timeout=1800, reset=False)
        if ok:
            accepted_total += len(pending)
            break
        # find the trace containing event index `reached`
        pos = 0
        bad = None
        for j, i in enumerate(pending):
            if reached < pos + len(traces[i]):
                bad = j
                break
            pos += len(traces[i])
        if bad is None:
            raise vlib.InfraError("trace validation failed outside any trace: %s" % r["out"][-1500:])
        i = pending[bad]
        w, cs, rec, c = metas[i]
        evi = reached - pos
        ev = traces[i][evi] if evi < len(traces[i]) else None
        inv = r["inv"]
        kind = classify_violation(c, cs, ev, inv, rec)
        ctx.violation("%s:%s" % (label, kind),
                      "real handler run is not a behaviour of Classify.tla (%s) - case %s: %s; offending event #%d %s"
                      % (("invariant " + inv) if inv else "trace rejected", cs["id"], json.dumps(cs["stream"]), evi, json.dumps(ev)[:300]),
                      {"case": cs, "oracle": c, "event_index": evi, "event": ev, "events": rec["ev"][:60], "final": rec["final"], "invariant": inv})
        nviol += 1
        accepted_total += bad
        pending = pending[bad + 1:]
    return {"traces": len(traces), "accepted": accepted_total, "rejected": nviol, "sdir": sdir}


def classify_violation(c, cs, ev, inv, rec):
    """A stable key for the kind of divergence (used for known findings / reporting)."""
    st = cs["stream"]
    what = "flight:%s" % c["t"] if st["from"] else "probe:%s" % st["gen"].split(":")[0]
    cls = "ok" if c["ok"] else ("terr" if c["terr"] else "invalid")
    a = (ev or {}).get("a", "end")
    extra = ""
    if a == "Verdict":
        extra = ":%s=%s" % (ev.get("t"), ev.get("r"))
    if inv:
        return "%s:%s:inv:%s" % (what, cls, inv)
    return "%s:%s:%s%s" % (what, cls, a, extra)


def binding_demo(ctx, results, sdir):
    """Corrupt one recorded field of an accepted trace: TLC must reject it."""
    for (w, cs, rec) in results:
        tr, c = to_trace(w, cs, rec)
        for e in tr:
            if e["a"] == "Verdict" and e["r"] == "again":
                e["r"] = "not"
                ok, reached, total, _ = ctx.validate_traces(sdir, "Trace_Classify.tla", "Trace_Classify.cfg", [tr], timeout=300, reset=False)
                if ok:
                    raise vlib.InfraError("binding is vacuous: corrupted classify trace accepted")
                return reached
    raise vlib.InfraError("no event to corrupt for the binding demonstration")


def stage_a(ctx):
    sdir = ctx.spec_copy("Classify")
    r = ctx.tlc(sdir, "MC_Classify.tla", "MC_Classify.cfg", timeout=900, workers=8)
    ctx.require_design_ok(r, "Classify")
    b = ctx.tlc(sdir, "MC_Classify.tla", "MC_Classify_broken.cfg", timeout=300, workers=4, count=False)
    if not b["inv"]:
        raise vlib.InfraError("broken Classify instance (obfs4 gives up early) should violate an invariant")
    b2 = ctx.tlc(sdir, "MC_Classify.tla", "MC_Classify_markleak.cfg", timeout=300, workers=4, count=False)
    if b2["inv"] != "RegistryFree":
        raise vlib.InfraError("Classify instance whose MarkActive keeps the table's lock when the sweeper was faster should violate RegistryFree, got %s" % b2["inv"])
    b3 = ctx.tlc(sdir, "MC_Classify.tla", "MC_Classify_shareddl.cfg", timeout=300, workers=4, count=False)
    if b3["inv"] != "DeadlineUnpredictable":
        raise vlib.InfraError("Classify instance whose deadline comes from the generator the legacy phantom selection seeds should violate DeadlineUnpredictable, got %s" % b3["inv"])
    ctx.stage("A", invariants=["DeadlineUnpredictable", "NoBytes", "NoEarlyClose", "KeepsReading", "MatchSound", "ConsumeExact", "FoundWhenComplete",
                               "NeverDropsMatching", "MarkedUsed", "RegistryFree", "Recognised", "Terminates"],
              nonvacuity="instance with obfs4 giving up before the handshake completes violates %s; instance whose MarkActive returns without "
              "unlocking when the sweeper removed the registration first violates RegistryFree" % b["inv"])
    return r
