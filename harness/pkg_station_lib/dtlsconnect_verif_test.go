//go:build verif

package lib

// Conformance driver for spec/DtlsConnect (extension module X06), caller level: handleConnectingTpReg, the goroutine the
// station starts per registration of a connecting transport (registration_ingest.go).
//
//   TestVerifDtlsConnectHandler
//     mode "real"  the real handleConnectingTpReg drives the REAL dtls transport (built by the exported NewTransport:
//                  real pkg/dtls listener on :41245, DNAT over /dev/null, statistics callbacks wired to the recorder the
//                  way cmd/application/main.go wires them to connStats) for a real DecoyRegistration; the client is the
//                  real ClientTransport through its exported API only (SetParams, Prepare against an in-process STUN
//                  responder, PrepareKeys, GetParams -> the registration's parameters via the station's ParseParams,
//                  WrapDial).  The connection Connect returns goes into the real Proxy, which dials a covert echo server
//                  on loopback TCP: a message written by the client must come back through DTLS/SCTP - Proxy - covert.
//                  The script (who starts first, which path forwards) is the same as in the transport-level driver.
//     mode "fake"  handleConnectingTpReg with a scripted ConnectingTransport: which statistics call follows which
//                  Connect result (deadline, wrapped deadline, cancellation, other error, connection).
//   Every row reports the ordered statistics calls with their (asn, cc) key, the context Connect was given (deadline,
//   cancelled afterwards), how long Connect took, how often the returned connection was closed, and whether bytes flowed.
//   Runs inside the private network namespace of harness/common/dtlsconnect_netns_test.go (fixed port 41245).

import (
	"context"
	"crypto/sha256"
	"encoding/json"
	"errors"
	"fmt"
	"io"
	"net"
	"os"
	"runtime"
	"sort"
	"strings"
	"sync"
	"sync/atomic"
	"testing"
	"time"

	"github.com/libp2p/go-reuseport"
	"github.com/pion/stun"
	"github.com/refraction-networking/conjure/pkg/core"
	"github.com/refraction-networking/conjure/pkg/core/interfaces"
	"github.com/refraction-networking/conjure/pkg/dtls/dnat"
	"github.com/refraction-networking/conjure/pkg/station/log"
	"github.com/refraction-networking/conjure/pkg/transports"
	cjt "github.com/refraction-networking/conjure/pkg/transports/connecting/dtls"
	pb "github.com/refraction-networking/conjure/proto"
	"google.golang.org/protobuf/types/known/anypb"
)

const xhStunName = "stun.x06.verif:3478"
const xhPort = 41245

type xhCase struct {
	ID     string `json:"id"`
	Mode   string `json:"mode"`   // real | fake
	Start  string `json:"start"`  // S | C | X
	PD     string `json:"pD"`     // open | drop
	PL     string `json:"pL"`     // open | drop | nobind
	Nat    string `json:"nat"`    // icmp | silent
	Dnat   string `json:"dnat"`   // ok | fail
	Key    string `json:"key"`    // good | bad
	Covert string `json:"covert"` // echo | refuse
	Geo    string `json:"geo"`    // ok | ccfail | asnfail
	Ret    string `json:"ret"`    // fake mode: deadline | wrapped_deadline | canceled | other | conn | late_conn
}

// ---------------------------------------------------------------- recorder: ConnectingTpStats + the transport's callbacks
type xhCall struct {
	K   string `json:"k"`
	Asn uint   `json:"asn"`
	CC  string `json:"cc"`
	Tp  string `json:"tp"`
	Ms  int64  `json:"ms"`
	Seq int64  `json:"seq"`
}

type xhStats struct {
	mu    sync.Mutex
	byAsn map[uint][]xhCall
	t0    time.Time
	seq   int64
}

func (s *xhStats) add(k string, asn uint, cc, tp string) {
	s.mu.Lock()
	s.seq++
	s.byAsn[asn] = append(s.byAsn[asn], xhCall{k, asn, cc, tp, time.Since(s.t0).Milliseconds(), s.seq})
	s.mu.Unlock()
}
func (s *xhStats) AddCreatedConnecting(a uint, c, t string)                 { s.add("created", a, c, t) }
func (s *xhStats) AddCreatedToSuccessfulConnecting(a uint, c, t string)     { s.add("successful", a, c, t) }
func (s *xhStats) AddCreatedToTimeoutConnecting(a uint, c, t string)        { s.add("timeout", a, c, t) }
func (s *xhStats) AddSuccessfulToDiscardedConnecting(a uint, c, t string)   { s.add("discarded", a, c, t) }
func (s *xhStats) AddOtherFailConnecting(a uint, c, t string)               { s.add("otherfail", a, c, t) }
func (s *xhStats) AddCreatedToDialSuccessfulConnecting(a uint, c, t string)  { s.add("dialOK", a, c, t) }
func (s *xhStats) AddCreatedToListenSuccessfulConnecting(a uint, c, t string) { s.add("listenOK", a, c, t) }
func (s *xhStats) AddAuthFailConnecting(a uint, c, t string)                { s.add("auth", a, c, t) }
func (s *xhStats) get(asns ...uint) []xhCall {
	s.mu.Lock()
	defer s.mu.Unlock()
	var out []xhCall
	for _, a := range asns {
		out = append(out, s.byAsn[a]...)
	}
	sort.Slice(out, func(i, j int) bool { return out[i].Seq < out[j].Seq })
	return out
}

// GeoIP stub: the ASN encodes the address (every scenario has its own registration address and client address), so the
// recorder can attribute every call; addresses in fail sets produce the database errors.
type xhGeo struct {
	mu      sync.Mutex
	ccFail  map[string]bool
	asnFail map[string]bool
}

func xhAsn(ip net.IP) uint {
	v4 := ip.To4()
	if v4 == nil {
		return 6
	}
	return uint(v4[0])<<24 | uint(v4[1])<<16 | uint(v4[2])<<8 | uint(v4[3])
}
func (g *xhGeo) ASN(ip net.IP) (uint, error) {
	g.mu.Lock()
	defer g.mu.Unlock()
	if g.asnFail[ip.String()] {
		return 0, errors.New("asn lookup failed")
	}
	return xhAsn(ip), nil
}
func (g *xhGeo) CC(ip net.IP) (string, error) {
	g.mu.Lock()
	defer g.mu.Unlock()
	if g.ccFail[ip.String()] {
		return "", errors.New("cc lookup failed")
	}
	return "zz", nil
}

// ---------------------------------------------------------------- decorator around the transport handed to the manager
type xhRec struct {
	mu      sync.Mutex
	called  bool
	dlLeft  time.Duration
	hasDl   bool
	ctx     context.Context
	ret     string
	retMs   int64
	callMs  int64
	closes  int32
	conn    net.Conn
	retDone chan struct{}
}

type xhConn struct {
	net.Conn
	rec *xhRec
}

func (c *xhConn) Close() error { atomic.AddInt32(&c.rec.closes, 1); return c.Conn.Close() }

type xhTransport struct {
	Transport
	inner ConnectingTransport
	w     *xhWorld
}

func (t *xhTransport) Connect(ctx context.Context, reg transports.Registration) (net.Conn, error) {
	t.w.mu.Lock()
	rec := t.w.recs[string(reg.SharedSecret())]
	fk := t.w.fakes[string(reg.SharedSecret())]
	t.w.mu.Unlock()
	if rec == nil {
		return t.inner.Connect(ctx, reg)
	}
	t0 := time.Now()
	rec.mu.Lock()
	rec.called = true
	rec.ctx = ctx
	rec.callMs = time.Since(t.w.t0).Milliseconds()
	if dl, ok := ctx.Deadline(); ok {
		rec.hasDl, rec.dlLeft = true, time.Until(dl)
	}
	rec.mu.Unlock()
	var conn net.Conn
	var err error
	if fk != nil {
		conn, err = fk(ctx)
	} else {
		conn, err = t.inner.Connect(ctx, reg)
	}
	rec.mu.Lock()
	rec.retMs = time.Since(t0).Milliseconds()
	switch {
	case err == nil && conn != nil:
		rec.ret = "conn"
		conn = &xhConn{Conn: conn, rec: rec}
		rec.conn = conn
	case errors.Is(err, context.DeadlineExceeded):
		rec.ret = "deadline"
	case errors.Is(err, context.Canceled):
		rec.ret = "canceled"
	default:
		rec.ret = "other"
	}
	rec.mu.Unlock()
	close(rec.retDone)
	return conn, err
}

// ---------------------------------------------------------------- world
type xhWorld struct {
	mu    sync.Mutex
	recs  map[string]*xhRec
	fakes map[string]func(context.Context) (net.Conn, error)
	dnatF map[string]bool // client IP -> AddEntry fails
	stats *xhStats
	geo   *xhGeo
	rm    *RegistrationManager
	tr    *cjt.Transport
	okD   interfaces.DNAT
	badD  interfaces.DNAT
	t0    time.Time
	echo  string
}

type xhDnat struct{ w *xhWorld }

func (d *xhDnat) AddEntry(src *net.IP, sport uint16, dst *net.IP, dport uint16) error {
	d.w.mu.Lock()
	bad := d.w.dnatF[src.String()]
	d.w.mu.Unlock()
	if bad {
		return d.w.badD.AddEntry(src, sport, dst, dport)
	}
	return d.w.okD.AddEntry(src, sport, dst, dport)
}

func xhStunServe(pc net.PacketConn) {
	buf := make([]byte, 1500)
	for {
		n, addr, err := pc.ReadFrom(buf)
		if err != nil {
			return
		}
		m := &stun.Message{Raw: append([]byte(nil), buf[:n]...)}
		if m.Decode() != nil {
			continue
		}
		ua := addr.(*net.UDPAddr)
		resp, err := stun.Build(stun.NewTransactionIDSetter(m.TransactionID), stun.BindingSuccess, &stun.XORMappedAddress{IP: ua.IP, Port: ua.Port})
		if err == nil {
			_, _ = pc.WriteTo(resp.Raw, addr)
		}
	}
}

func xhNewWorld(t *testing.T) *xhWorld {
	w := &xhWorld{recs: map[string]*xhRec{}, fakes: map[string]func(context.Context) (net.Conn, error){}, dnatF: map[string]bool{},
		geo: &xhGeo{ccFail: map[string]bool{}, asnFail: map[string]bool{}}, t0: time.Now()}
	w.stats = &xhStats{byAsn: map[uint][]xhCall{}, t0: w.t0}
	devnull, err := os.OpenFile(os.DevNull, os.O_WRONLY, 0)
	if err != nil {
		t.Fatal(err)
	}
	closed, _ := os.OpenFile(os.DevNull, os.O_WRONLY, 0)
	closed.Close()
	w.okD, w.badD = dnat.VerifNewDNAT(devnull), dnat.VerifNewDNAT(closed)
	w.rm = &RegistrationManager{RegConfig: &RegConfig{}, RegistrationStats: newRegistrationStats(), Logger: log.New(io.Discard, "", 0),
		registeredDecoys: NewRegisteredDecoys(), GeoIP: w.geo, connectingStats: w.stats}
	// cmd/application/main.go: logIPDTLS(connManager.AddAuthFailConnecting), ... - the same closure, over the recorder
	logIP := func(logger func(asn uint, cc, tp string)) func(*net.IP) {
		return func(ip *net.IP) {
			cc, err := w.rm.GeoIP.CC(*ip)
			if err != nil {
				return
			}
			var asn uint
			if cc != "unk" {
				asn, err = w.rm.GeoIP.ASN(*ip)
				if err != nil {
					return
				}
			}
			logger(asn, cc, "dtls")
		}
	}
	tr, err := cjt.NewTransport(logIP(w.stats.AddAuthFailConnecting), logIP(w.stats.AddOtherFailConnecting),
		logIP(w.stats.AddCreatedToDialSuccessfulConnecting), logIP(w.stats.AddCreatedToListenSuccessfulConnecting),
		func() (interfaces.DNAT, error) { return &xhDnat{w: w}, nil })
	if err != nil {
		t.Fatalf("NewTransport: %v", err)
	}
	w.tr = tr
	if err := w.rm.AddTransport(pb.TransportType_DTLS, &xhTransport{Transport: tr, inner: tr, w: w}); err != nil {
		t.Fatal(err)
	}
	for _, a := range []string{"127.0.0.1:3478", "[::1]:3478"} {
		pc, err := net.ListenPacket("udp", a)
		if err != nil {
			t.Fatalf("stun responder: %v", err)
		}
		go xhStunServe(pc)
	}
	ln, err := net.Listen("tcp", "127.0.0.1:0")
	if err != nil {
		t.Fatal(err)
	}
	w.echo = ln.Addr().String()
	go func() {
		for {
			c, err := ln.Accept()
			if err != nil {
				return
			}
			go func() { _, _ = io.Copy(c, c); c.Close() }()
		}
	}()
	return w
}

// ---------------------------------------------------------------- client side (exported API of the transport only)
type xhCConn struct {
	*net.UDPConn
	drop bool
}

func (c *xhCConn) Write(b []byte) (int, error) {
	if c.drop {
		return len(b), nil
	}
	return c.UDPConn.Write(b)
}

type xhClient struct {
	tc    xhCase
	ip    net.IP
	guard net.PacketConn
}

func (cl *xhClient) dialer(ctx context.Context, network, laddr, raddr string) (net.Conn, error) {
	role := "dial"
	if raddr == xhStunName {
		role = "stun"
		raddr = "127.0.0.1:3478"
		if network == "udp6" {
			raddr = "[::1]:3478"
		}
	} else if laddr != "" {
		role = "listen"
	}
	if role == "listen" && cl.tc.PL == "nobind" {
		return nil, &net.OpError{Op: "dial", Net: "udp", Err: errors.New("bind: address already in use")}
	}
	if laddr == "" {
		laddr = net.JoinHostPort(cl.ip.String(), "0")
		if role == "stun" && network == "udp6" {
			laddr = "[::1]:0"
		}
	}
	la, err := net.ResolveUDPAddr("udp", laddr)
	if err != nil {
		return nil, err
	}
	d := net.Dialer{Control: reuseport.Control, LocalAddr: la}
	nc, err := d.DialContext(ctx, "udp", raddr)
	if err != nil {
		return nil, err
	}
	c := &xhCConn{UDPConn: nc.(*net.UDPConn)}
	c.drop = (role == "dial" && cl.tc.PD == "drop") || (role == "listen" && cl.tc.PL == "drop")
	return c, nil
}

func (w *xhWorld) runCase(tc xhCase, idx int) map[string]any {
	row := map[string]any{"kind": "row", "id": tc.ID, "case": tc}
	h := sha256.Sum256([]byte(fmt.Sprintf("x06h-%s-%d-%d", tc.ID, idx, vSeed())))
	secret := h[:]
	n := idx + 300
	cip := net.IPv4(127, 2, byte(n>>8), byte(n)).To4()
	regAddr := net.IPv4(198, 51, byte(100+(n>>8)), byte(n)).To4()
	keys, err := core.GenSharedKeys(uint(core.CurrentClientLibraryVersion()), secret, pb.TransportType_DTLS)
	if err != nil {
		row["infra"] = err.Error()
		return row
	}
	rec := &xhRec{retDone: make(chan struct{})}
	w.mu.Lock()
	w.recs[string(keys.SharedSecret)] = rec
	if tc.Dnat == "fail" {
		w.dnatF[cip.String()] = true
	}
	w.mu.Unlock()
	w.geo.mu.Lock()
	if tc.Geo == "ccfail" {
		w.geo.ccFail[regAddr.String()] = true
	}
	if tc.Geo == "asnfail" {
		w.geo.asnFail[regAddr.String()] = true
	}
	w.geo.mu.Unlock()
	covert := w.echo
	if tc.Covert == "refuse" {
		ln, _ := net.Listen("tcp", "127.0.0.1:0")
		covert = ln.Addr().String()
		ln.Close()
	}
	src := pb.RegistrationSource_API
	var trp Transport = w.tr
	reg := &DecoyRegistration{PhantomIp: net.ParseIP("127.0.0.1").To4(), PhantomPort: xhPort, Keys: &keys, Covert: covert,
		Transport: pb.TransportType_DTLS, TransportPtr: &trp, RegistrationSource: &src, RegistrationTime: time.Now(),
		registrationAddr: regAddr, clientLibVer: uint32(core.CurrentClientLibraryVersion())}
	logger := log.New(io.Discard, "", 0)
	t0 := time.Now()

	if tc.Mode == "fake" {
		pa, pbb := net.Pipe()
		defer pbb.Close()
		w.mu.Lock()
		w.fakes[string(keys.SharedSecret)] = func(ctx context.Context) (net.Conn, error) {
			switch tc.Ret {
			case "deadline":
				<-ctx.Done()
				return nil, ctx.Err()
			case "wrapped_deadline":
				<-ctx.Done()
				return nil, fmt.Errorf("error accepting dtls connection from secret: %w", ctx.Err())
			case "canceled":
				return nil, context.Canceled
			case "other":
				return nil, errors.New("error adding DNAT entry: x, error accepting dtls connection from secret: y")
			}
			return pa, nil
		}
		w.mu.Unlock()
		handleConnectingTpReg(w.rm, reg, logger)
		select {
		case <-rec.retDone:
		case <-time.After(7 * time.Second):
		}
		if tc.Ret == "conn" {
			// the other end of the pipe plays the client: through Proxy to the covert and back
			row["echo"] = xhEcho(pbb, tc.ID)
			pbb.Close()
		}
	} else {
		// ---- the real client
		cl := &xhClient{tc: tc, ip: cip}
		ct := &cjt.ClientTransport{}
		_ = ct.SetParams(&cjt.ClientConfig{STUNServer: xhStunName})
		pctx, pcancel := context.WithTimeout(context.Background(), 3*time.Second)
		err := ct.Prepare(pctx, cl.dialer)
		pcancel()
		if err != nil {
			row["infra"] = "Prepare: " + err.Error()
			return row
		}
		csecret := keys.SharedSecret
		if tc.Key == "bad" {
			h2 := sha256.Sum256(append([]byte("other-"), secret...))
			csecret = h2[:]
		}
		_ = ct.PrepareKeys([32]byte{}, csecret, nil)
		cp, _ := ct.GetParams()
		a1, _ := anypb.New(cp)
		sp, err := w.tr.ParseParams(uint(core.CurrentClientLibraryVersion()), a1)
		if err != nil {
			row["infra"] = "ParseParams: " + err.Error()
			return row
		}
		reg.transportParams = sp
		dp := sp.(*pb.DTLSTransportParams)
		if !net.IP(dp.GetSrcAddr4().GetIP()).Equal(cip) {
			row["infra"] = fmt.Sprintf("prepared address %v is not %v", dp.GetSrcAddr4(), cip)
			return row
		}
		if tc.Nat == "silent" {
			g, err := reuseport.ListenPacket("udp", net.JoinHostPort(cip.String(), fmt.Sprint(dp.GetSrcAddr4().GetPort())))
			if err == nil {
				cl.guard = g
				defer g.Close()
			}
		}
		type cres struct {
			conn net.Conn
			err  error
		}
		cch := make(chan cres, 1)
		startC := func() {
			go func() {
				ctx, cancel := context.WithTimeout(context.Background(), 6500*time.Millisecond)
				defer cancel()
				dial, _ := ct.WrapDial(cl.dialer)
				c, err := dial(ctx, "udp", "", fmt.Sprintf("127.0.0.1:%d", xhPort))
				cch <- cres{c, err}
			}()
		}
		startS := func() { handleConnectingTpReg(w.rm, reg, logger) }
		t0 = time.Now()
		switch tc.Start {
		case "S":
			startS()
			time.Sleep(250 * time.Millisecond)
			startC()
		case "C":
			startC()
			// the client's dial has been answered (rejected: nobody has registered the secret yet) - or cannot be
			if tc.PD == "open" {
				for i := 0; i < 300; i++ {
					seen := false
					for _, c := range w.stats.get(xhAsn(cip)) {
						if c.K == "auth" {
							seen = true
						}
					}
					if seen {
						break
					}
					time.Sleep(5 * time.Millisecond)
				}
			}
			time.Sleep(80 * time.Millisecond)
			startS()
		default:
			startS()
			startC()
		}
		c := <-cch
		row["c"] = "err"
		if c.err == nil && c.conn != nil {
			row["c"] = "conn"
			select {
			case <-rec.retDone:
			case <-time.After(7 * time.Second):
			}
			row["echo"] = xhEcho(c.conn, tc.ID)
			c.conn.Close()
		} else {
			row["cerr"] = fmt.Sprint(c.err)
			if tc.Geo == "" || tc.Geo == "ok" {
				select {
				case <-rec.retDone:
				case <-time.After(7 * time.Second):
				}
			}
		}
	}

	// ---- quiescence: the goroutine of handleConnectingTpReg has made its last statistics call
	want := 2
	asnR, asnC := xhAsn(regAddr), xhAsn(cip)
	if tc.Geo == "ccfail" || tc.Geo == "asnfail" {
		want = 0
		time.Sleep(300 * time.Millisecond)
	}
	tq := time.Now()
	deadline := time.Now().Add(time.Duration(vEnvInt("VERIF_TEARDOWN_S", 8)) * time.Second) // (a close the station never saw is noticed by the heartbeat watchdog: 10 - 20 s)
	for time.Now().Before(deadline) {
		calls := w.stats.get(asnR, asnC)
		rec.mu.Lock()
		ret := rec.ret
		rec.mu.Unlock()
		if ret == "conn" && tc.Mode != "fake" {
			want = 3
		}
		nn := 0
		for _, c := range calls {
			if c.K != "auth" {
				nn++
			}
		}
		if nn >= want && (ret != "conn" || atomic.LoadInt32(&rec.closes) > 0) {
			break
		}
		time.Sleep(10 * time.Millisecond)
	}
	if time.Since(tq) > 3*time.Second {
		buf := make([]byte, 8<<20)
		buf = buf[:runtime.Stack(buf, true)]
		var st []string
		for _, g := range strings.Split(string(buf), "\n\n") {
			if strings.Contains(g, "station/lib.halfPipe") || strings.Contains(g, "station/lib.Proxy") {
				var fr []string
				for _, l := range strings.Split(g, "\n") {
					if !strings.HasPrefix(l, "\t") && len(fr) < 9 {
						fr = append(fr, l)
					}
				}
				st = append(st, strings.Join(fr, " < "))
			}
		}
		row["slow_teardown_goroutines"] = st
	}
	time.Sleep(30 * time.Millisecond)
	rec.mu.Lock()
	row["connect"] = map[string]any{"called": rec.called, "has_deadline": rec.hasDl, "deadline_ms": rec.dlLeft.Milliseconds(),
		"ret": rec.ret, "ret_ms": rec.retMs, "closes": atomic.LoadInt32(&rec.closes)}
	ctxErr := ""
	if rec.ctx != nil && rec.ctx.Err() != nil {
		ctxErr = rec.ctx.Err().Error()
	}
	row["ctx_after"] = ctxErr
	rec.mu.Unlock()
	var seq []map[string]any
	for _, c := range w.stats.get(asnR, asnC) {
		key := "reg"
		if c.Asn == asnC {
			key = "src"
		}
		seq = append(seq, map[string]any{"k": c.K, "key": key, "cc": c.CC, "tp": c.Tp, "ms": c.Ms, "seq": c.Seq})
	}
	row["stats"] = seq
	disc := false
	for _, x := range seq {
		if x["k"] == "discarded" {
			disc = true
		}
	}
	rec.mu.Lock()
	row["still_open"] = rec.ret == "conn" && !disc // Proxy has not returned: the station has not noticed that the client closed
	rec.mu.Unlock()
	row["wall_ms"] = time.Since(t0).Milliseconds()
	row["quiesce_ms"] = time.Since(tq).Milliseconds()
	return row
}

func xhEcho(c net.Conn, id string) string {
	msg := []byte("x06-through-proxy-" + id)
	done := make(chan string, 1)
	go func() {
		if _, err := c.Write(msg); err != nil {
			done <- "fail:write"
			return
		}
		buf := make([]byte, 0, len(msg))
		tmp := make([]byte, 256)
		for len(buf) < len(msg) {
			n, err := c.Read(tmp)
			buf = append(buf, tmp[:n]...)
			if err != nil {
				break
			}
		}
		if string(buf) == string(msg) {
			done <- "ok"
		} else if len(buf) == 0 {
			done <- "fail:closed"
		} else {
			done <- "fail:bytes"
		}
	}()
	select {
	case r := <-done:
		return r
	case <-time.After(2500 * time.Millisecond):
		return "fail:timeout"
	}
}

func TestVerifDtlsConnectHandler(t *testing.T) {
	if !xnsEnter(t, "TestVerifDtlsConnectHandler") {
		return
	}
	out := vOpenOut(t)
	defer out.Close()
	w := xhNewWorld(t)
	var cases []xhCase
	vReadLines(t, func(line []byte) {
		var c xhCase
		if err := json.Unmarshal(line, &c); err != nil {
			t.Fatalf("bad case %s: %v", line, err)
		}
		cases = append(cases, c)
	})
	a0 := atomic.LoadInt64(&Stat().activeConns)
	var wg sync.WaitGroup
	sem := make(chan struct{}, vEnvInt("VERIF_PAR", 16))
	for i, c := range cases {
		wg.Add(1)
		sem <- struct{}{}
		go func(i int, c xhCase) {
			defer wg.Done()
			defer func() { <-sem }()
			out.Emit(w.runCase(c, i))
		}(i, c)
	}
	wg.Wait()
	time.Sleep(100 * time.Millisecond)
	out.Emit(map[string]any{"kind": "summary", "cases": len(cases), "active_conns_delta": atomic.LoadInt64(&Stat().activeConns) - a0,
		"ns": os.Getenv("VERIF_X06_NS")})
}
