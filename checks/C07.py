"""C07 - a registration becomes usable only when every admission condition holds.

A  TLC on spec/Admission over the FULL table (5 013 504 rows: message fields x registrar override (none / same family /
   an IPv4 address in the IPv6 override field) x station configuration x liveness verdict):
   the staged transcription of the code agrees with the declarative statement of the property (AgreesWithStatement),
   ProbeOnlyWhenRequired, NoWastedProbe, ShareRules, and Necessary (every admission condition flipped alone rejects).
   A broken transcription (covert check skipped) must violate.
B  rows emitted by TLC with the outcome the specification computes are executed on the real parseRegMessage +
   ingestRegistration (real C2SWrapper bytes, RegistrationManager configured per row, scripted liveness tester that
   counts probes, recorded detector announcements, httptest peer endpoint that counts and decodes shared registrations):
   quick = every admitted row and all single-condition neighbours (39 200 rows) + 20 000 seeded random rows;
   thorough = 400 000 seeded random rows in addition.
P  the liveness probe itself (spec/Probe: every reaction - SYN-ACK, RST, ICMP / routing error - is an answer, only silence passes) with REAL
   sockets: the station's default tester and complete registrations pinned to loopback endpoints that accept, refuse, are unreachable
   or stay silent (a listener with a full accept queue).
C  "passed on to peer stations at most once per client registration" under real concurrency: 8 workers ingest one detector
   registration at the same instant (250 / 1 500 rounds, no gates); probes, shares and announcements must be exactly one.
"""
import json, os
import vlib

PKG = "pkg/station/lib"
FILES = ["common/vcommon_test.go", "pkg_station_lib/ingest_sched_verif_test.go", "pkg_station_lib/admission_verif_test.go"]


def run(ctx):
    thorough = ctx.tier == "thorough"
    sdir = ctx.spec_copy("Admission")
    r = ctx.tlc(sdir, "Admission.tla", "MC_Admission.cfg", timeout=1800)
    ctx.require_design_ok(r, "Admission full table")
    ctx.log("A: %d rows (states %d)" % (r["distinct"] // 2, r["distinct"]))
    b = ctx.tlc(sdir, "Admission.tla", "MC_Admission_broken.cfg", timeout=600, count=False)
    if b["inv"] != "AgreesWithStatement":
        raise vlib.InfraError("broken transcription should violate AgreesWithStatement, got %s" % b["inv"])
    b2 = ctx.tlc(sdir, "Admission.tla", "MC_Admission_broken2.cfg", timeout=600, count=False)
    if b2["inv"] not in ("AgreesWithStatement", "Necessary"):
        raise vlib.InfraError("transcription checking the family before the override should violate AgreesWithStatement/Necessary, got %s" % b2["inv"])
    ctx.stage("A", rows=r["distinct"] // 2, exhaustive=True, nonvacuity="transcription without the covert check violates AgreesWithStatement; "
              "transcription that checks the address family before applying the registrar override violates %s" % b2["inv"])

    rows_file = os.path.join(ctx.scratch, "admission_rows.ndjson")
    counts = {}
    seen = set()
    with open(rows_file, "w") as fo:
        for mode in ["near", "sample"]:
            cfg = "Gen_Admission_%s.cfg" % mode
            if mode == "sample" and thorough:
                txt = open(os.path.join(sdir, cfg)).read().replace("SampleSize = 20000", "SampleSize = 400000")
                open(os.path.join(sdir, cfg), "w").write(txt)
            g = ctx.tlc(sdir, "Gen_Admission.tla", cfg, timeout=3000, workers=8, count=False, extra=["-seed", str(ctx.seed)])
            if g["inv"]:
                raise vlib.InfraError("row generator failed: " + g["out"][-1500:])
            n = 0
            with open(g["beh_file"]) as fi:
                for line in fi:
                    h = hash(line)
                    if h in seen:
                        continue
                    seen.add(h)
                    fo.write(line)
                    n += 1
                    if n in (1, 5000):
                        ctx.sample(json.loads(line))
            counts[mode] = n
    ctx.log("B: rows %s" % counts)
    if counts["near"] < 10000 or counts["sample"] < 10000:
        raise vlib.InfraError("too few rows generated: %s" % counts)
    outp = os.path.join(ctx.scratch, "admission_out.ndjson")
    res = ctx.go_test(PKG, FILES, "lib", "^TestVerifAdmission$", env={"VERIF_IN": rows_file, "VERIF_OUT": outp}, timeout=3000)
    rows = ctx.read_results(outp)
    summ = [x for x in rows if x.get("kind") == "summary"]
    if not summ:
        raise vlib.InfraError("admission driver did not finish:\n" + res["out"][-3000:])
    for m in [x for x in rows if x.get("kind") == "mismatch"]:
        diff = sorted(k for k in m["want"] if json.dumps(m["want"][k], sort_keys=True) != json.dumps(m["got"].get(k), sort_keys=True))
        if "panic" in m["got"]:
            diff = ["panic"]
        if not m.get("share_marked_prescanned", True):
            diff.append("share-not-marked-prescanned")
        row = m["row"]
        ctx.violation("admission:%s:source=%s:covert=%s" % ("+".join(diff), row["source"], row["covert"]),
                      "real ingest disagrees with Admission.tla on %s for row %s: want %s got %s" % (diff, json.dumps(row), m["want"], m["got"]), m)
    ctx.stage("B", rows_executed=summ[0]["rows"], mismatches=summ[0]["mismatches"], **counts)
    # concurrent deliveries of one detector registration (no gates): one probe, one share, one announcement - the serial outcome
    bp = os.path.join(ctx.scratch, "burst.ndjson")
    ctx.go_test(PKG, FILES + ["pkg_station_lib/ingest_pipeline_verif_test.go"], "lib", "^TestVerifDuplicateBurst$",
                env={"VERIF_OUT": bp, "VERIF_ROUNDS": 1500 if thorough else 250}, timeout=900)
    for x in ctx.read_results(bp):
        if x.get("kind") == "prop":
            ctx.violation("admission:concurrent-duplicates:%s" % x["prop"], "concurrent deliveries of one registration: %s" % x["detail"], x)
        elif x.get("kind") == "summary":
            ctx.stage("C", duplicate_burst={k: v for k, v in x.items() if k != "kind"})
    # ---- P: the liveness probe itself, with real sockets (spec/Probe): the verdict Admission.tla takes as an input
    pdir = ctx.spec_copy("Probe")
    rp = ctx.tlc(pdir, "Probe.tla", "MC_Probe.cfg", timeout=120, workers=2)
    ctx.require_design_ok(rp, "Probe")
    rpb = ctx.tlc(pdir, "Probe.tla", "MC_Probe_broken.cfg", timeout=120, workers=2, count=False)
    if rpb["inv"] not in ("AdmittedOnlyIfSilent", "RefusalIsAnAnswer"):
        raise vlib.InfraError("the probe instance that takes a refused dial for silence should violate, got %s" % rpb["inv"])
    gpr = ctx.tlc(pdir, "Gen_Probe.tla", "Gen_Probe.cfg", timeout=120, workers=1, count=False)
    pp = os.path.join(ctx.scratch, "probe.ndjson")
    rpr = ctx.go_test(PKG, FILES, "lib", "^TestVerifAdmissionProbe$", env={"VERIF_IN": gpr["beh_file"], "VERIF_OUT": pp}, timeout=300)
    prow = ctx.read_results(pp)
    psum = [x for x in prow if x.get("kind") == "summary"]
    if not psum:
        raise vlib.InfraError("probe driver did not finish:\n" + rpr["out"][-3000:])
    for x in prow:
        if x.get("kind") == "mismatch":
            r = x["row"]
            ctx.violation("probe:%s:%s:prescanned=%s" % (x["level"], r["net"], r["prescanned"]),
                          "real liveness probe / ingest disagrees with Probe.tla for a phantom that %s (pre-scanned %s): want live=%s admitted=%s, got %s"
                          % (r["net"], r["prescanned"], r["live"], r["admitted"], {k: v for k, v in x.items() if k not in ("kind", "row")}), x)
        elif x.get("kind") == "unstable":
            raise vlib.InfraError("probe endpoint changed its behaviour during the row: %s" % x)
    missing = {"accepts", "refuses", "silent"} - set(psum[0]["covered"])
    if missing:
        raise vlib.InfraError("probe endpoints not available on this host: %s (%s)" % (sorted(missing), [x for x in prow if x.get("kind") == "skipped"][:3]))
    ctx.stage("P", rows=psum[0]["rows"], endpoint_kinds=sorted(psum[0]["covered"]),
              nonvacuity="instance treating a failed dial as silence violates %s" % rpb["inv"])
    ctx.cov["evaluations"] = summ[0]["rows"]
    ctx.cov["distinct_nontrivial"] = summ[0]["rows"]
    ctx.cov["traces_validated_against_impl"] = 0
    ctx.cov["rule"] = "rows of the decision table are distinct by construction (de-duplicated); every executed row has at least one field set"
    ctx.assumptions += ["'complete' is read as: payload present and parameters parseable (an absent/short shared secret is admitted by the station; "
                        "the registrars enforce its length) - DESIGN.md section 8",
                        "a construction error in one family's half aborts the whole message (modelled as implemented)",
                        "registrar address overrides are part of the table for registrar sources (the detector and peer stations never attach a "
                        "registration response); port / transport-parameter overrides and prefix parameters are exercised by C12 / C02; library version = current"]
