//go:build verif

package phantoms

// Stage "fresh" of C14: concurrency on a FRESH configuration object.
//
// Phantom.tla models the state a configuration object derives from its groups on first use (`derived`,
// DeriveFirstUse / DeriveAppend): whatever the schedule of the first uses, a selection is the function
// Serial(config, seed, version).  The purity stage warms every object with a serial pass before it releases
// goroutines, so the first uses of an object never overlap there.  Here every round builds NEW objects from a
// configuration (what station start-up / a SIGHUP reload of the phantom selector does):
//   alone   one goroutine performs every selection of the round on its own fresh object  -> the reference
//   shared  N goroutines are released together on their FIRST selections (different seeds) on another fresh,
//           identical object; afterwards the same selections are repeated sequentially on that same object
// and every result on `shared` (concurrent and afterwards) must be the result on `alone`.  The calls on the small
// configurations are also recorded as Trace_Phantom events (the specification's value for the same input).

import (
	"encoding/hex"
	mrand "math/rand"
	"runtime"
	"sync"
	"sync/atomic"
	"testing"
)

// a new, never used configuration object (SubnetConfig, PhantomSubnetsList, PhantomIPSelector) equal to w's
func (w *vpWorld) fresh() *vpWorld {
	var weights []uint32
	var rps []bool
	var cidrs [][]string
	for _, g := range w.conf.WeightedSubnets {
		weights = append(weights, g.GetWeight())
		rps = append(rps, g.GetRandomizeDstPort())
		cidrs = append(cidrs, g.GetSubnets())
	}
	n := vpBuild(w.name, weights, rps, cidrs)
	n.totw, n.maxsz, n.groups = w.totw, w.maxsz, w.groups
	return n
}

func vpStageFresh(t *testing.T, out *vOut, tb *vpTables, rng *mrand.Rand, thorough bool) {
	rounds, perG, maxEvents := 50, 3, 1500
	if thorough {
		rounds, maxEvents = 400, 12000
	}
	var tpls []*vpWorld
	small := map[string]bool{}
	for _, n := range tb.order {
		w := tb.worlds[n]
		if w.totw > 0 {
			tpls = append(tpls, w)
			// vpEvent expresses an IPv6 result relative to the configuration's one upper part
			his := map[string]bool{}
			for _, gr := range w.groups {
				for _, nt := range gr.Nets {
					if nt.Fam == 6 {
						his[nt.Hi] = true
					}
				}
			}
			small[w.name] = len(his) <= 1
		}
	}
	tpls = append(tpls,
		vpBuild("fresh-default", []uint32{9, 1}, []bool{false, true}, [][]string{{"192.122.190.0/24", "2001:48a8:687f:1::/64"}, {"141.219.0.0/16", "35.8.0.0/16", "2001:48a8:687f:2::/64"}}),
		vpBuild("fresh-five", []uint32{1, 1, 2, 3, 5}, []bool{true, false, true, false, false}, [][]string{
			{"10.1.0.0/16", "2001:db8:1::/64"}, {"10.2.0.0/16", "2001:db8:2::/64"}, {"10.3.0.0/16", "2001:db8:3::/64"},
			{"10.4.0.0/16", "10.44.0.0/24", "2001:db8:4::/64"}, {"10.5.0.0/16", "2001:db8:5::/64", "2001:db8:55::/96"}}),
		vpGenConfig(rng, 9101), vpGenConfig(rng, 9102))
	totalCalls, totalDiv, events, nrounds := 0, 0, 0, 0
	for lv := 0; lv <= 4; lv++ {
		for _, ng := range []int{2, 3, 8, 32} {
			calls, div := 0, 0
			for round := 0; round < rounds; round++ {
				tpl := tpls[rng.Intn(len(tpls))]
				n := ng * perG
				inputs := make([]vpInput, n)
				for i := range inputs {
					inputs[i] = vpInput{nil, vpRandSeed(rng), lv, []int{4, 6}[rng.Intn(2)]}
				}
				alone, shared := tpl.fresh(), tpl.fresh()
				ref := make([]vpGot, n)
				for i, in := range inputs {
					ref[i] = alone.station(in.seed, 1, in.lv, in.fam)
				}
				conc := make([]vpGot, n)
				var arrived, goFlag int32
				var wg sync.WaitGroup
				for gi := 0; gi < ng; gi++ {
					wg.Add(1)
					go func(gi int) {
						defer wg.Done()
						atomic.AddInt32(&arrived, 1)
						for atomic.LoadInt32(&goFlag) == 0 {
							if ng > 8 {
								runtime.Gosched()
							}
						}
						for k := 0; k < perG; k++ {
							ix := gi*perG + k
							conc[ix] = shared.station(inputs[ix].seed, 1, inputs[ix].lv, inputs[ix].fam)
						}
					}(gi)
				}
				for atomic.LoadInt32(&arrived) < int32(ng) {
					runtime.Gosched()
				}
				atomic.StoreInt32(&goFlag, 1)
				wg.Wait()
				after := make([]vpGot, n)
				for i, in := range inputs {
					after[i] = shared.station(in.seed, 1, in.lv, in.fam)
				}
				rdiv := 0
				for i, in := range inputs {
					for pass, g := range []vpGot{conc[i], after[i]} {
						calls++
						if !g.same(ref[i]) {
							div++
							rdiv++
							if rdiv <= 2 {
								out.Emit(map[string]any{"kind": "impure", "stage": "fresh", "what": []string{"fresh-concurrent", "fresh-after"}[pass],
									"lv": lv, "goroutines": ng, "fam": in.fam, "seed": hex.EncodeToString(in.seed), "config": shared.describe(),
									"serial": ref[i], "concurrent": g})
							}
						}
						if small[shared.name] && events < maxEvents/5*(lv+1) {
							events++
							in.w = shared
							out.Emit(vpEvent(tb, in, g, 100+100*pass+(i/perG)%4))
						}
					}
				}
				nrounds++
			}
			totalCalls += calls
			totalDiv += div
			out.Emit(map[string]any{"kind": "fresh-round", "lv": lv, "goroutines": ng, "calls": calls, "divergent": div, "rounds": rounds})
		}
	}
	out.Emit(map[string]any{"kind": "summary", "stage": "fresh", "rounds": nrounds, "objects": 2 * nrounds, "calls": totalCalls,
		"divergent": totalDiv, "events": events, "configs": len(tpls)})
}
