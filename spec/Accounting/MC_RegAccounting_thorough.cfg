\* as found, three registrations
SPECIFICATION Spec
CONSTANTS
  Regs = {"r1", "r2", "r3"}
  Srcs = {"detector", "api"}
  RFams = {"v4", "v6"}
  Gens = {"g1"}
  TTs = {"min"}
  LVs = {"l1"}
  Variant = "as_found"
  Broken = "none"
  MaxPrints = 2
  MaxFree = 1
VIEW view
INVARIANTS TypeOK ActiveExact TotalsExact Breakdowns NoDoubleCount MapLedger
PROPERTIES PrintKeepsGauges
CHECK_DEADLOCK FALSE
