\* INTENDED: after Close every operation fails with an error
SPECIFICATION Spec
CONSTANTS
  Addrs = {"dummy", "a1"}
  Cap = 2
  Bursts = {1, 3}
  MaxPk = 5
  ReadAfterClose = "error"
VIEW view
INVARIANTS TypeOK FifoIn FifoOut BlockedOnlyIfEmptyAndOpen
PROPERTIES DropsOnlyWhenFull AfterCloseFails CloseWakes
CHECK_DEADLOCK FALSE
