SPECIFICATION TraceSpec
CONSTANTS
  MaxReads = 1000
  ChunkSizes = {1, 2, 3, 4, 5, 6, 7, 8}
  ReadErrs = {"EOF", "RST", "EPIPE", "timeout", "other", "closed"}
  WriteErrs = {"EPIPE", "RST", "timeout", "other", "closed"}
  ForwardWithErr = TRUE
  DialMayFail = TRUE
  BufCap = 8
  BufMode = "private"
VIEW TraceView
INVARIANTS PrefixFidelity BufferIntegrity NothingReadIsLost InFlightOnly CountsMatch BothClosed EndedClosesBoth NoExtraClose GaugeBalanced
POSTCONDITION Post
CHECK_DEADLOCK FALSE
