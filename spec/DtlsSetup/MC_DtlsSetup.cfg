SPECIFICATION Spec
CONSTANTS
  Roles = {"client", "server", "accept"}
  CtxKinds = {"background", "cancel", "deadline"}
  ClearMode = "both"
  MaxUses = 2
VIEW view
INVARIANTS TypeOK SetupDeadlineEndsWithSetup EstablishedOutlivesContext FailsOnlyByContext
CHECK_DEADLOCK FALSE
