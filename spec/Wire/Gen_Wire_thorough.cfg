\* thorough tier, message-shaped entry points: strength 3
SPECIFICATION GenSpec
CONSTANTS
  EPs = {"regproc"}
  Strength = 3
  Thin = TRUE
  MissingGuards = {}
  Modes = {"design", "sample"}
  NSample = 20000
INVARIANTS TypeOK NeverCrash NeverHangs NoFourthValue AlwaysAnswersHTTP AcceptedOnlyWhenComplete StatusMatchesOutcome NominalAccepted Emit
CHECK_DEADLOCK FALSE
