\* MUST VIOLATE ActiveExact: an expiry that keeps the gauge
SPECIFICATION Spec
CONSTANTS
  Regs = {"r1"}
  Srcs = {"detector", "api"}
  RFams = {"v4", "v6"}
  Gens = {"g1"}
  TTs = {"min"}
  LVs = {"l1"}
  Variant = "as_found"
  Broken = "expire_keeps_gauge"
  MapWindow = TRUE
  MaxPrints = 0
  MaxFree = 0
VIEW view
CONSTRAINT Canon
INVARIANTS ActiveExact
CHECK_DEADLOCK FALSE
