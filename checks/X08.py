"""X08 - the CLIENT side of the wrapping transports as a session life cycle, and the client transport registry (extension module).

Specifications: spec/ClientTransport/ClientTransport.tla (one ClientTransport object of pkg/transports/wrapping/{min,obfs4,prefix}
through New, SetParams, Prepare, GetParams, SetSessionParams, PrepareKeys, GetDstPort, WrapConn and Write / Read / Close on the
connections it wrapped, in every order the API allows) and spec/ClientTransport/ClientRegistry.tla (pkg/transports/client).
ClientTransport carries an "asfound" variant (what the code does; conformance is held against it, so the check exits 0 on the
unchanged tree) and an "intended" variant (what a caller of the interface relies on); the thirteen differences D1..D13 are listed
in the module's header and reproduced on the real code by stage B.

A   TLC exhaustive: as-found and intended instances per transport (state invariants HeaderOnce, HeaderAlone, DataExact,
    OwnPrefixKnown; the per-call laws as action properties, which TLC evaluates on every transition also under VIEW); non-vacuity:
    four deliberately broken instances must violate a core law, the as-found variant must violate every intended-only law
    (one small run per law and transport), two broken registries must violate theirs.
B   every call sequence of bounded length over the configured alphabets (TLC, hist in the state) plus sampled long ones, replayed
    on the REAL transports over an in-memory connection that records every Write call: result, error class, random prefix pick
    (forced through crypto/rand.Reader), returned parameters / port, the writes WrapConn made parsed into <<prefix, tag, data>>
    byte counts (prefix bytes compared with the driver's own table, the tag revealed with the station key, obfs4 decoded by the
    library's server side) and the projected object state are compared after every step.  The registry behaviours are replayed on
    the real package-level maps.
C   seeded random call sequences over a larger alphabet, not derived from the specification, recorded from the real transports and
    validated by Trace_ClientTransport with every invariant and law; one corrupted trace must be rejected.
"""
import json, os, copy, re, threading, time
from concurrent.futures import ThreadPoolExecutor
import vlib

KINDS = ["min", "obfs4", "prefix"]
PKG = {k: "pkg/transports/wrapping/" + k for k in KINDS}
FILES = {k: ["common/vcommon_test.go", "pkg_transports_wrapping_prefix/x08_shared_verif_test.go",
             "pkg_transports_wrapping_%s/x08_%s_verif_test.go" % (k, k)] for k in KINDS}
PKG_REG = "pkg/transports/client"
FILES_REG = ["common/vcommon_test.go", "pkg_transports_client/x08_registry_verif_test.go"]

CORE_INV = ["TypeOK", "HeaderOnce", "HeaderAlone", "DataExact", "OwnPrefixKnown"]
CORE_LAWS = ["PortFromSession", "PortPureG", "ClientFlushWins", "OverrideAdopted", "CheckedStaysKnown", "SessionLeavesClientP",
             "OwnParamsKnownOnly", "PrepareClones", "ConnCallsLocal", "ConfigCallsLeaveConns", "WrapLeavesOthers", "ClosedSilent",
             "HeaderFromState"]
# (cfg, module, counted, what)
MC = [("MC_ClientTransport_min.cfg", "as found, min, one connection"), ("MC_ClientTransport_min_2c.cfg", "as found, min, two connections"),
      ("MC_ClientTransport_obfs4.cfg", "as found, obfs4, one connection"), ("MC_ClientTransport_obfs4_2c.cfg", "as found, obfs4, two connections"),
      ("MC_ClientTransport_prefix.cfg", "as found, prefix, parameter life cycle"), ("MC_ClientTransport_prefix_wire.cfg", "as found, prefix, wire"),
      ("MC_ClientTransport_prefix_2c.cfg", "as found, prefix, two connections"),
      ("MC_ClientTransport_min_intended.cfg", "intended, min"), ("MC_ClientTransport_obfs4_intended.cfg", "intended, obfs4"),
      ("MC_ClientTransport_prefix_intended.cfg", "intended, prefix, parameter life cycle"),
      ("MC_ClientTransport_prefix_wire_intended.cfg", "intended, prefix, wire")]
BROKEN = [("MC_ClientTransport_broken_tag.cfg", "ClientTransport.tla", {"HeaderOnce", "HeaderAlone"}),
          ("MC_ClientTransport_broken_flush.cfg", "ClientTransport.tla", {"ClientFlushWins"}),
          ("MC_ClientTransport_broken_port.cfg", "ClientTransport.tla", {"PortFromSession"}),
          ("MC_ClientTransport_broken_empty.cfg", "ClientTransport.tla", {"DataExact"}),
          ("MC_ClientRegistry_broken_singleton.cfg", "ClientRegistry.tla", {"Fresh_"}),
          ("MC_ClientRegistry_broken_partial.cfg", "ClientRegistry.tla", {"MapsAgree"})]
GAPS = [("I_NoPanic", "prefix", "D1 D3"), ("I_NoPanic", "obfs4", "D2"), ("I_FailedUnchanged", "min", "D5"), ("I_FailedUnchanged", "obfs4", "D5 D6"),
        ("I_GettersPure", "prefix", "D7 D8"), ("I_PortNonZero", "prefix", "D9"), ("I_WrapOkMeansHeaderSent", "min", "D4"),
        ("I_WrapOkMeansHeaderSent", "prefix", "D10"), ("I_FlushPolicyHonoured", "prefix", "D12"), ("I_SessionLeavesClientParams", "min", "D13"),
        ("I_PortFromEffective", "prefix", "D7"), ("I_ReportedIsUsed", "prefix", "D8"), ("I_ParamsImplyPrefix", "prefix", "D11"),
        ("I_TagBeforeData", "min", "D4")]

_ticket = threading.Lock()
_count = threading.Lock()


_seq = [0]


def par_ctx(ctx):
    """a view of ctx with a scratch directory of its own: ctx.tlc names its output file after the millisecond it starts in, so
    calls from several threads must not share a directory"""
    with _ticket:
        _seq[0] += 1
        c = copy.copy(ctx)
        c.scratch = ctx.sub("par_%d" % _seq[0])
        c.cov = {"tlc_runs": [], "states": 0, "transitions": 0}
    return c


def merge(ctx, c, count):
    with _count:
        ctx.cov["tlc_runs"] += c.cov["tlc_runs"]
        if count:
            ctx.cov["states"] += c.cov["states"]
            ctx.cov["transitions"] += c.cov["transitions"]


def tlc(ctx, sdir, module, cfg, count=True, **kw):
    c = par_ctx(ctx)
    r = c.tlc(sdir, module, cfg, count=True, **kw)
    merge(ctx, c, count)
    return r


def fmt_ev(e):
    a = e.get("a")
    def par(p):
        if not isinstance(p, dict):
            return str(p)
        if p.get("none"):
            return "nil"
        if "t" in p and "id" not in p:
            return p["t"] + ("(rand=%s)" % p["rand"] if "rand" in p else "")
        if "id" in p:
            return "%s{id=%s rand=%s flush=%s bytes=%r}" % (p.get("t", ""), p["id"], p.get("rand"), p.get("flush"), p.get("bytes"))
        if "rand" in p:
            return "{rand=%s}" % p["rand"]
        return json.dumps(p, sort_keys=True)
    res = e.get("res", "")
    if res == "err":
        res = "err(%s)" % e.get("why")
    if a == "New":
        return "New(Prefix field=%s)" % ("-" if e.get("field") == -2 else e.get("field"))
    if a == "SetParams":
        return "SetParams(%s)=%s%s" % (par(e.get("arg")), res, " pick=%s" % e["pick"] if e.get("pick", -2) >= 0 else "")
    if a == "SetSessionParams":
        return "SetSessionParams(%s%s)=%s%s" % (par(e.get("inc")), ", unchecked" if e.get("un") else "", res, " pick=%s" % e["pick"] if e.get("pick", -2) >= 0 else "")
    if a == "Prepare":
        return "Prepare=%s%s" % (res, " pick=%s" % e["pick"] if e.get("pick", -2) >= 0 else "")
    if a == "GetParams":
        return "GetParams=%s %s" % (res, par(e.get("val")))
    if a == "PrepareKeys":
        return "PrepareKeys(%s%s)=%s" % (e.get("sec"), "" if e.get("rok") else ", reader fails", res)
    if a == "GetDstPort":
        p = e.get("port") or {}
        return "GetDstPort(%s)=%s %s" % (e.get("seed"), res, "nil" if p.get("none") else ("seeded" if p.get("k") == "seeded" else p.get("v")))
    if a == "WrapConn":
        return "WrapConn(%s)=%s wrote %s" % ("dead conn" if e.get("dead") else "conn", res, ["%d+%d+%d" % (c["p"], c["t"], c["d"]) for c in e.get("wire", [])])
    if a in ("Write", "PeerSend"):
        return "%s(c%s, %s)=%s" % (a, e.get("c"), e.get("n"), res)
    if a in ("Read", "Close"):
        return "%s(c%s)=%s%s" % (a, e.get("c"), res, " %s" % e.get("ret") if a == "Read" else "")
    return json.dumps({k: v for k, v in e.items() if k != "st"}, sort_keys=True)


def divergence_tags(kind, b):
    """which of the as-found divergences D1..D13 a (replayed, matching) behaviour exhibits on the real code"""
    tags = set()
    prev = None
    for e in b:
        a, res, st = e.get("a"), e.get("res"), e.get("st", {})
        pst = (prev or {}).get("st", {})
        none = lambda x: isinstance(x, dict) and x.get("none")
        if kind == "prefix":
            if a == "SetSessionParams" and res == "panic":
                tags.add("D1 prefix: SetSessionParams before any SetParams/Prepare panics (nil parameters)")
            if a == "SetParams" and res == "panic":
                tags.add("D3 prefix: SetParams(nil *ClientParams) panics")
            if a == "GetDstPort" and res == "ok" and none(pst.get("S")) and not none(pst.get("P")) and (pst["P"]["rand"] or pst["P"]["flush"]) \
                    and not none(st.get("S")) and (st["S"]["rand"], st["S"]["flush"]) != (pst["P"]["rand"], pst["P"]["flush"]):
                tags.add("D7 prefix: GetDstPort fabricates sessionParams and drops the client's randomize / flush policy")
            if not none(st.get("S")) and not none(st.get("pfx")) and st["S"]["id"] != st["pfx"]["id"]:
                tags.add("D8 prefix: GetParams reports prefix id %s while WrapConn would send another" % ("-1" if st["S"]["id"] == -1 else "X"))
            if a == "GetDstPort" and res == "ok" and e["port"].get("k") == "fixed" and e["port"].get("v") == 0:
                tags.add("D9 prefix: GetDstPort returns 0 after an unchecked override")
            if a == "WrapConn" and res == "ok" and e.get("dead"):
                tags.add("D10 prefix: WrapConn on a dead connection reports success, nothing written")
            if a == "SetParams" and res == "ok" and e["arg"].get("t") == "gen" and none(st.get("pfx")):
                tags.add("D11 prefix: SetParams(GenericTransportParams) on a fresh object succeeds, Prefix stays nil")
            if a == "WrapConn" and res == "ok" and not e.get("dead") and len(e["wire"]) == 2 and not none(pst.get("pfx")):
                eff = pst["S"] if not none(pst.get("S")) else pst["P"]
                f = 0 if none(eff) else eff["flush"]
                fap = f == 2 or (f not in (1, 2) and pst["pfx"]["flush"] == 2)
                if not fap:
                    tags.add("D12 prefix: header split across writes by bufio although the policy says no flush%s" % (" (tag split)" if e["wire"][0]["t"] not in (0, 64) else ""))
        else:
            if kind == "obfs4" and a == "WrapConn" and res == "panic":
                tags.add("D2 obfs4: WrapConn before PrepareKeys panics (nil keys)")
            if kind == "min" and a == "WrapConn" and res == "ok" and e["wire"] and e["wire"][0]["t"] == 0:
                tags.add("D4 min: WrapConn before PrepareKeys succeeds with a zero-byte write, no tag")
            if a == "SetSessionParams" and res == "err" and none(pst.get("S")) and not none(st.get("S")):
                tags.add("D5 %s: a failed SetSessionParams materialised sessionParams" % kind)
            if kind == "obfs4" and a == "PrepareKeys" and res == "err" and st.get("keys") != pst.get("keys"):
                tags.add("D6 obfs4: a failed PrepareKeys overwrote the keys")
            if a == "SetSessionParams" and none(pst.get("P")) and not none(st.get("P")):
                tags.add("D13 %s: SetSessionParams set the client's own Parameters" % kind)
        prev = e
    return tags


def nontrivial(b):
    acts = [e["a"] for e in b]
    return ("WrapConn" in acts and ("SetSessionParams" in acts or "Write" in acts)) or any(e.get("res") in ("err", "panic") for e in b)


def run(ctx):
    thorough = ctx.tier == "thorough"
    sdir = ctx.spec_copy("ClientTransport")
    pool = ThreadPoolExecutor(max_workers=5)

    # ---------------------------------------------------------------- A
    jobs = {}
    mcs = MC + ([("MC_ClientTransport_prefix_thorough.cfg", "as found, prefix, full alphabet with connections"),
                 ("MC_ClientTransport_prefix_thorough_intended.cfg", "intended, prefix, full alphabet with connections")] if thorough else [])
    for cfg, what in mcs:
        jobs[cfg] = pool.submit(tlc, ctx, sdir, "ClientTransport.tla", cfg, workers=4, timeout=600)
    jobs["reg"] = pool.submit(tlc, ctx, sdir, "ClientRegistry.tla", "MC_ClientRegistry.cfg", workers=2, timeout=300)
    for cfg, module, laws in BROKEN:
        jobs[cfg] = pool.submit(tlc, ctx, sdir, module, cfg, count=False, workers=2, timeout=300)
    for law, kind, d in GAPS:
        jobs[(law, kind)] = pool.submit(tlc, ctx, sdir, "ClientTransport.tla", "MC_ClientTransport_gap_%s_%s.cfg" % (law[2:], kind), count=False, workers=2, timeout=300)
    # the generators of stage B run in the same pool
    gens = {}
    nsim = 120 if thorough else 30
    gens[("prefix", "wire")] = pool.submit(tlc, ctx, sdir, "Gen_ClientTransport.tla", "Gen_ClientTransport_prefix_wire.cfg", count=False, workers=4, timeout=900)
    for k in KINDS:
        gens[(k, "exh")] = pool.submit(tlc, ctx, sdir, "Gen_ClientTransport.tla", "Gen_ClientTransport_%s_exh%s.cfg" % (k, "5" if thorough and k != "prefix" else ""),
                                       count=False, workers=4, timeout=900)
        gens[(k, "sim")] = pool.submit(tlc, ctx, sdir, "Gen_ClientTransport.tla", "Gen_ClientTransport_%s_sim.cfg" % k, count=False, workers=2, timeout=900,
                                       simulate="num=%d" % nsim, depth=19 if k == "prefix" else 17, deadlock=False, extra=["-seed", str(ctx.seed)])
    gens[("reg", "exh")] = pool.submit(tlc, ctx, sdir, "Gen_ClientRegistry.tla", "Gen_ClientRegistry_exh.cfg", count=False, workers=2, timeout=600)
    gens[("reg", "sim")] = pool.submit(tlc, ctx, sdir, "Gen_ClientRegistry.tla", "Gen_ClientRegistry_sim.cfg", count=False, workers=2, timeout=600,
                                       simulate="num=%d" % (60 if thorough else 12), depth=13, deadlock=False, extra=["-seed", str(ctx.seed)])
    counts = {}
    for cfg, what in mcs:
        r = jobs[cfg].result()
        ctx.require_design_ok(r, what)
        counts[cfg[len("MC_ClientTransport_"):-4]] = r["distinct"]
    r = jobs["reg"].result()
    ctx.require_design_ok(r, "registry")
    counts["registry"] = r["distinct"]
    ctx.log("A: distinct states %s" % counts)
    for cfg, module, laws in BROKEN:
        r = jobs[cfg].result()
        if r["inv"] not in laws:
            raise vlib.InfraError("broken instance %s should violate one of %s, got %s" % (cfg, sorted(laws), r["inv"]))
    for law, kind, d in GAPS:
        r = jobs[(law, kind)].result()
        if r["inv"] != law:
            raise vlib.InfraError("the as-found %s instance no longer violates %s (divergence %s): the intended-only law is vacuous or the model changed (got %s)"
                                  % (kind, law, d, r["inv"]))
    ctx.stage("A", state_invariants=CORE_INV, call_laws=CORE_LAWS, registry=["MapsAgree", "AddAtomic", "NeverReplaced", "LookupsPure", "Fresh", "FoundIffRegistered", "IdOfReturned"],
              intended_only=sorted({g[0] for g in GAPS}), distinct_states=counts,
              nonvacuity="broken instances %s violate their law; the as-found variant violates each intended-only law (%d runs: %s)"
                         % ([b[0][len("MC_"):-4] for b in BROKEN], len(GAPS), ", ".join("%s/%s" % (g[0], g[1]) for g in GAPS)))

    # ---------------------------------------------------------------- B + recording for C
    ntr = 3000 if thorough else 300
    behs, beh_files, gcount = {}, {}, {}
    for k in KINDS + ["reg"]:
        seen, lst = set(), []
        path = os.path.join(ctx.scratch, "x08_beh_%s.ndjson" % k)
        with open(path, "w") as fo:
            for mode in (("exh", "wire", "sim") if k == "prefix" else ("exh", "sim")):
                gr = gens[(k, mode)].result()
                if gr["inv"]:
                    raise vlib.InfraError("generator %s/%s failed: %s" % (k, mode, gr["out"][-2000:]))
                n = 0
                with open(gr["beh_file"]) as fi:
                    for line in fi:
                        if line in seen:
                            continue
                        seen.add(line)
                        fo.write(line)
                        lst.append(json.loads(line))
                        n += 1
                gcount["%s/%s" % (k, mode)] = n
        behs[k], beh_files[k] = lst, path
    ctx.log("B: behaviours generated %s" % gcount)
    need = {"min/exh": 3000, "obfs4/exh": 3000, "prefix/exh": 30000, "prefix/wire": 5000, "reg/exh": 8000, "min/sim": 300, "obfs4/sim": 300, "prefix/sim": 300, "reg/sim": 100}
    for g, n in need.items():
        if gcount[g] < n:
            raise vlib.InfraError("too few behaviours generated: %s" % gcount)

    def drive(k, beh_path, traces, only=None):
        outp = os.path.join(ctx.scratch, "x08_out_%s_%d.ndjson" % (k, int(time.time() * 1000) % 1000000))
        env = {"VERIF_OUT": outp, "VERIF_TRACES": traces}
        if beh_path:
            env["VERIF_IN"] = beh_path
        if only is not None:
            env["VERIF_ONLY"] = only
        if k == "reg":
            res = ctx.go_test(PKG_REG, FILES_REG, "transports", "^TestVerifX08Registry$", env=env, timeout=1500)
        else:
            res = ctx.go_test(PKG[k], FILES[k], k, "^TestVerifX08$", env=env, timeout=1500)
        rows = ctx.read_results(outp)
        summ = [x for x in rows if x.get("kind") == "summary"]
        if beh_path and not summ:
            m = re.search(r"^(fatal error: .*|panic: .*)$", res["out"], re.M)
            if m and "test timed out" not in m.group(1):
                ctx.violation("replay:%s:crash" % k, "the %s driver crashed inside the code under test: %s" % (k, m.group(1)), {"out": res["out"][-5000:]})
                return rows, {"behaviours": 0, "steps": 0, "mismatches": 0, "panics": 0, "hangs": 0, "wraps": 0}
            raise vlib.InfraError("replay driver %s did not finish:\n%s" % (k, res["out"][-3000:]))
        return rows, (summ[0] if summ else None)

    futs = {k: pool.submit(drive, k, beh_files[k], 0 if k == "reg" else ntr) for k in KINDS + ["reg"]}
    results = {k: futs[k].result() for k in KINDS + ["reg"]}
    tags, total_b, total_s, nontriv, retried = {}, 0, 0, 0, 0
    for k in KINDS + ["reg"]:
        rows, summ = results[k]
        mism = [x for x in rows if x.get("kind") == "mismatch"]
        if mism and k != "reg":
            # timing (a loaded machine can make a handshake or a delivery wait run out): replay the differing behaviours once more, alone
            sub = os.path.join(ctx.scratch, "x08_retry_%s.ndjson" % k)
            idxs = sorted({m["idx"] for m in mism})[:200]
            with open(sub, "w") as fo:
                for i in idxs:
                    fo.write(json.dumps(behs[k][i]) + "\n")
            rows2, _ = drive(k, sub, 0)
            again = {idxs[m["idx"]]: m for m in rows2 if m.get("kind") == "mismatch"}
            retried += len(idxs) - len(again)
            mism = [dict(again[m["idx"]], idx=m["idx"]) for m in mism if m["idx"] in again]
        bad = set()
        for m in mism:
            bad.add(m["idx"])
            w, g = m.get("want_event") or {}, m.get("got_event") or {}
            fld = m.get("field")
            key = "replay:%s:%s:%s" % (k, w.get("a", "?"), fld)
            if fld in ("res", "why"):
                key += ":want=%s:got=%s" % (w.get(fld), g.get(fld))
            elif fld == "st":
                ws, gs = w.get("st") or {}, g.get("st") or {}
                key += ":" + "+".join(sorted(x for x in set(ws) | set(gs) if ws.get(x) != gs.get(x)))
            ctx.violation(key, "real %s diverges from %s (as found) at step %s of [%s]: field %s - specification %s, real code %s"
                          % ("registry" if k == "reg" else k + " client transport", "ClientRegistry.tla" if k == "reg" else "ClientTransport.tla", m.get("at"),
                             " ; ".join(fmt_ev(e) for e in (m.get("want") or [])[:-1]), fld,
                             fmt_ev(w) + (" state %s" % json.dumps(w.get("st"), sort_keys=True) if fld == "st" else ""),
                             fmt_ev(g) + (" state %s" % json.dumps(g.get("st"), sort_keys=True) if fld == "st" else "")), m)
        if summ.get("hangs"):
            ctx.violation("replay:%s:hang" % k, "%d call(s) on the real %s transport did not return" % (summ["hangs"], k), summ)
        total_b += summ["behaviours"]
        total_s += summ["steps"]
        for i, b in enumerate(behs[k]):
            if k != "reg" and nontrivial(b):
                nontriv += 1
            if i in bad or k == "reg":
                continue
            for t in divergence_tags(k, b):
                tags[t] = tags.get(t, 0) + 1
        ctx.stage("B_" + k, behaviours=summ["behaviours"], steps=summ["steps"], mismatches=len(bad), wrapconn_calls=summ.get("wraps"), panics_recovered=summ.get("panics"))
        ctx.log("B: %s %d behaviours / %d steps replayed, %d mismatches" % (k, summ["behaviours"], summ["steps"], len(bad)))
        if behs[k]:
            ctx.sample({"stage": "B", "transport": k, "behaviour": [fmt_ev(e) for e in max(behs[k][-400:], key=len)]} if k != "reg" else
                       {"stage": "B", "registry": [{x: y for x, y in e.items() if x != "st"} for e in behs[k][len(behs[k]) // 2]]})
    ctx.stage("B", behaviours=total_b, steps=total_s, generated=gcount, retried_for_timing=retried, divergences_confirmed_on_real_code=tags)
    for t, n in sorted(tags.items()):
        ctx.notes.append("as-found divergence from the intended behaviour, reproduced on the real code in %d replayed behaviours: %s" % (n, t))
    want_tags = ["D1 ", "D2 ", "D3 ", "D4 ", "D5 ", "D6 ", "D7 ", "D8 ", "D9 ", "D10 ", "D11 ", "D12 ", "D13 "]
    missing = [w.strip() for w in want_tags if not any(t.startswith(w) for t in tags)]
    if missing and not ctx.violations:
        raise vlib.InfraError("the replayed behaviours no longer exhibit divergence(s) %s on the real code: the as-found variant describes behaviour "
                              "the code does not have (repaired upstream?) - move the guard in ClientTransport.tla" % missing)

    # ---------------------------------------------------------------- C
    tv = 0
    all_traces = {}

    def split(rows):
        traces = []
        for e in rows:
            if e.get("kind"):
                continue
            if e["a"] == "Reset":
                traces.append([e])
            else:
                traces[-1].append({x: y for x, y in e.items() if not x.startswith("_")})
        return traces

    def validate_kind(k, traces):
        c = par_ctx(ctx)
        sd = c.spec_copy("ClientTransport")
        res = c.validate_traces(sd, "Trace_ClientTransport.tla", "Trace_ClientTransport_%s.cfg" % k, traces, timeout=900, reset=False)
        merge(ctx, c, False)
        return sd, res

    def locate(traces, reached):
        pos = 0
        for i, t in enumerate(traces):
            if reached < pos + len(t):
                return i, reached - pos
            pos += len(t)
        return len(traces) - 1, len(traces[-1]) - 1

    for k in KINDS:
        all_traces[k] = split(results[k][0])
        if len(all_traces[k]) != ntr:
            raise vlib.InfraError("random driver %s recorded %d of %d traces" % (k, len(all_traces[k]), ntr))
    vf = {k: pool.submit(validate_kind, k, all_traces[k]) for k in KINDS}
    for k in KINDS:
        traces = all_traces[k]
        sd, (ok, reached, total, tr) = vf[k].result()
        rerec = 0
        while not ok and rerec < 3:
            ti, ei = locate(traces, reached)
            ctx.log("C: %s trace %d rejected at event %d (%s); recording that script once more, alone" % (k, ti, ei, fmt_ev(traces[ti][ei]) if 0 <= ei < len(traces[ti]) else "?"))
            rows2, _ = drive(k, None, ntr, only=ti)
            t2 = split(rows2)
            rerec += 1
            if len(t2) != 1:
                raise vlib.InfraError("re-recording %s trace %d failed" % (k, ti))
            traces[ti] = t2[0]
            sd, (ok, reached2, total, tr) = validate_kind(k, traces)
            if not ok and locate(traces, reached2)[0] == ti:
                reached = reached2
                break
            reached = reached2
        ctx.log("C: %s %d traces / %d events, accepted=%s" % (k, len(traces), total, ok))
        if not ok:
            ti, ei = locate(traces, reached)
            bad = traces[ti][ei] if 0 <= ei < len(traces[ti]) else {}
            what = "[%s]" % " ; ".join(fmt_ev(e) for e in traces[ti][1:ei + 1])
            if tr["inv"]:
                ctx.violation("trace:%s:law:%s" % (k, tr["inv"]), "a recorded trace of the real %s client transport reaches a state / makes a step violating %s: %s" % (k, tr["inv"], what),
                              {"trace": traces[ti], "tlc": tr["out"][-2500:]})
            else:
                ctx.violation("trace:%s:rejected:%s" % (k, bad.get("a")),
                              "a recorded trace of the real %s client transport is not a behaviour of ClientTransport.tla (as found) at event %d (%s; state %s): %s"
                              % (k, ei, fmt_ev(bad), json.dumps(bad.get("st"), sort_keys=True), what), {"trace": traces[ti], "event_index": ei})
        else:
            tv += len(traces)
        ctx.stage("C_" + k, traces=len(traces), events=total, accepted=ok, rerecorded=rerec,
                  wrapped=sum(1 for t in traces for e in t if e["a"] == "WrapConn" and e.get("res") == "ok"),
                  overrides=sum(1 for t in traces for e in t if e["a"] == "SetSessionParams" and e.get("res") == "ok"),
                  longest=max(len(t) for t in traces) - 1)
    if not ctx.violations:
        # binding demonstration: one corrupted field of an accepted trace must make TLC reject it
        k = "prefix"
        bad = copy.deepcopy(all_traces[k][:60])
        done = None
        for t in bad:
            for e in t:
                if e["a"] == "WrapConn" and e.get("res") == "ok" and e["wire"] and e["wire"][-1]["t"] > 1:
                    e["wire"][-1]["t"] -= 1
                    e["wire"][-1]["d"] += 1        # "the last tag byte went out as data"
                    done = "WrapConn.wire[-1].t"
                    break
            if done:
                break
        if not done:
            raise vlib.InfraError("no event to corrupt for the binding demonstration")
        _, (ok2, reached2, _, _) = validate_kind(k, bad)
        if ok2:
            raise vlib.InfraError("binding is vacuous: corrupted trace (%s) accepted" % done)
        ctx.stage("C", corrupted=done, corrupted_trace_rejected_at=reached2)
        ctx.sample({"stage": "C", "transport": "prefix", "trace": [fmt_ev(x) for x in max(all_traces["prefix"][:80], key=len)[1:]]})
    ctx.cov["traces_validated_against_impl"] = tv
    pool.shutdown(wait=True)

    ctx.cov["evaluations"] = total_b + sum(len(all_traces[k]) for k in KINDS)
    ctx.cov["distinct_nontrivial"] = nontriv
    ctx.cov["exhaustive"] = False
    ctx.cov["rule"] = ("stage B behaviours are distinct by construction (de-duplicated call sequences); non-trivial = reaches a wrapped connection after an override "
                       "or a write, or contains a failed / panicking call; stage C traces counted separately")
    ctx.assumptions += [
        "the connection is an in-memory duplex pipe recording every client Write call; a 'dead' connection is one whose peer end is closed before WrapConn "
        "(every Write fails); partial writes and failures between two writes of one WrapConn are not scripted",
        "the transport's header is judged from the peer's side: prefix bytes against the driver's own copy of the ten default prefixes (and the override byte "
        "strings it sent), the tag by revealing it with the station's private key (prefix) / comparing it with the HMAC of the named secret (min); obfs4 streams "
        "are decoded by the obfs4 library's server factory fed as the station's WrapConnection feeds it, so the obfs4 wire is checked for what the peer decodes, "
        "not byte by byte",
        "random prefix picks are forced (replay) or observed (random traces) through crypto/rand.Reader, which pickRandomPrefix reads one byte of",
        "GetDstPort's result is classified with the package's own PortSelectorRange and range constants (seeded / fixed value): the derivation itself is C01's subject",
        "a call that does not return within 5 s counts as hung; an obfs4 handshake that cannot complete is ended by the pipe when both ends wait on an empty pipe",
        "the registry is driven sequentially (the maps are unsynchronised: concurrent AddTransport and lookups would be a data race, not modelled); "
        "behaviours start from an empty registry (maps reset in-package) or from the one init() built",
        "one object, sequential calls: no concurrent use of a ClientTransport",
    ]
