SPECIFICATION Spec
CONSTANTS
  W = 4
  Cap = 2
  MaxOffer = 9
  MaxIn = 4
  RecvObservesCancel = TRUE
VIEW view
INVARIANTS TypeOK DropsCounted NeverBlocksReceiver
PROPERTIES DropOnlyWhenFull ShutdownBounded
CHECK_DEADLOCK FALSE
