------------------------------- MODULE Config -------------------------------
(***************************************************************************)
(* Station configuration, housekeeping and reload (pkg/station/lib         *)
(* config.go, registration_config.go, registration.go OnReload, stats.go,  *)
(* registration_stats.go; pkg/station/liveness cached.go;                  *)
(* cmd/application/main.go).  One action per thing main.go does:           *)
(*                                                                         *)
(*   Load(r, sf)    start-up: ParseConfig (TOML decode + ParseBlocklists), *)
(*                  NewRegistrationManager (liveness.New, phantom subnets  *)
(*                  file, GeoIP), registration of the stats modules        *)
(*   PrintStats(m)  one statistics tick of module m (PrintAndReset /       *)
(*                  PrintStats) - "zmq", "liveness", "proxy", "reg" and    *)
(*                  "stats" (the aggregator Stats.PrintStats(false|true)   *)
(*                  walking every registered module)                       *)
(*   Sweep          RegistrationManager.RemoveOldRegistrations             *)
(*   Reload(r, sf)  SIGHUP: ParseConfig; if it returned no error,          *)
(*                  OnReload(newConf.RegConfig)                            *)
(*                                                                         *)
(* A configuration row r gives every optional key an abstract value:       *)
(*   ld, nd   cache_expiration_time / _nonlive: unset | zero | valid | bad *)
(*   lc, nc   cache_capacity / _nonlive:        unset | zero | valid | neg *)
(*   cbs      covert_blocklist_subnets: unset | empty | A | B | ws | bad   *)
(*   cas      covert_allowlist_subnets: unset | empty | A | ws | bad |     *)
(*                                      badonly                            *)
(*   cbd      covert_blocklist_domains: unset | A | B | bad                *)
(*   pbl      phantom_blocklist:        unset | empty | A | ws | bad       *)
(*   geo      geoip_*_db_path: unset | empty | missing | garbage           *)
(*   wk       ingest_worker_count: unset | zero | valid                    *)
(*   pub      covert_blocklist_public_addrs: unset | true                  *)
(*   fk       the file itself: ok | syntax | wrongtype | unreadable |      *)
(*            shipped (= cmd/application/app_config.toml as it is)         *)
(* The lists are sets of named entries (tables below); "ws" lists contain  *)
(* an entry with a surrounding blank (the shipped file has "fc00::/7 "),   *)
(* "bad" lists a valid entry plus one that cannot be parsed ("badfirst":   *)
(* the same two entries with the unparsable one written FIRST - which      *)
(* entry of a list is the bad one must not matter).  sf is the    *)
(* state of the phantom subnets file: S1 | S2 | malformed | missing |      *)
(* badgen.                                                                 *)
(*                                                                         *)
(* What is in force is MEASURED by the driver, not read from fields: for   *)
(* every named entry a probe address inside it (and only it) is pushed     *)
(* through ParseOrResolveBlocklisted / IsBlocklistedPhantom after every    *)
(* action, together with an address in no list ("out") and a local         *)
(* interface address ("lo"); the selector is identified by its content;    *)
(* every housekeeping call is run under recover().  Proj is that           *)
(* measurement as the specification predicts it.                           *)
(*                                                                         *)
(* Defects switches on the deviations found in the code, so that the       *)
(* intended and the as-found behaviour are instances of one module:        *)
(*   "dropBad"      ParseBlocklists ignores ParseCIDR errors: unparsable   *)
(*                  entries (and entries with a blank) are dropped         *)
(*                  silently, the load succeeds            (H-C19-2)       *)
(*   "mustCompile"  a malformed domain pattern panics      (H-C19-2)       *)
(*   "statsGuard"   printStats guards the non-live cache with the live     *)
(*                  cache's nil test: live-only -> panic   (H-C19-1)       *)
(*   "nilRegConfig" a file without any registration key leaves             *)
(*                  Config.RegConfig nil; ParseConfig dereferences it      *)
(* and two deviations no defect of the as-found tree but seeded changes    *)
(* showed (broken instances only):                                         *)
(*   "pubSkipsCovered"  covert_blocklist_public_addrs skips an interface   *)
(*                  subnet whose ADDRESS a configured entry covers: with   *)
(*                  the shipped 127.0.0.1/32 the rest of 127/8 ("lonet")   *)
(*                  stays dialable                                         *)
(*   "detectorPblWhenSharing"  the phantom blocklist is applied at two     *)
(*                  sites - ValidateRegistration for every source but the  *)
(*                  local detector, ingestRegistration (after the share)   *)
(*                  for the local detector; the second one only runs when  *)
(*                  enable_share_over_api is on                            *)
(* A phantom entry counts as enforced when no registration on a phantom    *)
(* inside it is SERVED (made valid by the real ingestRegistration), from   *)
(* whatever source it arrives and whether sharing is on or off.            *)
(***************************************************************************)
EXTENDS Naturals, FiniteSets, Sequences, TLC

CONSTANTS LD, LC, ND, NC, CBS, CAS, CBD, PBL, GEO, WK, PUB, FK,   \* key domains for start-up rows
          SF,                                                     \* subnets file states at start-up
          RCBS, RCAS, RCBD, RPBL, RGEO, RPUB, RFK, RSF,           \* domains for reload rows
          WithShipped,                                            \* BOOLEAN: include the shipped file as a row
          Defects

VARIABLES st,      \* "down" | "up" | "crashed"
          want,    \* entries named by the configuration whose policies are in force: [cbs, cas, cbd, pbl]
          pol,     \* entries actually in force + public-address blocking: [cbs, cas, cbd, pbl, pub]
          sel,     \* content of the phantom selector: "none" | "S1" | "S2"
          lshape,  \* liveness tester shape built at start-up: [ll, nl] (reload never changes it)
          obs

vars == <<st, want, pol, sel, lshape, obs>>
view == <<st, want, pol, sel, lshape>>

Modules == {"zmq", "liveness", "proxy", "reg", "stats", "sweep"}

\* ------------------------------------------------------------------ entry tables
CbsEntries(v) == CASE v = "A" -> {"c198", "cdb8b"} [] v = "B" -> {"c100"} [] v = "ws" -> {"c198", "cws"}
                   [] v \in {"bad", "badfirst"} -> {"c198", "cBAD"}
                   [] v = "shipped" -> {"s127", "s10", "s172", "s192", "sfc00ws", "sfe80", "sv6lo"}
                   [] OTHER -> {}
CasEntries(v) == CASE v = "A" -> {"a203", "adb8a"} [] v = "ws" -> {"aws"} [] v \in {"bad", "badfirst"} -> {"a203", "aBAD"}
                   [] v = "badonly" -> {"aBAD"} [] OTHER -> {}
CbdEntries(v) == CASE v = "A" -> {"dblk", "dloc"} [] v = "B" -> {"doth"} [] v \in {"bad", "badfirst"} -> {"dblk", "dBAD"}
                   [] v = "shipped" -> {"sdloc"} [] OTHER -> {}
PblEntries(v) == CASE v = "A" -> {"p192"} [] v = "ws" -> {"p192", "pws"} [] v \in {"bad", "badfirst"} -> {"p192", "pBAD"} [] OTHER -> {}

Bad == {"cBAD", "aBAD", "dBAD", "pBAD"}           \* cannot be parsed
Blank == {"cws", "aws", "pws", "sfc00ws"}         \* parse once surrounding blanks are trimmed

CovertProbes == {"c198", "cdb8b", "c100", "cws", "a203", "adb8a", "aws", "out", "lo", "lonet",
                 "s127", "s10", "s172", "s192", "sfc00ws", "sfe80", "sv6lo"}
DomainProbes == {"dblk", "dloc", "doth", "sdloc"}
PhantomProbes == {"p192", "pws"}

None4 == [cbs |-> {}, cas |-> {}, cbd |-> {}, pbl |-> {}]
Want(r) == [cbs |-> CbsEntries(r.cbs), cas |-> CasEntries(r.cas), cbd |-> CbdEntries(r.cbd), pbl |-> PblEntries(r.pbl)]
AllOf(w) == w.cbs \cup w.cas \cup w.cbd \cup w.pbl
\* what ParseBlocklists keeps of a list
Kept(S) == IF "dropBad" \in Defects THEN S \ (Bad \cup Blank) ELSE S
Pol(r) == [cbs |-> Kept(CbsEntries(r.cbs)), cas |-> Kept(CasEntries(r.cas)), cbd |-> CbdEntries(r.cbd) \ Bad,
           pbl |-> Kept(PblEntries(r.pbl)), pub |-> r.pub = "true"]

\* ------------------------------------------------------------------ rows
Unset == [ld |-> "unset", lc |-> "unset", nd |-> "unset", nc |-> "unset", cbs |-> "unset", cas |-> "unset",
          cbd |-> "unset", pbl |-> "unset", geo |-> "unset", wk |-> "unset", pub |-> "unset", fk |-> "ok"]
Shipped == [ld |-> "valid", lc |-> "zero", nd |-> "valid", nc |-> "zero", cbs |-> "shipped", cas |-> "empty",
            cbd |-> "shipped", pbl |-> "empty", geo |-> "empty", wk |-> "valid", pub |-> "true", fk |-> "shipped"]
\* (kept as two sets each: TLC enumerates a set of records lazily, but not a union with one)
ProductRows == [ld : LD, lc : LC, nd : ND, nc : NC, cbs : CBS, cas : CAS, cbd : CBD, pbl : PBL, geo : GEO, wk : WK,
                pub : PUB, fk : {"ok"}]
ExtraRows == {[Unset EXCEPT !.fk = k] : k \in FK \ {"ok"}}
             \cup {Unset}                                \* a file that sets no registration key at all
             \cup (IF WithShipped THEN {Shipped} ELSE {})
Rows == ProductRows \cup ExtraRows
RProductRows == [ld : {"unset"}, lc : {"unset"}, nd : {"unset"}, nc : {"unset"}, cbs : RCBS, cas : RCAS, cbd : RCBD,
                 pbl : RPBL, geo : RGEO, wk : {"unset"}, pub : RPUB, fk : {"ok"}]
RExtraRows == {[Unset EXCEPT !.fk = k] : k \in RFK \ {"ok"}}
              \cup {Unset}
              \cup (IF WithShipped THEN {Shipped} ELSE {})
RRows == RProductRows \cup RExtraRows

FileOK(r) == r.fk \in {"ok", "shipped"}
NoKeys(r) == r = Unset
\* a configuration a correct loader accepts at the ParseConfig level: readable, well-typed TOML, every entry parsable
GoodConfig(r) == FileOK(r) /\ AllOf(Want(r)) \cap Bad = {}
\* what ParseConfig does (with the switched-on defects)
ParsePanics(r) == FileOK(r) /\ (("mustCompile" \in Defects /\ "dBAD" \in CbdEntries(r.cbd))
                                \/ ("nilRegConfig" \in Defects /\ NoKeys(r)))
ParseOK(r) == /\ FileOK(r) /\ ~ParsePanics(r)
              /\ "dBAD" \notin CbdEntries(r.cbd)
              /\ ("dropBad" \in Defects \/ (CbsEntries(r.cbs) \cup CasEntries(r.cas) \cup PblEntries(r.pbl)) \cap Bad = {})
SubnetsOK(sf) == sf \in {"S1", "S2"}
\* start-up additionally builds the liveness tester (a malformed duration is fatal), the selector and GeoIP
Accepts(r, sf) == ParseOK(r) /\ r.ld # "bad" /\ r.nd # "bad" /\ r.geo \notin {"missing", "garbage"} /\ SubnetsOK(sf)
LiveShape(r) == [ll |-> r.ld \in {"zero", "valid"}, nl |-> r.nd \in {"zero", "valid"}]

\* ------------------------------------------------------------------ measurement
\* "lo" is a local interface address, "lonet" another address of that interface's subnet (127.0.0.2 in 127.0.0.1/8)
PubCovers(p, pl) == \/ p \in {"lo", "s127", "sv6lo"}
                    \/ p = "lonet" /\ ~("pubSkipsCovered" \in Defects /\ "s127" \in pl.cbs)
CovertBlocked(p, pl) == IF pl.cas # {} THEN p \notin pl.cas                   \* allowlist takes precedence
                        ELSE p \in pl.cbs \/ (pl.pub /\ PubCovers(p, pl))     \* local interface subnets
\* where the phantom blocklist is applied: registrations arrive from the local detector, the API / DNS registrars and
\* from peer stations (pre-scanned), with enable_share_over_api on or off
Sources == {"detector", "api", "prescan"}
PhantomRefused(e, pl, src, sharing) ==
  /\ e \in pl.pbl
  /\ (src = "detector" /\ "detectorPblWhenSharing" \in Defects) => sharing
\* the shipped list names the loopback addresses themselves, which public-address blocking also covers
PrintPanics(m, ls) == "statsGuard" \in Defects /\ ls.ll /\ ~ls.nl /\ m \in {"liveness", "stats"}
Proj(s, pl, sl, ls) ==
  IF s = "up"
    THEN [up |-> TRUE,
          covert |-> {p \in CovertProbes : CovertBlocked(p, pl)},
          domain |-> pl.cbd \cap DomainProbes,
          phantom |-> {e \in PhantomProbes : \A src \in Sources, sharing \in BOOLEAN : PhantomRefused(e, pl, src, sharing)},
          sel |-> sl, geo |-> "empty",      \* no GeoIP database exists in the sandbox: always the empty database
          hk |-> {m \in Modules : ~PrintPanics(m, ls)}]
    ELSE [up |-> FALSE, covert |-> {}, domain |-> {}, phantom |-> {}, sel |-> "none", geo |-> "none", hk |-> {}]

NoPol == [cbs |-> {}, cas |-> {}, cbd |-> {}, pbl |-> {}, pub |-> FALSE]
NoShape == [ll |-> FALSE, nl |-> FALSE]

Init == /\ st = "down" /\ want = None4 /\ pol = NoPol /\ sel = "none" /\ lshape = NoShape
        /\ obs = [a |-> "Init"]

Load(r, sf) ==
  /\ st = "down"
  /\ IF ParsePanics(r) THEN
        /\ st' = "crashed" /\ UNCHANGED <<want, pol, sel, lshape>>
        /\ obs' = [a |-> "Load", row |-> r, sf |-> sf, res |-> "rejected", panicked |-> TRUE,
                   st |-> Proj("crashed", pol, sel, lshape)]
     ELSE IF Accepts(r, sf) THEN
        /\ st' = "up" /\ want' = Want(r) /\ pol' = Pol(r) /\ sel' = sf /\ lshape' = LiveShape(r)
        /\ obs' = [a |-> "Load", row |-> r, sf |-> sf, res |-> "accepted", panicked |-> FALSE,
                   st |-> Proj("up", Pol(r), sf, LiveShape(r))]
     ELSE
        /\ UNCHANGED <<st, want, pol, sel, lshape>>
        /\ obs' = [a |-> "Load", row |-> r, sf |-> sf, res |-> "rejected", panicked |-> FALSE,
                   st |-> Proj("down", pol, sel, lshape)]

PrintStats(m) ==
  /\ st = "up" /\ m \in Modules \ {"sweep"}
  /\ st' = IF PrintPanics(m, lshape) THEN "crashed" ELSE "up"
  /\ UNCHANGED <<want, pol, sel, lshape>>
  /\ obs' = [a |-> "Print", m |-> m, res |-> IF PrintPanics(m, lshape) THEN "panic" ELSE "ok",
             st |-> Proj(st', pol, sel, lshape)]

Sweep ==
  /\ st = "up"
  /\ UNCHANGED <<st, want, pol, sel, lshape>>
  /\ obs' = [a |-> "Sweep", res |-> "ok", st |-> Proj(st, pol, sel, lshape)]

\* main.go on SIGHUP.  OnReload replaces the selector only if the subnets file loaded, and the policies
\* unconditionally - it is only reached when ParseConfig returned no error.
Reload(r, sf) ==
  /\ st = "up"
  /\ IF ParsePanics(r) THEN
        /\ st' = "crashed" /\ UNCHANGED <<want, pol, sel, lshape>>
        /\ obs' = [a |-> "Reload", row |-> r, sf |-> sf, res |-> "rejected", panicked |-> TRUE, selNew |-> FALSE,
                   st |-> Proj("crashed", pol, sel, lshape)]
     ELSE IF ParseOK(r) THEN
        /\ want' = Want(r) /\ pol' = Pol(r)
        /\ sel' = IF SubnetsOK(sf) THEN sf ELSE sel
        /\ UNCHANGED <<st, lshape>>
        /\ obs' = [a |-> "Reload", row |-> r, sf |-> sf, res |-> "applied", panicked |-> FALSE, selNew |-> SubnetsOK(sf),
                   st |-> Proj(st, pol', sel', lshape)]
     ELSE
        /\ UNCHANGED <<st, want, pol, sel, lshape>>
        /\ obs' = [a |-> "Reload", row |-> r, sf |-> sf, res |-> "rejected", panicked |-> FALSE, selNew |-> FALSE,
                   st |-> Proj(st, pol, sel, lshape)]

\* (the product is walked key by key: TLC refuses to build a set of more than 10^6 records)
NextNoHK == \/ \E ld \in LD, lc \in LC, nd \in ND, nc \in NC, cbs \in CBS, cas \in CAS, cbd \in CBD, pbl \in PBL,
                  geo \in GEO, wk \in WK, pub \in PUB, sf \in SF :
                  Load([ld |-> ld, lc |-> lc, nd |-> nd, nc |-> nc, cbs |-> cbs, cas |-> cas, cbd |-> cbd, pbl |-> pbl,
                        geo |-> geo, wk |-> wk, pub |-> pub, fk |-> "ok"], sf)
            \/ \E r \in ExtraRows, sf \in SF : r \notin ProductRows /\ Load(r, sf)
            \/ \E cbs \in RCBS, cas \in RCAS, cbd \in RCBD, pbl \in RPBL, geo \in RGEO, pub \in RPUB, sf \in RSF :
                  Reload([Unset EXCEPT !.cbs = cbs, !.cas = cas, !.cbd = cbd, !.pbl = pbl, !.geo = geo, !.pub = pub], sf)
            \/ \E r \in RExtraRows, sf \in RSF : r \notin RProductRows /\ Reload(r, sf)
Next == \/ NextNoHK
        \/ \E m \in Modules : PrintStats(m)
        \/ Sweep

Spec == Init /\ [][Next]_vars

\* ------------------------------------------------------------------ properties
TypeOK == /\ st \in {"down", "up", "crashed"}
          /\ sel \in {"none", "S1", "S2"}
          /\ AllOf(want) \subseteq (CovertProbes \cup DomainProbes \cup PhantomProbes \cup Bad)

\* periodic statistics, registration expiry and reload never panic (and neither does loading)
NoCrash == st # "crashed"
HousekeepingTotal == st = "up" => Proj(st, pol, sel, lshape).hk = Modules

\* every entry of the accepted configuration is enforced; an entry that cannot be parsed makes the load fail
AcceptedMeansEnforced ==
  st = "up" =>
    /\ AllOf(want) \cap Bad = {}
    /\ want.cbs \subseteq pol.cbs /\ want.cas \subseteq pol.cas /\ want.cbd \subseteq pol.cbd /\ want.pbl \subseteq pol.pbl
    /\ \A e \in want.cas : ~CovertBlocked(e, pol)
    /\ (want.cas # {}) => CovertBlocked("out", pol)
    /\ (want.cas = {}) => \A e \in want.cbs : CovertBlocked(e, pol)
    /\ want.cbd \subseteq Proj(st, pol, sel, lshape).domain
    /\ want.pbl \subseteq Proj(st, pol, sel, lshape).phantom
    /\ (want.cas = {} /\ pol.pub) => {"lo", "lonet"} \subseteq Proj(st, pol, sel, lshape).covert
\* nothing is in force that the configuration does not name
NothingExtra == st = "up" => (pol.cbs \subseteq want.cbs /\ pol.cas \subseteq want.cas /\ pol.cbd \subseteq want.cbd /\ pol.pbl \subseteq want.pbl)

\* a part changes only in a reload whose new version of THAT part loaded without error
BadReloadChangesNothing ==
  [][st = "up" =>
       /\ (obs'.a # "Reload") => (pol' = pol /\ want' = want /\ sel' = sel)
       /\ (obs'.a = "Reload" /\ ~GoodConfig(obs'.row)) => (pol' = pol /\ want' = want /\ sel' = sel /\ st' = "up")
       /\ (obs'.a = "Reload" /\ ~SubnetsOK(obs'.sf)) => sel' = sel
       /\ (obs'.a = "Reload" /\ GoodConfig(obs'.row)) => (want' = Want(obs'.row) /\ (SubnetsOK(obs'.sf) => sel' = obs'.sf))
       /\ lshape' = lshape]_vars
=============================================================================
