SPECIFICATION Spec
CONSTANTS
  Regs <- MCRegs2
  TU = 1
  TA = 3
  MaxT = 4
  TickSteps = {}
  LifeEvents = TRUE
  KeepAlive = 2
  ClearWhen = "if-tracking"
  DupMode = "ignore"
  ClearFirst = TRUE
VIEW view
INVARIANTS EveryAnnouncementAccepted DetectorOutlivesStation SessionMatchesRegistration ClearEmpties
CHECK_DEADLOCK FALSE
