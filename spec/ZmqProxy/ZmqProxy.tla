------------------------------ MODULE ZmqProxy ------------------------------
(***************************************************************************)
(* The station's ZMQ front end (pkg/station/lib/zmq_proxy.go, type          *)
(* ZMQIngester) and its wiring in cmd/application/main.go:                  *)
(*                                                                         *)
(*   upstream PUB u --(ZMQ pipe inq[u])--> SUB u    goroutine u of proxyZMQ *)
(*        hand[u] --`messages` (unbuffered)--> mcur  main loop of proxyZMQ  *)
(*        mcur --pubSock.SendBytes (ZMQ pipe outq)--> SUB of RunZMQ         *)
(*        cur --select{ctx.Done | regChan<-msg | default: drop}--> chanq    *)
(*        chanq = regChan, read by HandleRegUpdates (spec/Pipeline: a       *)
(*        successful ISelect is Pipeline!Offer, Consume is the first        *)
(*        disjunct of Pipeline!DRecv)                                       *)
(*                                                                         *)
(* One action per program step of the real code:                           *)
(*   SubRecv(u)   sub.RecvBytes(0) in the per-upstream goroutine            *)
(*   ProxyTake(u) rendezvous `messages <- msg` / `for msg := range messages`*)
(*   ProxySend    pubSock.SendBytes(msg, 0)                                 *)
(*   IRecv        sub.RecvBytes(0) in RunZMQ + addZMQMessage                *)
(*   ISelect      the select statement of RunZMQ                            *)
(*   IDrop        Warnln("ingest full ...") returned; addDroppedZMQMessage  *)
(*   Reset        ZMQIngester.Reset (two atomic stores)                     *)
(*   PLen/PLoadZ/PLoadD/PLoadT/PPrint/PStore  PrintAndReset: len(regChan),  *)
(*                the loads of the three printed counters (argument         *)
(*                evaluation order), the logger call, the final Reset()     *)
(* Environment: Start (RunZMQ called and every subscription established),  *)
(*   Publish(u) (upstream u publishes its next message), Consume (the       *)
(*   reader of regChan takes one message), Cancel (ctx cancelled).          *)
(*                                                                         *)
(* Upstream names are strings; BadUps are the upstreams that must not get   *)
(* anything through (publisher without the configured server key, station   *)
(* key not registered with the publisher, mechanism mismatch).  A message   *)
(* is [u |-> upstream, n |-> sequence number at that upstream].             *)
(*                                                                         *)
(* Variants (CONSTANTS):                                                    *)
(*   AuthEnforced  TRUE  = what the code does and what is intended          *)
(*                 FALSE = deliberately broken instance (guards against a   *)
(*                         vacuous OnlyAuthenticated)                       *)
(*   StatsMode     "swap"      intended: PrintAndReset reports and zeroes a *)
(*                             counter in one atomic step                   *)
(*                 "loadstore" as found: atomic.Load ... logger ... Reset() *)
(*                             (increments between load and store vanish)   *)
(*   ShutdownMode  "observed"  intended: the blocking receive also observes *)
(*                             ctx; the proxy goroutines are stopped        *)
(*                 "onmessage" as found: ctx is looked at only in the       *)
(*                             select after a message arrived; proxyZMQ has *)
(*                             no way to stop                               *)
(***************************************************************************)
EXTENDS Naturals, Sequences, FiniteSets, TLC

CONSTANTS Ups, BadUps,        \* sets of strings, BadUps \subseteq Ups
          MaxSend,            \* messages per upstream (bounding only)
          ChanCap,            \* cap(regChan)
          MaxEpochs,          \* Reset / PrintAndReset calls (bounding only)
          AuthEnforced, StatsMode, ShutdownMode

VARIABLES started, cancelled, prox, dl,        \* lifecycle: RunZMQ called / ctx cancelled / proxy goroutines / RunZMQ's SUB attached
          sent, base,                          \* per upstream: messages published / published before Start (never seen: slow joiner)
          inq, hand, mcur, outq,               \* the proxy path
          ipc, cur, chanq, deliv,              \* RunZMQ loop, regChan, last sequence number consumed per upstream
          zmq, drp, tot,                       \* the code's counters: zmqMessages, droppedZMQMessages, totalDroppedZMQMessages
          spc, snap, epochs,                   \* PrintAndReset program counter, the values it loaded, calls made
          rcv, recvd, fwd, dropAll, disc,      \* ghosts: per-upstream receives; all-time received / enqueued / dropped / discarded at return
          rep, gone,                           \* ghosts: sums reported by PrintAndReset / discarded by a plain Reset
          obs

None == [none |-> TRUE]
Good == Ups \ BadUps
Msg(u, n) == [u |-> u, n |-> n]

lvars == <<started, cancelled, prox, dl>>
pvars == <<sent, base, inq, hand, mcur, outq>>
ivars == <<ipc, cur, chanq, deliv>>
cvars == <<zmq, drp, tot>>
svars == <<spc, snap, epochs>>
gvars == <<rcv, recvd, fwd, dropAll, disc, rep, gone>>
vars == <<lvars, pvars, ivars, cvars, svars, gvars, obs>>
view == <<lvars, pvars, ivars, cvars, svars, gvars>>

Zero2 == [zmq |-> 0, drp |-> 0]

Init == /\ started = FALSE /\ cancelled = FALSE /\ prox = "none" /\ dl = FALSE
        /\ sent = [u \in Ups |-> 0] /\ base = [u \in Ups |-> 0]
        /\ inq = [u \in Ups |-> <<>>] /\ hand = [u \in Ups |-> None] /\ mcur = None /\ outq = <<>>
        /\ ipc = "none" /\ cur = None /\ chanq = <<>> /\ deliv = [u \in Ups |-> 0]
        /\ zmq = 0 /\ drp = 0 /\ tot = 0
        /\ spc = "idle" /\ snap = [len |-> 0, zmq |-> 0, drp |-> 0, tot |-> 0] /\ epochs = 0
        /\ rcv = [u \in Ups |-> 0] /\ recvd = 0 /\ fwd = 0 /\ dropAll = 0 /\ disc = 0
        /\ rep = Zero2 /\ gone = Zero2
        /\ obs = [a |-> "Init"]

\* ---- projection shared with the Go drivers: what can be read from the real object without stopping it
Proj == [zmq |-> zmq', drp |-> drp', tot |-> tot', chan |-> chanq',
         warn |-> (ipc' = "warn"), ret |-> (ipc' = "returned"), printing |-> (spc' = "p")]

\* ------------------------------------------------------------- environment
\* RunZMQ(ctx) called; proxyZMQ bound and connected; every subscription (upstream -> proxy, proxy -> RunZMQ) established
Start == /\ ~started
         /\ started' = TRUE /\ prox' = "running" /\ dl' = TRUE /\ ipc' = "recv"
         /\ base' = sent
         /\ UNCHANGED <<cancelled, sent, inq, hand, mcur, outq, cur, chanq, deliv, cvars, svars, gvars>>
         /\ obs' = [a |-> "Start", st |-> Proj]

\* upstream u publishes its next message.  A PUB socket drops what it has no (authenticated) subscriber for.
Publish(u) ==
  /\ sent[u] < MaxSend
  /\ sent' = [sent EXCEPT ![u] = @ + 1]
  /\ inq' = IF prox = "running" /\ (u \in Good \/ ~AuthEnforced)
              THEN [inq EXCEPT ![u] = Append(@, Msg(u, sent[u] + 1))] ELSE inq
  /\ UNCHANGED <<lvars, base, hand, mcur, outq, ivars, cvars, svars, gvars>>
  /\ obs' = [a |-> "Publish", u |-> u, n |-> sent[u] + 1, st |-> Proj]

\* the reader of regChan (HandleRegUpdates' distributor) takes the oldest message
Consume ==
  /\ chanq # <<>>
  /\ chanq' = Tail(chanq)
  /\ deliv' = [deliv EXCEPT ![Head(chanq).u] = Head(chanq).n]
  /\ UNCHANGED <<lvars, pvars, ipc, cur, cvars, svars, gvars>>
  /\ obs' = [a |-> "Consume", u |-> Head(chanq).u, n |-> Head(chanq).n, st |-> Proj]

Cancel == /\ started /\ ~cancelled
          /\ cancelled' = TRUE
          /\ UNCHANGED <<started, prox, dl, pvars, ivars, cvars, svars, gvars>>
          /\ obs' = [a |-> "Cancel", st |-> Proj]

\* --------------------------------------------------------------- proxyZMQ
SubRecv(u) ==
  /\ prox = "running" /\ hand[u] = None /\ inq[u] # <<>>
  /\ hand' = [hand EXCEPT ![u] = Head(inq[u])]
  /\ inq' = [inq EXCEPT ![u] = Tail(@)]
  /\ UNCHANGED <<lvars, sent, base, mcur, outq, ivars, cvars, svars, gvars>>
  /\ obs' = [a |-> "SubRecv", u |-> u, st |-> Proj]

ProxyTake(u) ==
  /\ prox = "running" /\ mcur = None /\ hand[u] # None
  /\ mcur' = hand[u]
  /\ hand' = [hand EXCEPT ![u] = None]
  /\ UNCHANGED <<lvars, sent, base, inq, outq, ivars, cvars, svars, gvars>>
  /\ obs' = [a |-> "ProxyTake", u |-> u, st |-> Proj]

\* a PUB socket without subscriber drops silently (after RunZMQ returned and closed its SUB)
ProxySend ==
  /\ prox = "running" /\ mcur # None
  /\ outq' = IF dl THEN Append(outq, mcur) ELSE outq
  /\ mcur' = None
  /\ UNCHANGED <<lvars, sent, base, inq, hand, ivars, cvars, svars, gvars>>
  /\ obs' = [a |-> "ProxySend", st |-> Proj]

\* intended only: the proxy goroutines end and their sockets are closed once the context is cancelled
ProxyStop ==
  /\ ShutdownMode = "observed" /\ cancelled /\ prox = "running"
  /\ prox' = "stopped"
  /\ inq' = [u \in Ups |-> <<>>] /\ hand' = [u \in Ups |-> None] /\ mcur' = None
  /\ UNCHANGED <<started, cancelled, dl, sent, base, outq, ivars, cvars, svars, gvars>>
  /\ obs' = [a |-> "ProxyStop", st |-> Proj]

\* ------------------------------------------------------------------ RunZMQ
IRecv ==
  /\ ipc = "recv"
  /\ \/ /\ outq # <<>>
        /\ cur' = Head(outq) /\ outq' = Tail(outq)
        /\ zmq' = zmq + 1 /\ recvd' = recvd + 1
        /\ rcv' = [rcv EXCEPT ![Head(outq).u] = @ + 1]
        /\ ipc' = "select"
        /\ UNCHANGED <<dl, disc>>
     \/ /\ ShutdownMode = "observed" /\ cancelled
        /\ ipc' = "returned" /\ dl' = FALSE /\ outq' = <<>>
        /\ UNCHANGED <<cur, zmq, recvd, rcv, disc>>
  /\ UNCHANGED <<started, cancelled, prox, sent, base, inq, hand, mcur, chanq, deliv, drp, tot, svars, fwd, dropAll, rep, gone>>
  /\ obs' = [a |-> "IRecv", st |-> Proj]

\* Go's select: one of the READY cases, `default` only when none is ready
ISelect ==
  /\ ipc = "select"
  /\ \/ /\ cancelled                                   \* case <-ctx.Done(): return   (deferred sub.Close())
        /\ ipc' = "returned" /\ cur' = None /\ disc' = disc + 1 /\ dl' = FALSE /\ outq' = <<>>
        /\ UNCHANGED <<chanq, fwd>>
     \/ /\ Len(chanq) < ChanCap                        \* case zi.regChan <- msg: continue
        /\ chanq' = Append(chanq, cur) /\ fwd' = fwd + 1 /\ cur' = None /\ ipc' = "recv"
        /\ UNCHANGED <<dl, outq, disc>>
     \/ /\ ~cancelled /\ Len(chanq) = ChanCap           \* default: (about to log and count the drop)
        /\ ipc' = "warn"
        /\ UNCHANGED <<cur, chanq, fwd, disc, dl, outq>>
  /\ UNCHANGED <<started, cancelled, prox, sent, base, inq, hand, mcur, deliv, cvars, svars, rcv, recvd, dropAll, rep, gone>>
  /\ obs' = [a |-> "ISelect", st |-> Proj]

IDrop ==
  /\ ipc = "warn"
  /\ drp' = drp + 1 /\ tot' = tot + 1 /\ dropAll' = dropAll + 1
  /\ cur' = None /\ ipc' = "recv"
  /\ UNCHANGED <<lvars, pvars, chanq, deliv, zmq, svars, rcv, recvd, fwd, disc, rep, gone>>
  /\ obs' = [a |-> "IDrop", st |-> Proj]

\* ------------------------------------------------------------------- stats
\* "swap" (intended): an epoch ends in ONE atomic step that reports and zeroes both epoch counters.
\* "loadstore" (as found): Reset() is atomic.Store(dropped, 0) then atomic.Store(zmqMessages, 0); PrintAndReset loads the
\* counters one by one while formatting its line, calls the logger and only then calls Reset().
Swap == StatsMode = "swap"

\* ZMQIngester.Reset called directly
Reset ==
  /\ spc = "idle" /\ epochs < MaxEpochs
  /\ epochs' = epochs + 1
  /\ drp' = 0
  /\ IF Swap THEN /\ zmq' = 0 /\ spc' = "idle"
                  /\ gone' = [zmq |-> gone.zmq + zmq, drp |-> gone.drp + drp]
             ELSE /\ zmq' = zmq /\ spc' = "r"
                  /\ gone' = [gone EXCEPT !.drp = @ + drp]
  /\ UNCHANGED <<lvars, pvars, ivars, tot, snap, rcv, recvd, fwd, dropAll, disc, rep>>
  /\ obs' = [a |-> "Reset", st |-> Proj]

ResetZ ==
  /\ spc = "r" /\ spc' = "idle"
  /\ zmq' = 0 /\ gone' = [gone EXCEPT !.zmq = @ + zmq]
  /\ UNCHANGED <<lvars, pvars, ivars, drp, tot, snap, epochs, rcv, recvd, fwd, dropAll, disc, rep>>
  /\ obs' = [a |-> "ResetZ", st |-> Proj]

\* PrintAndReset called: l := len(zi.regChan)
PLen ==
  /\ spc = "idle" /\ epochs < MaxEpochs
  /\ spc' = "l" /\ epochs' = epochs + 1
  /\ snap' = [snap EXCEPT !.len = Len(chanq)]
  /\ UNCHANGED <<lvars, pvars, ivars, cvars, gvars>>
  /\ obs' = [a |-> "PLen", st |-> Proj]

PLoadZ ==
  /\ spc = "l" /\ spc' = "z"
  /\ IF Swap THEN snap' = [snap EXCEPT !.zmq = zmq, !.drp = drp] /\ zmq' = 0 /\ drp' = 0
             ELSE snap' = [snap EXCEPT !.zmq = zmq] /\ UNCHANGED <<zmq, drp>>
  /\ UNCHANGED <<lvars, pvars, ivars, tot, epochs, gvars>>
  /\ obs' = [a |-> "PLoadZ", st |-> Proj]

PLoadD ==
  /\ spc = "z" /\ spc' = "d"
  /\ snap' = IF Swap THEN snap ELSE [snap EXCEPT !.drp = drp]
  /\ UNCHANGED <<lvars, pvars, ivars, cvars, epochs, gvars>>
  /\ obs' = [a |-> "PLoadD", st |-> Proj]

PLoadT ==
  /\ spc = "d" /\ spc' = "t"
  /\ snap' = [snap EXCEPT !.tot = tot]
  /\ UNCHANGED <<lvars, pvars, ivars, cvars, epochs, gvars>>
  /\ obs' = [a |-> "PLoadT", st |-> Proj]

\* the logger call: the epoch's line "zmq-stats: <zmq> <drp> ... <tot> <len>/<cap>" is written
PPrint ==
  /\ spc = "t" /\ spc' = "p"
  /\ rep' = [zmq |-> rep.zmq + snap.zmq, drp |-> rep.drp + snap.drp]
  /\ UNCHANGED <<lvars, pvars, ivars, cvars, snap, epochs, rcv, recvd, fwd, dropAll, disc, gone>>
  /\ obs' = [a |-> "PPrint", zmq |-> snap.zmq, drp |-> snap.drp, tot |-> snap.tot, len |-> snap.len, st |-> Proj]

\* the logger returned; Reset(): first store
PStore ==
  /\ spc = "p"
  /\ IF Swap THEN spc' = "idle" /\ UNCHANGED <<zmq, drp>>
             ELSE spc' = "s" /\ drp' = 0 /\ UNCHANGED zmq
  /\ UNCHANGED <<lvars, pvars, ivars, tot, snap, epochs, gvars>>
  /\ obs' = [a |-> "PStore", st |-> Proj]

PStoreZ ==
  /\ spc = "s" /\ spc' = "idle"
  /\ zmq' = 0
  /\ UNCHANGED <<lvars, pvars, ivars, drp, tot, snap, epochs, gvars>>
  /\ obs' = [a |-> "PStoreZ", st |-> Proj]

\* ------------------------------------------------------------------ system
\* steps the code takes by itself (no driver involvement)
Auto == \/ \E u \in Ups : SubRecv(u) \/ ProxyTake(u)
        \/ ProxySend \/ ProxyStop \/ IRecv \/ ISelect
        \/ ResetZ \/ PLoadZ \/ PLoadD \/ PLoadT \/ PPrint \/ PStoreZ

\* the same without the one step of the code a recording driver always sees (the stats line)
AutoSilent == \/ \E u \in Ups : SubRecv(u) \/ ProxyTake(u)
              \/ ProxySend \/ ProxyStop \/ IRecv \/ ISelect
              \/ ResetZ \/ PLoadZ \/ PLoadD \/ PLoadT \/ PStoreZ

AutoEn == \/ /\ prox = "running"
             /\ \/ \E u \in Ups : (hand[u] = None /\ inq[u] # <<>>) \/ (mcur = None /\ hand[u] # None)
                \/ mcur # None
                \/ (ShutdownMode = "observed" /\ cancelled)
          \/ (ipc = "recv" /\ (outq # <<>> \/ (ShutdownMode = "observed" /\ cancelled)))
          \/ ipc = "select"
          \/ spc \in {"r", "l", "z", "d", "t", "s"}
\* steps a driver decides: the environment, and the two places where the real code calls out into a logger the
\* driver owns (Warnln before the drop is counted; the stats line before Reset())
Env == \/ Start \/ Cancel \/ Consume \/ \E u \in Ups : Publish(u)
       \/ Reset \/ PLen \/ PStore \/ IDrop

Next == Auto \/ Env

Sys == Auto \/ IDrop \/ PStore
Spec == Init /\ [][Next]_vars /\ WF_vars(Sys)

\* ------------------------------------------------------------- properties
Nat2 == [zmq : Nat, drp : Nat]
TypeOK ==
  /\ started \in BOOLEAN /\ cancelled \in BOOLEAN /\ dl \in BOOLEAN
  /\ prox \in {"none", "running", "stopped"}
  /\ ipc \in {"none", "recv", "select", "warn", "returned"}
  /\ spc \in {"idle", "r", "l", "z", "d", "t", "p", "s"}
  /\ \A u \in Ups : sent[u] \in 0..MaxSend /\ base[u] <= sent[u] /\ Len(inq[u]) <= MaxSend
  /\ Len(chanq) <= ChanCap
  /\ (cur = None) = (ipc \notin {"select", "warn"})
  /\ rep \in Nat2 /\ gone \in Nat2

Range(s) == {s[i] : i \in DOMAIN s}
InFlight == UNION {Range(inq[u]) : u \in Ups} \cup {hand[u] : u \in Ups} \cup {mcur, cur} \cup Range(outq) \cup Range(chanq)
AllMsgs == InFlight \ {None}

\* a publisher the station cannot authenticate (or that cannot authenticate the station) gets nothing through
OnlyAuthenticated == \A m \in AllMsgs : m.u \in Good
\* nothing is invented: whatever travels was published, after the subscriptions were established
NothingInvented == \A m \in AllMsgs : m.n > base[m.u] /\ m.n <= sent[m.u]

SelU(s, u) == SelectSeq(s, LAMBDA m : m.u = u)
Ns(s) == [i \in DOMAIN s |-> s[i].n]
Opt(m, u) == IF m # None /\ m.u = u THEN <<m.n>> ELSE <<>>
\* what is still on its way to RunZMQ from upstream u, oldest first
Pending(u) == Ns(SelU(outq, u)) \o Opt(mcur, u) \o Opt(hand[u], u) \o Ns(inq[u])
FromTo(a, b) == [i \in 1..(b - a) |-> a + i]
\* exactly once, in order, nothing lost: as long as RunZMQ is attached, the messages it has received from u plus the ones
\* still on their way are exactly what u published after Start, in publication order
PathExact == (dl /\ prox = "running") =>
               \A u \in Good : Pending(u) = FromTo(base[u] + rcv[u], sent[u])
\* per-upstream order is preserved into regChan and nothing is delivered twice
ChanOrdered == \A i \in DOMAIN chanq :
                 /\ chanq[i].n > deliv[chanq[i].u]
                 /\ chanq[i].n <= base[chanq[i].u] + rcv[chanq[i].u]
                 /\ \A j \in DOMAIN chanq : (i < j /\ chanq[i].u = chanq[j].u) => chanq[i].n < chanq[j].n
\* every message RunZMQ received is enqueued, dropped and counted, in its hands, or (at most one) discarded on return
Accounted == /\ recvd = fwd + dropAll + disc + (IF cur # None THEN 1 ELSE 0)
             /\ disc <= 1 /\ (disc = 1 => ipc = "returned")
             /\ tot = dropAll
\* the decision to drop is taken only when regChan is full (the count follows after the log line)
DropOnlyWhenFull == [][(ipc' = "warn" /\ ipc # "warn") => Len(chanq) = ChanCap]_vars
\* within an epoch the counters are consistent up to the one message RunZMQ holds across the epoch switch
\* (INTENDED; as found the two counters are zeroed by two separate stores and any number of messages fits in between)
EpochBalance == drp <= zmq + 1
\* no received / dropped message escapes the epoch reports (INTENDED; the as-found load...store loses increments)
NoLostCount == (spc = "idle" \/ (Swap /\ spc = "p")) =>
                 /\ rep.zmq + gone.zmq + zmq = recvd
                 /\ rep.drp + gone.drp + drp = dropAll
\* the printed received count never exceeds what was received and not yet reported
PrintSane == spc = "p" => rep.zmq + gone.zmq <= recvd /\ rep.drp + gone.drp <= dropAll

\* liveness (fair system steps)
Quiet == /\ \A u \in Ups : inq[u] = <<>> /\ hand[u] = None
         /\ mcur = None /\ outq = <<>> /\ ipc \in {"none", "recv", "returned"}
EventuallyQuiet == []<>Quiet
\* INTENDED: a stop request ends RunZMQ and the proxy goroutines whether or not traffic keeps arriving
Terminates == cancelled ~> (ipc = "returned" /\ prox = "stopped")
\* as found, and relied upon by the conformance drivers: after a stop request the NEXT message ends RunZMQ when regChan is full
=============================================================================
