//go:build verif

package transports

// X08 (spec/ClientTransport/ClientRegistry.tla): replays TLC behaviours of the client transport registry on the real
// package-level maps (reset in-package at the start of every behaviour; "defaults" = what init() builds) and compares, after
// every call, the result, the returned object (which builder made it, the name and id it reports, whether it is a NEW object)
// and both maps projected onto the alphabet's names / ids.

import (
	"context"
	"encoding/json"
	"errors"
	"io"
	"net"
	"testing"

	cj "github.com/refraction-networking/conjure/pkg/core/interfaces"
	"github.com/refraction-networking/conjure/pkg/transports/connecting/dtls"
	"github.com/refraction-networking/conjure/pkg/transports/wrapping/min"
	"github.com/refraction-networking/conjure/pkg/transports/wrapping/obfs4"
	"github.com/refraction-networking/conjure/pkg/transports/wrapping/prefix"
	pb "github.com/refraction-networking/conjure/proto"
	"google.golang.org/protobuf/proto"
	"google.golang.org/protobuf/types/known/anypb"
)

type x08Custom struct {
	label, name string
	id          pb.TransportType
}

func (c *x08Custom) Name() string                                  { return c.name }
func (c *x08Custom) String() string                                { return c.name }
func (c *x08Custom) ID() pb.TransportType                          { return c.id }
func (c *x08Custom) GetParams() (proto.Message, error)             { return nil, nil }
func (c *x08Custom) ParseParams(data *anypb.Any) (any, error)      { return nil, nil }
func (c *x08Custom) SetSessionParams(*anypb.Any, ...bool) error    { return nil }
func (c *x08Custom) GetDstPort(seed []byte) (uint16, error)        { return 443, nil }
func (c *x08Custom) PrepareKeys([32]byte, []byte, io.Reader) error { return nil }
func (c *x08Custom) Prepare(ctx context.Context, d func(ctx context.Context, network, laddr, raddr string) (net.Conn, error)) error {
	return nil
}
func (c *x08Custom) SetParams(p any) error {
	if p == nil {
		return nil
	}
	return errors.New("x08: custom transport takes no parameters")
}

var x08IDs = map[string]pb.TransportType{"Min": pb.TransportType_Min, "Obfs4": pb.TransportType_Obfs4, "DTLS": pb.TransportType_DTLS,
	"Prefix": pb.TransportType_Prefix, "T50": 50, "T51": 51}
var x08Names = []string{"min", "obfs4", "prefix", "dtls", "prefix_GetLong", "x08a", "x08c"}

func x08Builder(label string) func() cj.Transport {
	switch label {
	case "min":
		return func() cj.Transport { return &min.ClientTransport{} }
	case "obfs4":
		return func() cj.Transport { return &obfs4.ClientTransport{} }
	case "prefix":
		return func() cj.Transport { return &prefix.ClientTransport{} }
	case "dtls":
		return func() cj.Transport { return &dtls.ClientTransport{} }
	case "prefixGL":
		return func() cj.Transport { return &prefix.ClientTransport{Prefix: prefix.DefaultPrefixes[prefix.GetLong]} }
	case "customA":
		return func() cj.Transport { return &x08Custom{"customA", "x08a", 50} }
	case "dupName":
		return func() cj.Transport { return &x08Custom{"dupName", "min", 51} }
	case "dupID":
		return func() cj.Transport { return &x08Custom{"dupID", "x08c", pb.TransportType_Min} }
	}
	return func() cj.Transport { return nil }
}

// x08Label: which builder of the alphabet made this object
func x08Label(t cj.Transport) string {
	switch x := t.(type) {
	case *min.ClientTransport:
		return "min"
	case *obfs4.ClientTransport:
		return "obfs4"
	case *dtls.ClientTransport:
		return "dtls"
	case *x08Custom:
		return x.label
	case *prefix.ClientTransport:
		return "prefix*"
	}
	return "?"
}

func x08IDName(id pb.TransportType) string {
	for k, v := range x08IDs {
		if v == id {
			return k
		}
	}
	return "?"
}

func x08Param(p string) any {
	switch p {
	case "nil":
		return nil
	case "gen":
		return &pb.GenericTransportParams{RandomizeDstPort: proto.Bool(true)}
	}
	return "not parameters"
}

func TestVerifX08Registry(t *testing.T) {
	out := vOpenOut(t)
	defer out.Close()
	// what init() built, before anything is reset
	initial := map[string]bool{}
	for n := range transportsByName {
		initial[n] = true
	}
	if len(initial) != 4 || !initial["min"] || !initial["obfs4"] || !initial["prefix"] || !initial["dtls"] || len(transportsByID) != 4 {
		out.Emit(map[string]any{"kind": "mismatch", "idx": -1, "at": 0, "field": "init", "got_event": map[string]any{"names": initial, "ids": len(transportsByID)}})
	}
	nb, steps, mism := 0, 0, 0
	vReadLines(t, func(line []byte) {
		var b []map[string]any
		if err := json.Unmarshal(line, &b); err != nil {
			t.Fatalf("bad behaviour: %v", err)
		}
		idx := nb
		nb++
		transportsByName = make(map[string]func() cj.Transport)
		transportsByID = make(map[pb.TransportType]func() cj.Transport)
		if b[0]["from"] == "defaults" {
			if err := EnableDefaultTransports(); err != nil {
				t.Fatalf("EnableDefaultTransports on an empty registry: %v", err)
			}
		}
		var handed []cj.Transport
		// an object made by a prefix builder is told apart by the Prefix field it was built with
		prefixLabel := func(o cj.Transport, before string) string {
			if before == "prefix_GetLong" {
				return "prefixGL"
			}
			return "prefix"
		}
		state := func() map[string]any {
			bn, bi := map[string]any{}, map[string]any{}
			for _, n := range x08Names {
				bn[n] = "-"
			}
			for k := range x08IDs {
				bi[k] = "-"
			}
			extra := 0
			lab := func(f func() cj.Transport) string {
				o := f()
				l := x08Label(o)
				if l == "prefix*" {
					l = prefixLabel(o, o.Name())
				}
				return l
			}
			for n, f := range transportsByName {
				if _, ok := bn[n]; ok {
					bn[n] = lab(f)
				} else {
					extra++
				}
			}
			for id, f := range transportsByID {
				if k := x08IDName(id); k != "?" {
					bi[k] = lab(f)
				} else {
					extra++
				}
			}
			st := map[string]any{"byName": bn, "byID": bi}
			if extra > 0 {
				st["extra"] = extra
			}
			return st
		}
		object := func(o cj.Transport, nameAtBuild string) any {
			if o == nil {
				return map[string]any{"none": true}
			}
			fresh := true
			for _, h := range handed {
				if h == o {
					fresh = false
				}
			}
			handed = append(handed, o)
			l := x08Label(o)
			if l == "prefix*" {
				l = prefixLabel(o, nameAtBuild)
			}
			return map[string]any{"label": l, "name": o.Name(), "id": x08IDName(o.ID()), "fresh": fresh}
		}
		why := func(err error) string {
			switch {
			case err == nil:
				return "-"
			case errors.Is(err, ErrUnknownTransport):
				return "unknown"
			case errors.Is(err, ErrAlreadyRegistered):
				return "registered"
			}
			return "setparams"
		}
		res := func(err error) string {
			if err != nil {
				return "err"
			}
			return "ok"
		}
		cmp := func(i int, got map[string]any) bool {
			for k, wv := range b[i] {
				gv, ok := got[k]
				wj, _ := json.Marshal(vNorm(wv))
				gj, _ := json.Marshal(vNorm(gv))
				if !ok || string(wj) != string(gj) {
					out.Emit(map[string]any{"kind": "mismatch", "idx": idx, "at": i, "field": k, "want_event": b[i], "got_event": got, "want": b[:i+1]})
					mism++
					return false
				}
			}
			return true
		}
		if !cmp(0, map[string]any{"a": "Start", "from": b[0]["from"], "st": state()}) {
			return
		}
		for i := 1; i < len(b); i++ {
			ev := b[i]
			a, _ := ev["a"].(string)
			got := map[string]any{"a": a}
			key, _ := ev["key"].(string)
			p, _ := ev["p"].(string)
			// the name a prefix object reports when it leaves its builder tells which builder made it
			built := func(byName bool) string {
				var f func() cj.Transport
				if byName {
					f = transportsByName[key]
				} else {
					f = transportsByID[x08IDs[key]]
				}
				if f == nil {
					return ""
				}
				if o := f(); o != nil {
					return o.Name()
				}
				return ""
			}
			switch a {
			case "AddTransport":
				lb, _ := ev["b"].(string)
				got["b"] = lb
				err := AddTransport(x08Builder(lb))
				got["res"], got["why"] = res(err), why(err)
			case "EnableDefaultTransports":
				err := EnableDefaultTransports()
				got["res"], got["why"] = res(err), why(err)
			case "New":
				nb := built(true)
				o, err := New(key)
				got["key"], got["p"], got["res"], got["why"], got["obj"] = key, p, res(err), why(err), object(o, nb)
			case "GetTransportByName":
				nb := built(true)
				o, ok := GetTransportByName(key)
				got["key"], got["p"], got["obj"] = key, p, object(o, nb)
				if ok {
					got["res"], got["why"] = "ok", "-"
				} else {
					got["res"], got["why"] = "err", "unknown"
				}
			case "GetTransportByID":
				nb := built(false)
				o, ok := GetTransportByID(x08IDs[key])
				got["key"], got["p"], got["obj"] = key, p, object(o, nb)
				if ok {
					got["res"], got["why"] = "ok", "-"
				} else {
					got["res"], got["why"] = "err", "unknown"
				}
			case "NewWithParams":
				nb := built(true)
				o, err := NewWithParams(key, x08Param(p))
				got["key"], got["p"], got["res"], got["why"], got["obj"] = key, p, res(err), why(err), object(o, nb)
			case "NewWithParamsByID":
				nb := built(false)
				o, err := NewWithParamsByID(x08IDs[key], x08Param(p))
				got["key"], got["p"], got["res"], got["why"], got["obj"] = key, p, res(err), why(err), object(o, nb)
			case "ConfigFromTransportType":
				r, _ := ev["rand"].(bool)
				o, err := ConfigFromTransportType(x08IDs[key], r)
				got["key"], got["rand"], got["res"], got["why"] = key, r, res(err), "-"
				if err != nil {
					got["why"] = "unknown"
					got["obj"] = map[string]any{"none": true}
				} else {
					m := object(o, "").(map[string]any)
					if gp, ok := o.(interface {
						Prepare(context.Context, func(context.Context, string, string, string) (net.Conn, error)) error
					}); ok {
						_ = gp.Prepare(context.Background(), nil)
						if pm, _ := o.GetParams(); pm != nil {
							if g, ok := pm.(*pb.GenericTransportParams); ok && g != nil {
								m["prand"] = g.GetRandomizeDstPort()
							}
						}
					}
					got["obj"] = m
				}
			}
			got["st"] = state()
			steps++
			if !cmp(i, got) {
				return
			}
		}
	})
	out.Emit(map[string]any{"kind": "summary", "behaviours": nb, "steps": steps, "mismatches": mism, "tr": "registry"})
}
