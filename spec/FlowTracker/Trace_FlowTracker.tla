-------------------------- MODULE Trace_FlowTracker --------------------------
(* Stage C of X07 (real Rust code -> specification): validates ndjson traces recorded from the real FlowTracker / PerCoreGlobal by
   drivers that do NOT come from the specification (seeded random operation and packet sequences, clock unit 1 s: T = 30, K = 300).
   Line 1 ("Universe"): the flows (with the session key the REAL tag function gives each, read back from the harness) and the keys.
   Every other line: one call - its arguments, its result and the projected state after it (tracked set, the scheduled-drop queue
   entry by entry, the session map with expiry times, both counts).  "Reset" starts a new tracker.  All invariants of the module
   are evaluated on every observed state. *)
EXTENDS FlowTracker, Json, TLCExt
TraceLog == ndJsonDeserialize("trace.ndjson")
TraceFlowInfo == TraceLog[1].flows
AsSet(x) == {x[i] : i \in DOMAIN x}
TraceKeys == AsSet(TraceLog[1].keys)
VARIABLE l
tvars == <<vars, l>>

StateMatches(e) ==
  /\ e.st.now = now'
  /\ AsSet(e.st.tracked) = tracked'
  /\ Len(e.st.q) = Len(queue') /\ \A i \in 1..Len(queue') : (e.st.q[i].f = queue'[i].f /\ e.st.q[i].at = queue'[i].at)
  /\ \A k \in Keys : e.st.ph[k] = ph'[k]
  /\ e.st.nt = obs'.st.nt /\ e.st.np = obs'.st.np
  \* what the queries answered for every flow / key after the step
  /\ AsSet(e.st.ist) = tracked' /\ AsSet(e.st.isp) = Present(ph')
ResultMatches(e) ==
  /\ ("r" \in DOMAIN obs') => obs'.r = e.r
  /\ (obs'.a = "Counts") => (obs'.nt = e.nt /\ obs'.np = e.np)
  /\ (obs'.a = "Packet") => (obs'.fwd = e.fwd /\ obs'.zmq = e.zmq /\ obs'.ds = e.ds)

TraceInit == Init /\ l = 2
TraceReset == /\ l <= Len(TraceLog) /\ TraceLog[l].a = "Reset"
              /\ now' = 0 /\ tracked' = {} /\ queue' = <<>> /\ ph' = [k \in Keys |-> NoSess]
              /\ life' = [f \in Flows |-> -1] /\ obs' = [a |-> "Init"] /\ l' = l + 1
TraceStep == /\ l <= Len(TraceLog) /\ TraceLog[l].a # "Reset"
             /\ l' = l + 1
             /\ LET e == TraceLog[l] IN
                /\ CASE e.a = "Begin" -> Begin(e.f)
                     [] e.a = "Stop" -> Stop(e.f)
                     [] e.a = "IsTracked" -> IsTracked(e.f)
                     [] e.a = "IsPhantom" -> IsPhantom(e.k)
                     [] e.a = "UpdatePhantom" -> UpdatePhantom(e.k)
                     [] e.a = "AddSession" -> AddSession(e.k, e.d)
                     [] e.a = "DropTracked" -> DropTracked
                     [] e.a = "DropPhantoms" -> DropPhantoms
                     [] e.a = "DropAll" -> DropAll
                     [] e.a = "Counts" -> Counts
                     [] e.a = "Tick" -> Tick(e.d)
                     [] e.a = "Packet" -> Packet([f |-> e.f, flags |-> e.flags, pl |-> e.pl, frame |-> e.frame])
                     [] OTHER -> FALSE
                /\ ResultMatches(e)
                /\ StateMatches(e)
TraceNext == TraceReset \/ TraceStep
TraceSpec == TraceInit /\ [][TraceNext]_tvars
Post == PrintT(<<"TRACE_REACHED", TLCGet("stats").diameter>>) /\ TLCGet("stats").diameter = Len(TraceLog)
=============================================================================
