\* object level, the code as found: the laws that hold for it
SPECIFICATION SpecObj
CONSTANTS
  Conns = {"c1", "c2"}
  Kons = {}
  Asns = {"a1"}
  CCs = {"", "US"}
  Variant = "as_found"
  Broken = "none"
  MaxLoops = 0
  MaxPrints = 1
  MaxAuth = 0
VIEW view
CONSTRAINT Canon
INVARIANTS TypeOK GaugeExact NoDoubleCount AsnLedger OutcomeSum AsnSumsEpoch QuiescentZero
PROPERTIES PrintKeepsGauges
CHECK_DEADLOCK FALSE
