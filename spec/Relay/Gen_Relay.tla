----------------------------- MODULE Gen_Relay -----------------------------
(* Behaviour generator for stage B (spec -> implementation replay).  Carries the history of
   observations and prints every COMPLETE behaviour (Proxy returned, asynchronous closes done) as JSON.
   Two things bound the enumeration, neither restricts the relay itself:
     faults  - number of abnormal outcomes in the behaviour (<= MaxFaults).  Normal outcomes are:
               SetDeadline/Close/Dial nil, Read (n>0,nil), Read (0,EOF) (the stream's natural end) and a
               full Write; everything else (errors, data+error, (0,nil), short writes) is a fault.
     sched   - the interleaving of the two directions and of the un-joined source closes is one of a few
               deterministic policies chosen at the start (the outcomes do not depend on the interleaving
               in the specification; the real code is stepped in exactly this order by gated connections):
                 "ud"/"du"  one direction runs until it has ended, then the other
                 "alt"      strict alternation while both run
                 "free"     any interleaving (simulation mode)
                 "px"       the schedules of the DATA PHASE that can be forced on the real Proxy() when only the client
                            connection is gated (the covert leg is a kernel socket): deadline refreshes are not
                            scheduling points (they run first, up before down), up's Write to the covert follows its
                            Read at once, and the driver decides when the client's Read returns (and how full it fills
                            the buffer it was handed), when the covert sends (down's Read) and when the client accepts
                            down's Write - so every placement of an up Read/Write block relative to down's
                            Read -> Write windows is enumerated.  The behaviour is complete when both directions have
                            made MaxReads data reads and delivered them (the driver then ends the session).
               eager: a pending Close(src) runs before anything else; lazy: only after Proxy returned. *)
EXTENDS Relay, Json
CONSTANTS MaxFaults, Scheds, Asyncs
VARIABLES hist, faults, sched, async, turn
gvars == <<vars, hist, faults, sched, async, turn>>

Other(d) == IF d = "up" THEN "down" ELSE "up"
Active(d) == pc[d] \notin {"idle", "done"}
PxDone == sched = "px" /\ \A d \in Dirs : pc[d] = "rd" /\ nreads[d] = MaxReads
Terminal == \/ pcP = "returned" /\ \A d \in Dirs : asrc[d] # "pending"
            \/ PxDone
AtDeadline(d) == pc[d] \in {"h0", "h1", "s0", "s1"}

Cost(o) == CASE o.a \in {"Dial", "SetDeadline", "Close", "CloseAsync"} -> IF o.e = "nil" THEN 0 ELSE 1
             [] o.a = "Read"  -> IF (o.n > 0 /\ o.e = "nil") \/ (o.n = 0 /\ o.e = "EOF") THEN 0 ELSE 1
             [] o.a = "Write" -> IF o.e = "nil" /\ o.n = o.off THEN 0 ELSE 1
             [] OTHER -> 0

AnyPending == \E d \in Dirs : asrc[d] = "pending"
HalfAllowed(d) ==
  /\ (async = "eager" /\ sched # "free") => ~AnyPending
  /\ CASE sched = "ud"  -> d = "up" \/ ~Active("up")
       [] sched = "du"  -> d = "down" \/ ~Active("down")
       [] sched = "alt" -> ~Active(Other(d)) \/ turn = d
       [] sched = "px"  -> IF \E x \in Dirs : AtDeadline(x)
                             THEN AtDeadline(d) /\ (d = "up" \/ ~AtDeadline("up"))
                             ELSE d = "up" \/ pc["up"] # "wr"
       [] OTHER -> TRUE
AsyncAllowed(d) == sched = "free" \/ async = "eager" \/ pcP = "returned"
ReturnAllowed == (async = "eager" /\ sched # "free") => ~AnyPending

GenInit == /\ Init /\ hist = <<>> /\ faults = 0 /\ turn = "up"
           /\ sched \in Scheds /\ async \in Asyncs
GenNext == /\ ~Terminal
           /\ \/ \E e \in {"nil", "err"} : Dial(e)
              \/ ReturnAllowed /\ Return
              \/ \E d \in Dirs : (HalfAllowed(d) /\ Half(d)) \/ (AsyncAllowed(d) /\ Async(d))
           /\ faults' = faults + Cost(obs')
           /\ faults' <= MaxFaults
           /\ hist' = Append(hist, obs')
           /\ turn' = IF obs'.a \in {"SetDeadline", "Read", "Write", "Close"} THEN Other(obs'.d) ELSE turn
           /\ UNCHANGED <<sched, async>>
GenSpec == GenInit /\ [][GenNext]_gvars
Emit == ~Terminal \/ PrintT(ToJson([sched |-> sched, async |-> async, faults |-> faults, steps |-> hist]))
=============================================================================
