SPECIFICATION Spec
CONSTANT MatchMode = "search"
CONSTANT PubMode = "skip-covered"
CONSTANT StoreLiteral = TRUE
INVARIANTS DialedIsChecked CheckedIsPermitted ResolvedOnce PermittedLiteralAccepted MalformedRejected
CHECK_DEADLOCK FALSE
