SPECIFICATION Spec
CONSTANTS
  Profile = "gapsC"
  Defects = {"scanErrIgnored", "badWeightSkipped", "wsRejects", "noRangeCheck", "deadKept", "typeUrlRewritten", "chainNotAtomic", "chainMixesPort", "randIgnoresReader", "pkgIgnoresFlag", "callerNeverSetsPsr", "callerRecomputesPort"}
  Broken = {}
INVARIANTS I_PayloadUntouched I_ErrorLeavesUntouched I_FlagRespected I_RandUsesReader I_ResponseConsistent
PROPERTIES RejectedLoadChangesNothing
CHECK_DEADLOCK FALSE
