\* liveness, as found, peers may stall for ever: reports get through (also after Register returned), the loop exit leads to the return
SPECIFICATION StallSpec
CONSTANTS
  Variant = "asfound"
  Widths = {1, 2}
  ChanCap = "width"
  Rounds = 1
  Deadlines = {FALSE}
  PreCancel = {TRUE, FALSE}
  DialOut = {"ok", "unreach", "refused"}
  TlsOut = {"ok", "err", "nokeystream"}
  WriteOut = {"ok", "err"}
  LingerOut = {"byte", "eof"}
PROPERTIES ReportGetsThrough LoopExitLeadsToReturn
CHECK_DEADLOCK FALSE
