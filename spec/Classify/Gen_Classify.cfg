SPECIFICATION GenSpec
CONSTANTS
  MinTag = 2
  PfxTag = 3
  ObfsMin = 3
  ObfsMax = 6
  MaxRead = 3
  DeadlineSource = "private"
  MarkMode = "release"
  MaxW = 0
  LookupMode = "fresh"
  MaxConns = 3
  LookupLocks = "single"
  MaxWrites = 0
  MaxOps = 1
  Cases <- GenCases
INVARIANT Emit
CHECK_DEADLOCK FALSE
