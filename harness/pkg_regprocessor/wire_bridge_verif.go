//go:build verif

package regprocessor

// Bridge for the C11 (spec/Wire) drivers: builds a real RegProcessor the way cmd/registration-server does (real phantom
// selector, the registrar's transport set, real override objects, Ed25519 key) with a recording zmqSender instead of a
// bound ZMQ socket.  Exists only in the build overlay.  Non-test file so that the front-end packages (apiregserver,
// dnsregserver) get the same processor.

import (
	"crypto/ed25519"
	"crypto/sha256"
	"fmt"
	"net"
	"os"

	zmq "github.com/pebbe/zmq4"
	"github.com/refraction-networking/conjure/pkg/core/interfaces"
	"github.com/refraction-networking/conjure/pkg/metrics"
	"github.com/refraction-networking/conjure/pkg/phantoms"
	"github.com/refraction-networking/conjure/pkg/regserver/overrides"
	"github.com/refraction-networking/conjure/pkg/station/lib"
	"github.com/refraction-networking/conjure/pkg/transports/connecting/dtls"
	"github.com/refraction-networking/conjure/pkg/transports/wrapping/min"
	"github.com/refraction-networking/conjure/pkg/transports/wrapping/obfs4"
	"github.com/refraction-networking/conjure/pkg/transports/wrapping/prefix"
	pb "github.com/refraction-networking/conjure/proto"
)

// VerifWireSender records what the processor publishes
type VerifWireSender struct {
	N    int
	Last []byte
}

func (s *VerifWireSender) SendBytes(b []byte, f zmq.Flag) (int, error) {
	s.N++
	s.Last = append(s.Last[:0], b...)
	return len(b), nil
}
func (s *VerifWireSender) Close() error { return nil }

type VerifWireCfg struct {
	Auth    bool
	Ovr     string // "rand" | "none" | "fixed"
	Enforce bool
}

// VerifWireProcessor: tomlPath is the phantom subnet file (PHANTOM_SUBNET_LOCATION is set to it)
func VerifWireProcessor(cfg VerifWireCfg, tomlPath string, m *metrics.Metrics, seed int64) (*RegProcessor, *VerifWireSender, error) {
	os.Setenv("PHANTOM_SUBNET_LOCATION", tomlPath)
	devnull, _ := os.OpenFile(os.DevNull, os.O_WRONLY, 0)
	saved := os.Stdout
	os.Stdout = devnull
	sel, err := phantoms.GetPhantomSubnetSelector()
	os.Stdout = saved
	devnull.Close()
	if err != nil {
		return nil, nil, err
	}
	snd := &VerifWireSender{}
	p := &RegProcessor{sock: snd, metrics: m, authenticated: cfg.Auth, ipSelector: sel, transports: map[pb.TransportType]lib.Transport{}}
	if cfg.Auth {
		h := sha256.Sum256([]byte(fmt.Sprintf("c11-registrar-key-%d", seed)))
		p.privkey = ed25519.NewKeyFromSeed(h[:])
	}
	// cmd/registration-server defaultTransports
	for tt, tp := range map[pb.TransportType]lib.Transport{pb.TransportType_Min: min.Transport{}, pb.TransportType_Obfs4: obfs4.Transport{},
		pb.TransportType_Prefix: prefix.DefaultSet(), pb.TransportType_DTLS: dtls.Transport{}} {
		if err := p.AddTransport(tt, tp); err != nil {
			return nil, nil, err
		}
	}
	switch cfg.Ovr {
	case "rand":
		p.regOverrides = interfaces.Overrides([]interfaces.RegOverride{overrides.NewRandPrefixOverride()})
	case "fixed":
		fx, err := prefix.TryFromID(prefix.DNSOverTCP)
		if err != nil {
			return nil, nil, err
		}
		p.regOverrides = interfaces.Overrides([]interfaces.RegOverride{overrides.NewFixedPrefixOverride(fx)})
	}
	if cfg.Enforce {
		// exactly what newRegProcessor does with the configuration values
		var subs []Subnet
		for _, d := range []struct {
			cidr, tr string
			w        float64
			port     uint32
			pid      prefix.PrefixID
		}{{"10.10.1.0/24", "Min_Transport", 1, 0, 0}, {"10.10.2.0/24", "Min_Transport", 3, 0, 0},
			{"10.20.1.0/24", "Prefix_Transport", 2, 8001, prefix.GetLong}, {"10.20.2.0/24", "Prefix_Transport", 1, 8002, prefix.PostLong}} {
			_, n, _ := net.ParseCIDR(d.cidr)
			subs = append(subs, Subnet{CIDR: Ipnet{n}, Weight: d.w, Port: d.port, Transport: d.tr, PrefixId: d.pid})
		}
		p.enforceSubnetOverrides = true
		p.prcntMinRegsToOverride, p.prcntPrefixRegsToOverride = validateOverridePercentages(100, 100)
		p.minOverrideSubnets, p.prefixOverrideSubnets = splitOverrideSubnets(subs)
		p.minOverrideSubnetsCumulativeWeights = processOverrideSubnetsWeights(p.minOverrideSubnets)
		p.prefixOverrideSubnetsCumulativeWeights = processOverrideSubnetsWeights(p.prefixOverrideSubnets)
		_, ex, _ := net.ParseCIDR("141.219.0.0/16")
		p.exclusionsFromOverride = []Subnet{{CIDR: Ipnet{ex}}}
	}
	return p, snd, nil
}

// VerifSelectorLockFree: nobody holds (or waits for) the phantom-selector lock.  Asked between two calls of a sequential driver:
// a lock left behind by a call that has returned blocks the next reload and, behind it, every later registration.
func VerifSelectorLockFree(p *RegProcessor) bool {
	if p.selectorMutex.TryLock() {
		p.selectorMutex.Unlock()
		return true
	}
	return false
}
