\* MUST VIOLATE AsnGaugesNonNeg: as found reset() drops the per-ASN gauges (D4)
SPECIFICATION SpecObj
CONSTANTS
  Conns = {"c1", "c2"}
  Kons = {}
  Asns = {"a1"}
  CCs = {"", "US"}
  Variant = "as_found"
  Broken = "none"
  MaxLoops = 0
  MaxPrints = 2
  MaxAuth = 0
VIEW view
CONSTRAINT Canon
INVARIANTS AsnGaugesNonNeg
CHECK_DEADLOCK FALSE
