SPECIFICATION GenSpec
CONSTANTS
  MaxReads = 4
  ChunkSizes = {1, 2, 3}
  ReadErrs = {"EOF", "RST", "EPIPE", "timeout", "other", "closed"}
  WriteErrs = {"EPIPE", "RST", "timeout", "other", "closed"}
  ForwardWithErr = TRUE
  DialMayFail = FALSE
  BufCap = 3
  BufMode = "private"
  MaxFaults = 100
  Scheds = {"free"}
  Asyncs = {"eager"}
INVARIANT Emit
CHECK_DEADLOCK FALSE
