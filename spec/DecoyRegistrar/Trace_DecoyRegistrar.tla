------------------------ MODULE Trace_DecoyRegistrar ------------------------
(* Stage C (implementation -> spec): validates ndjson traces recorded from the real DecoyRegistrar by a driver whose
   scripts do NOT come from the specification (seeded random outcomes and orders, widths up to 5, two calls on one
   registrar).  One line per event, recorded where it happens:
     Call       the driver, once every sender has arrived in the injected dialer (dlsrc from the senders' dial contexts)
     DialRet    the injected dialer returns (set: stats.TcpToDecoy was replaced by this sender's run through onceTCP)
     TlsRet     the decoy's side of the connection acts (set: stats.TlsToDecoy replaced; closed: Close on the connection)
     WriteRet   the connection lets the application-data record through / fails it (reg: the record decodes as this
                session's registration)
     Report     the sender's exit (failures) / the SetReadDeadline of readAndClose (nil) - or the collector's log line for
                that report, whichever is seen first
     LingerEnd  the decoy's side writes a byte / closes / the read deadline is brought forward
     Recv       the collector's Debugf("%v", err); a nil report is not logged and shows in the following Decide
     Decide     "NETWORK UNREACHABLE" / "Successfully sent registrations, sleeping for: d"
     CtxEnd     the driver ends the context
     Return     Register returned
   Every field of the specification's observation must be present in the event with the same value.  Several traces are
   concatenated; a "Reset" line re-initialises. *)
EXTENDS DecoyRegistrar, Json, TLCExt
TraceLog == ndJsonDeserialize("trace.ndjson")
VARIABLE l
tvars == <<vars, l>>

ObsMatches(e, o) == \A k \in DOMAIN o : k \in DOMAIN e /\ e[k] = o[k]

TraceInit == Init /\ l = 1
TraceReset == /\ l <= Len(TraceLog) /\ TraceLog[l].a = "Reset"
              /\ round' = 0 /\ w' = 0 /\ hasdl' = FALSE /\ ctx' = "live" /\ cpc' = "idle" /\ uc' = 0 /\ nrecv' = 0
              /\ gotnil' = FALSE /\ aborted' = FALSE /\ dec' = "-" /\ chan' = <<>>
              /\ spc' = [i \in All |-> "off"] /\ pend' = [i \in All |-> "-"] /\ conn' = [i \in All |-> "none"]
              /\ wrote' = [i \in All |-> FALSE] /\ reports' = [i \in All |-> 0]
              /\ tcpBy' = None /\ tlsBy' = None /\ dialFirst' = 0 /\ tlsFirst' = 0 /\ late' = FALSE /\ result' = None
              /\ obs' = [a |-> "Init"] /\ l' = l + 1
TraceStep == /\ l <= Len(TraceLog) /\ TraceLog[l].a # "Reset"
             /\ l' = l + 1
             /\ LET e == TraceLog[l] IN
                /\ CASE e.a = "Call"      -> Call(e.w, e.dl, e.pre)
                     [] e.a = "DialRet"   -> DialRet(e.s, e.o)
                     [] e.a = "TlsRet"    -> TlsRet(e.s, e.o)
                     [] e.a = "WriteRet"  -> WriteRet(e.s, e.o)
                     [] e.a = "Report"    -> Report(e.s)
                     [] e.a = "LingerEnd" -> LingerEnd(e.s, e.how)
                     [] e.a = "Recv"      -> Recv
                     [] e.a = "Decide"    -> Decide
                     [] e.a = "CtxEnd"    -> CtxEnd
                     [] e.a = "Return"    -> Return(e.slept)
                     [] OTHER             -> FALSE
                /\ ObsMatches(e, obs')
TraceNext == TraceReset \/ TraceStep
TraceSpec == TraceInit /\ [][TraceNext]_tvars
TraceView == <<view, l>>
\* a recorded trace must be complete: when the next one starts (or the log ends) Register has returned and every sender is through
Complete == (l <= Len(TraceLog) /\ TraceLog[l].a = "Reset" /\ l > 1) => (cpc = "done" /\ AllQuiet)
\* the action properties of the specification, exempting the driver's Reset step
IsReset == l <= Len(TraceLog) /\ TraceLog[l].a = "Reset"
T_OnceTCP == [][~IsReset => ((tcpBy # None /\ round' = round) => tcpBy' = tcpBy)]_tvars
T_OnceTLS == [][~IsReset => ((tlsBy # None /\ round' = round) => tlsBy' = tlsBy)]_tvars
T_NothingAfterReturn == [][~IsReset => ((result # None /\ round' = round) => UNCHANGED collector)]_tvars
TraceAccepted == TLCGet("stats").diameter - 1 = Len(TraceLog)
Reached == PrintT(<<"TRACE_REACHED", TLCGet("stats").diameter - 1>>)
Post == Reached /\ TraceAccepted
=============================================================================
