SPECIFICATION Spec
CONSTANTS
  Profile = "caller"
  Defects = {"scanErrIgnored", "badWeightSkipped", "wsRejects", "noRangeCheck", "deadKept", "typeUrlRewritten", "chainNotAtomic", "chainMixesPort", "randIgnoresReader", "pkgIgnoresFlag", "callerNeverSetsPsr", "callerRecomputesPort"}
  Broken = {}
INVARIANTS I_FilePortReachesClient
PROPERTIES RejectedLoadChangesNothing
CHECK_DEADLOCK FALSE
