SPECIFICATION GenSpec
CONSTANTS
  Addrs = {"a1", "a2"}
  Caps = {0, 1}
  LiveLife = 3
  NonLiveLife = 2
  MaxAge = 3
  Steps = {1, 2}
  KindRule = "own"
  Bug = "none"
  ExpiryJitter = 0
  Depth = 4
INVARIANT Emit
CHECK_DEADLOCK FALSE
