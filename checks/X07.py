"""X07 - FlowTracker (extension module): the Rust detector's flow tracker and the packet decisions that use it.

Specification: spec/FlowTracker/FlowTracker.tla - src/flow_tracker.rs (tracked_flows, the scheduled-drop queue, the phantom session
map behind it) one action per method plus the clock, and src/process_packet.rs (rust_process_packet -> forward / begin / stop /
tag check / ignore) composed from the same effects.  It carries an AS-FOUND variant (a due queue event removes its flow
unconditionally, so the event of an earlier begin ends a later incarnation of the same flow early; conformance is held against this
variant) and an INTENDED one (tracked until T after the last begin); the wall clock stepping backwards is a third instance.

A  TLC exhaustive (time-shift symmetry through VIEW: all times, bounded lag): as found and intended at the API level, the packet
   level (TCP 443 flows incl. a filtered station sharing an IPv6 session key; UDP 443 / TCP 80).  Non-vacuity: as found measured
   against TrackedUntilTimeout must violate it; DropRemoves=FALSE, DueCmp="lt", KeepLonger=FALSE and the backwards clock must each
   violate their law.
B  every path of bounded depth (API and packet level) + simulated long behaviours (two alphabets, and one with a clock that is set
   back) are replayed on the REAL code: src/flow_tracker.rs, src/sessions.rs and src/process_packet.rs compiled UNMODIFIED with
   rustc behind stub crates (rust/flowtracker_*), time from a logical clock.  After every step the real tracked set, the real queue
   entry by entry, the real session map, both counts, every is_tracked_flow / is_phantom_session answer, return values, forwarded
   packets, published registrations and the statistics deltas are compared with what TLC computed.
C  seeded random operation / packet sequences (larger universe, 1 s clock unit, SYNs with payload, truncated and tagged frames,
   UDP, ICMP) are recorded from the real code and validated by Trace_FlowTracker (all invariants on every observed state); one
   corrupted trace must be rejected.
D  scripted witnesses of the divergences, replayed on the real code and reported as observations (never violations).
"""
import json, os, subprocess, copy, threading, time, re
from concurrent.futures import ThreadPoolExecutor
import vlib

UNIT_B = 15 * 10**9          # stage B: T = 2 units = 30 s, K = 20 units = 300 s
UNIT_C = 10**9               # stage C: T = 30, K = 300
T_NS, K_NS = 30 * 10**9, 300 * 10**9
FILTER = ["2001:db8:5::231", "192.122.200.231"]

# the concrete 5-tuples behind the specification's flow ids (MC_FlowTracker.tla) ...
FLOWS = {
    "f1": dict(src="10.0.0.1", sport=1001, dst="192.0.2.1", dport=443, proto="tcp"),
    "f2": dict(src="10.0.0.1", sport=1002, dst="192.0.2.1", dport=443, proto="tcp"),
    "f3": dict(src="2001:db8::1", sport=1001, dst="2001:db8:f::1", dport=443, proto="tcp"),
    "f4": dict(src="10.0.0.1", sport=1001, dst="192.0.2.1", dport=443, proto="udp"),
    "f5": dict(src="10.0.0.1", sport=1001, dst="192.0.2.1", dport=80, proto="tcp"),
    "f6": dict(src="2001:db8:5::231", sport=1001, dst="2001:db8:f::1", dport=443, proto="tcp"),
    "f7": dict(src="10.0.0.1", sport=0, dst="192.0.2.1", dport=0, proto="icmp"),
}
KEYS = {
    "k1": dict(client="10.0.0.1", phantom="192.0.2.1", dport=443, proto="tcp"),
    "k2": dict(client="", phantom="2001:db8:f::1", dport=443, proto="tcp"),
    "k3": dict(client="10.0.0.1", phantom="192.0.2.1", dport=443, proto="udp"),
    "k4": dict(client="10.0.0.1", phantom="192.0.2.1", dport=80, proto="tcp"),
}
# ... and what MC_FlowTracker.tla says about them (checked against the real tag function before anything is replayed)
SPEC_FLOWINFO = {
    "f1": dict(key="k1", p443=True, proto="tcp", filt=False), "f2": dict(key="k1", p443=True, proto="tcp", filt=False),
    "f3": dict(key="k2", p443=True, proto="tcp", filt=False), "f4": dict(key="k3", p443=True, proto="udp", filt=False),
    "f5": dict(key="k4", p443=False, proto="tcp", filt=False), "f6": dict(key="k2", p443=True, proto="tcp", filt=True),
    "f7": dict(key="none", p443=False, proto="other", filt=False),
}
# stage C adds flows / keys the generators never use
FLOWS_C = dict(FLOWS, **{
    "g1": dict(src="10.0.0.2", sport=40000, dst="192.0.2.1", dport=443, proto="tcp"),        # another client, same phantom: own key
    "g2": dict(src="2001:db8::2", sport=40000, dst="2001:db8:f::1", dport=443, proto="tcp"),  # another v6 client: SAME key as f3
    "g3": dict(src="192.122.200.231", sport=5555, dst="192.0.2.1", dport=443, proto="tcp"),   # a filtered IPv4 station with a session of its own
    "g4": dict(src="10.0.0.1", sport=1001, dst="192.0.2.9", dport=443, proto="tcp"),          # a decoy nobody registered
    "g5": dict(src="2001:db8::1", sport=53000, dst="2001:db8:f::1", dport=53, proto="udp"),   # DNS
})
KEYS_C = dict(KEYS, **{
    "k5": dict(client="10.0.0.2", phantom="192.0.2.1", dport=443, proto="tcp"),
    "k6": dict(client="192.122.200.231", phantom="192.0.2.1", dport=443, proto="tcp"),
    "k7": dict(client="", phantom="2001:db8:f::1", dport=53, proto="udp"),
})
OPNAME = {"Begin": "begin", "Stop": "stop", "UpdatePhantom": "update", "AddSession": "add", "DropTracked": "drop_tracked", "DropPhantoms": "drop_phantoms",
          "DropAll": "drop_all", "Tick": "tick", "Packet": "pkt", "IsTracked": "is_tracked", "IsPhantom": "is_phantom", "Counts": "counts"}
ACTION = {v: k for k, v in OPNAME.items()}

_ticket = threading.Lock()
_count = threading.Lock()


def tlc(ctx, sdir, module, cfg, count=True, **kw):
    with _ticket:
        time.sleep(0.012)        # ctx.tlc names its output file by the millisecond
    r = ctx.tlc(sdir, module, cfg, count=False, **kw)
    if count:
        with _count:
            ctx.cov["states"] += r["distinct"]
            ctx.cov["transitions"] += r["generated"]
    return r


# ------------------------------------------------------------------------------------------------------------------ harness
class Harness:
    def __init__(self, ctx):
        self.ctx = ctx
        self.dir = ctx.sub("rust")
        b = subprocess.run([os.path.join(vlib.VERIF, "rust", "flowtracker_build.sh"), ctx.repo, self.dir], stdout=subprocess.PIPE, stderr=subprocess.STDOUT, text=True)
        self.bin = os.path.join(self.dir, "flowtracker")
        if b.returncode != 0 or not os.path.exists(self.bin):
            raise vlib.InfraError("could not build the flow-tracker harness from %s/src/{flow_tracker,sessions,process_packet}.rs:\n%s" % (ctx.repo, b.stdout[-4000:]))
        self.n = 0

    @staticmethod
    def preamble(flows, keys, unit, filt=FILTER, gre=0):
        out = [{"op": "unit", "ns": unit}]
        out += [dict({"op": "flow", "id": i}, **f) for i, f in sorted(flows.items())]
        out += [dict({"op": "key", "id": i}, **k) for i, k in sorted(keys.items())]
        out += [{"op": "filter", "ip": ip} for ip in filt]
        if gre:
            out.append({"op": "gre", "n": gre})
        return out

    def run(self, lines, tag, timeout=600):
        """lines: iterable of op dicts.  Returns (rows, rc, stderr)."""
        self.n += 1
        inp = os.path.join(self.dir, "%s_%d.in" % (tag, self.n))
        outp = os.path.join(self.dir, "%s_%d.out" % (tag, self.n))
        with open(inp, "w") as f:
            for l in lines:
                f.write(json.dumps(l) + "\n")
        with open(inp) as fi, open(outp, "w") as fo:
            p = subprocess.run(["timeout", str(timeout), self.bin], stdin=fi, stdout=fo, stderr=subprocess.PIPE, text=True, errors="replace")
        if p.returncode == 124:
            raise vlib.InfraError("flow-tracker harness timed out (%s)" % tag)
        if p.returncode == 3:
            raise vlib.InfraError("flow-tracker harness rejected its input (%s): %s" % (tag, p.stderr[-1500:]))
        return outp, p.returncode, p.stderr

    def describe(self, flows, keys):
        outp, rc, err = self.run(self.preamble(flows, keys, UNIT_C) + [{"op": "describe"}], "describe")
        rows = [json.loads(l) for l in open(outp)]
        if rc != 0 or not rows or not rows[0].get("describe"):
            raise vlib.InfraError("describe failed: rc %s %s" % (rc, err[-1000:]))
        return rows[0]


def real_flowinfo(d, flows, keys):
    """FlowInfo as the REAL code sees the universe: session key by the real tag functions, port, protocol, filter membership."""
    bytag = {}
    for k, tag in d["keys"].items():
        bytag.setdefault(tag, []).append(k)
    fi = {}
    for f, x in d["flows"].items():
        ks = bytag.get(x["tag"], [])
        fi[f] = dict(key=ks[0] if ks else "none", p443=x["dport"] == 443, proto={6: "tcp", 17: "udp"}.get(x["proto"], "other"), filt=x["src"] in d["filter"])
    dup = {t: ks for t, ks in bytag.items() if len(ks) > 1}
    return fi, dup


def crash_report(ctx, where, op, rc, err):
    """The harness process died while running `op` on the real code (a panic inside extern "C" rust_process_packet aborts)."""
    locs = re.findall(r"PANIC (.*?) at (\S+?):(\d+)", err)
    repo_locs = [(m, f, l) for (m, f, l) in locs if "/src/" in f and "rustc" not in f]
    if repo_locs:
        m, f, l = repo_locs[0]
        ctx.violation("%s:crash:%s:%s:%s" % (where, op.get("op"), os.path.basename(f), l), "the real code panicked (%s at %s:%s) and took the process down while handling %s"
                      % (m, f, l, json.dumps(op)), {"op": op, "stderr": err[-2000:], "rc": rc})
        return
    raise vlib.InfraError("flow-tracker harness died (rc %s) in %s at %s: %s" % (rc, where, json.dumps(op), err[-2000:]))


# --------------------------------------------------------------------------------------------------------- projection -> spec terms
def got_state(row, unit, keys, prev, flows):
    """The real state after a step, in the specification's terms; prev = the previous row (for deltas)."""
    bad = []

    def units(ns, what):
        if ns % unit:
            bad.append("%s=%dns is not on the %d ns grid" % (what, ns, unit))
        return ns // unit
    st = {"now": units(row["now"], "now"), "tracked": sorted(row["tracked"]),
          "q": [[f, units(at, "drop_time")] for f, at in row["q"]], "nt": row["nt"], "np": row["np"]}
    ph = {k: -1 for k in keys}
    for k, v in row["ph"].items():
        if k not in ph:
            bad.append("session %s in the map" % k)
        else:
            ph[k] = units(v, "expiry")
    st["ph"] = ph
    st["ist"] = sorted(row["ist"])
    st["isp"] = sorted(row["isp"])
    g = {"st": st, "r": row.get("r"), "bad": bad, "panic": row.get("panic")}
    if row["op"] in ("pkt", "raw"):
        s, p = row["stats"], prev["stats"]
        g["fwd"] = row["fwd"] - prev["fwd"]
        g["zmq"] = row["zmq"] - prev["zmq"]
        g["ds"] = {"ip": s["v4"] + s["v6"] - p["v4"] - p["v6"], "tcp": s["tcp"] - p["tcp"], "tls": s["tls"] - p["tls"], "syns": s["syns"] - p["syns"], "ell": s["ell"] - p["ell"]}
        g["dpk"], g["dbytes"], g["dtlsbytes"], g["len"] = s["pkts"] - p["pkts"], s["bytes"] - p["bytes"], s["tlsbytes"] - p["tlsbytes"], row.get("len", 0)
        g["fwd_hdr"], g["fwd_body_eq"], g["zmq_msg"] = row.get("fwd_hdr"), row.get("fwd_body_eq"), row.get("zmq_msg")
    return g


def packet_side_checks(g, op, flows, gre=0):
    """What a Packet step must look like beyond the specification's fields: counters that follow from them, the forwarded bytes, the published registration."""
    d = []
    fl = flows.get(op.get("f"), {})
    v6 = ":" in fl.get("src", "")
    if g["dpk"] != 1 or g["dbytes"] != g["len"] - gre:
        d.append("packets/bytes(+%d/+%d for a %d byte frame)" % (g["dpk"], g["dbytes"], g["len"]))
    if g["dtlsbytes"] != g["ds"]["tls"] * g["len"]:
        d.append("tls_bytes(+%d)" % g["dtlsbytes"])
    if g["fwd"] == 1 and (g["fwd_hdr"] != ("000186dd" if v6 else "00010800") or not g["fwd_body_eq"]):
        d.append("forwarded-bytes(hdr %s, body equal %s)" % (g["fwd_hdr"], g["fwd_body_eq"]))
    if g["zmq"] == 1:
        import ipaddress
        want = "secret=%s;payload=true;source=Some(Detector);reg_addr=%s;decoy_addr=%s" % ("07" * 32, ipaddress.ip_address(fl["src"]).packed.hex(), ipaddress.ip_address(fl["dst"]).packed.hex())
        if g["zmq_msg"] != want:
            d.append("registration-message(%s)" % g["zmq_msg"])
    return d


def want_of(o, keys):
    st = o["st"]
    w = {"st": {"now": st["now"], "tracked": sorted(st["tracked"]), "q": [[e["f"], e["at"]] for e in st["q"]], "nt": st["nt"], "np": st["np"],
                "ph": {k: st["ph"].get(k, -1) for k in keys}},
         "r": o.get("r")}
    w["st"]["ist"] = w["st"]["tracked"]
    w["st"]["isp"] = sorted(k for k in keys if w["st"]["ph"][k] != -1)
    if o["a"] == "Packet":
        w["fwd"], w["zmq"], w["ds"] = o["fwd"], o["zmq"], o["ds"]
    return w


def diff(w, g):
    d = []
    for k in ("now", "tracked", "q", "ph", "nt", "np", "ist", "isp"):
        if w["st"][k] != g["st"][k]:
            d.append({"q": "queue", "ph": "sessions", "nt": "count_tracked", "np": "count_phantom", "ist": "is_tracked_flow", "isp": "is_phantom_session"}.get(k, k))
    if w.get("r") is not None and w["r"] != g["r"]:
        d.append("result")
    for k in ("fwd", "zmq", "ds"):
        if k in w and w[k] != g.get(k):
            d.append({"fwd": "forwarded", "zmq": "published", "ds": "stats"}[k])
    if g["bad"]:
        d.append("time-grid" if any("grid" in b for b in g["bad"]) else "unknown-entry")
    if g["panic"]:
        d.append("panic")
    return d


def op_of(o):
    a = o["a"]
    op = {"op": OPNAME[a]}
    for k in ("f", "k", "d", "flags", "pl", "frame"):
        if k in o:
            op[k] = o[k]
    return op


def fmt(o):
    a = o["a"]
    if a == "Packet":
        return "Packet(%s,%s,%s,%s)->%s" % (o["f"], o["flags"], o["pl"], o["frame"], o.get("dec", "?"))
    args = ",".join(str(o[k]) for k in ("f", "k", "d") if k in o)
    return "%s(%s)" % (a, args) + ("=%s" % o["r"] if "r" in o else "")


# ------------------------------------------------------------------------------------------------------------------- stage A
MUST_PASS_QUICK = [("MC_FlowTracker.cfg", "API level, as found"), ("MC_FlowTracker_intended.cfg", "API level, intended"),
                   ("MC_FlowTracker_pkt.cfg", "packet level, TCP 443"), ("MC_FlowTracker_pkt_udp.cfg", "packet level, UDP 443 / TCP 80")]
MUST_PASS_THOROUGH = [("MC_FlowTracker_thorough.cfg", "API level, as found, three flows"), ("MC_FlowTracker_intended_thorough.cfg", "API level, intended, three flows"),
                      ("MC_FlowTracker_both_thorough.cfg", "API calls and packets interleaved")]
MUST_VIOLATE = [("MC_FlowTracker_asfound_vs_intended.cfg", "TrackedUntilTimeout", "AS FOUND: the drop scheduled by an earlier begin ends a later incarnation of the flow early"),
                ("MC_FlowTracker_clockback.cfg", "PostDropFresh", "AS FOUND with a wall clock that is set back: an overdue flow survives the clean-up behind a younger event"),
                ("MC_FlowTracker_broken_noremove.cfg", "TrackedHasEvent", "broken: a popped event leaves its flow in the set"),
                ("MC_FlowTracker_broken_boundary.cfg", "PostDropWindow", "broken: drop_time < now"),
                ("MC_FlowTracker_broken_shorten.cfg", "PhantomNeverShortened", "broken: a shorter timeout overwrites a longer one")]


def stage_a(ctx, sdir, thorough):
    runs = MUST_PASS_QUICK + (MUST_PASS_THOROUGH if thorough else [])
    for cfg, what in runs:
        r = tlc(ctx, sdir, "MC_FlowTracker.tla", cfg, timeout=1500, workers=4)
        ctx.require_design_ok(r, "FlowTracker " + what)
        ctx.log("A: %s (%s): %d distinct states, %d generated, depth %d, %.0fs" % (what, cfg, r["distinct"], r["generated"], r["depth"], r["wall_s"]))
    ctx.stage("A", invariants=["TypeOK", "TrackedHasEvent", "QueueSorted", "EventHorizon", "PostDropWindow", "PostDropFresh", "PostDropPhantoms", "CountsExact", "PacketLaws"],
              action_properties=["RemovedOnlyByStopOrDue", "PhantomNeverShortened", "PhantomDroppedOnlyWhenDue", "DropCountExact"], intended_only=["TrackedUntilTimeout"])


def stage_a_nonvacuity(ctx, sdir):
    nv = []
    for cfg, inv, what in MUST_VIOLATE:
        r = tlc(ctx, sdir, "MC_FlowTracker.tla", cfg, timeout=300, workers=2, count=False)
        if r["inv"] != inv:
            raise vlib.InfraError("%s should violate %s, TLC says %s:\n%s" % (cfg, inv, r["inv"], r["out"][-1500:]))
        nv.append("%s violates %s (%s)" % (cfg, inv, what))
    ctx.stage("A", nonvacuity=nv)


# ------------------------------------------------------------------------------------------------------------------- stage B
def generate(ctx, pool, sdir, thorough):
    runs = [("api", "Gen_FlowTracker_api5.cfg" if thorough else "Gen_FlowTracker_api.cfg", None, None),
            ("pkt", "Gen_FlowTracker_pkt5.cfg" if thorough else "Gen_FlowTracker_pkt.cfg", None, None),
            ("simA", "Gen_FlowTracker_simA.cfg", 250 if thorough else 60, 31), ("simB", "Gen_FlowTracker_simB.cfg", 250 if thorough else 50, 31),
            ("clockback", "Gen_FlowTracker_clockback.cfg", 100 if thorough else 40, 31)]

    def one(x):
        tag, cfg, num, depth = x
        if num:
            g = tlc(ctx, sdir, "Gen_FlowTracker.tla", cfg, timeout=1500, workers=4, count=False, simulate="num=%d" % num, depth=depth, deadlock=False, extra=["-seed", str(ctx.seed)])
        else:
            g = tlc(ctx, sdir, "Gen_FlowTracker.tla", cfg, timeout=1500, workers=4, count=False)
        if g["inv"] or g["nbeh"] == 0:
            raise vlib.InfraError("generator %s failed: %s" % (cfg, g["out"][-1500:]))
        return tag, g
    return [pool.submit(one, x) for x in runs]


def replay(ctx, h, tag, beh_file, sibling_cap=None):
    """Replays every behaviour of one generator run on the real code; returns counters.  sibling_cap: TLC's simulator prints every
    successor of a walk's last state (behaviours that differ only in their last step); at most that many per walk are replayed."""
    keys = sorted(KEYS)
    # pass 1: the input script (behaviours are de-duplicated: simulation prints siblings that share all but the last step)
    seen = set()
    behs, nsib = [], {}
    with open(beh_file) as f:
        for line in f:
            hsh = hash(line)
            if hsh in seen:
                continue
            seen.add(hsh)
            if sibling_cap:
                pre = hash(line[:line.rindex('{"a":')])
                nsib[pre] = nsib.get(pre, 0) + 1
                if nsib[pre] > sibling_cap:
                    continue
            behs.append(line)
    lines = Harness.preamble(FLOWS, KEYS, UNIT_B)

    def script():
        for l in lines:
            yield l
        for line in behs:
            yield {"op": "reset"}
            for o in json.loads(line):
                yield op_of(o)
    outp, rc, err = h.run(script(), "replay_" + tag, timeout=1200)
    # pass 2: compare
    cnt = dict(behaviours=0, steps=0, mismatches=0, nontrivial=0, forwarded=0, tag_checks=0, early_kills=0)
    with open(outp) as fo:
        for bi, line in enumerate(behs):
            b = json.loads(line)
            rl = fo.readline()
            if not rl:
                crash_report(ctx, "replay:" + tag, {"op": "reset"}, rc, err)
                return cnt
            prev = json.loads(rl)
            nontrivial = False
            broken_at = None
            life, was = {}, []          # ghost: time of the last begin not followed by a stop; the tracked set before the step
            for si, o in enumerate(b):
                rl = fo.readline()
                if not rl.endswith("\n"):
                    crash_report(ctx, "replay:" + tag, op_of(o), rc, err)
                    cnt["mismatches"] += 1
                    return cnt
                row = json.loads(rl)
                g = got_state(row, UNIT_B, keys, prev, FLOWS)
                w = want_of(o, keys)
                d = diff(w, g)
                if o["a"] == "Packet":
                    d += packet_side_checks(g, o, FLOWS)
                    cnt["forwarded"] += o["fwd"]
                    cnt["tag_checks"] += o["ds"]["ell"]
                cnt["steps"] += 1
                # where the as-found variant is decisive: a clean-up removes a flow less than T after its last begin
                a, nowu = o["a"], w["st"]["now"]
                if a == "Begin" or (a == "Packet" and o["dec"] == "begin"):
                    life[o["f"]] = nowu
                elif a == "Stop" or (a == "Packet" and o["dec"] in ("stop", "tag_hit", "tag_miss")):
                    life.pop(o["f"], None)
                elif a in ("DropAll", "DropTracked"):
                    for f in was:
                        if f not in w["st"]["tracked"] and f in life and nowu < life[f] + T_NS // UNIT_B:
                            cnt["early_kills"] += 1
                was = w["st"]["tracked"]
                qf = [e[0] for e in w["st"]["q"]]
                if len(qf) != len(set(qf)) or any(f not in w["st"]["tracked"] for f in qf):
                    nontrivial = True       # an event whose flow is gone, or two events of one flow: where as found and intended part
                if d:
                    cnt["mismatches"] += 1
                    if cnt["mismatches"] <= 40:
                        what = o["a"] + (":" + o["dec"] if o["a"] == "Packet" else "")
                        ctx.violation("replay:%s:%s" % (what, "+".join(sorted(set(x.split("(")[0] for x in d)))),
                                      "the real code diverges from FlowTracker.tla (as found) after %s - fields %s: real %s, specification %s"
                                      % (" ; ".join(fmt(x) for x in b[:si + 1]), d, json.dumps({k: g["st"][k] for k in ("tracked", "q", "ph")})[:300],
                                         json.dumps({k: w["st"][k] for k in ("tracked", "q", "ph")})[:300]),
                                      {"generator": tag, "behaviour": [fmt(x) for x in b[:si + 1]], "want": w, "got": g, "fields": d})
                    broken_at = si
                    break       # the rest of this behaviour starts from a different state
                prev = row
            if broken_at is not None:
                for _ in range(len(b) - broken_at - 1):
                    fo.readline()
            cnt["behaviours"] += 1
            cnt["nontrivial"] += nontrivial
            if nontrivial and broken_at is None and cnt["nontrivial"] in (1, 500):
                ctx.sample({"stage": "B", "generator": tag, "behaviour": [fmt(x) for x in b][-14:], "final_state": w["st"]})
    if rc != 0:
        crash_report(ctx, "replay:" + tag, {"op": "(end)"}, rc, err)
    return cnt


# ------------------------------------------------------------------------------------------------------------------- stage C
FLAGS_C = ["syn", "syn", "syn", "synack", "ack", "ack", "pshack", "pshack", "rst", "rstack", "fin", "finack", "synfin", "synrst", "none"]
PAYLOADS_C = ["none", "none", "app_tag", "app_tag", "app_notag", "app_notag", "app_short", "hs", "teststr"]
FRAMES_C = ["eth", "eth", "eth", "eth", "vlan", "vlan", "arp", "vlan_other"]


def random_ops(rng, flows, keys, n):
    ops = []
    fl, ks = sorted(flows), sorted(keys)
    tcp443 = [f for f in fl if flows[f]["proto"] == "tcp" and flows[f]["dport"] == 443]
    for _ in range(n):
        x = rng.random()
        if x < 0.30:
            f = rng.choice(tcp443 if rng.random() < 0.8 else fl)
            pl = rng.choice(PAYLOADS_C)
            if flows[f]["proto"] == "udp":
                pl = rng.choice(["none", "dnstest", "app_tag"])
            ops.append({"op": "pkt", "f": f, "flags": rng.choice(FLAGS_C), "pl": pl, "frame": rng.choice(FRAMES_C)})
        elif x < 0.42:
            ops.append({"op": "begin", "f": rng.choice(tcp443 if rng.random() < 0.9 else fl)})
        elif x < 0.50:
            ops.append({"op": "stop", "f": rng.choice(fl)})
        elif x < 0.55:
            ops.append({"op": "is_tracked", "f": rng.choice(fl)})
        elif x < 0.62:
            ops.append({"op": "add", "k": rng.choice(ks), "d": rng.choice([1, 5, 29, 30, 31, 60, 299, 300, 301, 400, rng.randrange(1, 700)])})
        elif x < 0.67:
            ops.append({"op": "update", "k": rng.choice(ks)})
        elif x < 0.70:
            ops.append({"op": "is_phantom", "k": rng.choice(ks)})
        elif x < 0.86:
            ops.append({"op": "tick", "d": rng.choice([0, 1, 1, 2, 5, 10, 14, 15, 16, 29, 30, 31, 45, rng.randrange(0, 60), 300, 301])})
        elif x < 0.93:
            ops.append({"op": "drop_all"})
        elif x < 0.95:
            ops.append({"op": "drop_tracked"})
        elif x < 0.97:
            ops.append({"op": "drop_phantoms"})
        else:
            ops.append({"op": "counts"})
    return ops


def event_of(op, g, keys):
    st = g["st"]
    e = {"a": ACTION[op["op"]], "st": {"now": st["now"], "tracked": st["tracked"], "q": [{"f": f, "at": at} for f, at in st["q"]], "ph": st["ph"],
                                      "nt": st["nt"], "np": st["np"], "ist": st["ist"], "isp": st["isp"]}}
    for k in ("f", "k", "d", "flags", "pl", "frame"):
        if k in op:
            e[k] = op[k]
    if op["op"] in ("is_tracked", "is_phantom", "drop_all", "drop_tracked", "drop_phantoms"):
        e["r"] = g["r"]
    if op["op"] == "counts":
        e["nt"], e["np"] = g["r"]
    if op["op"] == "pkt":
        e["fwd"], e["zmq"], e["ds"] = g["fwd"], g["zmq"], g["ds"]
    return e


def stage_c(ctx, h, sdir, thorough):
    d = h.describe(FLOWS_C, KEYS_C)
    fi, dup = real_flowinfo(d, FLOWS_C, KEYS_C)
    if dup:
        raise vlib.InfraError("two stage C keys have the same real tag: %s" % dup)
    keys = sorted(KEYS_C)
    ntr, nops = (500, 90) if thorough else (140, 80)
    scripts = [random_ops(ctx.rng, FLOWS_C, KEYS_C, nops) for _ in range(ntr)]
    lines = Harness.preamble(FLOWS_C, KEYS_C, UNIT_C)
    for s in scripts:
        lines.append({"op": "reset"})
        lines += s
    outp, rc, err = h.run(lines, "random", timeout=600)
    rows = [json.loads(l) for l in open(outp) if l.endswith("\n")]
    traces, cur, i = [], None, 0
    stats = dict(events=0, packets=0, forwarded=0, tag_hits=0, stale_drops=0, phantom_drops=0)
    for s in scripts:
        if i >= len(rows):
            break
        prev = rows[i]
        i += 1
        cur = []
        for op in s:
            if i >= len(rows):
                crash_report(ctx, "random", op, rc, err)
                break
            g = got_state(rows[i], UNIT_C, keys, prev, FLOWS_C)
            if g["bad"] or g["panic"]:
                ctx.violation("random:%s:%s" % (op["op"], "panic" if g["panic"] else "state"), "real code, random sequence: %s after %s" % (g["panic"] or g["bad"], json.dumps(op)), {"op": op, "row": rows[i]})
            e = event_of(op, g, keys)
            if op["op"] == "pkt":
                side = packet_side_checks(g, op, FLOWS_C)
                if side:
                    ctx.violation("random:Packet:%s" % "+".join(x.split("(")[0] for x in side), "real code, random sequence: a packet's side effects are inconsistent: %s for %s" % (side, json.dumps(op)),
                                  {"op": op, "got": g})
                stats["packets"] += 1
                stats["forwarded"] += g["fwd"]
                stats["tag_hits"] += g["zmq"]
            if op["op"] in ("drop_all", "drop_tracked"):
                stats["stale_drops"] += len(prev["tracked"]) - len(rows[i]["tracked"])
            if op["op"] in ("drop_all", "drop_phantoms"):
                stats["phantom_drops"] += prev["np"] - rows[i]["np"]
            cur.append(e)
            prev = rows[i]
            i += 1
        traces.append(cur)
        stats["events"] += len(cur)
    if rc != 0 and not ctx.violations:
        crash_report(ctx, "random", {"op": "(end)"}, rc, err)
    if ctx.violations:
        return 0
    universe = {"a": "Universe", "flows": fi, "keys": keys}

    def validate(trs, name):
        with _ticket:
            time.sleep(0.012)
        flat = [universe]
        for t in trs:
            flat.append({"a": "Reset"})
            flat += t
        ok, reached, total, r = ctx.validate_traces(sdir, "Trace_FlowTracker.tla", "Trace_FlowTracker.cfg", [flat], name="trace.ndjson", timeout=900, reset=False)
        return ok, reached, total, r, flat
    ok, reached, total, r, flat = validate(traces, "all")
    ctx.log("C: %d random traces, %d events (%s); accepted=%s reached=%d/%d" % (len(traces), stats["events"], stats, ok, reached, total))
    if not ok:
        ev = flat[reached] if reached < len(flat) else None
        start = min(reached, len(flat) - 1)
        while start > 0 and flat[start].get("a") != "Reset":
            start -= 1
        hist = [x for x in flat[start + 1:reached + 1]]
        kind = "invariant:%s" % r["inv"] if r["inv"] else "rejected:%s" % ((ev or {}).get("a") + (":" + ev["flags"] if (ev or {}).get("a") == "Packet" else ""))
        ctx.violation("trace:%s" % kind, "a recorded run of the real flow tracker is not a behaviour of FlowTracker.tla (as found) at event %d: %s; history: %s"
                      % (reached, json.dumps(ev)[:400], " ; ".join(short(x) for x in hist[-12:])), {"event": ev, "history": hist[-40:], "tlc": r["out"][-1500:]})
    else:
        if min(stats["forwarded"], stats["tag_hits"], stats["stale_drops"], stats["phantom_drops"]) == 0:
            raise vlib.InfraError("random sequences are vacuous: %s" % stats)
        bad = copy.deepcopy(traces[:3])
        done = False
        for t in bad:
            for e in t:
                if len(e["st"]["q"]) >= 2:
                    e["st"]["q"][0]["at"] += 1       # one scheduled drop one second late
                    done = True
                    break
            if done:
                break
        if not done:
            raise vlib.InfraError("nothing to corrupt for the binding demonstration")
        ok2, reached2, _, _, _ = validate(bad, "corrupt")
        if ok2:
            raise vlib.InfraError("binding is vacuous: a trace with a corrupted queue entry was accepted")
        ctx.stage("C", corrupted_trace_rejected_at=reached2)
        ctx.sample({"stage": "C", "trace_prefix": [short(x) for x in traces[0][:16]]})
    ctx.stage("C", traces=len(traces), accepted=ok, **stats)
    return len(traces)


def short(e):
    a = e.get("a")
    if a == "Packet":
        return "Packet(%s,%s,%s,%s)fwd=%d,zmq=%d" % (e["f"], e["flags"], e["pl"], e["frame"], e["fwd"], e["zmq"])
    args = ",".join(str(e[k]) for k in ("f", "k", "d") if k in e)
    return "%s(%s)" % (a, args) + ("=%s" % e["r"] if "r" in e else "")


# ------------------------------------------------------------------------------------------------------------------- stage D
def stage_d(ctx, h):
    """Scripted witnesses of the divergences on the real code.  Observations: nothing here can fail the check."""
    obs = []
    pre = Harness.preamble(FLOWS, KEYS, UNIT_C)
    try:
        # D1 the event of an earlier begin ends a later incarnation early
        outp, rc, err = h.run(pre + [{"op": "reset"}, {"op": "pkt", "f": "f1", "flags": "syn", "pl": "none", "frame": "eth"}, {"op": "tick", "d": 10},
                                     {"op": "pkt", "f": "f1", "flags": "fin", "pl": "none", "frame": "eth"}, {"op": "tick", "d": 15},
                                     {"op": "pkt", "f": "f1", "flags": "syn", "pl": "none", "frame": "eth"}, {"op": "tick", "d": 5}, {"op": "drop_all"},
                                     {"op": "pkt", "f": "f1", "flags": "pshack", "pl": "app_tag", "frame": "eth"}], "d1")
        rows = [json.loads(l) for l in open(outp)]
        if rc == 0 and len(rows) == 9:
            gone = "f1" not in rows[7]["tracked"]
            obs.append({"id": "D1", "what": "SYN at 0 s, FIN at 10 s, the same 5-tuple connects again at 25 s; the clean-up at 30 s removes the flow 5 s after its SYN "
                        "(the event queued by the first SYN fires); the tagged application data that follows is never examined",
                        "second_incarnation_dropped_after_s": 5 if gone else None, "tracked_after_cleanup": rows[7]["tracked"], "queue_after_cleanup": rows[7]["q"],
                        "tag_checks_for_the_tagged_record": rows[8]["stats"]["ell"], "registrations_published": rows[8]["zmq"], "reproduced": gone and rows[8]["zmq"] == 0})
        # D2 a SYN retransmission does not refresh
        outp, rc, err = h.run(pre + [{"op": "reset"}, {"op": "begin", "f": "f1"}, {"op": "tick", "d": 29}, {"op": "begin", "f": "f1"}, {"op": "tick", "d": 1}, {"op": "drop_all"}], "d2")
        rows = [json.loads(l) for l in open(outp)]
        if rc == 0 and len(rows) == 6:
            obs.append({"id": "D2", "what": "begin_tracking_flow at 0 s and again at 29 s: dropped at 30 s, 1 s after the last begin; its second event stays queued until 59 s",
                        "tracked_after_cleanup": rows[5]["tracked"], "queue_after_cleanup": rows[5]["q"], "reproduced": rows[5]["tracked"] == [] and len(rows[5]["q"]) == 1})
        # D3 wall clock set back
        outp, rc, err = h.run(pre + [{"op": "reset"}, {"op": "begin", "f": "f1"}, {"op": "tick", "d": -20}, {"op": "begin", "f": "f2"}, {"op": "tick", "d": 25}, {"op": "drop_all"},
                                     {"op": "tick", "d": 20}, {"op": "drop_all"}], "d3")
        rows = [json.loads(l) for l in open(outp)]
        if rc == 0 and len(rows) == 8:
            obs.append({"id": "D3", "what": "precise_time_ns() is SystemTime::now(): after a 20 s backward step the queue is unsorted; f2 (begun at -20 s) is 25 s old at +5 s ... and at +25 s, "
                        "45 s after its begin, it is still tracked because f1's younger-looking event (due at 30 s) blocks the front of the queue",
                        "tracked_at_45s_age": rows[7]["tracked"], "queue": rows[7]["q"], "reproduced": "f2" in rows[7]["tracked"]})
        # D4 expired, not yet swept session still matches and is revived
        outp, rc, err = h.run(pre + [{"op": "reset"}, {"op": "add", "k": "k1", "d": 5}, {"op": "tick", "d": 6}, {"op": "pkt", "f": "f1", "flags": "ack", "pl": "none", "frame": "eth"}], "d4")
        rows = [json.loads(l) for l in open(outp)]
        if rc == 0 and len(rows) == 4:
            obs.append({"id": "D4", "what": "a session whose time passed 1 s ago but which the clean-up (every 100 ms in detect.c) has not yet removed still matches: the packet is forwarded "
                        "and the session lives 300 s more", "forwarded": rows[3]["fwd"], "expiry_s": rows[3]["ph"].get("k1", 0) // 10**9, "reproduced": rows[3]["fwd"] == 1})
        # D5 runt frames abort the process (panic inside extern "C")
        for name, ops, what in (("vlan-runt", [{"op": "reset"}, {"op": "raw", "hex": "020000000002020000000001810000"}],
                                 "a 15-byte frame with ethertype 0x8100: get_ip_packet indexes payload[2] / payload[3] of a 1-byte payload"),
                                ("gre-runt", [{"op": "gre", "n": 24}, {"op": "reset"}, {"op": "raw", "hex": "0200000000020200000000010800"}],
                                 "PARSE_GRE_OFFSET=24 and a 14-byte frame: frame_len - gre_offset underflows / the slice starts past the end")):
            outp, rc, err = h.run(pre + ops, "d5")
            locs = re.findall(r"PANIC (.*?) at (\S+?):(\d+)", err)
            obs.append({"id": "D5:" + name, "what": what, "harness_exit": rc, "panic": ["%s at %s:%s" % (m, os.path.basename(f), l) for m, f, l in locs][:2],
                        "reproduced": rc != 0 and any("process_packet.rs" in f for _, f, _ in locs)})
    except vlib.InfraError as e:
        obs.append({"id": "D?", "what": "witness run failed: %s" % str(e)[:300], "reproduced": False})
    for o in obs:
        ctx.log("D: %s reproduced=%s - %s" % (o["id"], o["reproduced"], o["what"][:150]))
    ctx.stage("D", observations=obs)
    return obs


# ----------------------------------------------------------------------------------------------------------------------- run
def run(ctx):
    thorough = ctx.tier == "thorough"
    h = Harness(ctx)
    # the specification's universe must be the real one: session keys by the real tag functions
    d = h.describe(FLOWS, KEYS)
    fi, dup = real_flowinfo(d, FLOWS, KEYS)
    if d["timeout_tracked_ns"] != T_NS:
        ctx.violation("constant:TIMEOUT_TRACKED_NS", "TIMEOUT_TRACKED_NS is %d ns, the specification's T stands for %d ns" % (d["timeout_tracked_ns"], T_NS), d)
    if dup or fi != SPEC_FLOWINFO:
        wrong = sorted(f for f in SPEC_FLOWINFO if fi.get(f) != SPEC_FLOWINFO[f])
        ctx.violation("tagging:%s" % "+".join(wrong or ["keys"]), "the real tag functions partition the flows differently from MC_FlowTracker.tla: real %s, specification %s; same-tag keys %s"
                      % ({f: fi.get(f) for f in wrong}, {f: SPEC_FLOWINFO[f] for f in wrong}, dup), {"describe": d})
        return
    sd = {k: ctx.spec_copy("FlowTracker") for k in ("a", "nv", "gen", "c")}
    with ThreadPoolExecutor(max_workers=6) as pool:
        f_gen = generate(ctx, pool, sd["gen"], thorough)
        f_a = pool.submit(stage_a, ctx, sd["a"], thorough)
        f_nv = pool.submit(stage_a_nonvacuity, ctx, sd["nv"])
        f_c = pool.submit(stage_c, ctx, h, sd["c"], thorough)
        tot = dict(behaviours=0, steps=0, mismatches=0, nontrivial=0, forwarded=0, tag_checks=0, early_kills=0)
        per = {}
        from concurrent.futures import as_completed
        for fut in as_completed(f_gen):
            tag, g = fut.result()
            c = replay(ctx, h, tag, g["beh_file"], sibling_cap=None if tag in ("api", "pkt") else 12)
            os.unlink(g["beh_file"])
            per[tag] = c
            for k in tot:
                tot[k] += c[k]
            ctx.log("B: %s: %d behaviours / %d steps replayed on the real code, %d mismatches" % (tag, c["behaviours"], c["steps"], c["mismatches"]))
        ntraces = f_c.result()
        f_a.result()
        f_nv.result()
    if not ctx.violations:
        if tot["nontrivial"] == 0 or tot["early_kills"] == 0 or tot["forwarded"] == 0 or tot["tag_checks"] == 0 or per.get("clockback", {}).get("behaviours", 0) == 0:
            raise vlib.InfraError("stage B is vacuous: %s" % tot)
    ctx.stage("B", **dict(tot, per_generator={k: {x: v[x] for x in ("behaviours", "steps", "mismatches")} for k, v in per.items()}))
    obs = stage_d(ctx, h)
    ctx.cov["traces_validated_against_impl"] = ntraces
    ctx.cov["evaluations"] = tot["behaviours"] + ntraces
    ctx.cov["distinct_nontrivial"] = tot["nontrivial"]
    ctx.cov["exhaustive"] = False
    ctx.cov["rule"] = ("stage B behaviours are de-duplicated; non-trivial = at some step the queue holds an event whose flow is not tracked or two events of one flow "
                       "(the states in which the as-found and the intended variant part; in stages.B.early_kills of the replayed steps a clean-up removes a flow less than T "
                       "after its last begin, i.e. the real code was matched against the as-found variant exactly where it differs); stage C traces counted separately")
    ctx.assumptions += [
        "src/flow_tracker.rs, src/sessions.rs and src/process_packet.rs are compiled unmodified with rustc (edition 2015, overflow checks on) behind stub crates (log, libc, pnet, "
        "protobuf, redis) and stub sibling modules: util (logical clock + a verbatim copy of IpPacket), signalling, elligator (a record carries a tag iff it contains a marker), and a "
        "PerCoreGlobal with the field names of src/lib.rs whose tun / zmq sockets record; the pnet stub parses Ethernet / 802.1Q payload / IPv4 / IPv6 / TCP / UDP with pnet 0.33's rules",
        "the Redis ingest thread FlowTracker::new() starts finds no Redis and ends; sessions enter through SessionTracker::add_session (the pub/sub path is C10's subject)",
        "private state (tracked_flows, stale_drops_tracked) is read through accessors compiled into the same module by include!; they change nothing",
        "time is a logical clock behind util::precise_time_ns; T = TIMEOUT_TRACKED_NS = 30 s and K = TIMEOUT_PHANTOMS_NS = 300 s are 2 / 20 units in stage B and 30 / 300 in stage C",
        "TLC: time-shift symmetry through VIEW viewRel; exhaustive for every behaviour in which nothing waits more than MaxLag units for a clean-up and the queue holds at most MaxQ events",
    ]
    ctx.notes += ["divergences of the code from what a caller expects (observations, reproduced on the real code by stage D; not violations): "
                  + "; ".join("%s %s [reproduced=%s]" % (o["id"], o["what"], o["reproduced"]) for o in obs)]
