//go:build verif

package registration

// Conformance drivers for spec/ClientRegistrar (extension module X01): the client-side registrars.
//
//   TestVerifClientRegReplay  stage B: every behaviour TLC generated (Gen_ClientRegistrar) is turned into a script for the
//                             environment (answers of the registration server per attempt, dial failures, the point where
//                             the caller cancels, what the opaque secondary returns); the REAL APIRegistrar / DNSRegistrar
//                             runs against it and the events recorded must be exactly the behaviour.
//   TestVerifClientRegRandom  stage C: seeded random scripts over a larger alphabet (not derived from the specification)
//                             are run the same way and recorded as ndjson traces for Trace_ClientRegistrar.
//
// The API registrar talks to a real net/http server (httptest), the DNS registrar to the real responder package over a
// loopback UDP socket (real Noise handshake, real DNS encoding) through the session's dialer.  Events are recorded where
// they happen: Send / Recv in the server, LocalFail(dial) in the dialer, Fail in the registrar's own logger (a logrus
// hook), Fallback / StubReturn in the secondary registrar, Return after Register returned.  The returned registration is
// observed the way a caller uses it: ConjureReg.Connect with a recording dialer (which addresses and port it dials) and
// the transport's session parameters.

import (
	"context"
	"encoding/binary"
	"encoding/hex"
	"encoding/json"
	"errors"
	"fmt"
	"io"
	stdlog "log"
	"math/rand"
	"net"
	"net/http"
	"net/http/httptest"
	"os"
	"path/filepath"
	"strconv"
	"strings"
	"sync"
	"sync/atomic"
	"testing"
	"time"

	"github.com/refraction-networking/conjure/pkg/client/assets"
	"github.com/refraction-networking/conjure/pkg/registrars/dns-registrar/encryption"
	"github.com/refraction-networking/conjure/pkg/registrars/dns-registrar/requester"
	"github.com/refraction-networking/conjure/pkg/registrars/dns-registrar/responder"
	"github.com/refraction-networking/conjure/pkg/registrars/lib"
	transports "github.com/refraction-networking/conjure/pkg/transports/client"
	pb "github.com/refraction-networking/conjure/proto"
	"github.com/refraction-networking/gotapdance/tapdance"
	"github.com/sirupsen/logrus"
	"google.golang.org/protobuf/proto"
	"google.golang.org/protobuf/types/known/anypb"
)

const vcrDelay = 150 * time.Millisecond

type vcrCfg struct {
	Kind  string `json:"kind"`
	Bidi  bool   `json:"bidi"`
	Max   int    `json:"max"`
	Sec   string `json:"sec"`
	SBidi bool   `json:"sbidi"`
	SMax  int    `json:"smax"`
	Delay bool   `json:"delay"`
	NoOvr bool   `json:"noovr"`
}

// one scripted attempt: O = "dialerr" (DNS: the dial fails) or the server's answer; Cancel = the caller cancels while
// the request is in flight; Status/Garbage refine the answer (stage C's larger alphabet)
type vcrAtt struct {
	O       string `json:"o"`
	Cancel  bool   `json:"cancel,omitempty"`
	Status  int    `json:"status,omitempty"`
	Garbage int    `json:"garbage,omitempty"`
	Stale   bool   `json:"outdated,omitempty"`
}

type vcrScript struct {
	Cfg        vcrCfg      `json:"cfg"`
	Pre        bool        `json:"pre"`
	Att        [2][]vcrAtt `json:"att"`
	StubOk     bool        `json:"stub_ok"`
	StubCancel bool        `json:"stub_cancel"`
	NilClient  bool        `json:"nil_client"` // APIRegistrar builds its own http.Client (setHTTPClient)
}

type vcrEv = map[string]any

var vcrErrStub = errors.New("verif: secondary registrar failed")

// ------------------------------------------------------------------------------------------------ world (shared)
type vcrWorld struct {
	srv       *httptest.Server
	resp      *responder.Responder
	dnsAddr   string
	dnsPub    []byte
	domain    string
	runs      sync.Map // id / hex(secret) -> *vcrRun
	nextID    atomic.Int64
	slow      bool
	abortWait time.Duration // how long a cancelled request in flight may take to be given up (default 60 ms)
	hangs     atomic.Int64
	panics    atomic.Int64
	assetDir  string
}

func vcrNewWorld(t testing.TB) *vcrWorld {
	stdlog.SetOutput(io.Discard)
	_ = transports.EnableDefaultTransports()
	// a private copy of the package's test assets (the registrars may update the ClientConf on disk)
	dir, err := os.MkdirTemp("", "x01_assets_")
	if err != nil {
		t.Fatalf("tempdir: %v", err)
	}
	b, err := os.ReadFile("./tests/assets/ClientConf")
	if err != nil {
		t.Fatalf("assets: %v", err)
	}
	if err := os.WriteFile(filepath.Join(dir, "ClientConf"), b, 0o644); err != nil {
		t.Fatalf("assets: %v", err)
	}
	if _, err := assets.AssetsSetDir(dir); err != nil {
		t.Fatalf("assets: %v", err)
	}
	tapdance.Logger().SetOutput(io.Discard)
	w := &vcrWorld{assetDir: dir, domain: "r.x01.test"}
	w.srv = httptest.NewServer(http.HandlerFunc(w.serveHTTP))
	priv := vSecret("x01-dns-responder")
	rs, err := responder.NewDnsResponder(w.domain, "127.0.0.1:0", priv)
	if err != nil {
		t.Fatalf("responder: %v", err)
	}
	w.resp = rs
	w.dnsAddr = rs.VerifClientRegAddr().String()
	w.dnsPub = encryption.PubkeyFromPrivkey(priv)
	go func() { _ = rs.RecvAndRespond(w.serveDNS) }()
	return w
}

func (w *vcrWorld) close() {
	w.srv.Close()
	w.resp.Close()
	os.RemoveAll(w.assetDir)
}

// ------------------------------------------------------------------------------------------------ one run
type vcrRun struct {
	w       *vcrWorld
	id      string
	s       vcrScript
	mu      sync.Mutex
	events  []vcrEv
	lastT   time.Time
	pending bool // a cause for the next Fail has been recorded (Recv, LocalFail, Cancel in flight)
	next    [2]int
	arrived [2]int
	ctx     context.Context
	cancel  context.CancelFunc
	failSig chan struct{}
	release chan struct{} // closed when the run is over: unblocks handlers
	tamper  atomic.Bool
	conns   []net.Conn
	sess    *tapdance.ConjureSession
	retd    atomic.Bool
	tcpSess atomic.Int64 // TCP connections dialled through ConjureSession.Dialer
	udpVia  atomic.Value // "session" | "config": which dialer established the DNS transport
}

func (r *vcrRun) emit(ev vcrEv) vcrEv {
	r.mu.Lock()
	r.events = append(r.events, ev)
	r.lastT = time.Now()
	r.mu.Unlock()
	return ev
}

// nextAtt returns the next scripted attempt of registrar ri (0/1); wantDial: called from the dialer (only consumes a
// "dialerr" entry)
func (r *vcrRun) nextAtt(ri int, wantDial bool) (vcrAtt, bool) {
	r.mu.Lock()
	defer r.mu.Unlock()
	for r.next[ri] < len(r.s.Att[ri]) {
		a := r.s.Att[ri][r.next[ri]]
		if wantDial {
			if a.O == "dialerr" {
				r.next[ri]++
				return a, true
			}
			return vcrAtt{}, false
		}
		r.next[ri]++
		if a.O == "dialerr" {
			continue // a dial failure scripted after the transport was established cannot happen: skip
		}
		return a, true
	}
	return vcrAtt{}, false
}

func (r *vcrRun) drainFail() {
	for {
		select {
		case <-r.failSig:
		default:
			return
		}
	}
}

// doCancel: the caller cancels while something is in flight; reports whether the registrar gave the attempt up (a Fail is
// logged) within the waiting time
func (r *vcrRun) doCancel(at string) {
	r.drainFail()
	ev := vcrEv{"a": "Cancel", "at": at, "aborted": false}
	r.mu.Lock()
	r.events = append(r.events, ev)
	r.lastT = time.Now()
	if at == "inflight" {
		r.pending = true
	}
	r.mu.Unlock()
	r.cancel()
	if at != "inflight" {
		return
	}
	wait := r.w.abortWait
	if wait == 0 {
		wait = 60 * time.Millisecond
	}
	if r.w.slow {
		wait = 1500 * time.Millisecond
	}
	select {
	case <-r.failSig:
		// the Fail event is appended by the hook before it signals; "aborted" belongs to the Cancel event before it
		r.mu.Lock()
		ev["aborted"] = true
		r.mu.Unlock()
	case <-time.After(wait):
	case <-r.release:
	}
}

func vcrSrcName(s pb.RegistrationSource) string {
	switch s {
	case pb.RegistrationSource_API:
		return "API"
	case pb.RegistrationSource_BidirectionalAPI:
		return "BidirectionalAPI"
	case pb.RegistrationSource_DNS:
		return "DNS"
	case pb.RegistrationSource_BidirectionalDNS:
		return "BidirectionalDNS"
	}
	return s.String()
}

var vcrIP4 = map[string]string{"a1": "192.0.2.11", "a2": "192.0.2.12"}
var vcrIP6 = map[string]string{"b1": "2001:db8::b1", "b2": "2001:db8::b2"}

type vcrRespDef struct {
	ip4, ip6 string
	port     uint32
	tp       string
	err      bool
}

var vcrResps = map[string]vcrRespDef{
	"R0": {"", "", 0, "none", false},
	"R1": {"a1", "b1", 1001, "none", false},
	"R2": {"a2", "b2", 0, "none", false},
	"RT": {"a1", "b2", 1002, "good", false},
	"RB": {"a2", "b1", 1003, "bad", false},
	"RE": {"a1", "b1", 1001, "none", true},
}

func vcrBuildResp(name string) *pb.RegistrationResponse {
	d := vcrResps[name]
	rr := &pb.RegistrationResponse{}
	if d.ip4 != "" {
		v := binary.BigEndian.Uint32(net.ParseIP(vcrIP4[d.ip4]).To4())
		rr.Ipv4Addr = &v
	}
	if d.ip6 != "" {
		rr.Ipv6Addr = []byte(net.ParseIP(vcrIP6[d.ip6]).To16())
	}
	if d.port != 0 {
		p := d.port
		rr.DstPort = &p
	}
	switch d.tp {
	case "good":
		b, _ := proto.Marshal(&pb.GenericTransportParams{RandomizeDstPort: proto.Bool(true)})
		rr.TransportParams = &anypb.Any{Value: b}
	case "bad":
		rr.TransportParams = &anypb.Any{TypeUrl: "type.googleapis.com/proto.NoSuchParams", Value: []byte{0xff}}
	}
	if d.err {
		rr.Error = proto.String("registration failed")
	}
	return rr
}

var vcrGarbage = [][]byte{{0xff}, {0x0a, 0x05, 0x01}, []byte("<html><body>captive portal</body></html>")}

// ------------------------------------------------------------------------------------------------ API endpoint
func (w *vcrWorld) serveHTTP(rw http.ResponseWriter, rq *http.Request) {
	v, ok := w.runs.Load(strings.TrimPrefix(rq.URL.Path, "/"))
	if !ok {
		rw.WriteHeader(410)
		return
	}
	r := v.(*vcrRun)
	body, _ := io.ReadAll(rq.Body)
	ri := 0
	wrap := &pb.C2SWrapper{}
	src := "undecodable"
	if rq.Method != "POST" {
		src = "method:" + rq.Method
	} else if err := proto.Unmarshal(body, wrap); err == nil {
		src = vcrSrcName(wrap.GetRegistrationSource())
		if hex.EncodeToString(wrap.GetSharedSecret()) != hex.EncodeToString(r.sess.Keys.SharedSecret) {
			src = "wrong-secret"
		} else if wrap.GetRegistrationPayload().GetCovertAddress() != r.sess.CovertAddress {
			src = "wrong-covert"
		} else if r.s.NilClient && r.tcpSess.Load() == 0 {
			src = "not-dialled-through-session-dialer" // setHTTPClient: t.DialContext = reg.Dialer
		}
	}
	r.drainFail()
	r.mu.Lock()
	r.arrived[ri]++
	n := r.arrived[ri]
	r.mu.Unlock()
	ev := vcrEv{"a": "Send", "r": ri + 1, "n": n, "src": src}
	if r.retd.Load() {
		ev["_after_return"] = true
	}
	r.emit(ev)
	a, ok := r.nextAtt(ri, false)
	if !ok {
		a = vcrAtt{O: "s500"}
		r.emit(vcrEv{"a": "Unscripted", "r": ri + 1})
	}
	if a.Cancel && r.ctx.Err() == nil { // (a script may ask for a second cancellation: there is only one)
		r.doCancel("inflight")
		// the request was abandoned by the client: nothing to answer (wait for the client to go away)
		select {
		case <-rq.Context().Done():
		case <-r.release:
		case <-time.After(1 * time.Second):
		}
		if a.O == "" {
			return
		}
	}
	r.mu.Lock()
	r.pending = true
	r.mu.Unlock()
	r.emit(vcrEv{"a": "Recv", "r": ri + 1, "o": a.O})
	status := a.Status
	switch a.O {
	case "neterr":
		if hj, ok := rw.(http.Hijacker); ok {
			if c, _, err := hj.Hijack(); err == nil {
				c.Close()
			}
		}
	case "s404":
		if status == 0 {
			status = 404
		}
		rw.WriteHeader(status)
	case "s500":
		if status == 0 {
			status = 500
		}
		rw.WriteHeader(status)
	case "garbage":
		if status != 0 {
			rw.WriteHeader(status)
		}
		_, _ = rw.Write(vcrGarbage[a.Garbage%len(vcrGarbage)])
	default:
		b, _ := proto.Marshal(vcrBuildResp(a.O))
		if status != 0 && !(status == 204 && len(b) > 0) {
			rw.WriteHeader(status)
		}
		_, _ = rw.Write(b)
	}
}

// ------------------------------------------------------------------------------------------------ DNS responder callback
func (w *vcrWorld) serveDNS(payload []byte) ([]byte, error) {
	wrap := &pb.C2SWrapper{}
	if err := proto.Unmarshal(payload, wrap); err != nil {
		return nil, err
	}
	v, ok := w.runs.Load(hex.EncodeToString(wrap.GetSharedSecret()))
	if !ok {
		return nil, fmt.Errorf("unknown run")
	}
	r := v.(*vcrRun)
	ri := 0
	if r.s.Cfg.Kind != "dns" {
		ri = 1
	}
	src := vcrSrcName(wrap.GetRegistrationSource())
	if wrap.GetRegistrationPayload().GetCovertAddress() != r.sess.CovertAddress {
		src = "wrong-covert"
	} else if !net.IP(wrap.GetRegistrationAddress()).Equal(net.IP{203, 0, 113, 9}) {
		src = "wrong-registration-address"
	} else if via, _ := r.udpVia.Load().(string); via != "session" {
		src = "not-dialled-through-session-dialer" // dns-registrar.go:91: the session's dialer replaces the requester's
	}
	r.drainFail()
	r.mu.Lock()
	r.arrived[ri]++
	n := r.arrived[ri]
	r.mu.Unlock()
	ev := vcrEv{"a": "Send", "r": ri + 1, "n": n, "src": src}
	if r.retd.Load() {
		ev["_after_return"] = true
	}
	r.emit(ev)
	a, ok := r.nextAtt(ri, false)
	if !ok {
		a = vcrAtt{O: "servfail"}
		r.emit(vcrEv{"a": "Unscripted", "r": ri + 1})
	}
	if a.Cancel && r.ctx.Err() == nil { // (a script may ask for a second cancellation: there is only one)
		r.doCancel("inflight")
		if a.O == "" {
			// no answer scripted (the specification's behaviour ends the attempt here): answer only when the run is over
			<-r.release
			return nil, fmt.Errorf("run over")
		}
	}
	r.mu.Lock()
	r.pending = true
	r.mu.Unlock()
	r.emit(vcrEv{"a": "Recv", "r": ri + 1, "o": a.O})
	switch a.O {
	case "servfail":
		r.tamper.Store(true)
		return []byte{0}, nil
	case "garbage":
		return vcrGarbage[a.Garbage%len(vcrGarbage)], nil
	case "nosuccess":
		return proto.Marshal(&pb.DnsResponse{Success: proto.Bool(false), ClientconfOutdated: proto.Bool(a.Stale)})
	case "nobidi":
		return proto.Marshal(&pb.DnsResponse{Success: proto.Bool(true), ClientconfOutdated: proto.Bool(a.Stale)})
	default:
		return proto.Marshal(&pb.DnsResponse{Success: proto.Bool(true), ClientconfOutdated: proto.Bool(a.Stale), BidirectionalResponse: vcrBuildResp(a.O)})
	}
}

// the UDP "connection" to the resolver: passes datagrams through; one scripted answer is turned into SERVFAIL
type vcrUDP struct {
	net.Conn
	r *vcrRun
}

func (c *vcrUDP) Read(b []byte) (int, error) {
	n, err := c.Conn.Read(b)
	if err != nil {
		return 0, io.EOF // not a net.Error: the requester's receive loop ends instead of spinning on a closed socket
	}
	if n > 3 && c.r.tamper.Swap(false) {
		b[3] = b[3]&0xf0 | 2
	}
	return n, nil
}

// the session's dialer (ConjureSession.Dialer): TCP for the API registrar's own http.Client, UDP for the DNS requester
func (r *vcrRun) dial(ctx context.Context, network, laddr, raddr string) (net.Conn, error) {
	return r.dialVia("session", ctx, network, raddr)
}

func (r *vcrRun) dialVia(via string, ctx context.Context, network, raddr string) (net.Conn, error) {
	if strings.HasPrefix(network, "udp") {
		r.udpVia.Store(via)
		ri := 0
		if r.s.Cfg.Kind != "dns" {
			ri = 1
		}
		if _, fail := r.nextAtt(ri, true); fail {
			r.mu.Lock()
			r.pending = true
			r.mu.Unlock()
			r.emit(vcrEv{"a": "LocalFail", "r": ri + 1, "why": "dial"})
			return nil, fmt.Errorf("verif: scripted dial failure")
		}
		c, err := net.Dial("udp", raddr)
		if err != nil {
			return nil, err
		}
		u := &vcrUDP{Conn: c, r: r}
		r.mu.Lock()
		r.conns = append(r.conns, c)
		r.mu.Unlock()
		return u, nil
	}
	var d net.Dialer
	c, err := d.DialContext(ctx, network, raddr)
	if via == "session" {
		r.tcpSess.Add(1)
	}
	if err == nil {
		r.mu.Lock()
		r.conns = append(r.conns, c)
		r.mu.Unlock()
	}
	return c, err
}

// the registrar's own logger: every failed attempt is logged at Warn level with the field attempt = "i/of"
type vcrHook struct {
	r    *vcrRun
	ri   int
	seen map[string]bool
}

func (h *vcrHook) Levels() []logrus.Level { return logrus.AllLevels }
func (h *vcrHook) Fire(e *logrus.Entry) error {
	at, ok := e.Data["attempt"].(string)
	if !ok || e.Level != logrus.WarnLevel || strings.Contains(e.Message, "outdated") {
		return nil
	}
	// the HTTP helpers and the retry loop both log a failed attempt: one Fail per attempt label (the loop is sequential)
	h.r.mu.Lock()
	dup := h.seen[at]
	h.seen[at] = true
	h.r.mu.Unlock()
	if dup {
		return nil
	}
	parts := strings.SplitN(at, "/", 2)
	i, _ := strconv.Atoi(parts[0])
	of := -1
	if len(parts) == 2 {
		of, _ = strconv.Atoi(parts[1])
	}
	r := h.r
	r.mu.Lock()
	if !r.pending {
		why := "unknown: " + e.Message
		if strings.Contains(e.Message, context.Canceled.Error()) {
			why = "ctx"
		}
		r.events = append(r.events, vcrEv{"a": "LocalFail", "r": h.ri + 1, "why": why})
	}
	r.pending = false
	r.events = append(r.events, vcrEv{"a": "Fail", "r": h.ri + 1, "i": i, "of": of})
	r.lastT = time.Now()
	r.mu.Unlock()
	select {
	case r.failSig <- struct{}{}:
	default:
	}
	return nil
}

func (r *vcrRun) logger(ri int) logrus.FieldLogger {
	l := logrus.New()
	l.SetOutput(io.Discard)
	l.SetLevel(logrus.DebugLevel)
	l.AddHook(&vcrHook{r: r, ri: ri, seen: map[string]bool{}})
	return l
}

// secondary registrars
type vcrStub struct{ r *vcrRun }

func (s *vcrStub) PrepareRegKeys(stationPubkey [32]byte, sessionSecret []byte) error { return nil }
func (s *vcrStub) Register(sess *tapdance.ConjureSession, ctx context.Context) (*tapdance.ConjureReg, error) {
	r := s.r
	r.emit(vcrEv{"a": "Fallback", "to": "stub", "cancelled": ctx.Err() != nil})
	if r.s.StubCancel && ctx.Err() == nil {
		r.doCancel("stub")
	}
	r.emit(vcrEv{"a": "StubReturn", "ok": r.s.StubOk})
	if !r.s.StubOk {
		return nil, vcrErrStub
	}
	reg, _, err := sess.UnidirectionalRegData(ctx, pb.RegistrationSource_Detector.Enum())
	return reg, err
}

type vcrSecDNS struct {
	r     *vcrRun
	inner *DNSRegistrar
}

func (s *vcrSecDNS) PrepareRegKeys(k [32]byte, sec []byte) error {
	return s.inner.PrepareRegKeys(k, sec)
}
func (s *vcrSecDNS) Register(sess *tapdance.ConjureSession, ctx context.Context) (*tapdance.ConjureReg, error) {
	s.r.emit(vcrEv{"a": "Fallback", "to": "dns", "cancelled": ctx.Err() != nil})
	return s.inner.Register(sess, ctx)
}

func (r *vcrRun) newDNS(bidi bool, max int, ri int) (*DNSRegistrar, *requester.Requester, error) {
	rq, err := requester.NewRequester(&requester.Config{TransportMethod: requester.UDP, Target: r.w.dnsAddr, BaseDomain: r.w.domain,
		Pubkey: r.w.dnsPub, DialTransport: func(ctx context.Context, network, addr string) (net.Conn, error) {
			return r.dialVia("config", ctx, network, addr)
		}})
	if err != nil {
		return nil, nil, err
	}
	d := &DNSRegistrar{req: rq, maxRetries: max, bidirectional: bidi, ip: []byte{203, 0, 113, 9}, logger: r.logger(ri)}
	if r.s.Cfg.Delay {
		d.connectionDelay = vcrDelay
	}
	return d, rq, nil
}

// vcrExec runs one script against the real registrars and returns the recorded events
func (w *vcrWorld) vcrExec(s vcrScript) (events []vcrEv) {
	r := &vcrRun{w: w, s: s, failSig: make(chan struct{}, 64), release: make(chan struct{})}
	r.id = fmt.Sprintf("run%d", w.nextID.Add(1))
	tr, err := transports.New("min")
	if err != nil {
		panic(err)
	}
	_ = tr.Prepare(context.Background(), nil)
	sess := tapdance.MakeConjureSessionSilent("10.9.8.7:443", tr)
	sess.Dialer = r.dial
	sess.DisableRegistrarOverrides = s.Cfg.NoOvr
	r.sess = sess
	secretKey := hex.EncodeToString(sess.Keys.SharedSecret)
	w.runs.Store(r.id, r)
	w.runs.Store(secretKey, r)
	r.ctx, r.cancel = context.WithCancel(context.Background())
	var reqs []*requester.Requester
	var httpTr *http.Transport
	defer func() {
		close(r.release)
		r.cancel()
		w.runs.Delete(r.id)
		w.runs.Delete(secretKey)
		if httpTr != nil {
			httpTr.CloseIdleConnections()
		}
		for _, q := range reqs {
			func() {
				defer func() { _ = recover() }()
				q.Close()
			}()
		}
		r.mu.Lock()
		for _, c := range r.conns {
			c.Close()
		}
		events = make([]vcrEv, len(r.events))
		for i, e := range r.events {
			c := vcrEv{}
			for k, v := range e {
				c[k] = v
			}
			events[i] = c
		}
		r.mu.Unlock()
	}()

	var primary tapdance.Registrar
	if s.Cfg.Kind == "api" {
		var sec tapdance.Registrar
		switch s.Cfg.Sec {
		case "stub":
			sec = &vcrStub{r: r}
		case "dns":
			d, q, err := r.newDNS(s.Cfg.SBidi, s.Cfg.SMax, 1)
			if err != nil {
				panic(err)
			}
			reqs = append(reqs, q)
			sec = &vcrSecDNS{r: r, inner: d}
		}
		c := &Config{Target: w.srv.URL + "/" + r.id, Bidirectional: s.Cfg.Bidi, MaxRetries: s.Cfg.Max, SecondaryRegistrar: sec}
		if s.Cfg.Delay {
			c.Delay = vcrDelay
		}
		if !s.NilClient {
			httpTr = &http.Transport{DialContext: func(ctx context.Context, network, addr string) (net.Conn, error) {
				return r.dialVia("config", ctx, network, addr)
			}}
			c.HTTPClient = &http.Client{Transport: httpTr}
		}
		a, err := NewAPIRegistrar(c)
		if err != nil {
			panic(err)
		}
		a.logger = r.logger(0)
		primary = a
	} else {
		d, q, err := r.newDNS(s.Cfg.Bidi, s.Cfg.Max, 0)
		if err != nil {
			panic(err)
		}
		reqs = append(reqs, q)
		primary = d
	}

	if s.Pre {
		r.doCancel("idle")
	}
	cfgm := vNorm(s.Cfg)
	r.emit(vcrEv{"a": "Call", "cfg": cfgm, "pre": s.Pre})
	type res struct {
		reg *tapdance.ConjureReg
		err error
		t   time.Time
		pan any
	}
	ch := make(chan res, 1)
	go func() {
		var x res
		defer func() {
			if p := recover(); p != nil {
				x.pan = p
				x.t = time.Now()
			}
			ch <- x
		}()
		x.reg, x.err = primary.Register(sess, r.ctx)
		x.t = time.Now()
		r.retd.Store(true)
	}()
	var x res
	select {
	case x = <-ch:
	case <-time.After(5 * time.Second):
		w.hangs.Add(1)
		r.emit(vcrEv{"a": "Hang"})
		return
	}
	if x.pan != nil {
		w.panics.Add(1)
		r.emit(vcrEv{"a": "Panic", "what": fmt.Sprint(x.pan)})
		return
	}
	r.mu.Lock()
	elapsed := x.t.Sub(r.lastT)
	r.mu.Unlock()
	slept := 0
	if s.Cfg.Delay {
		slept = int((elapsed + 10*time.Millisecond) / vcrDelay)
	}
	ev := vcrEv{"a": "Return", "slept": slept, "_elapsed_ms": float64(elapsed.Microseconds()) / 1000}
	switch {
	case x.err == nil:
		ev["err"] = "none"
	case errors.Is(x.err, lib.ErrRegFailed):
		ev["err"] = "regfailed"
	case errors.Is(x.err, vcrErrStub):
		ev["err"] = "stub"
	case strings.Contains(x.err.Error(), "Param Parse error") || strings.Contains(x.err.Error(), "failed to respect disabled overrides"):
		ev["err"] = "unpack"
	default:
		ev["err"] = "other: " + x.err.Error()
	}
	if (x.reg == nil) != (x.err != nil) {
		ev["reg"] = map[string]any{"inconsistent": fmt.Sprintf("reg nil=%v, err=%v", x.reg == nil, x.err)}
	} else if x.reg == nil {
		ev["reg"] = map[string]any{"none": true}
	} else {
		ev["reg"] = r.project(x.reg, tr)
	}
	// give a stray late attempt the chance to show up after the return (it would be recorded behind it)
	time.Sleep(300 * time.Microsecond)
	r.emit(ev)
	return
}

// project observes the registration the way its user does: the addresses ConjureReg.Connect dials, and the transport's
// session parameters
func (r *vcrRun) project(reg *tapdance.ConjureReg, tr tapdance.Transport) map[string]any {
	var mu sync.Mutex
	var targets []string
	rec := func(ctx context.Context, network, laddr, raddr string) (net.Conn, error) {
		mu.Lock()
		targets = append(targets, raddr)
		mu.Unlock()
		return nil, fmt.Errorf("verif: not dialing")
	}
	func() {
		defer func() {
			if p := recover(); p != nil {
				mu.Lock()
				targets = append(targets, "panic: "+fmt.Sprint(p))
				mu.Unlock()
			}
		}()
		_, _ = reg.Connect(context.Background(), rec)
	}()
	seed := r.sess.Keys.ConjureSeed
	l4, l6, rnd, err := tapdance.SelectPhantom(seed, r.sess.V6Support.Include())
	lport := uint16(443)
	if err == nil && rnd {
		lport, _ = tr.GetDstPort(seed)
	}
	out := map[string]any{"p4": "nil", "p6": "nil", "port": 0, "tp": "default"}
	ports := map[int]bool{}
	name4 := func(h string) string {
		if l4 != nil && h == l4.String() {
			return "local"
		}
		if h == "0.0.0.0" {
			return "zero"
		}
		for n, a := range vcrIP4 {
			if a == h {
				return n
			}
		}
		return "?" + h
	}
	name6 := func(h string) string {
		if l6 != nil && h == l6.String() {
			return "local"
		}
		if h == "" || h == "<nil>" { // net.IP{}.String(): what Connect dials for an unset ipv6addr is "<nil>:port"
			return "empty"
		}
		for n, a := range vcrIP6 {
			if net.ParseIP(a).Equal(net.ParseIP(h)) {
				return n
			}
		}
		return "?" + h
	}
	mu.Lock()
	defer mu.Unlock()
	for _, t := range targets {
		h, p, err := net.SplitHostPort(t)
		if err != nil {
			out["p4"] = "?" + t
			continue
		}
		pn, _ := strconv.Atoi(p)
		ports[pn] = true
		if ip := net.ParseIP(h); ip != nil && ip.To4() != nil {
			out["p4"] = name4(h)
		} else {
			out["p6"] = name6(h)
		}
	}
	if len(ports) == 1 {
		for p := range ports {
			out["port"] = p
		}
	} else if len(ports) > 1 {
		out["port"] = -1
	}
	if out["p4"] == "local" && out["p6"] == "local" && out["port"] == int(lport) {
		out["port"] = 1
	}
	if m, err := tr.GetParams(); err == nil {
		if g, ok := m.(*pb.GenericTransportParams); ok && g.GetRandomizeDstPort() {
			out["tp"] = "rand"
		}
	}
	return out
}

// ------------------------------------------------------------------------------------------------ stage B
// vcrScriptOf extracts the environment's part of a behaviour
func vcrScriptOf(beh []vcrEv) (vcrScript, error) {
	var s vcrScript
	last := [2]int{-1, -1}
	for _, e := range beh {
		a, _ := e["a"].(string)
		ri := 0
		if f, ok := e["r"].(float64); ok {
			ri = int(f) - 1
		}
		switch a {
		case "Call":
			b, _ := json.Marshal(e["cfg"])
			if err := json.Unmarshal(b, &s.Cfg); err != nil {
				return s, err
			}
			s.Pre, _ = e["pre"].(bool)
		case "LocalFail":
			if e["why"] == "dial" {
				s.Att[ri] = append(s.Att[ri], vcrAtt{O: "dialerr"})
			}
		case "Send":
			s.Att[ri] = append(s.Att[ri], vcrAtt{})
			last[ri] = len(s.Att[ri]) - 1
		case "Recv":
			if last[ri] < 0 {
				return s, fmt.Errorf("Recv without Send")
			}
			s.Att[ri][last[ri]].O, _ = e["o"].(string)
		case "Cancel":
			switch e["at"] {
			case "idle":
				s.Pre = true
			case "stub":
				s.StubCancel = true
			case "inflight":
				// the registrar in flight is the one whose Send came last
				cur := 0
				if last[1] >= 0 {
					cur = 1
				}
				s.Att[cur][last[cur]].Cancel = true
			}
		case "StubReturn":
			s.StubOk, _ = e["ok"].(bool)
		}
	}
	return s, nil
}

func vcrStrip(evs []vcrEv) []any {
	out := make([]any, 0, len(evs))
	for _, e := range evs {
		c := map[string]any{}
		for k, v := range e {
			if !strings.HasPrefix(k, "_") {
				c[k] = v
			}
		}
		out = append(out, vNorm(c))
	}
	return out
}

func vcrFirstDiff(want []vcrEv, got []any) int {
	for i := range want {
		if i >= len(got) || vCanon(vNorm(want[i])) != vCanon(got[i]) {
			return i
		}
	}
	if len(got) > len(want) {
		return len(want)
	}
	return -1
}

func TestVerifClientRegReplay(t *testing.T) {
	o := vOpenOut(t)
	defer o.Close()
	w := vcrNewWorld(t)
	defer w.close()
	var behs [][]vcrEv
	vReadLines(t, func(line []byte) {
		var b []vcrEv
		if err := json.Unmarshal(line, &b); err != nil {
			t.Fatalf("bad behaviour: %v", err)
		}
		behs = append(behs, b)
	})
	type job struct {
		idx int
		b   []vcrEv
	}
	var steps, mism atomic.Int64
	var retryMu sync.Mutex
	var retry []job
	run := func(j job, final bool) {
		s, err := vcrScriptOf(j.b)
		if err != nil {
			o.Emit(map[string]any{"kind": "mismatch", "idx": j.idx, "at": -1, "error": err.Error()})
			mism.Add(1)
			return
		}
		s.NilClient = j.idx%2 == 1
		// the specification's status classes are exercised at their boundaries as well: 2xx = 200..299
		for k := range s.Att[0] {
			a := &s.Att[0][k]
			switch {
			case a.O == "s404":
				a.Status = []int{404, 300, 400}[(j.idx+k)%3]
			case a.O == "s500":
				a.Status = []int{500, 599, 503}[(j.idx+k)%3]
			case len(a.O) == 2 && a.O != "R0":
				a.Status = []int{0, 299, 201}[(j.idx+k)%3]
			}
		}
		got := vcrStrip(w.vcrExec(s))
		d := vcrFirstDiff(j.b, got)
		if d < 0 {
			steps.Add(int64(len(j.b)))
			return
		}
		if !final {
			retryMu.Lock()
			retry = append(retry, j)
			retryMu.Unlock()
			return
		}
		mism.Add(1)
		var wantEv, gotEv any
		if d < len(j.b) {
			wantEv = j.b[d]
		}
		if d < len(got) {
			gotEv = got[d]
		}
		o.Emit(map[string]any{"kind": "mismatch", "idx": j.idx, "at": d, "want_event": wantEv, "got_event": gotEv, "want": j.b, "got": got, "script": s})
	}
	jobs := make(chan job)
	var wg sync.WaitGroup
	nw := vEnvInt("VERIF_WORKERS", 12)
	for i := 0; i < nw; i++ {
		wg.Add(1)
		go func() {
			defer wg.Done()
			for j := range jobs {
				run(j, false)
			}
		}()
	}
	skipped := 0
	for i, b := range behs {
		retryMu.Lock()
		nr := len(retry)
		retryMu.Unlock()
		if nr >= 150 {
			skipped = len(behs) - i // the code is plainly different: no point in sitting out every time-out
			break
		}
		jobs <- job{i, b}
	}
	close(jobs)
	wg.Wait()
	// anything that differed is run once more, alone and with generous waiting times (timing-derived fields)
	w.slow = true
	nretry := len(retry)
	if len(retry) > 12 {
		retry = retry[:12]
	}
	for _, j := range retry {
		run(j, true)
	}
	o.Emit(map[string]any{"kind": "summary", "behaviours": len(behs), "steps": steps.Load(), "mismatches": mism.Load(),
		"retried": nretry, "skipped": skipped, "hangs": w.hangs.Load(), "panics": w.panics.Load()})
}

// ------------------------------------------------------------------------------------------------ stage C
func vcrRandomScript(rng *rand.Rand) vcrScript {
	var s vcrScript
	c := &s.Cfg
	c.Kind = []string{"api", "api", "dns"}[rng.Intn(3)]
	c.Bidi = rng.Intn(3) > 0
	c.Max = rng.Intn(5)
	c.Sec = "none"
	if c.Kind == "api" {
		c.Sec = []string{"none", "stub", "dns", "dns"}[rng.Intn(4)]
	}
	if c.Sec == "dns" {
		c.SBidi = rng.Intn(3) > 0
		c.SMax = rng.Intn(4)
	}
	c.Delay = rng.Intn(12) == 0
	c.NoOvr = rng.Intn(4) == 0
	s.Pre = rng.Intn(15) == 0
	s.StubOk = rng.Intn(2) == 0
	s.StubCancel = rng.Intn(5) == 0
	s.NilClient = rng.Intn(2) == 0
	apiFail := []string{"neterr", "s404", "s500", "garbage", "RB"}
	apiAny := []string{"neterr", "s404", "s500", "garbage", "R0", "R1", "R2", "RT", "RB", "RE"}
	dnsFail := []string{"servfail", "garbage", "nosuccess", "RB"}
	dnsAny := []string{"servfail", "garbage", "nosuccess", "nobidi", "R0", "R1", "R2", "RT", "RB", "RE"}
	gen := func(kind string, n int, cancelP int) []vcrAtt {
		var out []vcrAtt
		if kind == "dns" {
			for rng.Intn(3) == 0 && len(out) < n {
				out = append(out, vcrAtt{O: "dialerr"})
			}
		}
		pFail := 40 + rng.Intn(55) // this run's inclination to fail
		for len(out) < n+1 {
			var a vcrAtt
			fail, any := apiFail, apiAny
			if kind == "dns" {
				fail, any = dnsFail, dnsAny
			}
			if rng.Intn(100) < pFail {
				a.O = fail[rng.Intn(len(fail))]
			} else {
				a.O = any[rng.Intn(len(any))]
			}
			switch a.O {
			case "s404":
				a.Status = []int{300, 304, 400, 401, 403, 404, 429, 499}[rng.Intn(8)]
			case "s500":
				a.Status = []int{500, 502, 503, 504, 599}[rng.Intn(5)]
			case "garbage":
				a.Garbage = rng.Intn(3)
				if kind == "api" {
					a.Status = []int{0, 200, 201}[rng.Intn(3)]
				}
			case "R0":
				if kind == "api" {
					a.Status = []int{0, 200, 204}[rng.Intn(3)]
				}
			default:
				if kind == "api" && len(a.O) == 2 {
					a.Status = []int{0, 200, 201, 202, 299}[rng.Intn(5)]
				}
			}
			a.Stale = rng.Intn(4) == 0
			if rng.Intn(100) < cancelP {
				a.Cancel = true
				cancelP = 0
				if kind == "api" {
					a.O = "" // abandoned by the client: never answered
				}
			}
			out = append(out, a)
		}
		return out
	}
	cp := 0
	if rng.Intn(3) == 0 {
		cp = 25
	}
	s.Att[0] = gen(c.Kind, c.Max+1, cp)
	if c.Sec == "dns" {
		s.Att[1] = gen("dns", c.SMax+1, cp)
	}
	return s
}

func TestVerifClientRegRandom(t *testing.T) {
	o := vOpenOut(t)
	defer o.Close()
	w := vcrNewWorld(t)
	defer w.close()
	n := vEnvInt("VERIF_TRACES", 200)
	only := vEnvInt("VERIF_ONLY", -1)
	w.slow = only >= 0
	w.abortWait = 150 * time.Millisecond
	out := make([][]vcrEv, n)
	scripts := make([]vcrScript, n)
	for i := 0; i < n; i++ {
		scripts[i] = vcrRandomScript(rand.New(rand.NewSource(vSeed()*1000003 + int64(i))))
	}
	jobs := make(chan int)
	var wg sync.WaitGroup
	nw := vEnvInt("VERIF_WORKERS", 12)
	for k := 0; k < nw; k++ {
		wg.Add(1)
		go func() {
			defer wg.Done()
			for i := range jobs {
				out[i] = w.vcrExec(scripts[i])
			}
		}()
	}
	for i := 0; i < n; i++ {
		if only >= 0 && i != only {
			continue
		}
		jobs <- i
	}
	close(jobs)
	wg.Wait()
	for i := 0; i < n; i++ {
		if only >= 0 && i != only {
			continue
		}
		o.Emit(map[string]any{"a": "Reset", "idx": i, "script": scripts[i]})
		for _, e := range out[i] {
			o.Emit(e)
		}
	}
}
