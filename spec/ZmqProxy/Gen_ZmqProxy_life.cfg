SPECIFICATION GenSpec
CONSTANTS
  Ups = {"c1", "n1", "xu1", "xp1"}
  BadUps = {"xu1", "xp1"}
  MaxSend = 1000
  ChanCap = 1
  MaxEpochs = 1000
  AuthEnforced = TRUE
  StatsMode = "loadstore"
  ShutdownMode = "onmessage"
  Depth = 10
  Lifecycle = TRUE
  SimPad = TRUE
INVARIANT Emit
CHECK_DEADLOCK FALSE
