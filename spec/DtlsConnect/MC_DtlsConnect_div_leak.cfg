SPECIFICATION Spec
CONSTANTS
  Starts = {"S", "X"}
  PDs = {"open", "drop"}
  PLs = {"open", "drop", "nobind"}
  Nats = {"icmp", "silent"}
  Dnats = {"ok"}
  Dups = {FALSE}
  Keys = {"good"}
  Prios = {"none"}
  Coord = "none"
  LeakOnRefuse = TRUE
  CancelInSctp = FALSE
  TimeoutMode = "any"
  Broken = "none"
VIEW view
INVARIANTS NoSocketLeftBehind

CHECK_DEADLOCK FALSE
