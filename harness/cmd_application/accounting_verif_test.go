//go:build verif

package main

// Conformance drivers for spec/Accounting (extension module X04): the connection bookkeeping of cmd/application
// (connStats in conns.go, connectingStats.go) and the counter calls handleNewTCPConn makes.
//
//   TestVerifAcctReplay   stage B: every behaviour TLC generated (Gen_Accounting) is stepped through a real connStats.
//                         A behaviour is a schedule: PrintAndReset runs in its own goroutine and is parked inside the
//                         log writer on each family line (after the line's values were loaded, before reset()), so
//                         the counter calls the behaviour places "while the printer holds the mutex" really happen
//                         there: their family-wide atomics land, their per-ASN half blocks on c.m.  After every step
//                         the full real state (both families, every ASN row, connecting counters) and the lines
//                         printed are compared with what the specification computed.
//   TestVerifAcctHammer   stage C: goroutines drive seeded random legal connection lifecycles through the real object
//                         while PrintAndReset races (no gates); per-goroutine event totals, every printed line and
//                         the final snapshot form a ledger that Trace_Accounting judges at quiescence; a sampler
//                         checks the gauges' range while the run is hot.
//   TestVerifAcctHandler  stage C: the classify driver's worlds / scripted connections / decorated transports run
//                         handleNewTCPConn; a GeoIP stub gives (almost) every connection its own ASN, so the real
//                         per-ASN rows are per-connection counter records.

import (
	"encoding/json"
	"fmt"
	"io"
	"math/rand"
	"net"
	"os"
	"sort"
	"strconv"
	"strings"
	"sync"
	"sync/atomic"
	"testing"
	"time"

	"github.com/refraction-networking/conjure/internal/conjurepath"
	"github.com/refraction-networking/conjure/pkg/core"
	cj "github.com/refraction-networking/conjure/pkg/station/lib"
	"github.com/refraction-networking/conjure/pkg/station/log"
)

// ---------------------------------------------------------------- projection (names = Accounting.tla's cells)
var xGCells = []struct {
	name string
	p    func(*statCounts) *int64
}{
	{"created", func(s *statCounts) *int64 { return &s.numCreated }},
	{"reading", func(s *statCounts) *int64 { return &s.numReading }},
	{"checking", func(s *statCounts) *int64 { return &s.numChecking }},
	{"discarding", func(s *statCounts) *int64 { return &s.numIODiscarding }},
	{"found", func(s *statCounts) *int64 { return &s.numFound }},
	{"reset", func(s *statCounts) *int64 { return &s.numReset }},
	{"timeout", func(s *statCounts) *int64 { return &s.numTimeout }},
	{"closed", func(s *statCounts) *int64 { return &s.numClosed }},
	{"err", func(s *statCounts) *int64 { return &s.numErr }},
	{"CreatedToDiscard", func(s *statCounts) *int64 { return &s.numCreatedToDiscard }},
	{"CreatedToCheck", func(s *statCounts) *int64 { return &s.numCreatedToCheck }},
	{"CreatedToReset", func(s *statCounts) *int64 { return &s.numCreatedToReset }},
	{"CreatedToTimeout", func(s *statCounts) *int64 { return &s.numCreatedToTimeout }},
	{"CreatedToError", func(s *statCounts) *int64 { return &s.numCreatedToError }},
	{"CreatedToClose", func(s *statCounts) *int64 { return &s.numCreatedToClose }},
	{"ReadToCheck", func(s *statCounts) *int64 { return &s.numReadToCheck }},
	{"ReadToTimeout", func(s *statCounts) *int64 { return &s.numReadToTimeout }},
	{"ReadToReset", func(s *statCounts) *int64 { return &s.numReadToReset }},
	{"ReadToError", func(s *statCounts) *int64 { return &s.numReadToError }},
	{"CheckToCreated", func(s *statCounts) *int64 { return &s.numCheckToCreated }},
	{"CheckToRead", func(s *statCounts) *int64 { return &s.numCheckToRead }},
	{"CheckToFound", func(s *statCounts) *int64 { return &s.numCheckToFound }},
	{"CheckToError", func(s *statCounts) *int64 { return &s.numCheckToError }},
	{"CheckToDiscard", func(s *statCounts) *int64 { return &s.numCheckToDiscard }},
	{"DiscardToReset", func(s *statCounts) *int64 { return &s.numDiscardToReset }},
	{"DiscardToTimeout", func(s *statCounts) *int64 { return &s.numDiscardToTimeout }},
	{"DiscardToError", func(s *statCounts) *int64 { return &s.numDiscardToError }},
	{"DiscardToClose", func(s *statCounts) *int64 { return &s.numDiscardToClose }},
	{"total", func(s *statCounts) *int64 { return &s.totalTransitions }},
	{"new", func(s *statCounts) *int64 { return &s.numNewConns }},
	{"resolved", func(s *statCounts) *int64 { return &s.numResolved }},
}

var xKCells = []struct {
	name string
	p    func(*connectingCounts) *int64
}{
	{"kCreated", func(k *connectingCounts) *int64 { return &k.numCreatedConnecting }},
	{"kDial", func(k *connectingCounts) *int64 { return &k.numDialSuccessfulConnecting }},
	{"kListen", func(k *connectingCounts) *int64 { return &k.numListenSuccessfulConnecting }},
	{"kSuccessful", func(k *connectingCounts) *int64 { return &k.numSuccessfulConnecting }},
	{"kTimeout", func(k *connectingCounts) *int64 { return &k.numTimeoutConnecting }},
	{"kAuthFail", func(k *connectingCounts) *int64 { return &k.numAuthFailConnecting }},
	{"kOtherFail", func(k *connectingCounts) *int64 { return &k.numOtherFailConnecting }},
}

func xSparseStat(s *statCounts, withK bool) map[string]int64 {
	m := map[string]int64{}
	for _, c := range xGCells {
		if v := atomic.LoadInt64(c.p(s)); v != 0 {
			m[c.name] = v
		}
	}
	if withK {
		for _, c := range xKCells {
			if v := atomic.LoadInt64(c.p(&s.connectingCounts)); v != 0 {
				m[c.name] = v
			}
		}
	}
	return m
}

func xAsnName(a uint) string { return "a" + strconv.FormatUint(uint64(a), 10) }
func xAsnNum(s string) uint {
	n, _ := strconv.ParseUint(strings.TrimPrefix(s, "a"), 10, 32)
	return uint(n)
}

// xProject reads the whole object.  Callers guarantee that no goroutine is writing the ASN maps (either nothing else
// runs, or the only other goroutines are parked: the printer in the log writer, callers on c.m).
func xProject(c *connStats) map[string]any {
	tab := []map[string]any{}
	for i, m := range []map[uint]*asnCounts{c.v4geoIPMap, c.v6geoIPMap} {
		fam := "v4"
		if i == 1 {
			fam = "v6"
		}
		for asn, e := range m {
			tab = append(tab, map[string]any{"fam": fam, "asn": xAsnName(asn), "cc": e.cc, "n": xSparseStat(&e.statCounts, true)})
		}
	}
	kon := map[string]int64{}
	for _, k := range xKCells {
		if v := atomic.LoadInt64(k.p(&c.connectingCounts)); v != 0 {
			kon[k.name] = v
		}
	}
	return map[string]any{"glob": map[string]any{"v4": xSparseStat(&c.ipv4, false), "v6": xSparseStat(&c.ipv6, false)}, "tab": tab, "kon": kon}
}

// xCanon: vCanon with empty arrays and empty objects identified (TLC prints an empty function as [])
func xCanon(v any) string {
	switch x := v.(type) {
	case map[string]any:
		if len(x) == 0 {
			return "{}"
		}
		keys := make([]string, 0, len(x))
		for k := range x {
			keys = append(keys, k)
		}
		sort.Strings(keys)
		s := "{"
		for _, k := range keys {
			s += k + ":" + xCanon(x[k]) + ","
		}
		return s + "}"
	case []any:
		if len(x) == 0 {
			return "{}"
		}
		el := make([]string, len(x))
		for i, e := range x {
			el[i] = xCanon(e)
		}
		sort.Strings(el)
		return "[" + strings.Join(el, ",") + "]"
	default:
		return vCanon(v)
	}
}

// ---------------------------------------------------------------- parsing what PrintAndReset writes
var xFamCells = []string{"created", "reading", "checking", "discarding", "found", "reset", "timeout", "err", "closed"}
var xKPrinted = []string{"kCreated", "kDial", "kListen", "kTimeout", "kAuthFail", "kOtherFail"}
var xRowCells = []string{"CreatedToDiscard", "CreatedToCheck", "CreatedToReset", "CreatedToTimeout", "CreatedToError", "CreatedToClose",
	"ReadToCheck", "ReadToTimeout", "ReadToReset", "ReadToError", "CheckToCreated", "CheckToRead", "CheckToFound", "CheckToError",
	"CheckToDiscard", "DiscardToReset", "DiscardToTimeout", "DiscardToError", "DiscardToClose", "total"}

func xPutK(n map[string]int64, f []string) bool {
	if len(f) != 7 {
		return false
	}
	for i, name := range xKPrinted {
		v, err := strconv.ParseInt(f[i], 10, 64)
		if err != nil {
			return false
		}
		if v != 0 {
			n[name] = v
		}
	}
	return true
}

// xParseLine turns one log line into the record Accounting.tla's FamLine / Row describe (nil: not a conn-stats line)
func xParseLine(line string) map[string]any {
	line = strings.TrimSpace(line)
	bad := map[string]any{"k": "unparsable", "line": line}
	switch {
	case strings.HasPrefix(line, "conn-stats (IPv"):
		fam := "v" + line[len("conn-stats (IPv"):len("conn-stats (IPv")+1]
		f := strings.Fields(line[strings.Index(line, "):")+2:])
		// created reading checking discarding found rate reset rate timeout rate err rate closed rate nasn [7 connecting]
		idx := []int{0, 1, 2, 3, 4, 6, 8, 10, 12}
		if (fam == "v4" && len(f) != 22) || (fam == "v6" && len(f) != 15) {
			return bad
		}
		n := map[string]int64{}
		for i, name := range xFamCells {
			v, err := strconv.ParseInt(f[idx[i]], 10, 64)
			if err != nil {
				return bad
			}
			if v != 0 {
				n[name] = v
			}
		}
		nasn, err := strconv.Atoi(f[14])
		if err != nil {
			return bad
		}
		rec := map[string]any{"k": "fam", "fam": fam, "n": n, "nasn": nasn}
		if fam == "v4" {
			k := map[string]int64{}
			if !xPutK(k, f[15:]) {
				return bad
			}
			rec["kon"] = k
		}
		return rec
	case strings.HasPrefix(line, "conn-stats-verbose (IPv"):
		fam := "v" + line[len("conn-stats-verbose (IPv"):len("conn-stats-verbose (IPv")+1]
		f := strings.Fields(line[strings.Index(line, "):")+2:])
		// asn cc 20 ints 18 ratios gnew new gres resolved 7 connecting
		if len(f) != 2+20+18+4+7 {
			return bad
		}
		asn, err := strconv.ParseUint(f[0], 10, 32)
		if err != nil {
			return bad
		}
		n := map[string]int64{}
		for i, name := range xRowCells {
			v, err := strconv.ParseInt(f[2+i], 10, 64)
			if err != nil {
				return bad
			}
			if v != 0 {
				n[name] = v
			}
		}
		var tail [4]int64
		for i := 0; i < 4; i++ {
			v, err := strconv.ParseInt(f[40+i], 10, 64)
			if err != nil {
				return bad
			}
			tail[i] = v
		}
		if tail[1] != 0 {
			n["new"] = tail[1]
		}
		if tail[3] != 0 {
			n["resolved"] = tail[3]
		}
		if !xPutK(n, f[44:]) {
			return bad
		}
		return map[string]any{"k": "row", "fam": fam, "asn": xAsnName(uint(asn)), "cc": f[1], "n": n, "gnew": tail[0], "gres": tail[2]}
	}
	return nil
}

// xGate is the log writer handed to PrintAndReset.  With park set, the write of a family line blocks until released:
// the line's values are loaded, reset() has not run, c.m is held.
type xGate struct {
	mu      sync.Mutex
	park    bool
	arrived chan map[string]any
	release chan struct{}
	rows    []map[string]any
	fams    []map[string]any
}

func newXGate(park bool) *xGate {
	return &xGate{park: park, arrived: make(chan map[string]any, 1), release: make(chan struct{})}
}

func (g *xGate) Write(p []byte) (int, error) {
	rec := xParseLine(string(p))
	if rec == nil {
		return len(p), nil
	}
	if rec["k"] == "fam" || rec["k"] == "unparsable" {
		g.mu.Lock()
		g.fams = append(g.fams, rec)
		g.mu.Unlock()
		if g.park {
			g.arrived <- rec
			<-g.release
		}
	} else {
		g.mu.Lock()
		g.rows = append(g.rows, rec)
		g.mu.Unlock()
	}
	return len(p), nil
}

func (g *xGate) takeRows() []map[string]any {
	g.mu.Lock()
	defer g.mu.Unlock()
	r := g.rows
	g.rows = nil
	if r == nil {
		r = []map[string]any{}
	}
	return r
}

// ---------------------------------------------------------------- stage B
type xWorld struct {
	cm      *connManager
	gate    *xGate
	logger  *log.Logger
	parked  bool          // PrintAndReset is parked in the log writer (holds c.m)
	pdone   chan struct{} // closed when the running PrintAndReset returned
	halves  sync.WaitGroup
	conns   map[string]*xConn
	kons    map[string]*xConn
	trans   map[string]func(uint, string, bool)
	stalled bool
}

type xConn struct {
	asn uint
	cc  string
	v4  bool
}

func newXWorld() *xWorld {
	w := &xWorld{cm: newConnManager(nil), gate: newXGate(true), conns: map[string]*xConn{}, kons: map[string]*xConn{}}
	w.logger = log.New(w.gate, "", 0)
	w.logger.SetLevel(log.InfoLevel)
	cm := w.cm
	w.trans = map[string]func(uint, string, bool){"CreatedToDiscard": cm.createdToDiscard, "CreatedToCheck": cm.createdToCheck,
		"CreatedToReset": cm.createdToReset, "CreatedToTimeout": cm.createdToTimeout, "CreatedToError": cm.createdToError,
		"CreatedToClose": cm.createdToClose, "ReadToCheck": cm.readToCheck, "ReadToTimeout": cm.readToTimeout,
		"ReadToReset": cm.readToReset, "ReadToError": cm.readToError, "CheckToCreated": cm.checkToCreated,
		"CheckToRead": cm.checkToRead, "CheckToFound": cm.checkToFound, "CheckToError": cm.checkToError,
		"CheckToDiscard": cm.checkToDiscard, "DiscardToReset": cm.discardToReset, "DiscardToTimeout": cm.discardToTimeout,
		"DiscardToError": cm.discardToError, "DiscardToClose": cm.discardToClose}
	return w
}

func (w *xWorld) globSnap() [2]statCounts {
	var s [2]statCounts
	for i, src := range []*statCounts{&w.cm.ipv4, &w.cm.ipv6} {
		for _, c := range xGCells {
			*c.p(&s[i]) = atomic.LoadInt64(c.p(src))
		}
	}
	return s
}

// call runs one counter call.  While the printer is parked a call with a country code cannot return (it needs c.m):
// it runs in a goroutine and the driver waits until its family-wide atomics have landed and nothing moves any more.
func (w *xWorld) call(f func(), needsLock bool) {
	if !w.parked {
		f()
		return
	}
	before := w.globSnap()
	done := make(chan struct{})
	w.halves.Add(1)
	go func() {
		defer w.halves.Done()
		f()
		close(done)
	}()
	if !needsLock {
		// no country code: the call touches no table and must return although the printer holds the mutex
		select {
		case <-done:
		case <-time.After(2 * time.Second):
			w.stalled = true
		}
		return
	}
	deadline := time.Now().Add(2 * time.Second)
	changedAt := time.Time{}
	last := before
	for time.Now().Before(deadline) {
		time.Sleep(50 * time.Microsecond)
		now := w.globSnap()
		if now != last {
			last = now
			changedAt = time.Now()
			continue
		}
		if now != before && time.Since(changedAt) > 400*time.Microsecond {
			return
		}
	}
	w.stalled = true
}

// printStep starts PrintAndReset (or releases it from the line it is parked on) and waits until it is parked on the next
// family line or has returned.
func (w *xWorld) printStep() map[string]any {
	got := map[string]any{"a": "Print"}
	if !w.parked {
		w.pdone = make(chan struct{})
		done := w.pdone
		go func() {
			defer close(done)
			w.cm.PrintAndReset(w.logger)
		}()
	} else {
		w.gate.release <- struct{}{}
	}
	select {
	case rec := <-w.gate.arrived:
		w.parked = true
		got["lines"] = []any{rec}
		got["rows"] = []any{}
		got["done"] = false
	case <-w.pdone:
		w.parked = false
		w.halves.Wait() // the callers that were blocked on c.m run to completion
		got["lines"] = []any{}
		got["rows"] = w.gate.takeRows()
		got["done"] = true
	case <-time.After(5 * time.Second):
		got["hung"] = true
	}
	return got
}

func (w *xWorld) finish() {
	for i := 0; w.parked && i < 4; i++ {
		w.printStep()
	}
	w.halves.Wait()
}

func (w *xWorld) apply(step map[string]any) map[string]any {
	a, _ := step["a"].(string)
	got := map[string]any{"a": a}
	str := func(k string) string { s, _ := step[k].(string); return s }
	switch a {
	case "New":
		c := &xConn{asn: xAsnNum(str("asn")), cc: str("cc"), v4: str("fam") == "v4"}
		w.conns[str("c")] = c
		got["c"], got["fam"], got["asn"], got["cc"] = str("c"), str("fam"), str("asn"), str("cc")
		got["split"] = w.parked && c.cc != ""
		w.call(func() { w.cm.addCreated(c.asn, c.cc, c.v4) }, c.cc != "")
	case "T":
		c := w.conns[str("c")]
		f := w.trans[str("tr")]
		got["c"], got["tr"] = str("c"), str("tr")
		got["split"] = w.parked && c.cc != ""
		w.call(func() { f(c.asn, c.cc, c.v4) }, c.cc != "")
	case "KNew":
		k := &xConn{asn: xAsnNum(str("asn")), cc: str("cc")}
		w.kons[str("k")] = k
		got["k"], got["asn"], got["cc"] = str("k"), str("asn"), str("cc")
		w.cm.AddCreatedConnecting(k.asn, k.cc, "dtls")
	case "KTo":
		k := w.kons[str("k")]
		got["k"], got["to"] = str("k"), str("to")
		switch str("to") {
		case "kDial":
			w.cm.AddCreatedToDialSuccessfulConnecting(k.asn, k.cc, "dtls")
		case "kListen":
			w.cm.AddCreatedToListenSuccessfulConnecting(k.asn, k.cc, "dtls")
		case "kSuccessful":
			w.cm.AddCreatedToSuccessfulConnecting(k.asn, k.cc, "dtls")
		case "kTimeout":
			w.cm.AddCreatedToTimeoutConnecting(k.asn, k.cc, "dtls")
		}
	case "KOtherFail":
		k := w.kons[str("k")]
		got["k"] = str("k")
		w.cm.AddOtherFailConnecting(k.asn, k.cc, "dtls")
	case "KAuthFail":
		got["asn"], got["cc"] = str("asn"), str("cc")
		w.cm.AddAuthFailConnecting(xAsnNum(str("asn")), str("cc"), "dtls")
	case "Reset":
		w.cm.Reset()
	case "Print":
		got = w.printStep()
	default:
		panic("unknown action " + a)
	}
	if w.stalled {
		got["stalled"] = true
	}
	got["st"] = xProject(w.cm.connStats)
	return got
}

func TestVerifAcctReplay(t *testing.T) {
	out := vOpenOut(t)
	defer out.Close()
	nb, ns, nm, nsplit, nlost := 0, 0, 0, 0, 0
	vReadLines(t, func(line []byte) {
		var beh []map[string]any
		if err := json.Unmarshal(line, &beh); err != nil {
			t.Fatalf("bad behaviour: %v", err)
		}
		nb++
		for attempt := 0; attempt < 2; attempt++ {
			w := newXWorld()
			failed := -1
			var gotAt map[string]any
			for i, step := range beh {
				var got map[string]any
				func() {
					defer func() {
						if r := recover(); r != nil {
							got = map[string]any{"a": step["a"], "panic": fmt.Sprint(r)}
						}
					}()
					got = w.apply(step)
				}()
				if attempt == 0 {
					ns++
					if sp, _ := step["split"].(bool); sp {
						nsplit++
					}
				}
				if xCanon(vNorm(got)) != xCanon(step) {
					failed, gotAt = i, got
					break
				}
			}
			w.finish()
			if failed < 0 {
				break
			}
			// a call placed while the printer is parked is timing sensitive in one respect only (has the goroutine got as far
			// as c.m yet); a behaviour that fails is replayed once more before it counts
			if attempt == 1 {
				nm++
				if nm <= 100 {
					ops := []string{}
					for _, s := range beh[:failed+1] {
						ops = append(ops, xOp(s))
					}
					out.Emit(map[string]any{"kind": "mismatch", "beh": nb, "step": failed, "want": beh[failed], "got": vNorm(gotAt), "ops": ops})
				}
			}
		}
		_ = nlost
	})
	out.Emit(map[string]any{"kind": "summary", "behaviours": nb, "steps": ns, "mismatches": nm, "split_calls": nsplit})
}

func xOp(s map[string]any) string {
	switch s["a"] {
	case "New":
		return fmt.Sprintf("New(%v,%v,%v,%q)", s["c"], s["fam"], s["asn"], s["cc"])
	case "T":
		return fmt.Sprintf("%v(%v)", s["tr"], s["c"])
	case "KNew":
		return fmt.Sprintf("KNew(%v,%v,%q)", s["k"], s["asn"], s["cc"])
	case "KTo":
		return fmt.Sprintf("KTo(%v,%v)", s["k"], s["to"])
	case "Print":
		return fmt.Sprintf("Print(done=%v)", s["done"])
	}
	return fmt.Sprint(s["a"])
}

// ---------------------------------------------------------------- stage C: real concurrency, judged at quiescence
var xTT = map[string][2]string{"CreatedToDiscard": {"created", "discarding"}, "CreatedToCheck": {"created", "checking"},
	"CreatedToReset": {"created", "reset"}, "CreatedToTimeout": {"created", "timeout"}, "CreatedToError": {"created", "err"},
	"CreatedToClose": {"created", "closed"}, "ReadToCheck": {"reading", "checking"}, "ReadToTimeout": {"reading", "timeout"},
	"ReadToReset": {"reading", "reset"}, "ReadToError": {"reading", "err"}, "CheckToCreated": {"checking", "created"},
	"CheckToRead": {"checking", "reading"}, "CheckToFound": {"checking", "found"}, "CheckToError": {"checking", "err"},
	"CheckToDiscard": {"checking", "discarding"}, "DiscardToReset": {"discarding", "reset"}, "DiscardToTimeout": {"discarding", "timeout"},
	"DiscardToError": {"discarding", "err"}, "DiscardToClose": {"discarding", "closed"}}
var xOutcomes = []string{"found", "reset", "timeout", "closed", "err"}
var xGauges = []string{"created", "reading", "checking", "discarding"}

func xIsOutcome(s string) bool {
	for _, o := range xOutcomes {
		if o == s {
			return true
		}
	}
	return false
}

type xTally struct {
	ev, eva, inflight map[string]map[string]int64 // family -> cell -> n
}

func newXTally() *xTally {
	t := &xTally{ev: map[string]map[string]int64{}, eva: map[string]map[string]int64{}, inflight: map[string]map[string]int64{}}
	for _, f := range []string{"v4", "v6"} {
		t.ev[f], t.eva[f], t.inflight[f] = map[string]int64{}, map[string]int64{}, map[string]int64{}
		for _, x := range append(append([]string{"new"}, xOutcomes...), xGauges...) {
			t.ev[f][x], t.eva[f][x], t.inflight[f][x] = 0, 0, 0
		}
	}
	return t
}

func TestVerifAcctHammer(t *testing.T) {
	out := vOpenOut(t)
	defer out.Close()
	rounds := vEnvInt("VERIF_ROUNDS", 6)
	G := vEnvInt("VERIF_GOROUTINES", 8)
	N := vEnvInt("VERIF_CONNS", 4000)
	byFrom := map[string][]string{}
	names := make([]string, 0, len(xTT))
	for n := range xTT {
		names = append(names, n)
	}
	sort.Strings(names)
	for _, n := range names {
		byFrom[xTT[n][0]] = append(byFrom[xTT[n][0]], n)
	}
	for r := 0; r < rounds; r++ {
		w := newXWorld()
		gate := newXGate(false)
		logger := log.New(gate, "", 0)
		logger.SetLevel(log.InfoLevel)
		asns := []uint{64501, 64502, 64503, 7}
		ccs := []string{"US", "IR", "", "unk"}
		if r%3 == 2 {
			ccs = []string{"US", "IR", "CN", "unk"} // every connection tabulated: the family lines are always printed
		}
		tallies := make([]*xTally, G)
		var wg sync.WaitGroup
		stop := make(chan struct{})
		var prints int64
		// the printer
		var pw sync.WaitGroup
		pw.Add(1)
		go func() {
			defer pw.Done()
			rng := rand.New(rand.NewSource(vSeed()*7919 + int64(r)))
			for {
				select {
				case <-stop:
					return
				default:
				}
				w.cm.PrintAndReset(logger)
				atomic.AddInt64(&prints, 1)
				time.Sleep(time.Duration(rng.Intn(300)) * time.Microsecond)
			}
		}()
		// the sampler: every family-wide gauge stays within [0, G] while the run is hot
		var gmin, gmax int64 = 0, 0
		pw.Add(1)
		go func() {
			defer pw.Done()
			for {
				select {
				case <-stop:
					return
				default:
				}
				for _, s := range []*statCounts{&w.cm.ipv4, &w.cm.ipv6} {
					for _, g := range []*int64{&s.numCreated, &s.numReading, &s.numChecking, &s.numIODiscarding} {
						v := atomic.LoadInt64(g)
						if v < gmin {
							gmin = v
						}
						if v > gmax {
							gmax = v
						}
					}
				}
				time.Sleep(20 * time.Microsecond)
			}
		}()
		for g := 0; g < G; g++ {
			g := g
			tallies[g] = newXTally()
			wg.Add(1)
			go func() {
				defer wg.Done()
				tl := tallies[g]
				rng := rand.New(rand.NewSource(vSeed()*1000003 + int64(r*100+g)))
				for i := 0; i < N; i++ {
					i4 := rng.Intn(3) != 0
					fam := "v6"
					if i4 {
						fam = "v4"
					}
					k := rng.Intn(len(asns))
					asn, cc := asns[k], ccs[(k+rng.Intn(2))%len(ccs)]
					if cc == "unk" {
						asn = 0
					}
					w.cm.addCreated(asn, cc, i4)
					tl.ev[fam]["new"]++
					if cc != "" {
						tl.eva[fam]["new"]++
					}
					st := "created"
					// the last connection of some goroutines is left in flight
					leave := i == N-1 && g%2 == 0
					for steps := 0; !xIsOutcome(st); steps++ {
						if leave && steps == g%3 {
							tl.inflight[fam][st]++
							break
						}
						cands := byFrom[st]
						tr := cands[rng.Intn(len(cands))]
						if steps > 12 && !xIsOutcome(xTT[tr][1]) {
							continue
						}
						w.trans[tr](asn, cc, i4)
						st = xTT[tr][1]
						if xIsOutcome(st) {
							tl.ev[fam][st]++
							if cc != "" {
								tl.eva[fam][st]++
							}
						}
						if rng.Intn(64) == 0 {
							time.Sleep(time.Microsecond)
						}
					}
				}
			}()
		}
		wg.Wait()
		close(stop)
		pw.Wait()
		// quiescent: add up
		tot := newXTally()
		for _, tl := range tallies {
			for _, f := range []string{"v4", "v6"} {
				for x, v := range tl.ev[f] {
					tot.ev[f][x] += v
				}
				for x, v := range tl.eva[f] {
					tot.eva[f][x] += v
				}
				for x, v := range tl.inflight[f] {
					tot.inflight[f][x] += v
				}
			}
		}
		rep, repa, cur, cura := newXTally().ev, newXTally().ev, newXTally().ev, newXTally().ev
		famLines := map[string]int{"v4": 0, "v6": 0}
		unparsable := 0
		for _, l := range gate.fams {
			if l["k"] != "fam" {
				unparsable++
				continue
			}
			f := l["fam"].(string)
			famLines[f]++
			for _, x := range xOutcomes {
				rep[f][x] += l["n"].(map[string]int64)[x]
			}
		}
		for _, l := range gate.rows {
			f := l["fam"].(string)
			n := l["n"].(map[string]int64)
			for tr, ft := range xTT {
				if xIsOutcome(ft[1]) {
					repa[f][ft[1]] += n[tr]
				}
			}
			repa[f]["new"] += n["new"]
		}
		for i, s := range []*statCounts{&w.cm.ipv4, &w.cm.ipv6} {
			f := []string{"v4", "v6"}[i]
			m := xSparseStat(s, false)
			for _, x := range append(append([]string{"new"}, xOutcomes...), xGauges...) {
				cur[f][x] = m[x]
			}
		}
		for i, m := range []map[uint]*asnCounts{w.cm.v4geoIPMap, w.cm.v6geoIPMap} {
			f := []string{"v4", "v6"}[i]
			for _, e := range m {
				mm := xSparseStat(&e.statCounts, false)
				for _, x := range append([]string{"new"}, xOutcomes...) {
					cura[f][x] += mm[x]
				}
			}
		}
		lost := int64(0)
		for _, f := range []string{"v4", "v6"} {
			for _, x := range xOutcomes {
				lost += tot.ev[f][x] - rep[f][x] - cur[f][x]
			}
		}
		out.Emit(map[string]any{"a": "Ledger", "round": r, "ev": tot.ev, "eva": tot.eva, "inflight": tot.inflight, "rep": rep, "repa": repa,
			"cur": cur, "cura": cura, "prints": atomic.LoadInt64(&prints), "fam_lines": famLines, "rows": len(gate.rows),
			"unparsable": unparsable, "gauge_min": gmin, "gauge_max": gmax, "goroutines": G, "unreported": lost, "all_tabulated": r%3 == 2})
	}
}

// ---------------------------------------------------------------- stage C: the real handler
// xGeo answers by peer address 10.K.x.y: K selects the country-code class, the low 24 bits the ASN.
type xGeo struct{}

func xGeoClass(ip net.IP) (cc string, asn uint, ccErr, asnErr bool) {
	v4 := ip.To4()
	if v4 == nil || v4[0] != 10 {
		return "unk", 0, false, false
	}
	asn = uint(v4[1])<<16 | uint(v4[2])<<8 | uint(v4[3])
	switch v4[1] {
	case 1:
		return "US", asn, false, false
	case 2:
		return "IR", asn, false, false
	case 3:
		return "unk", 0, false, false
	case 4:
		return "", asn, false, false
	case 5:
		return "", 0, true, false
	case 6:
		return "CN", 0, false, true
	}
	return "US", asn, false, false
}

func (xGeo) CC(ip net.IP) (string, error) {
	cc, _, ce, _ := xGeoClass(ip)
	if ce {
		return "", fmt.Errorf("no country for this address")
	}
	return cc, nil
}

func (xGeo) ASN(ip net.IP) (uint, error) {
	_, asn, _, ae := xGeoClass(ip)
	if ae {
		return 0, fmt.Errorf("no ASN for this address")
	}
	return asn, nil
}

// xUsableSecrets: a registration is built by deriving a phantom from its secret first (the driver then pins the world's
// phantom address).  With the test subnet file some seeds fall into a weighted subnet set without IPv6 networks and the
// derivation fails before the address is pinned; such a registration gets another secret name (the secret itself stays
// a function of name and VERIF_SEED).
func xUsableSecrets(t testing.TB, ws *vWorldSpec) {
	os.Setenv("PHANTOM_SUBNET_LOCATION", conjurepath.Root+"/pkg/station/lib/test/phantom_subnets.toml")
	rm := cj.NewRegistrationManager(&cj.RegConfig{EnableIPv4: true, EnableIPv6: true})
	if rm == nil {
		t.Fatal("no registration manager")
	}
	for i := range ws.Regs {
		rs := &ws.Regs[i]
		v6 := net.ParseIP(ws.Phantoms[rs.Phantom]).To4() == nil
		base := rs.Secret
		for k := 0; k < 64; k++ {
			if k > 0 {
				rs.Secret = fmt.Sprintf("%s~%d", base, k)
			}
			keys, err := core.GenSharedKeys(uint(core.CurrentClientLibraryVersion()), vSecret(rs.Secret), vTransportType(rs.Transport))
			if err != nil {
				t.Fatal(err)
			}
			if _, err := rm.PhantomSelector.Select(keys.ConjureSeed, 957, uint(core.CurrentClientLibraryVersion()), v6); err == nil {
				break
			}
		}
	}
}

func TestVerifAcctHandler(t *testing.T) {
	out := vOpenOut(t)
	defer out.Close()
	log.SetLevel(log.ErrorLevel)
	devnull, _ := os.OpenFile(os.DevNull, os.O_WRONLY, 0)
	oldStdout := os.Stdout
	if os.Getenv("VERIF_SHOW_LOGS") == "" {
		os.Stdout = devnull
	}
	defer func() { os.Stdout = oldStdout }()
	par := vEnvInt("VERIF_PAR", 300)
	var w *vWorld
	var batch []*vCase
	flush := func() {
		if len(batch) == 0 {
			return
		}
		active0 := cj.VerifStatActiveConns()
		sem := make(chan struct{}, par)
		var wg sync.WaitGroup
		for _, cs := range batch {
			cs := cs
			wg.Add(1)
			sem <- struct{}{}
			go func() {
				defer wg.Done()
				defer func() { <-sem }()
				rec := w.runCase(cs)
				ip := net.ParseIP(cs.SrcIP)
				cc, asn, ce, ae := xGeoClass(ip)
				rec["geo"] = map[string]any{"cc": cc, "asn": xAsnName(asn), "fail": ce || ae}
				out.Emit(rec)
			}()
		}
		wg.Wait()
		// every handler has returned.  The relay's two directions may still be unwinding for a moment.
		var active int64
		for i := 0; i < 200; i++ {
			active = cj.VerifStatActiveConns() - active0
			if active == 0 {
				break
			}
			time.Sleep(5 * time.Millisecond)
		}
		out.Emit(map[string]any{"kind": "quiescent", "cases": len(batch), "st": xProject(w.cm.connStats), "active": active})
		batch = nil
	}
	vReadLines(t, func(line []byte) {
		var probe map[string]json.RawMessage
		if err := json.Unmarshal(line, &probe); err != nil {
			t.Fatalf("bad line: %v", err)
		}
		if raw, ok := probe["world"]; ok {
			flush()
			if w != nil {
				w.echoLn.Close()
			}
			ws := &vWorldSpec{}
			if err := json.Unmarshal(raw, ws); err != nil {
				t.Fatalf("world: %v", err)
			}
			xUsableSecrets(t, ws)
			w = vNewWorld(t, ws)
			w.rm.GeoIP = xGeo{}
			return
		}
		cs := &vCase{}
		if err := json.Unmarshal(line, cs); err != nil {
			t.Fatalf("case: %v", err)
		}
		batch = append(batch, cs)
	})
	flush()
	out.Emit(map[string]any{"kind": "summary"})
}

var _ = io.Discard
