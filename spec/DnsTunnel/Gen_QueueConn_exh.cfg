\* the real queue size (128) with bursts around it
SPECIFICATION GenSpec
CONSTANTS
  Addrs = {"dummy", "a1"}
  Cap = 128
  Bursts = {1, 127, 130}
  MaxPk = 100000
  ReadAfterClose = "panic"
  Depth = 3
INVARIANT Emit
CHECK_DEADLOCK FALSE
