SPECIFICATION GenSpec
CONSTANTS
  Scenario = "2diff"
  Protocol = "atomic"
  SweepRecheck = TRUE
  ShareEnabled = TRUE
  ReloadProtocol = "snapshot"
INVARIANT Emit
CHECK_DEADLOCK FALSE
