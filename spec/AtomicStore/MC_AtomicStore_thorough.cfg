SPECIFICATION Spec
CONSTANTS
  Mode = "rename"
  NOps = 4
  Kinds = {"Replace", "Partial", "BadMarshal"}
  MaxChunks = 3
  Errnos = {"EACCES", "ENOSPC", "EIO", "ENOENT"}
  MaxFaults = 2
  MaxCrashes = 2
VIEW view
INVARIANTS TypeOK TargetAlwaysWhole FailedStoreKeepsOldOnDisk FailedReplaceKeepsOldInMemory TempInSameDirectory
           SuccessfulStoreSyncs TempIsPrefixOfAStoredValue PublishedOnlyWhenComplete
CHECK_DEADLOCK FALSE
