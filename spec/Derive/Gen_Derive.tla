----------------------------- MODULE Gen_Derive -----------------------------
(* Prints every tuple with the ordered draw list of the client procedure (the list the
   driver's independent interpreter executes), the station's list, the port rules and the
   parameters in force after a registrar override. *)
EXTENDS Derive, Json
Row(c) == [kind |-> "tuple", lv |-> c.lv, tr |-> c.tr, pc |-> c.pc, pid |-> c.pid, sr |-> c.sr, ov |-> c.ov,
           applicable |-> Applicable(c), accepts |-> Accepts(c),
           draws |-> ClientDraws(c), sdraws |-> StationDraws(c),
           cport |-> ClientPort(c), sport |-> StationPort(c), oport |-> ClientOwnPort(c),
           effrand |-> EffRand(c), effpid |-> EffPid(c), effpresent |-> EffPresent(c),
           salt |-> Salt, ovport |-> OverridePort]
Emit == PrintT(ToJson(Row(t)))
=============================================================================
