SPECIFICATION Spec
CONSTANTS
  LD = {"unset", "zero", "valid", "bad"}
  LC = {"unset", "zero", "valid", "neg"}
  ND = {"unset", "zero", "valid", "bad"}
  NC = {"unset", "zero", "valid", "neg"}
  CBS = {"unset", "empty", "A", "ws", "bad", "badfirst"}
  CAS = {"unset", "A", "ws", "bad", "badfirst", "badonly"}
  CBD = {"unset", "A", "bad", "badfirst"}
  PBL = {"unset", "A", "ws", "bad", "badfirst"}
  GEO = {"unset", "empty", "missing", "garbage"}
  WK = {"unset", "zero", "valid"}
  PUB = {"unset", "true"}
  FK = {"ok", "syntax", "wrongtype", "unreadable"}
  SF = {"S1", "malformed", "missing", "badgen"}
  RCBS = {"unset", "A", "B", "ws", "bad", "badfirst"}
  RCAS = {"unset", "A", "bad", "badfirst", "badonly"}
  RCBD = {"unset", "A", "B", "bad", "badfirst"}
  RPBL = {"unset", "A", "bad", "badfirst"}
  RGEO = {"unset", "missing"}
  RPUB = {"unset", "true"}
  RFK = {"ok", "syntax", "wrongtype", "unreadable"}
  RSF = {"S1", "S2", "malformed", "missing", "badgen"}
  WithShipped = TRUE
  Defects = {}
VIEW view
INVARIANTS TypeOK NoCrash HousekeepingTotal AcceptedMeansEnforced NothingExtra
PROPERTIES BadReloadChangesNothing
CHECK_DEADLOCK FALSE
