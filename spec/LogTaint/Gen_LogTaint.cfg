SPECIFICATION Spec
CONSTANTS
  Kinds = {"registrant", "EOF", "closed", "EPIPE", "RST", "REFUSED", "ABORTED", "HOSTUNREACH", "timeout", "ETIMEDOUT", "NETUNREACH", "NETDOWN", "NOBUFS", "NOTCONN", "EINVAL", "EIO", "other", "EMFILE", "lookup", "ctxdeadline"}
  Wraps = {"field", "op", "oploc", "sys", "bare", "fmt", "names-ip", "flat", "ctx"}
  Fams = {"v4", "v6", "v4mapped"}
  LogIPs = {TRUE, FALSE}
  Sanitizer = "intended"
  RawDeadlineLog = FALSE
  RawSites = {}
  ConnectFailLog = "none"
  IngestPrintsRegistrant = {}
INVARIANT Emitted
CHECK_DEADLOCK FALSE
