SPECIFICATION Spec
CONSTANTS
  W = 3
  Cap = 1
  MaxOffer = 6
  MaxIn = 3
  RecvObservesCancel = TRUE
VIEW view
INVARIANTS TypeOK DropsCounted NeverBlocksReceiver
PROPERTIES DropOnlyWhenFull ShutdownBounded
CHECK_DEADLOCK FALSE
