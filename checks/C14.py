"""C14 - phantom selection is a pure function that stays inside the configured subnets.

A  TLC exhaustive on spec/Phantom:
     MC_Phantom        every small configuration x library version 0-4 x family x every draw (w, id, h) of the three
                       algorithms: Contained, WellFormed, RandPortFromSubnet, UnknownGenerationFails, NoSpuriousError,
                       ZeroWeightNeverChosen
     MC_Phantom_pure*  2-3 concurrent selectors, per-selection generator (RNG = "local"): Pure for every interleaving,
                       incl. every interleaving of their first uses of a fresh configuration object (derived table built
                       in one step, DerivedMode = "once": DerivedSound)
   non-vacuity: RNG = "global" (the process-wide math/rand of compat.go) must violate Pure,
                AddrBytes = "minimal" (net.IP(big.Int.Bytes())) must violate WellFormed,
                DerivedMode = "lazy-unsynchronised" (table derived from the configuration appended without a lock on first
                use) must violate Pure with 2 selectors and nothing with 1.
B  Gen_Phantom prints every case with the result the specification computes; the Go driver reaches every case with a
   real seed (draws recomputed by an independent HKDF / rand.Int interpreter) and compares the real
   PhantomIPSelector.Select / SelectPhantom result; generated large configurations (containment by net/netip,
   well-formedness, port-flag origin, determinism, client = station); 2..32 ungated concurrent selectors against the
   serial results for every library version; stage "fresh": a new configuration object per round, 2..32 goroutines
   released together on their first selections, compared (and a sequential re-run on the same object) with one
   goroutine alone on an identical new object.
C  every concurrent call on the small configurations is recorded and validated by Trace_Phantom (the observed result
   must be the specification's serial result); one corrupted event must be rejected.
Verdicts come from the real code only (B, C).
"""
import json, os, copy, re
import vlib

PKG = "pkg/phantoms"
FILES = ["common/vcommon_test.go", "pkg_phantoms/derive_interp_verif_test.go", "pkg_phantoms/phantom_verif_test.go",
         "pkg_phantoms/phantom_history_verif_test.go", "pkg_phantoms/phantom_fresh_verif_test.go"]


def run(ctx):
    thorough = ctx.tier == "thorough"
    sdir = ctx.spec_copy("Phantom")

    # ---- A
    r = ctx.tlc(sdir, "Phantom.tla", "MC_Phantom.cfg", timeout=600)
    ctx.require_design_ok(r, "Phantom enum (intended: local RNG, full-width addresses)")
    ctx.log("A: enum %d distinct states, depth %d, %.1fs" % (r["distinct"], r["depth"], r["wall_s"]))
    for cfg in ["MC_Phantom_pure.cfg", "MC_Phantom_pure2.cfg"] + (["MC_Phantom_thorough.cfg"] if thorough else []):
        rp = ctx.tlc(sdir, "Phantom.tla", cfg, timeout=3000 if thorough else 600)
        ctx.require_design_ok(rp, "Phantom proc (local RNG) " + cfg)
        ctx.log("A: %s %d distinct states, %.1fs" % (cfg, rp["distinct"], rp["wall_s"]))
    rg = ctx.tlc(sdir, "Phantom.tla", "MC_Phantom_global.cfg", timeout=600, count=False)
    if rg["inv"] != "Pure":
        raise vlib.InfraError("global-RNG instance should violate Pure, got %s" % rg["inv"])
    rm = ctx.tlc(sdir, "Phantom.tla", "MC_Phantom_minimal.cfg", timeout=600, count=False)
    if rm["inv"] != "WellFormed":
        raise vlib.InfraError("minimal-bytes instance should violate WellFormed, got %s" % rm["inv"])
    rw = ctx.tlc(sdir, "Phantom.tla", "MC_Phantom_aswritten.cfg", timeout=600, count=False)
    if rw["inv"] != "Contained":
        raise vlib.InfraError("the instance that takes a non-canonical CIDR's address as the base should violate Contained, got %s" % rw["inv"])
    rl = ctx.tlc(sdir, "Phantom.tla", "MC_Phantom_lazy.cfg", timeout=600, count=False)
    if rl["inv"] != "Pure":
        raise vlib.InfraError("the instance that builds the per-configuration derived table lazily without a lock should violate Pure "
                              "(two interleaved first uses), got %s" % rl["inv"])
    rl1 = ctx.tlc(sdir, "Phantom.tla", "MC_Phantom_lazy1.cfg", timeout=600, count=False)
    if rl1["inv"] or not rl1["distinct"]:
        raise vlib.InfraError("the lazy-unsynchronised instance with ONE selector should violate nothing, got %s" % rl1["inv"])
    ctx.stage("A", invariants=["TypeOK", "DerivedSound", "Contained", "WellFormed", "RandPortFromSubnet", "Pure", "UnknownGenerationFails",
                               "NoSpuriousError", "ZeroWeightNeverChosen"],
              nonvacuity="RNG=global violates Pure; AddrBytes=minimal violates WellFormed; NetBase=as-written (host bits of a non-canonical "
                         "CIDR kept in the base) violates Contained; DerivedMode=lazy-unsynchronised (first uses of a fresh configuration "
                         "object interleave) violates Pure with 2 selectors, nothing with 1 (all as expected)")

    # ---- B
    g = ctx.tlc(sdir, "Gen_Phantom.tla", "Gen_Phantom.cfg", timeout=900, workers=8, count=False)
    if g["inv"]:
        raise vlib.InfraError("generator failed: %s" % g["out"][-2000:])
    if g["nbeh"] < 1000:
        raise vlib.InfraError("too few cases generated: %d" % g["nbeh"])
    outp = os.path.join(ctx.scratch, "phantom_out.ndjson")
    res = ctx.go_test(PKG, FILES, "phantoms", "^TestVerifPhantom$",
                      env={"VERIF_IN": g["beh_file"], "VERIF_OUT": outp, "VERIF_THOROUGH": 1 if thorough else 0},
                      timeout=3000)
    rows = ctx.read_results(outp)
    if not any(x.get("kind") == "end" for x in rows):
        raise vlib.InfraError("driver did not finish:\n" + res["out"][-4000:])
    summ = {x["stage"]: x for x in rows if x.get("kind") == "summary"}
    for st in ("replay", "generated", "purity", "fresh"):
        if st not in summ:
            raise vlib.InfraError("driver summary for stage %s missing" % st)
    nokey = [x for x in rows if x.get("kind") == "nokey"]
    if nokey:
        raise vlib.InfraError("driver mapped a seed to a case TLC did not enumerate: %s" % nokey[:3])
    unc = [x for x in rows if x.get("kind") == "uncovered"]
    if unc or summ["replay"]["required_covered"] != summ["replay"]["required"]:
        raise vlib.InfraError("exhaustive-offset replay did not reach every case: %s" % (unc[:5],))
    ctx.log("B: replay %(required_covered)d/%(required)d required cases (of %(cases)d), %(compared)d comparisons, %(mismatches)d mismatches, %(malformed)d malformed"
            % summ["replay"])
    ctx.log("B: generated %(configs)d configs, %(calls)d calls, %(selected)d selected / %(errors)d errors, %(malformed)d malformed, %(violations)d violations"
            % summ["generated"])
    ctx.log("B: purity %(calls)d concurrent calls, %(divergent)d divergent" % summ["purity"])
    ctx.log("B: fresh %(rounds)d rounds (%(objects)d new configuration objects, %(configs)d configurations), %(calls)d first-use / re-run "
            "calls, %(divergent)d divergent" % summ["fresh"])
    # history independence: a long-lived selector vs a fresh one for every call of a seeded sequence; configuration unchanged
    hp = os.path.join(ctx.scratch, "phantom_history.ndjson")
    ctx.go_test(PKG, FILES, "phantoms", "^TestVerifPhantomHistory$",
                env={"VERIF_OUT": hp, "VERIF_CONFIGS": 300 if thorough else 40, "VERIF_OPS": 120 if thorough else 60}, timeout=1800)
    hrows = ctx.read_results(hp)
    hs = [x for x in hrows if x.get("kind") == "summary"]
    if not hs:
        raise vlib.InfraError("history driver did not finish")
    for x in hrows:
        if x.get("kind") == "histviol":
            key = "history:%s" % x["what"] + (":%s:lv%s" % (x["op"], x["lv"]) if "op" in x else "")
            ctx.violation(key, "selection is not a function of its inputs alone: %s (%s)" % (x["what"], json.dumps({k: x[k] for k in x if k not in ("kind", "what")})[:500]), x)
    ctx.log("B: history %(calls)d calls over %(configs)d configs, %(depends)d history-dependent results, %(rewritten)d configurations rewritten" % hs[0])
    ctx.stage("B", history=hs[0])

    # (i) replay mismatches
    for m in [x for x in rows if x.get("kind") == "mismatch"]:
        ctx.violation("replay:%s:lv%s:%s" % (m["what"], m.get("lv"), m.get("who", "station")),
                      "real selection differs from Phantom.tla (%s) for config %s libver %s family %s draws w=%s id=%s h=%s seed %s: want %s got %s"
                      % (m["what"], m.get("c"), m.get("lv"), m.get("fam"), m.get("w"), m.get("id"), m.get("h"), m.get("seed"),
                         json.dumps(m.get("want")), json.dumps(m.get("got"))), m)
    # well-formedness (both stages)
    for m in [x for x in rows if x.get("kind") == "malformed"]:
        ctx.violation("wellformed:short-address:fam%s" % m["fam"],
                      "selected phantom is not a well-formed IPv%s address: %d bytes (%s) for libver %s seed %s (%s)"
                      % (m["fam"], m["got"]["ip_len"], m["got"].get("ip_hex"), m["lv"], m["seed"],
                         m.get("c") or json.dumps(m.get("config"))), m)
    # (ii) generated configurations
    for m in [x for x in rows if x.get("kind") == "genviol"]:
        ctx.violation("generated:%s:lv%s:fam%s" % (m["what"], m["lv"], m["fam"]),
                      "generated configuration: %s violated for libver %s family %s seed %s: %s (config %s)"
                      % (m["what"], m["lv"], m["fam"], m["seed"], json.dumps(m["got"]), json.dumps(m["config"])), m)
    # (iii) purity - a single divergence is a real-code behaviour; nothing is retried
    for m in [x for x in rows if x.get("kind") == "impure"]:
        # fresh stage: one key (the library version and whether it was a first use or the later sequential re-run are in the message)
        ctx.violation("pure:fresh-object" if m["what"].startswith("fresh") else "pure:%s:libver%s" % (m["what"], m["lv"]),
                      "selection result changed (%s, %s goroutines) for libver %s family %s seed %s: serial %s, concurrent %s"
                      % (m["what"], m["goroutines"], m["lv"], m["fam"], m["seed"], json.dumps(m["serial"]), json.dumps(m["concurrent"])), m)
    rounds = [x for x in rows if x.get("kind") == "purity-round"]
    frounds = [x for x in rows if x.get("kind") == "fresh-round"]
    ctx.stage("B", replay=summ["replay"], generated=summ["generated"], purity=summ["purity"], fresh=summ["fresh"],
              fresh_rounds=[{k: x[k] for k in ("lv", "goroutines", "calls", "divergent")} for x in frounds],
              purity_rounds=[{k: x[k] for k in ("lv", "goroutines", "calls", "divergent")} for x in rounds])
    for x in [y for y in rows if y.get("kind") == "sample"][:2]:
        ctx.sample({"stage": "B-generated", "config": x["config"]})

    # ---- C
    events = [x for x in rows if x.get("kind") == "event"]
    traces = {}
    for e in events:
        ev = {k: e[k] for k in ("a", "c", "lv", "fam", "w", "id", "h", "ok", "hi", "low", "rp", "blen")}
        traces.setdefault((e["lv"], e["gi"]), []).append(ev)
    tl = [traces[k] for k in sorted(traces)]
    if not tl:
        raise vlib.InfraError("no events recorded for trace validation")
    ok, reached, total, tr = ctx.validate_traces(sdir, "Trace_Phantom.tla", "Trace_Phantom.cfg", tl, timeout=1500)
    bad = parse_bad(tr["out"])
    ok = ok and not bad
    ctx.log("C: %d traces / %d events, accepted=%s reached=%d rejected_events=%d" % (len(tl), total, ok, reached, len(bad)))
    if tr["inv"]:
        ctx.violation("trace:invariant:%s" % tr["inv"], "recorded real selection violates %s" % tr["inv"], {"tlc": tr["out"][-3000:]})
    elif not ok:
        if not bad and reached < total:
            raise vlib.InfraError("trace validation stopped at %d/%d without a rejected event:\n%s" % (reached, total, tr["out"][-2000:]))
        flat = []
        for t in tl:
            flat.append({"a": "Reset"})
            flat += t
        for (ix, field) in bad[:200]:
            e = flat[ix - 1]
            ctx.violation("trace:%s:libver%s" % (field, e.get("lv")),
                          "recorded concurrent selection is not the specification's serial result (%s differs): %s" % (field, json.dumps(e)), e)
    else:
        # demonstrate the binding: one corrupted field must make TLC reject
        badt = copy.deepcopy(tl[:2])
        done = False
        for t in badt:
            for e in t:
                if e["ok"]:
                    e["low"] += 1
                    done = True
                    break
            if done:
                break
        if not done:
            raise vlib.InfraError("no event to corrupt for the binding demonstration")
        ok2, reached2, total2, tr2 = ctx.validate_traces(sdir, "Trace_Phantom.tla", "Trace_Phantom.cfg", badt, timeout=600)
        if not parse_bad(tr2["out"]):
            raise vlib.InfraError("binding is vacuous: corrupted trace accepted")
        ctx.stage("C", corrupted_event_rejected=parse_bad(tr2["out"])[0])
    ctx.cov["traces_validated_against_impl"] = len(tl)
    ctx.sample({"stage": "C", "trace_prefix": tl[0][:3]})
    ctx.stage("C", traces=len(tl), events=total, accepted=ok, rejected_events=len(bad))

    # ---- evidence
    cases = []
    with open(g["beh_file"]) as f:
        for i, line in enumerate(f):
            c = json.loads(line)
            if c.get("kind") == "case":
                cases.append(c)
    nontrivial = sum(1 for c in cases if c["gen"] == "known" and c["res"]["ok"])
    for c in cases[5:6] + cases[len(cases) // 2:len(cases) // 2 + 1]:
        ctx.sample({"stage": "B-replay", "case": c})
    ctx.cov["evaluations"] = summ["replay"]["compared"] + summ["generated"]["calls"] + summ["purity"]["calls"] + summ["fresh"]["calls"]
    ctx.cov["distinct_nontrivial"] = nontrivial + summ["generated"]["classes"] + len([x for x in rounds if x["calls"] > 0])
    ctx.cov["exhaustive"] = False
    ctx.cov["rule"] = ("stage B replay: one case per (configuration, libver, family, draws w/id/h) enumerated by TLC, distinct by construction, "
                       "non-trivial = known generation and an address is selected (counted: %d of %d); generated: distinct "
                       "(configuration, libver, family, selected|error) classes observed (%d); purity: (libver, goroutine count) rounds (%d)"
                       % (nontrivial, len(cases), summ["generated"]["classes"], len(rounds)))
    ctx.assumptions += [
        "draws of a real seed are recomputed by the harness (own HKDF/HMAC + transcribed crypto/rand.Int; math/rand with a private generator for libver 0/1)",
        "sort.Slice on <= 12 weighted groups is a stable insertion sort (ties keep configuration order); configurations have <= 5 groups",
        "configurations with total weight 0 and groups without subnets are outside the modelled domain",
        "TLC integers are 32-bit: the arithmetic oracle covers the small configurations; large blocks are checked by execution (containment, width, determinism)",
        "purity on the real code is observed by ungated stress (no production hook in compat.go); interleavings are exhaustive in TLC only",
        "first uses of a fresh configuration object are overlapped by a spin barrier, not gated: a derived-state race is found with high probability per round, not certainly",
    ]


def parse_bad(out):
    return sorted({(int(a), b) for a, b in re.findall(r'<<"TRACE_BAD", (\d+), "(\w*)">>', out)})
