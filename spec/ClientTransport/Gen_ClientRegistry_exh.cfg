SPECIFICATION GenSpec
CONSTANTS
  Variant = "asfound"
  Starts = {"empty", "defaults"}
  AddAlphabet = {"min", "prefix", "prefixGL", "customA", "dupName", "dupID", "nilb"}
  LookNames = {"min", "x08a"}
  LookIds = {"Prefix"}
  ParamKinds = {"nil"}
  Depth = 4
INVARIANT Emit
CHECK_DEADLOCK FALSE
