-------------------------- MODULE Gen_ClientRegistry --------------------------
(* Behaviour generator for the registry (stage B): every call sequence of length Depth; replayed by
   harness/pkg_transports_client/x08_registry_verif_test.go on the real package-level maps. *)
EXTENDS ClientRegistry, Json
CONSTANT Depth
VARIABLE hist
GenInit == Init /\ hist = <<obs>>
GenNext == /\ Len(hist) < Depth
           /\ Next
           /\ hist' = Append(hist, obs')
GenSpec == GenInit /\ [][GenNext]_<<vars, hist>>
Emit == Len(hist) < Depth \/ PrintT(ToJson(hist))
=============================================================================
