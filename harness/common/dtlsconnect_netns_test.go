//go:build verif

package PKGNAME

// Private network namespace for the X06 (DtlsConnect) drivers.  The station side of the dtls transport listens on and
// dials from the fixed UDP port 41245 (listenPort); two runs on one host would share that port (SO_REUSEPORT spreads the
// datagrams over both listeners).  The drivers therefore re-execute the test binary under `unshare -n`: a namespace of
// their own with nothing but a loopback interface, where every 127.x.y.z address is local (one address per scenario, so
// the transport's per-IP statistics callbacks can be attributed) and /proc/net/udp lists exactly the driver's sockets.
// Where namespaces are not permitted the driver falls back to the host namespace under an exclusive file lock.

import (
	"fmt"
	"os"
	"os/exec"
	"syscall"
	"testing"
)

// xnsEnter returns true in the process that must run the scenarios (the child inside the namespace, or the
// fallback); it returns false in the parent after the child has finished (the parent then has nothing left to do).
func xnsEnter(t *testing.T, testName string) bool {
	if os.Getenv("VERIF_X06_NS") != "" {
		if os.Getenv("VERIF_X06_NS") == "child" {
			if out, err := exec.Command("ip", "link", "set", "lo", "up").CombinedOutput(); err != nil {
				t.Fatalf("cannot bring lo up in the namespace: %v %s", err, out)
			}
			// a handful of extra IPv6 loopback addresses (IPv4 has the whole 127/8)
			for i := 2; i < 2+xnsV6Addrs; i++ {
				_ = exec.Command("ip", "-6", "addr", "add", fmt.Sprintf("fd00:6::%x/128", i), "dev", "lo", "nodad").Run()
			}
		}
		return true
	}
	if err := exec.Command("unshare", "-n", "true").Run(); err != nil {
		// no namespaces here: host namespace, one run at a time
		f, err := os.OpenFile("/tmp/verif_x06_port41245.lock", os.O_CREATE|os.O_RDWR, 0o666)
		if err != nil {
			t.Fatalf("lock file: %v", err)
		}
		if err := syscall.Flock(int(f.Fd()), syscall.LOCK_EX); err != nil {
			t.Fatalf("flock: %v", err)
		}
		os.Setenv("VERIF_X06_NS", "host")
		t.Logf("X06: network namespaces unavailable, running in the host namespace under a lock")
		return true
	}
	args := []string{"-n", os.Args[0], "-test.run", "^" + testName + "$", "-test.v", "-test.timeout", "1500s"}
	cmd := exec.Command("unshare", args...)
	cmd.Env = append(os.Environ(), "VERIF_X06_NS=child")
	cmd.Stdout = os.Stdout
	cmd.Stderr = os.Stderr
	if err := cmd.Run(); err != nil {
		t.Fatalf("driver inside the network namespace failed: %v", err)
	}
	return false
}

const xnsV6Addrs = 0
