"""X09 - the registrar's file-driven registration overrides (extension module): spec/PrefixOverride.

pkg/regserver/overrides/prefix_transport.go (ParsePrefixes / prefixesFromFile: the override-file grammar `max bar id port prefix`;
prefixes.selectPrefix / barPrefix.selectPrefix on top of crypto/rand.Int; PrefixOverride / FixedPrefixOverride / RandPrefixOverride
.Override) and pkg/core/interfaces Overrides (order, first error stops).  The module has an as-found instance (all Defects on: what the
code does - this is what conformance binds, the check exits 0 on the unchanged tree) and an intended instance (Defects = {}); the laws
only the intended instance satisfies are the reported divergences.

A  TLC exhaustive: the grammar as a decision table (every file of <= 2 lines over 47 line shapes x final newline x CRLF; <= 3 lines in the
   thorough tier), selection (every table of <= 2 weight lines x every reader script of <= 3 bytes over boundary bytes; two-byte draws with
   max = 1000; three-line tables in the thorough tier), Override (tables x override kinds x registration shapes), chains of <= 3 overrides;
   as found and intended.  Non-vacuity: four deliberately broken instances must violate (bar inclusive -> ShareExact, transport guard
   missing -> OnlyPrefixTransport, old response parameters kept -> ResponseMatchesEntry, '#' after blanks is a comment -> ParseAgreesWithGrammar);
   the as-found instance must violate each of the ten intended-only laws.
B  every behaviour TLC prints for the generator profiles (a Load; or Load, Arrive, one Step per override, Return) is executed on the real
   package: the file is rendered and loaded through NewPrefixTransportOverride (and ParsePrefixes on the same bytes), the chain is a real
   interfaces.Overrides of the real overrides, the random reader delivers exactly the scripted bytes; result, reason, offending line and
   token, the table; line consulted, bytes consumed, error, every field of the registration after every override; error / registration /
   reader at return are compared.
D  the caller: every row of the caller table (client's disable flag x phantoms support random ports x client randomises x port column)
   on the real RegProcessor.processBdReq with a real PrefixOverride loaded from a file - whether the override applied and where the
   DstPort the client is told comes from.
C  a seeded random driver (not derived from the specification) records real runs - random files x chains x registrations x reader bytes,
   RandPrefixOverride unsteered - validated by Trace_PrefixOverride with all as-found laws on every state; a corrupted trace must be rejected.
"""
import json, os, copy, re, threading, time
import vlib

PKG = "pkg/regserver/overrides"
FILES = ["common/vcommon_test.go", "pkg_regserver_overrides/prefixoverride_verif_test.go"]
MOD = "PrefixOverride.tla"
STATE = ["TypeOK", "ShareExact"]
OBS = ["ParseAgreesWithGrammar", "NothingInvented", "MalformedRejects", "NeverDeadLine", "NoByteWithoutDraw", "OnlyPrefixTransport",
       "MissingIsAnError", "UntouchedUnlessWritten", "ErrorMeansNoWrite", "ResponseMatchesEntry", "PortRule", "ClientFieldsKept",
       "ParOnlyNormalised", "FirstErrorStops", "LastWriterWins", "NotWrittenNotChanged", "RejectedLoadChangesNothing"]
INTENDED_P = ["I_NoSilentTruncation", "I_MalformedNumberRejects", "I_BlankLinesIgnored", "I_FieldsInRange", "I_DeadLinesDoNotDilute"]
INTENDED_C = ["I_PayloadUntouched", "I_ErrorLeavesUntouched", "I_FlagRespected", "I_RandUsesReader", "I_ResponseConsistent"]
INTENDED_K = ["I_PsrReachesOverrides", "I_FilePortReachesClient"]
PKG_CALLER = "pkg/regserver/regprocessor"
FILES_CALLER = ["common/vcommon_test.go", "pkg_regserver_overrides/caller_verif_test.go"]
BROKEN = [("MC_PrefixOverride_broken_bar.cfg", "ShareExact"), ("MC_PrefixOverride_broken_transport.cfg", "A_OnlyPrefixTransport"),
          ("MC_PrefixOverride_broken_params.cfg", "A_ResponseMatchesEntry"), ("MC_PrefixOverride_broken_comment.cfg", "ParseAgreesWithGrammar")]


def tok(t):
    if t["t"] != "n":
        return t["t"]
    return str(t["hi"] * 2 ** 32 + t["v"])


def fmt_line(l):
    k = l["k"]
    n = "" if l["n"] == "short" else "{%s}" % l["n"]
    if k in ("blank", "comment", "ws", "icomment", "ioerr"):
        return k + n
    s = "%s %s %s %s %s" % (tok(l["max"]), tok(l["bar"]), tok(l["id"]), tok(l["port"]), l["pfx"])
    return ("" if k == "entry" else k + ":") + s + ("" if l["fmt"] == "dec" else "/" + l["fmt"]) + n


def fmt_file(f):
    return "[" + " | ".join(fmt_line(l) for l in f["lines"]) + "]" + ("" if f["nl"] else " no-final-newline") + (" crlf" if f["eol"] == "crlf" else "")


def fmt_reg(r):
    if r is None:
        return "?"
    if r["wrap"] != "ok":
        return r["wrap"]
    rs = r["resp"]
    if rs.get("none"):
        rss = "nil"
    else:
        tp = rs["tp"]
        tps = "nil" if tp.get("none") else "old" if tp.get("old") else "%s#%s/f%s/rnd=%s" % (tp.get("pfx"), tp.get("id"), tp.get("flush"), tp.get("rnd"))
        rss = "port=%s psr=%s tp=%s" % (rs["port"], rs["psr"], tps)
    return "%s dis=%s par=%s rnd=%s resp(%s)" % (r["tt"], r["dis"], r["par"], r["rnd"], rss)


def fmt_ev(e):
    if e is None:
        return "nothing"
    a = e.get("a")
    if a == "Load":
        tb = e.get("tbl")
        tbs = "?" if tb is None else "[" + ", ".join("%s/%s #%s :%s %s" % (x["max"], x["bar"], tok(dict(x["id"], t="n")), tok(dict(x["port"], t="n")), x["pfx"]) for x in tb) + "]"
        return "Load(%s chain=%s fid=%s) -> %s%s%s table %s" % (fmt_file(e["file"]) if "file" in e else "", "+".join(e.get("chain") or []), e.get("fid"), e.get("res"),
                                                              "" if e.get("why") in (None, "none") else " (%s at line %s token %s)" % (e.get("why"), e.get("at"), e.get("tok")),
                                                              " " + e["note"] if e.get("note") else "", tbs)
    if a == "Arrive":
        return "Arrive(%s ; reader %s)" % (fmt_reg(e["reg"]), e.get("bytes"))
    if a == "Step":
        return "Step(#%s %s: err=%s wrote=%s line=%s used=%s%s keep=%s -> %s)" % (e.get("k"), e.get("kind"), e.get("err"), e.get("wrote"), e.get("idx"), e.get("used"),
                                                                               " drew def%s" % e.get("pid") if e.get("kind") == "rand" else "", e.get("keep"), fmt_reg(e.get("reg")))
    if a == "Return":
        return "Return(err=%s ran=%s/%s left=%s identical=%s -> %s)" % (e.get("err"), e.get("ran"), e.get("of"), e.get("left"), e.get("same"), fmt_reg(e.get("reg")))
    return json.dumps(e, sort_keys=True)[:300]


def line_class(l):
    if l["k"] != "entry":
        return l["k"] + ("" if l["n"] == "short" else "-" + l["n"])
    bad = [n for n in ("max", "bar", "id", "port") if l[n]["t"] != "n"]
    if bad:
        return "entry-bad-" + "+".join(bad)
    if l["n"] != "short":
        return "entry-" + l["n"]
    if l["id"]["hi"] or l["port"]["hi"] or l["port"]["v"] > 65535:
        return "entry-wide"
    if l["max"]["v"] <= 0 or l["bar"]["v"] <= 0:
        return "entry-dead"
    return "entry" + ("" if l["fmt"] == "dec" else "-" + l["fmt"])


def mismatch_key(m):
    w, g = m.get("want_event") or {}, m.get("got_event") or {}
    a = w.get("a") or g.get("a")
    diff = "+".join(m.get("diff") or [])
    if g.get("a") == "panic":
        return "override:panic"
    if a == "Load":
        f = (m.get("want") or [{}])[0].get("file") or {"lines": []}
        at = w.get("at") or g.get("at") or 0
        culprit = line_class(f["lines"][at - 1]) if 0 < at <= len(f["lines"]) else "+".join(sorted({line_class(l) for l in f["lines"]}))[:80]
        return "load:%s->%s:%s:%s" % (w.get("res"), g.get("res"), diff, culprit)
    if a == "Step":
        return "override:%s:%s" % (w.get("kind"), diff)
    return "chain:%s:%s" % (a, diff)


def run(ctx):
    thorough = ctx.tier == "thorough"
    sdir = ctx.spec_copy("PrefixOverride")
    lock = threading.Lock()

    def par(jobs, width=4):
        """run TLC jobs (name, kwargs) concurrently; returns {name: result}"""
        res, errs = {}, []

        def work(chunk):
            for name, kw in chunk:
                try:
                    kw["count"] = False
                    r = ctx.tlc(sdir, kw.pop("module", MOD), kw.pop("cfg"), **kw)
                    with lock:
                        res[name] = r
                except Exception as e:          # noqa
                    with lock:
                        errs.append(e)
        chunks = [jobs[i::width] for i in range(width)]
        ths = [threading.Thread(target=work, args=(c,)) for c in chunks if c]
        for t in ths:
            t.start()
            time.sleep(0.15)
        for t in ths:
            t.join()
        if errs:
            raise errs[0]
        return res

    # ---------------------------------------------------------------- A
    asfound = [("parse", "MC_PrefixOverride_thorough.cfg" if thorough else "MC_PrefixOverride.cfg"),
               ("select", "MC_PrefixOverride_selectT.cfg" if thorough else "MC_PrefixOverride_select.cfg"),
               ("select2", "MC_PrefixOverride_select2.cfg"),
               ("override", "MC_PrefixOverride_overrideT.cfg" if thorough else "MC_PrefixOverride_override.cfg"),
               ("chain", "MC_PrefixOverride_chainT.cfg" if thorough else "MC_PrefixOverride_chain.cfg"),
               ("caller", "MC_PrefixOverride_caller.cfg")] + ([("select3", "MC_PrefixOverride_select3.cfg")] if thorough else [])
    intended = [("i_parse", "MC_PrefixOverride_intended_parse.cfg"), ("i_select", "MC_PrefixOverride_intended_select.cfg"),
                ("i_chain", "MC_PrefixOverride_intended_chain.cfg"), ("i_caller", "MC_PrefixOverride_intended_caller.cfg")] + \
               ([("i_override", "MC_PrefixOverride_intended_override.cfg"), ("i_select2", "MC_PrefixOverride_intended_select2.cfg")] if thorough else [])
    jobs = [(n, dict(cfg=c, workers=4, timeout=1500 if thorough else 300)) for n, c in asfound + intended]
    jobs += [("gaps_parse", dict(cfg="MC_PrefixOverride_gaps_parse.cfg", workers=2, timeout=200, count=False, extra=["-continue"], check=False)),
             ("gaps_chain", dict(cfg="MC_PrefixOverride_gaps_chain.cfg", workers=2, timeout=200, count=False, extra=["-continue"], check=False)),
             ("gaps_caller", dict(cfg="MC_PrefixOverride_gaps_caller.cfg", workers=1, timeout=200, count=False, extra=["-continue"], check=False)),
             ("gaps_caller2", dict(cfg="MC_PrefixOverride_gaps_caller2.cfg", workers=1, timeout=200, count=False, extra=["-continue"], check=False))]
    jobs += [("broken%d" % i, dict(cfg=c, workers=2, timeout=200, count=False)) for i, (c, _) in enumerate(BROKEN)]
    # the generators of stage B run alongside
    gens = ["parse", "select", "select2", "override", "chain"] + (["parse3", "overrideT"] if thorough else [])
    jobs.append(("gen_caller", dict(module="Gen_PrefixOverride.tla", cfg="Gen_PrefixOverride_caller.cfg", workers=1, timeout=200, count=False)))
    jobs += [("gen_" + g, dict(module="Gen_PrefixOverride.tla", cfg="Gen_PrefixOverride_%s.cfg" % g, workers=3, timeout=1500 if thorough else 300, count=False))
             for g in gens]
    heavy = ["override", "chain", "i_chain", "select", "gen_override", "gen_chain", "parse", "gen_parse3", "gen_overrideT", "select2", "i_select", "i_parse"]
    jobs.sort(key=lambda j: heavy.index(j[0]) if j[0] in heavy else len(heavy))
    R = par(jobs, width=6)
    for n, _ in asfound:
        ctx.require_design_ok(R[n], "as-found instance, profile " + n)
    for n, _ in intended:
        ctx.require_design_ok(R[n], "intended instance, profile " + n)
    for i, (c, inv) in enumerate(BROKEN):
        if R["broken%d" % i]["inv"] != inv:
            raise vlib.InfraError("broken instance %s should violate %s, got %s" % (c, inv, R["broken%d" % i]["inv"]))
    for name, want in (("gaps_parse", INTENDED_P), ("gaps_chain", INTENDED_C), ("gaps_caller", INTENDED_K[:1]), ("gaps_caller2", INTENDED_K[1:])):
        violated = set(re.findall(r"Invariant (\S+) is violated", R[name]["out"]))
        missing = [i for i in want if i not in violated]
        if missing:
            raise vlib.InfraError("as-found instance no longer violates %s: the intended-only laws are vacuous or the model changed" % missing)
    for n, _ in asfound + intended:
        ctx.cov["states"] += R[n]["distinct"]
        ctx.cov["transitions"] += R[n]["generated"]
    ctx.log("A: as found %s ; intended %s" % (", ".join("%s %d" % (n, R[n]["distinct"]) for n, _ in asfound),
                                             ", ".join("%s %d" % (n, R[n]["distinct"]) for n, _ in intended)))
    ctx.stage("A", laws=STATE + OBS + ["CallerRespectsFlag", "CallerPortNeverInvented"], intended_only=INTENDED_P + INTENDED_C + INTENDED_K,
              nonvacuity="; ".join("%s violates %s" % (c.replace("MC_PrefixOverride_", "").replace(".cfg", ""), i) for c, i in BROKEN) +
              "; the as-found instance violates each of " + ", ".join(INTENDED_P + INTENDED_C + INTENDED_K))

    # ---------------------------------------------------------------- B
    beh_all = os.path.join(ctx.scratch, "prefixoverride_beh.ndjson")
    counts, total = {}, 0
    with open(beh_all, "w") as fo:
        for g in gens:
            gr = R["gen_" + g]
            if gr["inv"]:
                raise vlib.InfraError("generator %s failed: %s" % (g, gr["out"][-2000:]))
            with open(gr["beh_file"]) as fi:
                n = 0
                for line in fi:
                    fo.write(line)
                    n += 1
            counts[g] = n
            total += n
    ctx.log("B: behaviours %s" % counts)
    if counts["parse"] < 5000 or counts["select"] < 3000 or counts["select2"] < 1000 or counts["override"] < 3000 or counts["chain"] < 2000:
        raise vlib.InfraError("too few behaviours generated: %s" % counts)
    outp = os.path.join(ctx.scratch, "replay_out.ndjson")
    res = ctx.go_test(PKG, FILES, "overrides", "^TestVerifPrefixOverrideReplay$", env={"VERIF_IN": beh_all, "VERIF_OUT": outp}, timeout=1500)
    rows = ctx.read_results(outp)
    summ = [x for x in rows if x.get("kind") == "summary"]
    if not summ:
        raise vlib.InfraError("replay driver did not finish:\n" + res["out"][-3000:])
    summ = summ[0]
    if summ["behaviours"] != total:
        raise vlib.InfraError("replay driver saw %d of %d behaviours" % (summ["behaviours"], total))
    for m in [x for x in rows if x.get("kind") == "mismatch"]:
        w, g = m.get("want_event"), m.get("got_event")
        ctx.violation(mismatch_key(m), "real overrides package diverges from PrefixOverride.tla (as found) at event %s of [%s]: specification %s ; real code %s (differs in: %s)"
                      % (m.get("at"), " ; ".join(fmt_ev(e) for e in (m.get("want") or [])[:2]), fmt_ev(w), fmt_ev(g), ",".join(m.get("diff") or [])), m)
    ctx.stage("B", behaviours=summ["behaviours"], steps=summ["steps"], loads=summ["loads"], calls=summ["calls"], mismatches=summ["mismatches"],
              panics=summ["panics"], generated=counts)
    ctx.log("B: %d behaviours / %d events replayed (%d loads, %d Override calls), %d mismatches" % (summ["behaviours"], summ["steps"], summ["loads"], summ["calls"], summ["mismatches"]))
    # divergences (as found vs intended) the replayed rows exhibit on the real code, counted from the rows that matched
    tags = {}
    nontrivial = 0
    bad_idx = {m["idx"] for m in rows if m.get("kind") == "mismatch"}
    first_sample = {}
    with open(beh_all) as fi:
        for i, line in enumerate(fi):
            if i in bad_idx:
                continue
            b = json.loads(line)
            ld = b[0]
            ts = set()
            lines = ld["file"]["lines"]
            if ld["res"] == "accepted":
                if any(l["k"] == "ioerr" for l in lines):
                    ts.add("read error swallowed: the load succeeds with the lines before it")
                if any(l["n"] == "over" or (l["n"] == "max" and ld["file"]["eol"] == "crlf") for l in lines) and any(l["k"] in ("comment", "entry") and l["n"] in ("over", "max") for l in lines):
                    ts.add("line of >= 65536 bytes silently ends the file (bufio.Scanner error ignored)")
                if any(l["k"] == "entry" and l["max"]["t"] == "bad" and (l["bar"]["t"] == "bad" or (l["bar"]["t"] == "n" and l["bar"]["v"] == 0)) for l in lines):
                    ts.add("unparsable weights read as 0 0: the line is skipped, the file loads")
                if any(x["port"]["hi"] or x["port"]["v"] > 65535 for x in ld["tbl"]):
                    ts.add("port > 65535 accepted")
                if any(x["bar"] <= 0 or x["max"] <= 0 for x in ld["tbl"]) and len(ld["tbl"]) > 1:
                    ts.add("never-selectable line kept in the table (takes 1/N of the line draw)")
            elif ld["why"] == "malformed" and lines[ld["at"] - 1]["k"] in ("ws", "icomment"):
                ts.add("a line of blanks / an indented comment rejects the whole file")
            if len(b) > 1:
                ret = b[-1]
                orig = b[1]["reg"]
                if ret["a"] == "Return":
                    if ret["reg"]["par"] != orig["par"]:
                        ts.add("type URL of the client's own TransportParams rewritten in place")
                    if ret["err"] != "none" and not ret["same"] and ret["wrote"]:
                        ts.add("chain error leaves the earlier override's response in the registration")
                    if orig["wrap"] == "ok" and orig["dis"] == "yes" and not ret["same"]:
                        ts.add("Override rewrites a registration whose client disabled registrar overrides (guard is the caller's)")
                    steps = [e for e in b if e["a"] == "Step"]
                    if any(e["kind"] == "rand" and e["wrote"] and e["used"] == 0 for e in steps):
                        ts.add("RandPrefixOverride ignores the reader it is given")
                    wr = [e for e in steps if e["wrote"]]
                    if len(wr) >= 2 and ret["err"] == "none" and ret["reg"]["resp"]["psr"] and wr[-1]["e"]["pos"] and ret["reg"]["resp"]["port"] != wr[-1]["e"]["portw"] \
                            and (orig["resp"].get("none") or orig["resp"]["port"] == 0):
                        ts.add("chain: parameters of the last override with the port of an earlier one")
                    if any(e["wrote"] and e["kind"] == "file" and e["e"]["id"] != ld["tbl"][e["idx"] - 1]["id"]["v"] + ld["tbl"][e["idx"] - 1]["id"]["hi"] * 2 ** 32 for e in steps):
                        ts.add("id beyond int32 narrowed when written")
                    if len(steps) >= 1 and any(e["wrote"] for e in steps):
                        nontrivial += 1
            for t in ts:
                tags[t] = tags.get(t, 0) + 1
                first_sample.setdefault(t, i)
    for t, n in sorted(tags.items()):
        ctx.notes.append("as-found divergence from the intended behaviour, reproduced on the real code in %d replayed behaviours: %s" % (n, t))
    ctx.stage("B", divergences_confirmed_on_real_code=tags)
    ctx.log("B: divergences exhibited by the real code: %s" % tags)

    # ---------------------------------------------------------------- D (the caller)
    gc = R["gen_caller"]
    if gc["inv"] or gc["nbeh"] < 30:
        raise vlib.InfraError("caller generator failed (%s rows): %s" % (gc["nbeh"], gc["out"][-1500:]))
    outc = os.path.join(ctx.scratch, "caller_out.ndjson")
    resc = ctx.go_test(PKG_CALLER, FILES_CALLER, "regprocessor", "^TestVerifPrefixOverrideCaller$", env={"VERIF_IN": gc["beh_file"], "VERIF_OUT": outc}, timeout=600)
    crow = ctx.read_results(outc)
    if not [x for x in crow if x.get("kind") == "summary"]:
        raise vlib.InfraError("caller driver did not finish:\n" + resc["out"][-3000:])
    crow = [x for x in crow if x.get("kind") == "row"]
    if len(crow) != gc["nbeh"]:
        raise vlib.InfraError("caller driver saw %d of %d rows" % (len(crow), gc["nbeh"]))
    cm = 0
    dead_port = 0
    for x in crow:
        w, g = x["want"], x["got"]
        diff = [f for f in ("err", "tp", "port", "seenpsr") if w.get(f) != g.get(f)]
        if diff:
            cm += 1
            ctx.violation("caller:%s:dis=%s,psr=%s,rnd=%s,fport=%s" % ("+".join(diff), w["dis"], w["psr"], w["rnd"], "set" if w["fport"] > 0 else "none"),
                          "real processBdReq diverges from PrefixOverride.tla (as found) for client disable flag %s, phantoms support random ports %s, client randomises %s, file port %s: "
                          "specification err=%s parameters=%s port=%s seen-psr=%s ; real code err=%s parameters=%s port=%s seen-psr=%s"
                          % (w["dis"], w["psr"], w["rnd"], w["fport"], w.get("err"), w.get("tp"), w.get("port"), w.get("seenpsr"), g.get("err"), g.get("tp"), g.get("port"), g.get("seenpsr")), x)
        elif g.get("tp") == "file" and w["psr"] and w["rnd"] != "true" and w["fport"] > 0 and g.get("port") != "file":
            dead_port += 1
    if dead_port:
        ctx.notes.append("as-found divergence from the intended behaviour, reproduced on the real processBdReq in %d rows: the override's prefix is applied but the port "
                         "column of the file never reaches the client (DstPort is recomputed from the client's own parameters; phantoms_support_port_rand is never set)" % dead_port)
    ctx.stage("D", rows=len(crow), mismatches=cm, rows_where_file_port_is_lost=dead_port)
    ctx.log("D: %d caller rows on the real processBdReq, %d mismatches; file port lost in %d rows" % (len(crow), cm, dead_port))

    # ---------------------------------------------------------------- C
    ntr = 2500 if thorough else 500

    def record():
        trp = os.path.join(ctx.scratch, "prefixoverride_traces.ndjson")
        ctx.go_test(PKG, FILES, "overrides", "^TestVerifPrefixOverrideRandom$", env={"VERIF_OUT": trp, "VERIF_TRACES": ntr}, timeout=1500)
        traces, cur = [], None
        for e in ctx.read_results(trp):
            if e["a"] == "Reset":
                cur = []
                traces.append(cur)
            else:
                cur.append(e)
        return traces

    traces = record()
    if len(traces) != ntr:
        raise vlib.InfraError("random driver recorded %d of %d traces" % (len(traces), ntr))
    for t in traces:
        for e in t:
            if e.get("note"):
                ctx.violation("load:file-vs-reader", "NewPrefixTransportOverride and ParsePrefixes disagree on the same bytes: %s" % fmt_ev(e), e)
            if e.get("a") == "panic":
                ctx.violation("override:panic", "the real override chain panicked: %s ; trace [%s]" % (e.get("msg"), " ; ".join(fmt_ev(x) for x in t[-6:])), t)

    def locate(reached):
        pos = 0
        for i, t in enumerate(traces):
            if reached < pos + 1 + len(t):
                return i, reached - pos - 1
            pos += 1 + len(t)
        return len(traces) - 1, len(traces[-1])

    ok, reached, totalev, tr = ctx.validate_traces(sdir, "Trace_PrefixOverride.tla", "Trace_PrefixOverride.cfg", traces, timeout=900)
    ctx.log("C: %d traces / %d events, accepted=%s" % (len(traces), totalev, ok))
    if not ok:
        ti, ei = locate(reached)
        bad = traces[ti][ei] if 0 <= ei < len(traces[ti]) else None
        lo = max(0, ei - 3)
        what = "[%s]" % " ; ".join(fmt_ev(e) for e in traces[ti][lo:ei + 1])
        if tr["inv"]:
            ctx.violation("trace:invariant:%s" % tr["inv"], "recorded real trace reaches a state violating %s: %s" % (tr["inv"], what),
                          {"trace": traces[ti], "tlc": tr["out"][-2500:]})
        else:
            a = (bad or {}).get("a")
            sub = (bad or {}).get("kind") or (bad or {}).get("res") or ""
            ctx.violation("trace:rejected:%s:%s" % (a, sub), "recorded real trace is not a behaviour of PrefixOverride.tla (as found) at event %d (%s): %s"
                          % (ei, fmt_ev(bad) if bad else "?", what), {"trace": traces[ti], "event_index": ei, "tlc": tr["out"][-1500:]})
    else:
        bad = copy.deepcopy(traces[:60])
        done = None
        for t in bad:
            for e in t:
                if e["a"] == "Step" and e["wrote"] and not e["reg"]["resp"].get("none") and e["reg"]["resp"]["psr"]:
                    e["reg"]["resp"]["port"] += 1
                    done = "Step.reg.resp.port"
                    break
                if e["a"] == "Load" and e["res"] == "accepted" and len(e["tbl"]) >= 2:
                    e["tbl"][0], e["tbl"][1] = e["tbl"][1], e["tbl"][0]
                    if e["tbl"][0] != e["tbl"][1]:
                        done = "Load.tbl order"
                        break
            if done:
                break
        if not done:
            raise vlib.InfraError("no event to corrupt for the binding demonstration")
        ok2, reached2, _, _ = ctx.validate_traces(sdir, "Trace_PrefixOverride.tla", "Trace_PrefixOverride.cfg", bad, timeout=600)
        if ok2:
            raise vlib.InfraError("binding is vacuous: corrupted trace (%s) accepted" % done)
        ctx.stage("C", corrupted=done, corrupted_trace_rejected_at=reached2)
    ctx.cov["traces_validated_against_impl"] = len(traces)
    evs = [e for t in traces for e in t]
    ctx.stage("C", traces=len(traces), events=totalev, accepted=ok,
              loads=sum(1 for e in evs if e["a"] == "Load"), rejected_loads=sum(1 for e in evs if e["a"] == "Load" and e["res"] == "rejected"),
              calls=sum(1 for e in evs if e["a"] == "Arrive"), steps_that_wrote=sum(1 for e in evs if e["a"] == "Step" and e["wrote"]),
              rand_prefixes_seen=sorted({e["pid"] for e in evs if e["a"] == "Step" and e["kind"] == "rand" and e["wrote"]}),
              chain_errors=sum(1 for e in evs if e["a"] == "Return" and e["err"] != "none"))
    longest = max(traces[:80], key=len)
    ctx.sample({"stage": "C", "trace": [fmt_ev(x) for x in longest[:8]]})
    with open(beh_all) as fi:
        want = set(first_sample.values())
        for i, line in enumerate(fi):
            if i in want and len(ctx.cov["samples"]) < 6:
                ctx.sample({"stage": "B", "behaviour": [fmt_ev(e) for e in json.loads(line)]})

    ctx.cov["evaluations"] = summ["behaviours"] + len(traces)
    ctx.cov["distinct_nontrivial"] = nontrivial
    ctx.cov["exhaustive"] = True
    ctx.cov["rule"] = ("stage B behaviours are distinct paths of the generator profiles (hist is part of the state); non-trivial = an Override call in which at "
                       "least one override rewrote the response; stage C traces counted separately")
    ctx.assumptions += [
        "files are rendered from line shapes by the driver (numbers in decimal / 0x / leading-0 octal / underscore / '+' syntax, blanks and tabs as separators, "
        "CRLF, missing final newline, lines padded to 65534 / 65535 / 65536 bytes); a read error is delivered at a line boundary",
        "which table line prefixes.selectPrefix consulted is observed through a recording prefixIface wrapped around every barPrefix of the parsed table; "
        "registration before / after, bytes taken from the reader and the error of every override through a recording RegOverride around it",
        "stage B steers RandPrefixOverride (which ignores the reader) by swapping the exported prefix.DefaultPrefixes map for a one-element map around the call; "
        "stage C leaves it unsteered and accepts any of the ten default prefixes",
        "the caller (regprocessor.processBdReq) is driven only for a file whose single line is always selected (it hands the overrides the process-wide crypto reader); "
        "what it tells the stations versus the client is C12's subject",
        "TLC integers are 32 bit: values beyond are written as hi * 2^32 + v (ids, ports); weights stay below 2^31",
    ]
