SPECIFICATION GenSpec
CONSTANTS
  ReqV4 = {}
  ReqV6 = {}
  ReqDual = {"d1"}
  ReqFail = {}
  ReqFail6 = {"w1"}
  ErrorPath = "plain"
  Reloads = {"m1"}
  ToB = {"m1"}
  Bad = {}
  ReloadOrder = "load-first"
  Protocol = "single"
INVARIANT Emit
CHECK_DEADLOCK FALSE
