SPECIFICATION GenSpec
CONSTANTS
  Addrs = {"dummy", "a1", "a2"}
  Cap = 128
  Bursts = {1, 2, 60, 127, 128, 129, 200}
  MaxPk = 100000
  ReadAfterClose = "panic"
  Depth = 40
INVARIANT Emit
CHECK_DEADLOCK FALSE
