//go:build verif

package lib

// Bridge for drivers that live in other packages (cmd/application's package main): thin exported wrappers around
// unexported state.  Exists only in the build overlay, never in the repository.

import (
	"net"
	"time"
)

// VerifRecordDetector replaces the detector announcements by in-memory recorders (no Redis in the sandbox).
func VerifRecordDetector(rm *RegistrationManager, onNew, onUpdate func(*DecoyRegistration)) {
	rm.registeredDecoys.m.Lock()
	defer rm.registeredDecoys.m.Unlock()
	rm.registeredDecoys.registerForDetector = onNew
	rm.registeredDecoys.updateInDetector = onUpdate
}

func verifTimeout(rm *RegistrationManager, reg *DecoyRegistration) *DecoyTimeout {
	t, ok := rm.registeredDecoys.transports[reg.Transport]
	if !ok {
		return nil
	}
	id := t.GetIdentifier(reg)
	for _, to := range rm.registeredDecoys.decoysTimeouts {
		if to.decoy == reg.PhantomIp.String() && to.identifier == id {
			return to
		}
	}
	return nil
}

// VerifBackdate makes the registration look `age` old.
func VerifBackdate(rm *RegistrationManager, reg *DecoyRegistration, age time.Duration) bool {
	rm.registeredDecoys.m.Lock()
	defer rm.registeredDecoys.m.Unlock()
	to := verifTimeout(rm, reg)
	if to == nil {
		return false
	}
	to.registrationTime = time.Now().Add(-age)
	return true
}

// VerifIsUsed reports whether the registration's expiry record is in the "used" state (and whether it exists).
func VerifIsUsed(rm *RegistrationManager, reg *DecoyRegistration) (used bool, tracked bool) {
	rm.registeredDecoys.m.RLock()
	defer rm.registeredDecoys.m.RUnlock()
	to := verifTimeout(rm, reg)
	if to == nil {
		return false, false
	}
	return to.status == regStatusUsed, true
}

// VerifTracked returns the number of tracked and of valid registrations on a phantom.
func VerifTracked(rm *RegistrationManager, ip net.IP) (tracked, valid int) {
	rm.registeredDecoys.m.RLock()
	defer rm.registeredDecoys.m.RUnlock()
	for _, d := range rm.registeredDecoys.decoys[ip.String()] {
		tracked++
		if d.Valid {
			valid++
		}
	}
	return
}

// VerifSetRegistrationAddr sets the registrant address of a registration built by the driver.
func VerifSetRegistrationAddr(reg *DecoyRegistration, ip net.IP) { reg.registrationAddr = ip }

// VerifRegState reports what the table holds under the registration's phantom address and transport identifier - whichever
// object is filed there: "gone" (nothing), "tracked" (not validated) or "valid".
func VerifRegState(rm *RegistrationManager, reg *DecoyRegistration) string {
	rm.registeredDecoys.m.RLock()
	defer rm.registeredDecoys.m.RUnlock()
	d := rm.registeredDecoys.registrationExists(reg)
	if d == nil {
		return "gone"
	}
	if d.Valid {
		return "valid"
	}
	return "tracked"
}
