"""X04 - Accounting (extension module): the station's bookkeeping keeps its books.

Specifications: spec/Accounting/Accounting.tla (connStats + connectingStats of cmd/application and the counter calls of
handleNewTCPConn) and spec/Accounting/RegAccounting.tla (the Stats singleton and RegistrationStats of pkg/station/lib).
Both carry an "as_found" variant (what the code does; conformance is held against it) and an "intended" variant (what a
reader of the log lines relies on); the divergences are listed at the end of each module and in the evidence notes.

A   TLC exhaustive: as_found with the laws that hold for it, intended with every law, the handler level (every path of
    handleNewTCPConn: NoBadCall, PhaseMatches, LegalWhenDone, StatActiveExact, OncePerConn); non-vacuity: as_found
    measured against each intended law must violate it (one run per divergence), deliberately broken instances must
    violate the laws that hold as found.
B   TLC-generated behaviours (every path of bounded depth + simulated long ones) replayed on the real objects, the full
    projected state and every printed line compared after each step.  PrintAndReset is parked inside the log writer, so
    "a counter call between a line's loads and reset()" is a real schedule, not an argument.
C1  the classify driver's scripted connections through the real handleNewTCPConn with a GeoIP stub that gives each
    connection its own ASN: every event log must select handler steps whose counter calls reproduce the real per-ASN
    rows / family counters / singleton gauge exactly (Trace_Accounting); one corrupted log must be rejected.
C2  real concurrent runs (goroutines hammering the real objects, PrintAndReset racing, no gates): per-goroutine event
    totals + every printed line + the final snapshot are judged at quiescence against the conservation laws.
"""
import json, os, copy, re, threading, time
from concurrent.futures import ThreadPoolExecutor
import vlib
import classify_common as cc

PKG_APP = "cmd/application"
APP_FILES = ["common/vcommon_test.go", "cmd_application/vconn_verif_test.go", "cmd_application/classify_verif_test.go",
             "cmd_application/accounting_verif_test.go"]
APP_BRIDGE = [("pkg/station/lib", ["pkg_station_lib/bridge_verif.go", "pkg_station_lib/accounting_bridge_verif.go"], "lib")]
PKG_LIB = "pkg/station/lib/."     # same package; the trailing "/." gives its overlay a directory of its own (the app lane overlays the bridge)
LIB_FILES = ["common/vcommon_test.go", "pkg_station_lib/accounting_verif_test.go"]

# as found measured against an intended law: (cfg, law that must be violated, divergence)
DIVERGENCES = [("MC_Accounting_div_lost.cfg", "Ledger", "D1 an outcome counted between a line's loads and reset() is lost"),
               ("MC_Accounting_div_ledger.cfg", "Ledger", "D2 a family whose ASN table is empty is zeroed without being printed"),
               ("MC_Accounting_div_total.cfg", "TotalIsSum", "D3 reset() forgets numCreatedToClose"),
               ("MC_Accounting_div_asngauge.cfg", "AsnGaugesNonNeg", "D4 reset() drops the per-ASN in-flight gauges"),
               ("MC_Accounting_div_kongauge.cfg", "KonGaugeExact", "D6 connecting gauge cleared with the epoch / not released by OtherFail")]
BROKEN = [("MC_Accounting_broken_gauge.cfg", "GaugeExact"), ("MC_Accounting_broken_print.cfg", "PrintKeepsGauges"),
          ("MC_Accounting_broken_handler.cfg", None)]


_ticket = threading.Lock()
_count = threading.Lock()
_go = {PKG_APP: threading.Lock(), PKG_LIB: threading.Lock()}      # one `go test` per package at a time: the overlay directory is per package


def tlc(ctx, sdir, module, cfg, count=True, **kw):
    """ctx.tlc from several threads: starts are spaced (the output file name has millisecond resolution) and the state
    counters are added under a lock."""
    with _ticket:
        time.sleep(0.012)
    r = ctx.tlc(sdir, module, cfg, count=False, **kw)
    if count:
        with _count:
            ctx.cov["states"] += r["distinct"]
            ctx.cov["transitions"] += r["generated"]
    return r


def validate(ctx, *a, **kw):
    with _ticket:
        time.sleep(0.012)
    return ctx.validate_traces(*a, **kw)


def go_test(ctx, pkg, *a, **kw):
    with _go[pkg]:
        return ctx.go_test(pkg, *a, **kw)


def crashed(ctx, res, key, what):
    """A driver run that ended in a Go runtime crash of the code under test (concurrent map access, nil dereference, ...)."""
    m = re.search(r"^(fatal error: .*|panic: .*)$", res["out"], re.M)
    if m and "test timed out" not in m.group(1):
        ctx.violation("%s:crash:%s" % (key, re.sub(r"[^a-z]+", "-", m.group(1).lower())[:60]), "%s crashed: %s" % (what, m.group(1)),
                      {"out": res["out"][-6000:]})
        return True
    return False


def must_violate(ctx, sdir, module, cfg, inv):
    r = tlc(ctx, sdir, module, cfg, timeout=300, workers=2, count=False)
    if not r["inv"] or (inv and r["inv"] != inv):
        raise vlib.InfraError("%s should violate %s, TLC says %s" % (cfg, inv or "an invariant", r["inv"]))
    return r["inv"]


def merge_behaviours(ctx, runs, path):
    seen, n = set(), {}
    with open(path, "w") as fo:
        for tag, r in runs:
            n[tag] = 0
            with open(r["beh_file"]) as fi:
                for line in fi:
                    h = hash(line)
                    if h in seen:
                        continue
                    seen.add(h)
                    fo.write(line)
                    n[tag] += 1
    return n


def diff_fields(want, got):
    d = []
    for k in sorted(set(want) | set(got)):
        if k == "st":
            for kk in sorted(set(want.get("st") or {}) | set(got.get("st") or {})):
                if canon((want.get("st") or {}).get(kk)) != canon((got.get("st") or {}).get(kk)):
                    d.append("st." + kk)
        elif canon(want.get(k)) != canon(got.get(k)):
            d.append(k)
    return d


def canon(v):
    if isinstance(v, dict):
        return "{" + ",".join("%s:%s" % (k, canon(v[k])) for k in sorted(v)) + "}" if v else "{}"
    if isinstance(v, list):
        return "[" + ",".join(sorted(canon(e) for e in v)) + "]" if v else "{}"
    return json.dumps(v)


# ------------------------------------------------------------------------------------------------ connStats
def mc_ok(ctx, sdir, module, cfg, what, workers=6, timeout=1500):
    r = tlc(ctx, sdir, module, cfg, timeout=timeout, workers=workers)
    ctx.require_design_ok(r, what)
    ctx.log("A: %s (%s): %d distinct states, depth %d, %.0fs" % (what, cfg, r["distinct"], r["depth"], r["wall_s"]))
    return r


def stage_a_conn(ctx, sdir, thorough):
    if thorough:
        cfgs = [("MC_Accounting_thorough.cfg", "as_found, two connections, two prints"), ("MC_Accounting_intended_thorough.cfg", "intended, two prints")]
    else:
        cfgs = [("MC_Accounting.cfg", "as_found, two connections"), ("MC_Accounting_intended.cfg", "intended")]
    cfgs += [("MC_Accounting_epochs.cfg", "as_found, three prints"), ("MC_Accounting_intended_epochs.cfg", "intended, three prints"),
             ("MC_Accounting_kon.cfg", "as_found connecting"), ("MC_Accounting_intended_kon.cfg", "intended connecting"),
             ("MC_Accounting_handler.cfg", "handler level")]
    for cfg, what in cfgs:
        mc_ok(ctx, sdir, "Accounting.tla", cfg, "Accounting " + what)
    ctx.stage("A", invariants_as_found=["TypeOK", "GaugeExact", "NoDoubleCount", "AsnLedger", "OutcomeSum", "AsnSumsEpoch", "QuiescentZero",
                                        "PrintKeepsGauges"],
              invariants_intended=["Ledger", "TotalIsSum", "AsnSums", "AsnGaugesNonNeg", "KonGaugeExact", "KonLedger"],
              invariants_handler=["NoBadCall", "PhaseMatches", "LegalWhenDone", "StatActiveExact", "StatBalanced", "OncePerConn"])


def stage_a_nonvacuity(ctx, sdir):
    nonvac = []
    for cfg, inv, what in DIVERGENCES:
        must_violate(ctx, sdir, "Accounting.tla", cfg, inv)
        nonvac.append("as_found violates %s (%s)" % (inv, what))
    for cfg, inv in BROKEN:
        got = must_violate(ctx, sdir, "Accounting.tla", cfg, inv)
        nonvac.append("%s violates %s" % (cfg, got))
    for cfg, inv, what in REG_DIVERGENCES:
        must_violate(ctx, sdir, "RegAccounting.tla", cfg, inv)
        nonvac.append("as_found violates %s (%s)" % (inv, what))
    for cfg, inv in REG_BROKEN:
        must_violate(ctx, sdir, "RegAccounting.tla", cfg, inv)
        nonvac.append("%s violates %s" % (cfg, inv))
    ctx.stage("A", nonvacuity=nonvac)


def gen_conn(ctx, sdir, thorough):
    runs = []
    for tag, cfg in (("exh1", "Gen_Accounting_exh1.cfg"), ("exh2", "Gen_Accounting_exh2t.cfg" if thorough else "Gen_Accounting_exh2.cfg"),
                     ("exhk", "Gen_Accounting_exhkt.cfg" if thorough else "Gen_Accounting_exhk.cfg")):
        g = tlc(ctx, sdir, "Gen_Accounting.tla", cfg, timeout=1500, workers=4, count=False)
        if g["inv"]:
            raise vlib.InfraError("generator %s failed: %s" % (cfg, g["out"][-1500:]))
        runs.append((tag, g))
    s = tlc(ctx, sdir, "Gen_Accounting.tla", "Gen_Accounting_sim.cfg", timeout=1500, workers=2, count=False,
            simulate="num=%d" % (600 if thorough else 100), depth=41, deadlock=False, extra=["-seed", str(ctx.seed)])
    runs.append(("sim", s))
    beh = os.path.join(ctx.scratch, "acct_beh.ndjson")
    n = merge_behaviours(ctx, runs, beh)
    ctx.log("B: connStats behaviours %s" % n)
    if n["exh1"] < 1000 or n["exh2"] < 1000 or n["sim"] < 50:
        raise vlib.InfraError("too few behaviours generated: %s" % n)
    return beh, n


def stage_b_conn(ctx, gen):
    beh, n = gen
    outp = os.path.join(ctx.scratch, "acct_replay.ndjson")
    res = go_test(ctx, PKG_APP, APP_FILES, "main", "^TestVerifAcctReplay$", env={"VERIF_IN": beh, "VERIF_OUT": outp},
                  extra_overlays=APP_BRIDGE, timeout=900)
    st = ctx.stall_sites(res)
    if st:
        ctx.violation("connstats:replay:deadlock:%s" % "+".join(st), "replaying a specification behaviour on the real connStats hung in %s" % ", ".join(st),
                      {"dump": res["out"][-5000:]})
        return 0, 1
    rows = ctx.read_results(outp)
    summ = [x for x in rows if x.get("kind") == "summary"]
    if not summ:
        if crashed(ctx, res, "connstats:replay", "the real connStats while replaying a specification behaviour"):
            return 0, 1
        raise vlib.InfraError("connStats replay driver did not finish:\n" + res["out"][-3000:])
    summ = summ[0]
    for m in [x for x in rows if x.get("kind") == "mismatch"]:
        d = diff_fields(m["want"], m["got"])
        ctx.violation("connstats:replay:%s:%s" % (m["want"].get("tr") or m["want"].get("a"), "+".join(d)),
                      "real connStats diverges from Accounting.tla (as_found) after %s (fields %s)" % (" ; ".join(m["ops"]), d), m)
    # how many behaviours exercise the windows the as_found variant is about
    lost = silent = split = 0
    witness = []
    with open(beh) as f:
        for i, line in enumerate(f):
            b = json.loads(line)
            split += any(x.get("split") for x in b)
            parked = mid = False
            for x in b:
                if x["a"] == "Print":
                    parked = not x["done"]
                elif parked and x["a"] in ("New", "T"):
                    mid = True
            lost += mid
            if any(x["a"] == "Print" and x["done"] and not x["lines"] and not x["rows"] for x in b):
                silent += 1
            if i in (3, 4321):
                ctx.sample({"stage": "B", "object": "connStats", "behaviour": [fmt_op(x) for x in b]})
            if mid and not witness and b[-1]["a"] == "Print" and b[-1]["done"] and len(b) <= 6:
                # a replayed (hence real) schedule in which an outcome is neither printed nor kept: divergence D1
                outs = [x["tr"] for x in b if x["a"] == "T" and x["tr"].split("To")[1] in ("Reset", "Timeout", "Error", "Close", "Found")]
                if outs and not any(b[-1]["st"]["glob"][f] for f in ("v4", "v6")):
                    witness.append({"stage": "B", "witness": "D1 lost update, replayed on the real connStats and matched step by step",
                                    "behaviour": [fmt_op(x) for x in b], "printed": [l["n"] for x in b if x["a"] == "Print" for l in x["lines"]],
                                    "final_family_counters": b[-1]["st"]["glob"]})
    if witness and summ["mismatches"] == 0:
        ctx.sample(witness[0])
    if summ["split_calls"] == 0 or lost == 0:
        raise vlib.InfraError("no behaviour places a counter call inside PrintAndReset: stage B is vacuous")
    ctx.log("B: connStats replay: %d behaviours, %d steps, %d mismatches" % (summ["behaviours"], summ["steps"], summ["mismatches"]))
    ctx.stage("B", connstats=dict(behaviours=summ["behaviours"], steps=summ["steps"], mismatches=summ["mismatches"], split_calls=summ["split_calls"],
                                  calls_inside_print=lost, with_split_call=split, prints_without_a_line=silent, **n))
    return summ["behaviours"], lost


def fmt_op(x):
    a = x["a"]
    if a == "New":
        return "New(%s,%s,%s,%r)" % (x["c"], x["fam"], x["asn"], x["cc"]) + ("*" if x.get("split") else "")
    if a == "T":
        return "%s(%s)" % (x["tr"], x["c"]) + ("*" if x.get("split") else "")
    if a == "Print":
        return "Print[%s%s]" % ("+".join(l["fam"] for l in x["lines"]) or "-", ",done" if x["done"] else ",parked")
    if a in ("KNew", "KTo", "KOtherFail"):
        return "%s(%s%s)" % (a, x["k"], "," + x["to"] if "to" in x else "")
    return a


# ---- C1: the real handler
def handler_world():
    regs = [{"name": "rmin", "secret": "s-min", "transport": "min", "prefix_id": 0, "state": "valid", "phantom": "P1"},
            {"name": "robfs", "secret": "s-obfs", "transport": "obfs4", "prefix_id": 0, "state": "valid", "phantom": "P1"},
            {"name": "rpx1", "secret": "s-px1", "transport": "prefix", "prefix_id": 1, "state": "valid", "phantom": "P1"},
            {"name": "rpx0", "secret": "s-px0", "transport": "prefix", "prefix_id": 0, "state": "valid", "phantom": "P1"},
            {"name": "rtracked", "secret": "s-tr", "transport": "min", "prefix_id": 0, "state": "tracked", "phantom": "P3"},
            {"name": "rmin6", "secret": "s-min6", "transport": "min", "prefix_id": 0, "state": "valid", "phantom": "V6a"},
            {"name": "rpx6", "secret": "s-px6", "transport": "prefix", "prefix_id": 4, "state": "valid", "phantom": "V6a"}]
    return {"phantoms": {"P0": "192.122.190.9", "P1": "192.122.190.10", "P3": "192.122.190.12",
                         "V6a": "2001:48a8:687f:1::a:1", "V6c": "2001:48a8:687f:1::c:3"}, "regs": regs}


def handler_cases(ctx, batch, budget):
    rng = ctx.rng
    cases = []
    n = [0]

    def add(st, cuts=(), dst="P1", geo=None, **kw):
        n[0] += 1
        k = geo if geo is not None else rng.choice([1, 1, 1, 2, 2, 3, 4])
        ip = "10.%d.%d.%d" % (k, (batch * 8 + n[0] // 250) % 250 + 1, n[0] % 250 + 1)
        cases.append(cc.case("x04-b%d-%d" % (batch, n[0]), dst, st, cuts, src_ip=ip, **kw))

    def rcuts(L, k):
        return [rng.randrange(1, L) for _ in range(k)] if L >= 2 else []

    for geo in (1, 2, 3, 4, 5, 6):
        # nothing sent: timeout in created / peer close in created
        add(cc.stream(gen="random", len=0), dst="P1", geo=geo)
        add(cc.stream(gen="random", len=0), dst="P1", geo=geo, peer_close=True)
        # nothing registered on the phantom: drain until the deadline / until the peer closes
        add(cc.stream(gen="random", len=200), rcuts(200, 2), dst="P0", geo=geo)
        add(cc.stream(gen="random", len=50), dst="V6c", geo=geo, peer_close=True)
        # a genuine flight: found
        add(cc.stream(**{"from": "rmin", "early": 40}), rcuts(60, 1), dst="P1", geo=geo)
    for dst in ("P1", "V6a", "P3"):
        for L in (1, 10, 31, 33, 70, 100, 1000, 9000):
            for pc in (False, True):
                # few bytes: every transport wants more (read state), then timeout / close; many: all give up (discard state)
                add(cc.stream(gen="random", len=L), rcuts(L, rng.choice([0, 1, 3])), dst=dst, peer_close=pc, pace_ms=rng.choice([1, 5, 40]))
    for g in ("http", "tls", "ssh", "zeros", "static:1", "static:4"):
        add(cc.stream(gen=g, len=rng.choice([40, 300, 9000])), rcuts(40, 2), dst=rng.choice(["P1", "V6a"]))
    # matches of every transport, cut into segments (read -> check -> read loops before the match)
    for frm, kw2, dst in (("rmin", {}, "P1"), ("rpx1", {"client_px": 1}, "P1"), ("rpx0", {"client_px": 0}, "P1"), ("robfs", {}, "P1"),
                          ("rmin6", {}, "V6a"), ("rpx6", {"client_px": 4}, "V6a")):
        for k in (0, 1, 3):
            add(cc.stream(**dict({"from": frm, "early": 40, "late": 16 if k else 0}, **kw2)), rcuts(60, k), dst=dst)
    # a prefix flight whose tag is valid but whose prefix id is not the registered one: the transport reports an error
    add(cc.stream(**{"from": "rpx1", "client_px": 0, "early": 20}), dst="P1")
    add(cc.stream(**{"from": "rpx0", "client_px": 1, "early": 20}), [10], dst="P1")
    # tampered / truncated flights
    add(cc.stream(**{"from": "rmin", "flip": 5, "early": 50}), [20], dst="P1")
    add(cc.stream(**{"from": "rmin", "trunc": 31}), [10], dst="P1")
    add(cc.stream(**{"from": "robfs", "flip": 9}), [64], dst="P1")
    while len(cases) < budget:
        L = rng.choice([0, 5, 32, 64, 500, 5000, rng.randrange(1, 12000)])
        add(cc.stream(gen=rng.choice(["random", "random", "http", "static:%d" % rng.choice(list(cc.PLEN))]), len=L),
            rcuts(L, rng.choice([0, 1, 2, 4])), dst=rng.choice(["P0", "P1", "P1", "P3", "V6a", "V6c"]),
            peer_close=rng.random() < 0.4, pace_ms=rng.choice([1, 5, 50, 300]))
    return cases


KEEP = {"SetDeadline": (), "Read": ("n",), "ReadTimeout": (), "ReadEOF": (), "Verdict": ("t", "r"), "Return": ("hung",),
        "Write": (), "Close": (), "Send": (), "PeerClose": (), "Expire": (), "Panic": ()}


def handler_trace(world, cases_by_id, rows):
    """One trace per batch: the connections one after the other (each followed by the real row of its own ASN), then the snapshot."""
    tr, asns, outcomes = [], {"a0"}, {}
    nconn = 0
    famof = lambda r: "v6" if ":" in world["phantoms"][cases_by_id[r["case"]]["dst"]] else "v4"
    users, final = {}, {}
    for r in rows:
        if "case" in r and not r["geo"]["fail"] and r["geo"]["cc"] != "":
            users[(famof(r), r["geo"]["asn"])] = users.get((famof(r), r["geo"]["asn"]), 0) + 1
        elif r.get("kind") == "quiescent":
            final = {(x["fam"], x["asn"]): x for x in r["st"]["tab"]}
    for r in rows:
        if "case" in r:
            cs = cases_by_id[r["case"]]
            geo = r["geo"]
            fam = famof(r)
            asns.add(geo["asn"])
            tr.append({"a": "Start", "case": r["case"], "fam": fam, "asn": geo["asn"], "cc": geo["cc"], "occ": r["occ_real"]})
            for e in r["ev"]:
                if e["a"] not in KEEP:
                    tr.append({"a": "Unknown:" + e["a"]})
                    continue
                tr.append(dict({"a": e["a"]}, **{k: e[k] for k in KEEP[e["a"]]}))
            if users.get((fam, geo["asn"])) == 1:
                row = final.get((fam, geo["asn"]))
                tr.append({"a": "Row", "case": r["case"], "fam": fam, "asn": geo["asn"], "present": row is not None,
                           "cc": row["cc"] if row else "", "n": row["n"] if row else {}})
            nconn += 1
        elif r.get("kind") == "quiescent":
            tr.append({"a": "Quiescent", "st": r["st"], "active": r["active"], "cases": r["cases"]})
    return tr, asns, nconn


def outcome_of(rec):
    """Coarse outcome class of one real connection, from its own event log (evidence only)."""
    ev = [e["a"] for e in rec["ev"]]
    if any(e["a"] == "Verdict" and e["r"] == "match" for e in rec["ev"]):
        return "match"
    if any(e["a"] == "Verdict" and e["r"] == "error" for e in rec["ev"]):
        return "transport-error"
    if "SetDeadline" not in ev:
        return "uncounted"
    if "ReadTimeout" in ev:
        return "timeout"
    if "ReadEOF" in ev:
        return "peer-close"
    return "other"


def handler_go(ctx, thorough):
    """Runs the batches on the real handler; returns (world, traces, asns, nconn, outcomes)."""
    w = handler_world()
    nb = 3 if thorough else 1
    traces, allasns, nconn, outcomes = [], set(), 0, {}
    sample_done = False
    for b in range(nb):
        cases = handler_cases(ctx, b, 400 if thorough else 170)
        inp = os.path.join(ctx.scratch, "x04_handler_in_%d.ndjson" % b)
        outp = os.path.join(ctx.scratch, "x04_handler_out_%d.ndjson" % b)
        with open(inp, "w") as f:
            f.write(json.dumps({"world": w}) + "\n")
            for c in cases:
                f.write(json.dumps(c) + "\n")
        res = go_test(ctx, PKG_APP, APP_FILES, "main", "^TestVerifAcctHandler$", env={"VERIF_IN": inp, "VERIF_OUT": outp, "VERIF_PAR": 450},
                      extra_overlays=APP_BRIDGE, timeout=900)
        rows = ctx.read_results(outp) if os.path.exists(outp) else []
        if not any(r.get("kind") == "summary" for r in rows):
            if crashed(ctx, res, "handler", "the station's connection handling"):
                return None
            raise vlib.InfraError("handler driver did not finish:\n" + res["out"][-3000:])
        byid = {c["id"]: c for c in cases}
        tr, asns, n = handler_trace(w, byid, rows)
        if n != len(cases):
            raise vlib.InfraError("handler driver returned %d of %d cases" % (n, len(cases)))
        traces.append(tr)
        allasns |= asns
        nconn += n
        for r in rows:
            if "case" in r:
                o = outcome_of(r)
                outcomes[o] = outcomes.get(o, 0) + 1
                if not sample_done and o == "match":
                    sample_done = True
                    ctx.sample({"stage": "C1", "case": r["case"], "events": [e["a"] + ("(%s,%s)" % (e["t"], e["r"]) if e["a"] == "Verdict" else "")
                                                                           for e in r["ev"] if e["a"] in ("SetDeadline", "Read", "Verdict", "ReadTimeout", "ReadEOF", "Return")][:24]})
    for need in ("match", "timeout", "peer-close", "transport-error", "uncounted"):
        if outcomes.get(need, 0) == 0:
            raise vlib.InfraError("handler cases cover no %s outcome: %s" % (need, outcomes))
    return traces, allasns, nconn, outcomes


def write_trace_cfg(sdir, asns):
    tmpl = open(os.path.join(sdir, "Trace_Accounting.cfg.tmpl")).read()
    open(os.path.join(sdir, "Trace_Accounting.cfg"), "w").write(tmpl.replace("@ASNS@", ", ".join('"%s"' % a for a in sorted(asns))))


def stage_c_handler(ctx, sdir, hgo):
    if hgo is None:
        return 0
    traces, allasns, nconn, outcomes = hgo
    nb = len(traces)
    write_trace_cfg(sdir, allasns)
    ok, reached, total, r = validate(ctx, sdir, "Trace_Accounting.tla", "Trace_Accounting.cfg", traces, timeout=1500)
    ctx.log("C1: %d connections in %d batches, %d events, accepted=%s reached=%d, outcomes %s" % (nconn, nb, total, ok, reached, outcomes))
    flat = []
    for t in traces:
        flat.append({"a": "Reset"})
        flat += t
    if not ok:
        bad = flat[reached] if reached < len(flat) else None
        # the connection the offending event belongs to
        start = min(reached, len(flat) - 1)
        while start > 0 and flat[start].get("a") not in ("Start", "Reset"):
            start -= 1
        case = flat[start].get("case", "?")
        if r["inv"]:
            ctx.violation("handler:invariant:%s" % r["inv"], "the real handler's event log reaches a state violating %s (connection %s)" % (r["inv"], case),
                          {"case": case, "events": flat[start:reached + 1][:80], "tlc": r["out"][-2000:]})
        elif bad and bad["a"] == "Row":
            ctx.violation("handler:calls-differ", "connection %s: the counter calls the real handler made (its own ASN row: %s) are not the calls of the "
                          "handler steps its event log selects" % (case, json.dumps(bad["n"], sort_keys=True)),
                          {"case": case, "row": bad, "events": flat[start:reached + 1][:80]})
        elif bad and bad["a"] == "Quiescent":
            ctx.violation("handler:counters-differ", "after %d real connections the real connStats / singleton gauge differ from what the handler steps "
                          "selected by the event logs add up to" % bad["cases"], {"snapshot": bad, "tlc": r["out"][-2000:]})
        else:
            ctx.violation("handler:rejected:%s" % (bad or {}).get("a"), "the real handler's event log is not a behaviour of Accounting.tla's handler level at "
                          "event %d %s (connection %s)" % (reached, json.dumps(bad)[:300], case), {"case": case, "events": flat[start:reached + 1][:80]})
    else:
        # binding: one altered counter of the snapshot / one altered verdict must be rejected
        for kind in ("counter", "verdict"):
            bad = copy.deepcopy(traces[:1])
            done = False
            for e in bad[0]:
                if kind == "counter" and e["a"] == "Quiescent":
                    for row in e["st"]["tab"]:
                        if row["n"].get("CheckToFound"):
                            row["n"]["CheckToFound"] += 1
                            done = True
                            break
                if kind == "verdict" and e["a"] == "Verdict" and e["r"] == "match":
                    e["r"] = "not"
                    done = True
                if done:
                    break
            if not done:
                raise vlib.InfraError("nothing to corrupt for the binding demonstration (%s)" % kind)
            ok2, reached2, _, _ = validate(ctx, sdir, "Trace_Accounting.tla", "Trace_Accounting.cfg", bad, timeout=900)
            if ok2:
                raise vlib.InfraError("binding is vacuous: handler trace with a corrupted %s accepted" % kind)
            ctx.stage("C1", **{"corrupted_%s_rejected_at" % kind: reached2})
    ctx.stage("C1", connections=nconn, batches=nb, events=total, accepted=ok, outcomes=outcomes, asn_rows=len(allasns))
    return nconn


def hammer_go(ctx, thorough):
    outp = os.path.join(ctx.scratch, "acct_hammer.ndjson")
    res = go_test(ctx, PKG_APP, APP_FILES, "main", "^TestVerifAcctHammer$", extra_overlays=APP_BRIDGE, timeout=600,
                  env={"VERIF_OUT": outp, "VERIF_ROUNDS": 30 if thorough else 9, "VERIF_CONNS": 6000 if thorough else 3000})
    st = ctx.stall_sites(res)
    if st:
        ctx.violation("connstats:hammer:deadlock:%s" % "+".join(st), "PrintAndReset racing with counter calls hung in %s" % ", ".join(st), {"dump": res["out"][-5000:]})
        return []
    if crashed(ctx, res, "connstats:hammer", "connStats under concurrent counter calls and PrintAndReset"):
        return []
    rows = ctx.read_results(outp)
    if not rows:
        raise vlib.InfraError("hammer produced nothing:\n" + res["out"][-3000:])
    return rows


def stage_c_hammer(ctx, sdir, rows):
    if not rows:
        return 0
    keys = ("ev", "rep", "cur", "eva", "repa", "cura", "inflight")
    traces = [[dict({"a": "Ledger"}, **{k: r[k] for k in keys})] for r in rows]
    write_trace_cfg(sdir, {"a0"})
    ok, reached, total, r = validate(ctx, sdir, "Trace_Accounting.tla", "Trace_Accounting.cfg", traces, timeout=600)
    unreported = sum(x["unreported"] for x in rows)
    events = sum(sum(x["ev"][f][o] for f in ("v4", "v6") for o in ("found", "reset", "timeout", "closed", "err")) for x in rows)
    ctx.log("C2: %d rounds, %d outcome events, %d prints, accepted=%s; %d outcome events unreported (the as_found lost-update / silent-epoch windows)"
            % (len(rows), events, sum(x["prints"] for x in rows), ok, unreported))
    if not ok:
        i = max(0, min(len(rows) - 1, (reached - 1) // 2))
        ctx.violation("connstats:hammer:ledger", "a real concurrent run does not balance at quiescence (round %d): gauges vs in-flight, reported + current vs "
                      "events, per-ASN rows" % rows[i]["round"], rows[i])
    for x in rows:
        if x["gauge_min"] < 0 or x["gauge_max"] > x["goroutines"]:
            ctx.violation("connstats:hammer:gauge-range", "a family-wide gauge left [0, %d] during a concurrent run: min %d max %d"
                          % (x["goroutines"], x["gauge_min"], x["gauge_max"]), x)
        if x["unparsable"]:
            ctx.violation("connstats:hammer:unparsable-line", "PrintAndReset wrote %d lines that are not in the documented format" % x["unparsable"], x)
    if ok:
        bad = copy.deepcopy(traces[:1])
        bad[0][0]["repa"]["v4"]["found"] += 1
        ok2, _, _, _ = validate(ctx, sdir, "Trace_Accounting.tla", "Trace_Accounting.cfg", bad, timeout=300)
        if ok2:
            raise vlib.InfraError("binding is vacuous: corrupted ledger accepted")
    ctx.stage("C2", connstats=dict(rounds=len(rows), outcome_events=events, prints=sum(x["prints"] for x in rows), rows_printed=sum(x["rows"] for x in rows),
                                   accepted=ok, unreported_outcomes=unreported, gauge_max=max(x["gauge_max"] for x in rows)))
    return len(rows)


# ------------------------------------------------------------------------------------------------ Stats / RegistrationStats
REG_DIVERGENCES = [("MC_RegAccounting_div_lost.cfg", "LedgerPrinted", "R1 an update between a line's loads and Reset() is lost (Stats and RegistrationStats)"),
                   ("MC_RegAccounting_div_unprinted.cfg", "Ledger", "R2 newBlocklistedPhantomReg is reset but printed nowhere"),
                   ("MC_RegAccounting_div_outcome.cfg", "RegConservation", "R3 live-phantom and validation drops reach no counter of RegistrationStats"),
                   ("MC_RegAccounting_div_epochs.cfg", "CrossObject", "R4 RegistrationStats is reset two log lines before Stats: their epochs differ")]
REG_DIVERGENCES.insert(1, ("MC_RegAccounting_div_maps.cfg", "MapLedger", "R1 (maps) a registration counted between the map listings and their replacement is lost"))
REG_BROKEN = [("MC_RegAccounting_broken_gauge.cfg", "ActiveExact"), ("MC_RegAccounting_broken_new.cfg", "Breakdowns")]


def stage_a_reg(ctx, sdir, thorough):
    cfgs = [("MC_RegAccounting_thorough.cfg", "as_found, both families") if thorough else ("MC_RegAccounting.cfg", "as_found, two registrations"),
            ("MC_RegAccounting_epochs.cfg", "as_found, three prints"), ("MC_RegAccounting_intended.cfg", "intended")]
    if thorough:
        cfgs.append(("MC_RegAccounting_thorough2.cfg", "as_found, two registrations, two prints"))
    for cfg, what in cfgs:
        mc_ok(ctx, sdir, "RegAccounting.tla", cfg, "RegAccounting " + what)
    ctx.stage("A", reg_invariants_as_found=["TypeOK", "ActiveExact", "TotalsExact", "Breakdowns", "NoDoubleCount", "PrintKeepsGauges"],
              reg_invariants_intended=["Ledger", "MapLedger", "RegConservation", "CrossObject"])


def gen_reg(ctx, sdir, thorough):
    runs = []
    for tag, cfg in (("exh1", "Gen_RegAccounting_exh1.cfg"), ("exh2", "Gen_RegAccounting_exh2t.cfg" if thorough else "Gen_RegAccounting_exh2.cfg")):
        g = tlc(ctx, sdir, "Gen_RegAccounting.tla", cfg, timeout=1500, workers=4, count=False)
        if g["inv"]:
            raise vlib.InfraError("generator %s failed: %s" % (cfg, g["out"][-1500:]))
        runs.append((tag, g))
    s = tlc(ctx, sdir, "Gen_RegAccounting.tla", "Gen_RegAccounting_sim.cfg", timeout=1500, workers=2, count=False,
            simulate="num=%d" % (500 if thorough else 100), depth=41, deadlock=False, extra=["-seed", str(ctx.seed)])
    runs.append(("sim", s))
    beh = os.path.join(ctx.scratch, "regacct_beh.ndjson")
    n = merge_behaviours(ctx, runs, beh)
    ctx.log("B: Stats / RegistrationStats behaviours %s" % n)
    if n["exh1"] < 500 or n["exh2"] < 1000 or n["sim"] < 50:
        raise vlib.InfraError("too few behaviours generated: %s" % n)
    return beh, n


def stage_b_reg(ctx, gen):
    beh, n = gen
    outp = os.path.join(ctx.scratch, "regacct_replay.ndjson")
    res = go_test(ctx, PKG_LIB, LIB_FILES, "lib", "^TestVerifRegAcctReplay$", env={"VERIF_IN": beh, "VERIF_OUT": outp}, timeout=900)
    st = ctx.stall_sites(res)
    if st:
        ctx.violation("regstats:replay:deadlock:%s" % "+".join(st), "replaying a specification behaviour on the real Stats / RegistrationStats hung in %s"
                      % ", ".join(st), {"dump": res["out"][-5000:]})
        return 0
    rows = ctx.read_results(outp)
    summ = [x for x in rows if x.get("kind") == "summary"]
    if not summ:
        if crashed(ctx, res, "regstats:replay", "the real Stats / RegistrationStats while replaying a specification behaviour"):
            return 0
        raise vlib.InfraError("Stats / RegistrationStats replay driver did not finish:\n" + res["out"][-3000:])
    summ = summ[0]
    for m in [x for x in rows if x.get("kind") == "mismatch"]:
        d = diff_fields(m["want"], m["got"])
        ctx.violation("regstats:replay:%s:%s" % (m["want"].get("o") or m["want"].get("a"), "+".join(d)),
                      "real Stats / RegistrationStats diverge from RegAccounting.tla (as_found) after %s (fields %s)" % (" ; ".join(m["ops"]), d), m)
    if summ["calls_inside_print"] == 0:
        raise vlib.InfraError("no behaviour places a counter call inside PrintStats: stage B is vacuous")
    with open(beh) as f:
        for i, line in enumerate(f):
            if i == 1000:
                ctx.sample({"stage": "B", "object": "Stats+RegistrationStats", "behaviour": [x["a"] + ("(%s)" % x["o"] if "o" in x else "") for x in json.loads(line)]})
                break
    ctx.log("B: Stats / RegistrationStats replay: %d behaviours, %d steps, %d mismatches" % (summ["behaviours"], summ["steps"], summ["mismatches"]))
    ctx.stage("B", regstats=dict(behaviours=summ["behaviours"], steps=summ["steps"], mismatches=summ["mismatches"],
                                 calls_inside_print=summ["calls_inside_print"], **n))
    return summ["behaviours"]


def reg_hammer_go(ctx, thorough):
    outp = os.path.join(ctx.scratch, "regacct_hammer.ndjson")
    res = go_test(ctx, PKG_LIB, LIB_FILES, "lib", "^TestVerifRegAcctHammer$", timeout=600,
                  env={"VERIF_OUT": outp, "VERIF_ROUNDS": 24 if thorough else 8, "VERIF_REGS": 6000 if thorough else 3000})
    st = ctx.stall_sites(res)
    if st:
        ctx.violation("regstats:hammer:deadlock:%s" % "+".join(st), "PrintStats racing with counter calls hung in %s" % ", ".join(st), {"dump": res["out"][-5000:]})
        return []
    if crashed(ctx, res, "regstats:hammer", "Stats / RegistrationStats under concurrent counter calls and PrintStats"):
        return []
    rows = ctx.read_results(outp)
    if not rows:
        raise vlib.InfraError("registration hammer produced nothing:\n" + res["out"][-3000:])
    return rows


def stage_c_reg(ctx, sdir, rows):
    if not rows:
        return 0
    keys = ("ev", "evc", "rep", "fin", "cur", "inflight")
    traces = [[dict({"a": "Ledger"}, **{k: r[k] for k in keys})] for r in rows]
    ok, reached, total, r = validate(ctx, sdir, "Trace_RegAccounting.tla", "Trace_RegAccounting.cfg", traces, timeout=600)
    unreported = sum(x["unreported"] for x in rows)
    events = sum(sum(x["evc"].values()) for x in rows)
    ctx.log("C2: registration ledgers: %d rounds, %d audited events, %d prints, accepted=%s; %d events unreported (as_found windows)"
            % (len(rows), events, sum(x["prints"] for x in rows), ok, unreported))
    if not ok:
        i = max(0, min(len(rows) - 1, (reached - 1) // 2))
        ctx.violation("regstats:hammer:ledger", "a real concurrent run of Stats / RegistrationStats does not balance at quiescence (round %d): gauges vs valid "
                      "registrations, totals vs messages, reported + current vs events" % rows[i]["round"], rows[i])
    for x in rows:
        if x["unparsable"]:
            ctx.violation("regstats:hammer:unparsable-line", "PrintStats wrote %d lines that are not in the documented format" % x["unparsable"], x)
    if ok:
        bad = copy.deepcopy(traces[:1])
        bad[0][0]["cur"]["sgen_sum"] += 1
        ok2, _, _, _ = validate(ctx, sdir, "Trace_RegAccounting.tla", "Trace_RegAccounting.cfg", bad, timeout=300)
        if ok2:
            raise vlib.InfraError("binding is vacuous: corrupted registration ledger accepted")
    ctx.stage("C2", regstats=dict(rounds=len(rows), audited_events=events, prints=sum(x["prints"] for x in rows), accepted=ok, unreported_events=unreported))
    return len(rows)


def run(ctx):
    thorough = ctx.tier == "thorough"
    sd = {k: ctx.spec_copy("Accounting") for k in ("a_conn", "a_reg", "nv", "gen_conn", "gen_reg", "c1", "c2", "c2reg")}
    # TLC work and `go test` work overlap: the go lane (serialised by a lock) starts with the longest job, the real handler
    with ThreadPoolExecutor(max_workers=8) as pool:
        f_hgo = pool.submit(handler_go, ctx, thorough)                       # app lane: 5-10 s classification deadlines, mostly idle
        f_gconn = pool.submit(gen_conn, ctx, sd["gen_conn"], thorough)
        f_greg = pool.submit(gen_reg, ctx, sd["gen_reg"], thorough)
        f_aconn = pool.submit(stage_a_conn, ctx, sd["a_conn"], thorough)
        f_areg = pool.submit(stage_a_reg, ctx, sd["a_reg"], thorough)
        f_nv = pool.submit(stage_a_nonvacuity, ctx, sd["nv"])

        def lib_lane():
            n = stage_b_reg(ctx, f_greg.result())
            return n, stage_c_reg(ctx, sd["c2reg"], reg_hammer_go(ctx, thorough))
        f_lib = pool.submit(lib_lane)
        nbeh, nontrivial = stage_b_conn(ctx, f_gconn.result())
        f_c2 = pool.submit(stage_c_hammer, ctx, sd["c2"], hammer_go(ctx, thorough))
        nconn = stage_c_handler(ctx, sd["c1"], f_hgo.result())
        nbeh_reg, nled_reg = f_lib.result()
        nled = f_c2.result() + nled_reg
        for f in (f_aconn, f_areg, f_nv):
            f.result()
    nbeh += nbeh_reg
    ctx.cov["traces_validated_against_impl"] = nconn + nled
    ctx.cov["evaluations"] = nbeh + nconn + nled
    ctx.cov["distinct_nontrivial"] = nontrivial
    ctx.cov["exhaustive"] = False
    ctx.cov["rule"] = ("stage B behaviours are distinct by construction (de-duplicated); non-trivial = a counter call is placed between a printed "
                       "line's loads and reset(); stage C connections / ledgers counted separately")
    ctx.assumptions += [
        "a transition method's family-wide atomics are one step (the code issues 4-5 separate atomic adds; a reset() store between them is not modelled)",
        "PrintAndReset is parked only on the family lines; the per-ASN rows, reset() and the unlock are one step",
        "connecting-transport calls are not placed inside a parked PrintAndReset; the non-atomic struct assignment in resetConnecting (a data race "
        "with the atomic adds) is not modelled",
        "handler level: the GeoIP answers come from a stub keyed by the peer address; transports and registrations are the real ones",
    ]
    ctx.notes += ["divergences of the code from the intended variant (reported, not violations): " + "; ".join(w for _, _, w in DIVERGENCES)
                  + "; " + "; ".join(w for _, _, w in REG_DIVERGENCES) + "; D5 every conn-stats-verbose row prints c.ipv6.numNewConns / numResolved, IPv4 rows too; D7 a peer close after the first byte is "
                  "filed as ReadToError (no readToClose)"]
