SPECIFICATION Spec
CONSTANTS
  CfgNames = {"lead0"}
  LibVers = {0, 1, 2}
  Fams = {4, 6}
  NSel = 1
  Mode = "enum"
  ProcSeedKs = {}
  RNG = "local"
  AddrBytes = "minimal"
  NetBase = "masked"
  DerivedMode = "once"
VIEW view
INVARIANTS TypeOK Contained WellFormed
CHECK_DEADLOCK FALSE
