SPECIFICATION Spec
CONSTANTS
  Profile = "parse"
  Defects = {}
  Broken = {}
INVARIANTS TypeOK ShareExact I_FieldsInRange I_DeadLinesDoNotDilute ParseAgreesWithGrammar NothingInvented MalformedRejects I_NoSilentTruncation I_MalformedNumberRejects I_BlankLinesIgnored
PROPERTIES RejectedLoadChangesNothing
CHECK_DEADLOCK FALSE
