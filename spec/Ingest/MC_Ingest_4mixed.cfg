SPECIFICATION Spec
CONSTANTS
  Scenario = "4mixed"
  Protocol = "atomic"
  SweepRecheck = TRUE
  ShareEnabled = TRUE
  ShareMode = "detached"
  ReloadProtocol = "snapshot"
VIEW view
INVARIANTS Serializable NoCrash VisibleOnlyAfterValidate AnnounceOnce ShareOnce
PROPERTY Terminates
CHECK_DEADLOCK FALSE
