//go:build verif

package responder

// C15 - the DNS channel end to end (spec/Codec: Labels, Exchange).
//   Labels    the real requester's query encoder (DNSPacketConn.send, through the overlay bridge) against the real
//             responder's decoder (responseFor), every payload length up to beyond the longest name, several domains
//   Exchange  requester.RequestAndRecv <-> Responder.RecvAndRespond over a loopback UDP socket with fresh Noise keys

import (
	"bytes"
	"crypto/sha256"
	"encoding/json"
	"fmt"
	"io"
	"log"
	"math/rand"
	"strings"
	"sync"
	"testing"
	"time"

	"github.com/refraction-networking/conjure/pkg/registrars/dns-registrar/dns"
	"github.com/refraction-networking/conjure/pkg/registrars/dns-registrar/encryption"
	"github.com/refraction-networking/conjure/pkg/registrars/dns-registrar/requester"
)

type vExCase struct {
	A         string `json:"a"`
	N         int    `json:"n"`
	Dom       []int  `json:"dom"`
	Accept    bool   `json:"accept"`
	NLabels   int    `json:"nlabels"`
	NameLen   int    `json:"name_len"`
	LastLabel int    `json:"last_label"`
	NReq      int    `json:"nreq"`
	NResp     int    `json:"nresp"`
	Outcome   string `json:"outcome"`
}

func vDomain(shape []int) string {
	if len(shape) == 0 {
		return "."
	}
	known := map[string]string{"[1 7 3]": "t.example.com", "[1 10 7]": "r.refraction.network"}
	if s, ok := known[fmt.Sprint(shape)]; ok {
		return s
	}
	parts := []string{}
	for i, l := range shape {
		parts = append(parts, strings.Repeat(string(rune('a'+i)), l))
	}
	return strings.Join(parts, ".")
}

func vKey(what string, i int) []byte {
	h := sha256.Sum256([]byte(fmt.Sprintf("verif-c15-%s-%d-%d", what, vSeed(), i)))
	return h[:]
}

func TestVerifCodecExchange(t *testing.T) {
	o := vOpenOut(t)
	defer o.Close()
	log.SetOutput(io.Discard)
	rng := rand.New(rand.NewSource(vSeed()))
	classes := map[string]bool{}
	n := 0
	bad := func(key, what string, c any, got any) {
		o.Emit(map[string]any{"kind": "mismatch", "key": key, "what": what, "case": c, "got": got})
	}
	var labels, exchanges []vExCase
	vReadLines(t, func(line []byte) {
		var c vExCase
		if err := json.Unmarshal(line, &c); err != nil {
			t.Fatalf("bad case: %v", err)
		}
		if c.A == "Labels" {
			labels = append(labels, c)
		} else if c.A == "Exchange" {
			exchanges = append(exchanges, c)
		}
	})

	// ---- Labels: requester encoder -> responder decoder
	r := &Responder{maxUDPPayload: 1280 - 40 - 8}
	for _, c := range labels {
		n++
		domain, err := dns.ParseName(vDomain(c.Dom))
		if err != nil {
			t.Fatalf("domain %v: %v", c.Dom, err)
		}
		p := make([]byte, c.N)
		rng.Read(p)
		text := (8*c.N + 4) / 5
		rel := "<name-limit"
		if !c.Accept {
			rel = ">name-limit"
		} else if c.NameLen >= 254 {
			rel = fmt.Sprintf("name=%d", c.NameLen)
		}
		classes[fmt.Sprintf("labels:dom%d,%dlabels,last=%s,%s", len(c.Dom), c.NLabels, map[bool]string{true: "63", false: "<63"}[c.LastLabel == 63], rel)] = true
		func() {
			defer func() {
				if x := recover(); x != nil {
					bad("labels:panic", fmt.Sprint(x), c, nil)
				}
			}()
			buf, err := requester.VerifSend(domain, p)
			if (err == nil) != c.Accept {
				if err == nil {
					bad("labels:send:accepts-unrepresentable", fmt.Sprintf("send encodes a %d-byte packet (%d text characters) under %s although the name exceeds 255 octets", c.N, text, vDomain(c.Dom)), c, nil)
				} else {
					bad("labels:send:rejects-representable", fmt.Sprintf("send rejects a %d-byte packet under %s: %v", c.N, vDomain(c.Dom), err), c, nil)
				}
				return
			}
			if err != nil {
				return
			}
			q, perr := dns.MessageFromWireFormat(buf)
			if perr != nil || len(q.Question) != 1 {
				bad("labels:query-unparseable", fmt.Sprint(perr), c, nil)
				return
			}
			name := q.Question[0].Name
			nl, last, tot := len(name)-len(domain), 0, 1
			for _, l := range name {
				tot += 1 + len(l)
			}
			if nl > 0 {
				last = len(name[nl-1])
			}
			if nl != c.NLabels || last != c.LastLabel || tot != c.NameLen {
				bad("labels:shape", fmt.Sprintf("%d data labels, last %d, name %d octets; specification %d / %d / %d", nl, last, tot, c.NLabels, c.LastLabel, c.NameLen), c, nil)
			}
			resp, payload := r.responseFor(&q, domain)
			if resp == nil || resp.Rcode() != dns.RcodeNoError {
				bad("labels:responder-rejects-query", fmt.Sprintf("rcode %v", resp), c, nil)
				return
			}
			if !bytes.Equal(payload, p) {
				bad("labels:roundtrip", fmt.Sprintf("responder decodes %d bytes from a %d-byte packet", len(payload), len(p)), c, nil)
			}
			// resolvers may randomise the case of the query name (0x20 encoding): decoding must not depend on it
			for _, l := range q.Question[0].Name {
				for i := range l {
					if rng.Intn(2) == 0 && l[i] >= 'a' && l[i] <= 'z' {
						l[i] -= 32
					}
				}
			}
			if _, payload2 := r.responseFor(&q, domain); !bytes.Equal(payload2, p) {
				bad("labels:roundtrip-mixed-case", "payload differs after case randomisation of the query name", c, nil)
			}
		}()
	}

	// ---- Exchange over loopback UDP
	type srv struct {
		resp   *Responder
		req    *requester.Requester
		mu     sync.Mutex
		seen   [][]byte
		answer []byte
	}
	servers := map[string]*srv{}
	keyN := 0
	start := func(dom string) *srv {
		keyN++
		priv := vKey("noise", keyN)
		rs, err := NewDnsResponder(dom, "127.0.0.1:0", priv)
		if err != nil {
			t.Fatalf("responder: %v", err)
		}
		s := &srv{resp: rs}
		go rs.RecvAndRespond(func(b []byte) ([]byte, error) {
			s.mu.Lock()
			defer s.mu.Unlock()
			s.seen = append(s.seen, append([]byte(nil), b...))
			return s.answer, nil
		})
		rq, err := requester.NewRequester(&requester.Config{TransportMethod: requester.UDP, Target: rs.transport.LocalAddr().String(),
			BaseDomain: dom, Pubkey: encryption.PubkeyFromPrivkey(priv)})
		if err != nil {
			t.Fatalf("requester: %v", err)
		}
		s.req = rq
		return s
	}
	defer func() {
		for _, s := range servers {
			s.resp.Close()
		}
	}()
	okTimeouts := 0
	for _, c := range exchanges {
		if okTimeouts >= 8 {
			// the channel is broken (reported below for each of these cases); do not wait out a thousand time-outs
			bad("exchange:aborted", "exchange phase stopped after repeated time-outs of exchanges that must succeed", nil, nil)
			break
		}
		n++
		dom := vDomain(c.Dom)
		classes["exchange:"+c.Outcome+fmt.Sprintf(":dom%d", len(dom))] = true
		for attempt := 0; ; attempt++ {
			s := servers[dom]
			if s == nil {
				s = start(dom)
				servers[dom] = s
			}
			reqp, respp := make([]byte, c.NReq), make([]byte, c.NResp)
			rng.Read(reqp)
			rng.Read(respp)
			s.mu.Lock()
			s.seen, s.answer = nil, respp
			s.mu.Unlock()
			type res struct {
				b   []byte
				err error
			}
			ch := make(chan res, 1)
			go func() {
				defer func() {
					if x := recover(); x != nil {
						ch <- res{nil, fmt.Errorf("PANIC: %v", x)}
					}
				}()
				b, err := s.req.RequestAndRecv(reqp)
				ch <- res{b, err}
			}()
			var got res
			timedOut := false
			// generous one-sided bounds (a loopback exchange takes about a millisecond): 2 s, then 8 s on the retry
			wait := 2 * time.Second
			if attempt > 0 {
				wait = 8 * time.Second
			}
			if c.Outcome == "request: frame error" {
				wait = time.Second // no network involved: the error is returned synchronously
			} else if c.Outcome == "request: name error" {
				wait = 250 * time.Millisecond // only looks whether anything reaches the responder
			}
			select {
			case got = <-ch:
			case <-time.After(wait):
				timedOut = true
				// this requester is blocked for good: abandon it (and its responder) and start afresh next time
				delete(servers, dom)
				s.resp.Close()
			}
			s.mu.Lock()
			seen := s.seen
			s.mu.Unlock()
			if got.err != nil && strings.HasPrefix(got.err.Error(), "PANIC") {
				bad("exchange:panic", got.err.Error(), c, nil)
				break
			}
			obs := map[string]any{"timed_out": timedOut, "err": fmt.Sprint(got.err), "resp_len": len(got.b), "callback_calls": len(seen)}
			switch c.Outcome {
			case "ok":
				if timedOut && attempt == 0 {
					continue // a lost datagram: retry once
				}
				if timedOut {
					okTimeouts++
				}
				if timedOut || got.err != nil {
					bad("exchange:ok-expected:failed", fmt.Sprintf("request %d / response %d bytes under %s: timeout=%v err=%v", c.NReq, c.NResp, dom, timedOut, got.err), c, obs)
				} else {
					if len(seen) != 1 || !bytes.Equal(seen[0], reqp) {
						bad("exchange:request-altered", fmt.Sprintf("responder callback saw %d call(s); payload equal: %v", len(seen), len(seen) == 1 && bytes.Equal(seen[0], reqp)), c, obs)
					}
					if !bytes.Equal(got.b, respp) {
						bad("exchange:response-altered", fmt.Sprintf("requester received %d bytes for a %d-byte response", len(got.b), len(respp)), c, obs)
					}
				}
			case "response: dropped, requester gets an error":
				if timedOut && attempt == 0 {
					continue
				}
				if !timedOut && got.err == nil {
					bad("exchange:oversized-response:no-error", fmt.Sprintf("response of %d bytes cannot fit one datagram, yet RequestAndRecv returned %d bytes without error (equal: %v)",
						c.NResp, len(got.b), bytes.Equal(got.b, respp)), c, obs)
				} else if timedOut {
					okTimeouts++
					bad("exchange:oversized-response:hang", "no error and no response", c, obs)
				} else if len(seen) == 1 && !bytes.Equal(seen[0], reqp) {
					bad("exchange:request-altered", "responder callback saw a different request", c, obs)
				}
			case "request: frame error":
				// the Noise message does not fit the one-byte length prefix: RequestAndRecv must return an error
				if len(seen) > 0 && !bytes.Equal(seen[0], reqp) {
					bad("exchange:request-altered", "responder callback saw a different request", c, obs)
				} else if timedOut || got.err == nil {
					bad("exchange:request-too-long-for-frame:no-error",
						fmt.Sprintf("a %d-byte request (Noise message %d bytes) does not fit the one-byte length prefix; RequestAndRecv returns no error (timeout=%v): "+
							"the frame is built with a truncated length and silently dropped", c.NReq, c.NReq+48, timedOut), c, obs)
				}
			case "request: name error":
				// the query encoder rejects the packet (checked at unit level above: send returns ErrNameTooLong); its
				// caller only logs the error, so all that is required here is that nothing altered reaches the responder
				if len(seen) > 0 {
					bad("exchange:request-altered", fmt.Sprintf("a request that does not fit a DNS name reached the responder (%d bytes, equal: %v)", len(seen[0]), bytes.Equal(seen[0], reqp)), c, obs)
				}
			}
			break
		}
	}
	cl := []string{}
	for k := range classes {
		cl = append(cl, k)
	}
	o.Emit(map[string]any{"kind": "summary", "driver": "exchange", "evaluations": n, "classes": cl})
}
