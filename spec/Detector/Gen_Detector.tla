---------------------------- MODULE Gen_Detector ----------------------------
(* Histories for the lifetime stage of C10: validations, duplicate deliveries, activations and the passing of time (in seconds, steps
   that never land exactly on an expiry) over two registrations; simulated.  Each behaviour is printed as the list of operations. *)
EXTENDS Detector, Json
CONSTANT Depth
VARIABLE hist
GR(id, fam, reg) == [id |-> id, fam |-> fam, phantom |-> id, registrant |-> reg, client |-> IF reg = "v6" THEN "c6" ELSE "c4", proto |-> "tcp", port |-> 443]
GenRegs == {GR("a", "v4", "v4"), GR("b", "v6", "v6")}
GenInit == Init /\ hist = <<>>
GenNext == /\ Len(hist) < Depth
           /\ (\E r \in Regs : Validate(r) \/ Activate(r) \/ Duplicate(r)) \/ (\E d \in TickSteps : TickBy(d)) \/ Packets \/ Crash \/ Shutdown
           /\ hist' = Append(hist, [a |-> obs'.a, id |-> IF "id" \in DOMAIN obs' THEN obs'.id ELSE "-",
                                     op |-> IF obs'.a = "Publish" THEN obs'.msg.op ELSE "-", d |-> IF obs'.a = "Tick" THEN obs'.d ELSE 0])
GenSpec == GenInit /\ [][GenNext]_<<vars, hist>>
Emit == Len(hist) < Depth \/ PrintT(ToJson(hist))
=============================================================================
