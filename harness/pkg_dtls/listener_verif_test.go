//go:build verif

package dtls

// Conformance driver for spec/DtlsListener (property C16, listener part).
//
//   TestVerifListenerScenarios   stage B + C.  Every input line is the external part of one TLC behaviour of
//       Gen_DtlsListener: which acceptors / dialers take part, with which secrets (distinct, equal,
//       unregistered, forged), in which order the calls are issued (q = 0: back to back, q > 0: after a pause)
//       and where cancellations fall.  It is run against a real Listener on a loopback UDP socket with the real
//       DialWithContext / AcceptWithContext.  The invariants are checked on whatever order the real handshakes
//       then took: every accepted connection carries a secret-tagged message from its dialer, and after all calls
//       returned connMap / connToCert are read in-package.  The start / end of every call is logged (one mutex,
//       start before the call, return after it) as a trace for Trace_DtlsListener.
//
// A "forged" dialer replays the hello-random of one secret with certificates derived from another secret and
// does not verify the server (it is built here from the same pion/dtls calls dial.go uses).

import (
	"context"
	"crypto/tls"
	"encoding/json"
	"errors"
	"fmt"
	"net"
	"strings"
	"sync"
	"sync/atomic"
	"testing"
	"time"

	"github.com/pion/dtls/v2"
	"github.com/pion/dtls/v2/pkg/protocol/handshake"
)

type vlAct struct {
	A string `json:"a"`
	P string `json:"p"`
	S string `json:"s,omitempty"`
	C string `json:"c,omitempty"`
	Q int    `json:"q"`
}

type vlLog struct {
	mu  sync.Mutex
	evs []map[string]any
}

func (l *vlLog) add(ev map[string]any) {
	l.mu.Lock()
	l.evs = append(l.evs, ev)
	l.mu.Unlock()
}

func vlForgedDial(ctx context.Context, addr *net.UDPAddr, randomSecret, certSecret []byte) (net.Conn, error) {
	conn, err := net.DialUDP("udp", nil, addr)
	if err != nil {
		return nil, err
	}
	clientCert, _, err := certsFromSeed(certSecret)
	if err != nil {
		return nil, err
	}
	rnd, err := clientHelloRandomFromSeed(randomSecret)
	if err != nil {
		return nil, err
	}
	conf := &dtls.Config{
		Certificates:            []tls.Certificate{*clientCert},
		ExtendedMasterSecret:    dtls.RequireExtendedMasterSecret,
		CustomClientHelloRandom: func() [handshake.RandomBytesLength]byte { return rnd },
		InsecureSkipVerify:      true, // the forger does not care who answers
	}
	dconn, err := dtls.ClientWithContext(ctx, conn, conf)
	if err != nil {
		conn.Close()
		return nil, err
	}
	return dconn, nil
}

// vlReadTag reads one tagged message without relying on read deadlines (an accepted connection's deadline is
// overwritten by the heartbeat receiver)
func vlReadTag(c net.Conn, d time.Duration) string {
	ch := make(chan string, 1)
	go func() {
		buf := make([]byte, 256)
		n, err := c.Read(buf)
		if err != nil && n == 0 {
			ch <- ""
			return
		}
		ch <- string(buf[:n])
	}()
	select {
	case s := <-ch:
		return s
	case <-time.After(d):
		return ""
	}
}

type vlResult struct {
	Events   []map[string]any  `json:"events"`
	Viol     []map[string]any  `json:"viol"`
	Expect   []map[string]any  `json:"expect"`  // liveness-style expectations that failed (retried by the caller)
	Checked  []string          `json:"checked"` // liveness-style expectations that applied to this run
	Outcomes map[string]string `json:"outcomes"`
	NChan    int               `json:"nchan"`
	NCert    int               `json:"ncert"`
	Stuck    bool              `json:"stuck"`
	WallMs   int64             `json:"wall_ms"`
}

var vlAuthFail, vlOther atomic.Int64

// vlListen opens a real Listener on a loopback UDP socket.  Listeners are shared by the scenarios that run
// concurrently (every scenario derives its own secrets) and are never closed: closing the pion/transport UDP
// listener while packets are in flight can panic inside that library ("WaitGroup is reused"), which is outside
// this property.
func vlListen() (*Listener, error) {
	return Listen("udp", &net.UDPAddr{IP: net.ParseIP("127.0.0.1"), Port: 0},
		&Config{LogAuthFail: func(*net.IP) { vlAuthFail.Add(1) }, LogOther: func(*net.IP) { vlOther.Add(1) }})
}

func vlRun(l *Listener, idx int, acts []vlAct, gap time.Duration) vlResult {
	t0 := time.Now()
	res := vlResult{Outcomes: map[string]string{}}
	addr := l.Addr().(*net.UDPAddr)
	secret := func(s string) []byte { return vSecret(fmt.Sprintf("%s/scenario%d", s, idx)) }
	log := &vlLog{}
	var wg sync.WaitGroup
	var mu sync.Mutex
	cancels := map[string]context.CancelFunc{}
	asec, drs, dcs := map[string]string{}, map[string]string{}, map[string]string{}
	aout, apeer, dok := map[string]string{}, map[string]string{}, map[string]bool{}
	astart, dstart, aend := map[string]time.Time{}, map[string]time.Time{}, map[string]time.Time{}
	acancelled := map[string]time.Time{}
	var conns []net.Conn
	keep := func(c net.Conn) {
		mu.Lock()
		conns = append(conns, c)
		mu.Unlock()
	}
	for _, act := range acts {
		if act.Q > 0 {
			time.Sleep(gap)
		}
		switch act.A {
		case "AcceptStart":
			a, s := act.P, act.S
			ctx, cancel := context.WithTimeout(context.Background(), 4*time.Second)
			mu.Lock()
			cancels[a], asec[a], astart[a] = cancel, s, time.Now()
			mu.Unlock()
			log.add(map[string]any{"a": "AcceptStart", "p": a, "s": s})
			wg.Add(1)
			go func() {
				defer wg.Done()
				conn, err := l.AcceptWithContext(ctx, &Config{PSK: secret(s), SCTP: ServerAccept})
				ended := time.Now()
				out, peer := "", ""
				switch {
				case err == nil && conn != nil:
					out = "conn"
					keep(conn)
					tag := vlReadTag(conn, 2*time.Second)
					peer = "?"
					if f := strings.Split(tag, "|"); len(f) == 4 {
						peer = f[0]
						mu.Lock()
						apeer[a] = tag
						mu.Unlock()
						// answer with our own tag (keeps the session busy in both directions)
						conn.Write([]byte(a + "|" + s))
					}
				case errors.Is(err, context.Canceled) || errors.Is(err, context.DeadlineExceeded):
					out = "ctx"
				case err != nil && strings.Contains(err.Error(), "already registered"):
					out = "already"
				default:
					out = "err"
				}
				mu.Lock()
				aout[a], aend[a] = out, ended
				mu.Unlock()
				ev := map[string]any{"a": "AcceptReturn", "p": a, "out": out, "peer": peer}
				if err != nil {
					ev["errText"] = err.Error()
				}
				log.add(ev)
			}()
		case "DialStart":
			d, rs, cs := act.P, act.S, act.C
			mu.Lock()
			drs[d], dcs[d], dstart[d] = rs, cs, time.Now()
			mu.Unlock()
			log.add(map[string]any{"a": "DialStart", "p": d, "s": rs, "c": cs})
			wg.Add(1)
			go func() {
				defer wg.Done()
				ctx, cancel := context.WithTimeout(context.Background(), 1500*time.Millisecond)
				defer cancel()
				var conn net.Conn
				var err error
				if rs == cs {
					conn, err = DialWithContext(ctx, addr, &Config{PSK: secret(rs), SCTP: ClientOpen})
				} else {
					conn, err = vlForgedDial(ctx, addr, secret(rs), secret(cs))
				}
				ok := err == nil && conn != nil
				mu.Lock()
				dok[d] = ok
				mu.Unlock()
				ev := map[string]any{"a": "DialReturn", "p": d, "ok": ok}
				if err != nil {
					ev["errText"] = err.Error()
				}
				log.add(ev)
				if ok {
					keep(conn)
					if rs == cs {
						conn.Write([]byte(fmt.Sprintf("%s|%s|%s|%d", d, rs, cs, idx)))
					}
				}
			}()
		case "Cancel":
			a := act.P
			mu.Lock()
			c := cancels[a]
			acancelled[a] = time.Now()
			mu.Unlock()
			log.add(map[string]any{"a": "Cancel", "p": a})
			if c != nil {
				c()
			}
		}
	}
	// let the handshakes in flight finish, then end every accept that is still waiting
	time.Sleep(250 * time.Millisecond)
	mu.Lock()
	endCancel := time.Now()
	for a, c := range cancels {
		if _, done := aout[a]; !done {
			if _, was := acancelled[a]; !was {
				log.add(map[string]any{"a": "Cancel", "p": a})
			}
			c()
		}
	}
	mu.Unlock()
	done := make(chan struct{})
	go func() { wg.Wait(); close(done) }()
	select {
	case <-done:
	case <-time.After(10 * time.Second):
		res.Stuck = true
	}
	time.Sleep(5 * time.Millisecond)
	// entries left behind for any secret this scenario used (the listener is shared with other scenarios)
	for _, s := range []string{"s1", "s2", "s3", "s4"} {
		rnd, _ := clientHelloRandomFromSeed(secret(s))
		l.connMapMutex.Lock()
		if _, ok := l.connMap[rnd]; ok {
			res.NChan++
		}
		l.connMapMutex.Unlock()
		l.connToCertMutex.Lock()
		if _, ok := l.connToCert[rnd]; ok {
			res.NCert++
		}
		l.connToCertMutex.Unlock()
	}
	if !res.Stuck {
		log.add(map[string]any{"a": "Final", "nchan": res.NChan, "ncert": res.NCert})
	}
	mu.Lock()
	for _, c := range conns {
		c.Close()
	}
	mu.Unlock()

	log.mu.Lock()
	res.Events = log.evs
	log.mu.Unlock()
	mu.Lock()
	defer mu.Unlock()
	for a, o := range aout {
		res.Outcomes[a] = o
		if o == "conn" {
			res.Outcomes[a] = "conn:" + apeer[a]
		}
	}
	for d, ok := range dok {
		res.Outcomes[d] = fmt.Sprintf("ok=%v", ok)
	}
	viol := func(key, what string, extra map[string]any) {
		m := map[string]any{"key": key, "what": what}
		for k, v := range extra {
			m[k] = v
		}
		res.Viol = append(res.Viol, m)
	}
	if res.Stuck {
		viol("listener:CallNeverReturned", "a Dial / AcceptWithContext call did not return 10 s after every context was cancelled", nil)
		return res
	}
	// ---- invariants on what actually happened -------------------------------------------------------
	if res.NChan != 0 || res.NCert != 0 {
		viol("listener:NothingLeftRegistered", fmt.Sprintf("after every call returned connMap has %d and connToCert has %d entries", res.NChan, res.NCert), nil)
	}
	claimed := map[string]string{}
	for a, o := range aout {
		if o != "conn" {
			continue
		}
		tag := apeer[a]
		if tag == "" {
			continue // no readable tag (the dialer's side failed after the handshake); nothing to compare
		}
		f := strings.Split(tag, "|")
		d, rs, cs := f[0], f[1], f[2]
		if f[3] != fmt.Sprint(idx) {
			viol("listener:NoCrossDelivery", fmt.Sprintf("acceptor %s of scenario %d received a connection dialed in scenario %s (shared listener)", a, idx, f[3]), nil)
			continue
		}
		if rs != asec[a] {
			viol("listener:NoCrossDelivery", fmt.Sprintf("acceptor %s waiting for %s received the connection of dialer %s which used %s", a, asec[a], d, rs), nil)
		}
		if rs != cs {
			viol("listener:OnlyMatchingCompletes", fmt.Sprintf("acceptor %s received a connection whose client certificate was derived from %s, hello-random from %s", a, cs, rs), nil)
		}
		if prev, dup := claimed[d]; dup {
			viol("listener:DeliveredOnce", fmt.Sprintf("dialer %s's connection was handed to both %s and %s", d, prev, a), nil)
		}
		claimed[d] = a
	}
	for d, ok := range dok {
		if !ok {
			continue
		}
		if drs[d] != dcs[d] {
			viol("listener:OnlyMatchingCompletes", fmt.Sprintf("the handshake of forged dialer %s (hello-random of %s, certificate of %s) completed", d, drs[d], dcs[d]), nil)
			continue
		}
		registered := false
		for _, s := range asec {
			if s == drs[d] {
				registered = true
			}
		}
		if !registered {
			viol("listener:OnlyMatchingCompletes", fmt.Sprintf("dialer %s completed with secret %s which no acceptor ever used", d, drs[d]), nil)
		}
	}
	// ---- expectations that need the real handshake to make progress (one-sided, retried by the caller) ----
	// An acceptor that was clearly the only one registered for its secret when honest dialers with that secret
	// arrived, and that was not cancelled until well after they started, must get one of them - also when later
	// acceptors asked for the same secret in between (they must be turned away without disturbing it).
	// "Clearly" = separated by at least half a pause; anything closer is ambiguous and nothing is asserted.
	half := gap / 2
	const settle = 120 * time.Millisecond
	for a, s := range asec {
		until := endCancel // the moment this acceptor's context was cancelled
		if tc, was := acancelled[a]; was {
			until = tc
		}
		sole, dupStarts := true, []time.Time{}
		for a2, s2 := range asec {
			if a2 == a || s2 != s {
				continue
			}
			switch {
			case astart[a2].After(astart[a].Add(half)):
				dupStarts = append(dupStarts, astart[a2]) // a later duplicate: must be turned away
			case !aend[a2].IsZero() && aend[a2].Add(half).Before(astart[a]):
				// an earlier acceptor for this secret that had already left
			default:
				sole = false
			}
		}
		if !sole {
			continue
		}
		var cands []string
		ambiguous := false
		for d, rs := range drs {
			if rs != s || dcs[d] != rs {
				continue // other secrets; forged handshakes never reach an acceptor
			}
			switch {
			case dstart[d].Add(half).Before(astart[a]):
				// dialed clearly before the acceptor registered: failed on its own
			case dstart[d].After(until):
				// dialed after the acceptor's context ended
			case dstart[d].After(astart[a].Add(half)) && dstart[d].Add(settle).Before(until):
				cands = append(cands, d)
			default:
				ambiguous = true
			}
		}
		if ambiguous || len(cands) == 0 {
			continue
		}
		key := "listener:UndisturbedPairCompletes"
		firstDial := dstart[cands[0]]
		for _, d := range cands {
			if dstart[d].Before(firstDial) {
				firstDial = dstart[d]
			}
		}
		for _, t2 := range dupStarts {
			if t2.Before(firstDial) {
				key = "listener:DuplicateSecretDoesNotDisturbFirst" // a duplicate arrived before the dialer did
			}
		}
		res.Checked = append(res.Checked, key)
		met := false
		for _, d := range cands {
			if aout[a] == "conn" && strings.HasPrefix(apeer[a], d+"|") && dok[d] {
				met = true
			}
		}
		if met {
			continue
		}
		res.Expect = append(res.Expect, map[string]any{"key": key,
			"what": fmt.Sprintf("acceptor %s (secret %s, the only one registered for it, not cancelled for %v after the dial) and honest dialer(s) %v did not meet: accept outcome %q peer %q, dial results %v",
				a, s, settle, cands, aout[a], apeer[a], dok)})
	}
	res.WallMs = time.Since(t0).Milliseconds()
	return res
}

func TestVerifListenerScenarios(t *testing.T) {
	out := vOpenOut(t)
	defer out.Close()
	par := vEnvInt("VERIF_PAR", 16)
	gap := time.Duration(vEnvInt("VERIF_GAP_MS", 30)) * time.Millisecond
	type job struct {
		idx  int
		acts []vlAct
	}
	var all []job
	vReadLines(t, func(line []byte) {
		var acts []vlAct
		if err := json.Unmarshal(line, &acts); err != nil {
			t.Fatalf("bad scenario: %v", err)
		}
		all = append(all, job{len(all), acts})
	})
	results := make([]vlResult, len(all))
	nl := vEnvInt("VERIF_LISTENERS", 2)
	var ls []*Listener
	for i := 0; i < nl; i++ {
		l, err := vlListen()
		if err != nil {
			t.Fatalf("listen: %v", err)
		}
		ls = append(ls, l)
	}
	sem := make(chan struct{}, par)
	var wg sync.WaitGroup
	for _, j := range all {
		wg.Add(1)
		sem <- struct{}{}
		go func(j job) {
			defer wg.Done()
			defer func() { <-sem }()
			results[j.idx] = vlRun(ls[j.idx%nl], j.idx, j.acts, gap)
		}(j)
	}
	wg.Wait()
	nviol, nexp, nretry := 0, 0, 0
	for i, r := range results {
		// anything suspicious is run again, alone, before it is reported
		final := r
		if (len(r.Viol) > 0 || len(r.Expect) > 0) && nviol+nexp >= 25 {
			// enough confirmed violations; further candidates are not pursued (and not reported)
			final.Viol, final.Expect = nil, nil
		} else if len(r.Viol) > 0 || len(r.Expect) > 0 {
			nretry++
			l2, err := vlListen()
			if err != nil {
				t.Fatalf("listen: %v", err)
			}
			r2 := vlRun(l2, all[i].idx+100000, all[i].acts, 2*gap)
			keys := map[string]bool{}
			for _, v := range r2.Viol {
				keys[fmt.Sprint(v["key"])] = true
			}
			for _, v := range r2.Expect {
				keys[fmt.Sprint(v["key"])] = true
			}
			var viol, exp []map[string]any
			for _, v := range r.Viol {
				if keys[fmt.Sprint(v["key"])] {
					viol = append(viol, v)
				}
			}
			for _, v := range r.Expect {
				if keys[fmt.Sprint(v["key"])] {
					exp = append(exp, v)
				}
			}
			final.Viol, final.Expect = viol, exp
			out.Emit(map[string]any{"kind": "retry", "scenario": i, "first": r, "second": r2})
			// both runs are real executions: both traces are validated
			out.Emit(map[string]any{"kind": "trace", "scenario": i, "attempt": 2, "events": r2.Events, "acts": all[i].acts})
		}
		nviol += len(final.Viol)
		nexp += len(final.Expect)
		out.Emit(map[string]any{"kind": "scenario", "scenario": i, "acts": all[i].acts, "outcomes": final.Outcomes,
			"viol": final.Viol, "expect": final.Expect, "checked": r.Checked, "nchan": final.NChan, "ncert": final.NCert, "wall_ms": final.WallMs})
		out.Emit(map[string]any{"kind": "trace", "scenario": i, "attempt": 1, "events": r.Events, "acts": all[i].acts})
	}
	out.Emit(map[string]any{"kind": "summary", "scenarios": len(all), "violations": nviol, "expectations_failed": nexp, "retried": nretry})
}
