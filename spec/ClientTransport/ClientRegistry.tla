---------------------------- MODULE ClientRegistry ----------------------------
(***************************************************************************)
(* The client transport registry, pkg/transports/client/transports.go:     *)
(* two package-level maps from name and from TransportType to a BUILDER    *)
(* (a func() cj.Transport), filled by AddTransport / EnableDefaultTrans-   *)
(* ports (init() calls the latter), read by New, NewWithParams,            *)
(* NewWithParamsByID, GetTransportByName, GetTransportByID; and the        *)
(* stateless ConfigFromTransportType.                                      *)
(*                                                                         *)
(* Builders of the alphabet (label: name it registers under, type id):     *)
(*   min, obfs4, prefix, dtls    the four defaults                         *)
(*   prefixGL   &prefix.ClientTransport{Prefix: GetLong}: its Name() is    *)
(*              "prefix_GetLong" but its ID is Prefix                      *)
(*   customA    a transport of the driver: new name, new id                *)
(*   dupName    name "min", new id        dupID   new name, id Min         *)
(*   nilb       a builder that returns nil                                 *)
(* The maps are total functions over the names / ids of the alphabet with  *)
(* "-" for "not registered" (so that they map 1:1 to a JSON object).       *)
(*                                                                         *)
(* Variant "asfound" is the code.  Deliberately broken instances:          *)
(*   "singleton"    the registry hands out one instance per name           *)
(*   "add-partial"  AddTransport stores the name before it checks the id   *)
(* Observations about the code (no intended variant is carried for them):  *)
(*   EnableDefaultTransports stops at the first default that is already    *)
(*   registered and keeps the ones it added before (only reachable from a  *)
(*   registry that is not the one init() built); NewWithParams* return the *)
(*   transport TOGETHER with SetParams' error; ConfigFromTransportType     *)
(*   knows Min and Obfs4 only although Prefix and DTLS are registered.     *)
(***************************************************************************)
EXTENDS Integers, Sequences, FiniteSets, TLC
CONSTANTS Variant, Starts, AddAlphabet, LookNames, LookIds, ParamKinds
VARIABLES byName, byID, made, obs
vars == <<byName, byID, made, obs>>
view == <<byName, byID, made>>

None == [none |-> TRUE]
B == [min      |-> [name |-> "min", id |-> "Min"],
      obfs4    |-> [name |-> "obfs4", id |-> "Obfs4"],
      prefix   |-> [name |-> "prefix", id |-> "Prefix"],
      dtls     |-> [name |-> "dtls", id |-> "DTLS"],
      prefixGL |-> [name |-> "prefix_GetLong", id |-> "Prefix"],
      customA  |-> [name |-> "x08a", id |-> "T50"],
      dupName  |-> [name |-> "min", id |-> "T51"],
      dupID    |-> [name |-> "x08c", id |-> "Min"]]
Labels   == DOMAIN B
AllNames == {B[l].name : l \in Labels}
AllIds   == {B[l].id : l \in Labels}
Defaults == <<"min", "obfs4", "prefix", "dtls">>
Empty(D) == [x \in D |-> "-"]

\* AddTransport on a registry value
AddR(reg, b) ==
  IF b = "nilb" THEN [reg |-> reg, res |-> "err", why |-> "unknown"]
  ELSE IF reg.n[B[b].name] # "-" THEN [reg |-> reg, res |-> "err", why |-> "registered"]
  ELSE IF reg.i[B[b].id] # "-"
       THEN [reg |-> IF Variant = "add-partial" THEN [reg EXCEPT !.n[B[b].name] = b] ELSE reg, res |-> "err", why |-> "registered"]
  ELSE [reg |-> [n |-> [reg.n EXCEPT ![B[b].name] = b], i |-> [reg.i EXCEPT ![B[b].id] = b]], res |-> "ok", why |-> "-"]
RECURSIVE EnableR(_, _)
EnableR(reg, k) == IF k > Len(Defaults) THEN [reg |-> reg, res |-> "ok", why |-> "-"]
                   ELSE LET r == AddR(reg, Defaults[k]) IN IF r.res = "ok" THEN EnableR(r.reg, k + 1) ELSE r
Reg == [n |-> byName, i |-> byID]
St == [byName |-> byName, byID |-> byID]
Done(r) == obs' = r @@ [st |-> St']

AddTransport(b) == LET r == AddR(Reg, b) IN
  /\ byName' = r.reg.n /\ byID' = r.reg.i /\ made' = made
  /\ Done([a |-> "AddTransport", b |-> b, res |-> r.res, why |-> r.why])
EnableDefaultTransports == LET r == EnableR(Reg, 1) IN
  /\ byName' = r.reg.n /\ byID' = r.reg.i /\ made' = made
  /\ Done([a |-> "EnableDefaultTransports", res |-> r.res, why |-> r.why])

\* what SetParams of a freshly built transport answers, and the name the object reports afterwards
SetRes(l, p) == IF l \in {"dtls"} THEN "ok"
                ELSE IF l \in {"customA", "dupName", "dupID"} THEN (IF p = "nil" THEN "ok" ELSE "err")   \* the driver's own transports
                ELSE IF p \in {"nil", "gen"} THEN "ok" ELSE "err"
NameOf(l, p) == IF l = "prefix" /\ p = "nil" THEN "prefix_Min" ELSE IF l \in {"dupName"} THEN "min" ELSE B[l].name
Fresh(l) == Variant # "singleton" \/ l \notin made

Lookup(kind, key, p) ==
  LET byn == kind \in {"New", "NewWithParams", "GetTransportByName"}
      l   == IF byn THEN byName[key] ELSE byID[key]
      wp  == kind \in {"NewWithParams", "NewWithParamsByID"}
  IN /\ UNCHANGED <<byName, byID>>
     /\ IF l = "-"
          THEN /\ made' = made
               /\ Done([a |-> kind, key |-> key, p |-> p, res |-> "err", why |-> "unknown", obj |-> None])
          ELSE /\ made' = made \cup {l}
               /\ LET sr == IF wp THEN SetRes(l, p) ELSE "ok" IN
                  Done([a |-> kind, key |-> key, p |-> p, res |-> sr, why |-> IF sr = "ok" THEN "-" ELSE "setparams",
                        obj |-> [label |-> l, name |-> NameOf(l, IF wp /\ sr = "ok" THEN p ELSE "-"), id |-> B[l].id, fresh |-> Fresh(l)]])

Config(i, r) ==
  /\ UNCHANGED <<byName, byID, made>>
  /\ IF i \in {"Min", "Obfs4"}
       THEN Done([a |-> "ConfigFromTransportType", key |-> i, rand |-> r, res |-> "ok", why |-> "-",
                  obj |-> [label |-> IF i = "Min" THEN "min" ELSE "obfs4", name |-> IF i = "Min" THEN "min" ELSE "obfs4", id |-> i, fresh |-> TRUE, prand |-> r]])
       ELSE Done([a |-> "ConfigFromTransportType", key |-> i, rand |-> r, res |-> "err", why |-> "unknown", obj |-> None])

Init == /\ made = {}
        /\ \E s \in Starts :
             LET r == IF s = "defaults" THEN EnableR([n |-> Empty(AllNames), i |-> Empty(AllIds)], 1).reg ELSE [n |-> Empty(AllNames), i |-> Empty(AllIds)] IN
             /\ byName = r.n /\ byID = r.i
             /\ obs = [a |-> "Start", from |-> s, st |-> [byName |-> r.n, byID |-> r.i]]
Next == \/ \E b \in AddAlphabet : AddTransport(b)
        \/ EnableDefaultTransports
        \/ \E n \in LookNames : Lookup("New", n, "-") \/ Lookup("GetTransportByName", n, "-") \/ \E p \in ParamKinds : Lookup("NewWithParams", n, p)
        \/ \E i \in LookIds : Lookup("GetTransportByID", i, "-") \/ (\E p \in ParamKinds : Lookup("NewWithParamsByID", i, p)) \/ \E r \in BOOLEAN : Config(i, r)
Spec == Init /\ [][Next]_vars

TypeOK == /\ byName \in [AllNames -> Labels \cup {"-"}] /\ byID \in [AllIds -> Labels \cup {"-"}] /\ made \subseteq Labels
\* the two maps describe the same set of builders, each under its own name and its own id
MapsAgree == /\ \A n \in AllNames : byName[n] # "-" => B[byName[n]].name = n /\ byID[B[byName[n]].id] = byName[n]
             /\ \A i \in AllIds : byID[i] # "-" => B[byID[i]].id = i /\ byName[B[byID[i]].name] = byID[i]
L_AddAtomic == obs'.a = "AddTransport" /\ obs'.res # "ok" => UNCHANGED <<byName, byID>>
L_NeverReplaced == /\ \A n \in AllNames : byName[n] # "-" => byName'[n] = byName[n]
                   /\ \A i \in AllIds : byID[i] # "-" => byID'[i] = byID[i]
L_LookupsPure == obs'.a \notin {"AddTransport", "EnableDefaultTransports"} => UNCHANGED <<byName, byID>>
L_Fresh == obs'.a \notin {"AddTransport", "EnableDefaultTransports"} /\ obs'.obj # None => obs'.obj.fresh
L_FoundIffRegistered == obs'.a \in {"New", "GetTransportByName", "NewWithParams"} => ((obs'.obj # None) <=> byName[obs'.key] # "-")
L_IdOfReturned == obs'.a \in {"GetTransportByID", "NewWithParamsByID"} /\ obs'.obj # None => obs'.obj.id = obs'.key
L_EnableCompletes == obs'.a = "EnableDefaultTransports" /\ obs'.res = "ok" => \A k \in 1..Len(Defaults) : byName'[Defaults[k]] = Defaults[k]
Laws == [][L_AddAtomic /\ L_NeverReplaced /\ L_LookupsPure /\ L_Fresh /\ L_FoundIffRegistered /\ L_IdOfReturned /\ L_EnableCompletes]_vars
Fresh_ == [][L_Fresh]_vars
AddAtomic == [][L_AddAtomic]_vars
=============================================================================
