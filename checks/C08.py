"""C08 - registrations expire on schedule: never early, never kept past their lifetime.

A  TLC exhaustive on spec/Registry (KeyMode "ident"): PostSweepExact, OneRecordPerRegistration,
   ExpiredNeverMatchesAfterSweep, NeverRemovedEarly, ValidMonotone; plus the "secret"-keyed instance, which
   must violate OneRecordPerRegistration (guards against vacuous invariants).
B  every path of bounded depth (exhaustive) + simulated long behaviours are replayed on the real
   RegisteredDecoys (real transports' identifiers, real default lifetimes, time by back-dating).
C  seeded random histories over a larger alphabet are recorded from the real object and validated by
   Trace_Registry (all invariants evaluated on every observed state); one corrupted trace must be rejected.
E  PostSweepExact at scale: 24 000 (thorough 120 000) registrations over hundreds of phantoms in every age / use class, one sweep: exactly the
   unexpired ones are left - objects, expiry records, lookups (the instance whose sweep stops after n removals violates PostSweepExact).
D  one sweep races with six connection handlers over 400 valid, unused, 11-minute-old registrations (no gates): at
   quiescence every registration must be in one of the two serial outcomes - marked used and kept, or removed and
   never announced as used (NeverRemovedEarly / PostSweepExact under real concurrency inside the locked methods).
"""
import json, os, copy
import vlib

PKG = "pkg/station/lib"
FILES = ["common/vcommon_test.go", "pkg_station_lib/registry_verif_test.go"]
STRESS_FILES = ["common/vcommon_test.go", "pkg_station_lib/ingest_sched_verif_test.go", "pkg_station_lib/ingest_pipeline_verif_test.go"]


def run(ctx):
    thorough = ctx.tier == "thorough"
    sdir = ctx.spec_copy("Registry")

    # ---- A
    r = ctx.tlc(sdir, "Registry.tla", "MC_Registry_thorough.cfg" if thorough else "MC_Registry.cfg",
                timeout=1800 if thorough else 600)
    ctx.require_design_ok(r, "Registry ident-keyed")
    if thorough:
        r3 = ctx.tlc(sdir, "Registry.tla", "MC_Registry_thorough3.cfg", timeout=1800)   # 4 keys, up to 3 tracked at once
        ctx.require_design_ok(r3, "Registry ident-keyed, 3 tracked")
    ctx.log("A: exhaustive %d distinct states, %d generated, depth %d" % (r["distinct"], r["generated"], r["depth"]))
    r2 = ctx.tlc(sdir, "Registry.tla", "MC_Registry_secret.cfg", timeout=300, count=False)
    if r2["inv"] != "OneRecordPerRegistration":
        raise vlib.InfraError("secret-keyed instance should violate OneRecordPerRegistration, got %s" % r2["inv"])
    rs = ctx.tlc(sdir, "Registry.tla", "MC_Registry_stalemark.cfg", timeout=300, count=False)
    if rs["inv"] != "OnlyIngestAdds":
        raise vlib.InfraError("StaleMark=reinsert instance should violate OnlyIngestAdds, got %s" % rs["inv"])
    ctx.stage("A", invariants=["TypeOK", "OneRecordPerRegistration", "PostSweepExact", "ExpiredNeverMatchesAfterSweep",
                               "NeverRemovedEarly", "ValidMonotone", "OnlyIngestAdds"],
              nonvacuity="KeyMode=secret instance violates OneRecordPerRegistration, StaleMark=reinsert violates OnlyIngestAdds, as expected")

    # ---- B
    beh_all = os.path.join(ctx.scratch, "registry_beh.ndjson")
    cfg = "Gen_Registry_exh5.cfg" if thorough else "Gen_Registry_exh.cfg"
    g = ctx.tlc(sdir, "Gen_Registry.tla", cfg, timeout=3000, workers=8, count=False)
    if g["inv"]:
        raise vlib.InfraError("generator failed: %s" % g["out"][-2000:])
    nsim = 400 if thorough else 60
    s = ctx.tlc(sdir, "Gen_Registry.tla", "Gen_Registry_sim.cfg", timeout=3000, workers=4, count=False,
                simulate="num=%d" % nsim, depth=17, deadlock=False, extra=["-seed", str(ctx.seed)])
    seen = set()
    nexh = nsimb = 0
    with open(beh_all, "w") as fo:
        for fn, tag in ((g["beh_file"], "exh"), (s["beh_file"], "sim")):
            with open(fn) as fi:
                for line in fi:
                    h = hash(line)
                    if h in seen:
                        continue
                    seen.add(h)
                    fo.write(line)
                    if tag == "exh":
                        nexh += 1
                    else:
                        nsimb += 1
    ctx.log("B: %d exhaustive paths + %d simulated behaviours" % (nexh, nsimb))
    if nexh < 1000 or nsimb < 100:
        raise vlib.InfraError("too few behaviours generated")
    outp = os.path.join(ctx.scratch, "replay_out.ndjson")
    res = ctx.go_test(PKG, FILES, "lib", "^TestVerifRegistryReplay$", env={"VERIF_IN": beh_all, "VERIF_OUT": outp},
                      timeout=3000)
    rows = ctx.read_results(outp)
    summ = [x for x in rows if x.get("kind") == "summary"]
    if not summ:
        raise vlib.InfraError("replay driver did not finish:\n" + res["out"][-3000:])
    summ = summ[0]
    for m in [x for x in rows if x.get("kind") == "mismatch"]:
        diff = diff_fields(m["want"], m["got"])
        ctx.violation("replay:%s:%s" % (m["want"].get("a"), "+".join(diff)),
                      "real RegisteredDecoys diverges from Registry.tla after %s (fields %s)" % (" ; ".join(m["ops"]), diff),
                      m)
    nontrivial = 0
    with open(beh_all) as f:
        for i, line in enumerate(f):
            b = json.loads(line)
            acts = [x["a"] for x in b]
            if "Tick" in acts and "Sweep" in acts:
                nontrivial += 1
            if i in (0, 777):
                ctx.sample({"stage": "B", "behaviour": [fmt_op(x) for x in b]})
    ctx.stage("B", behaviours=summ["behaviours"], steps=summ["steps"], mismatches=summ["mismatches"],
              exhaustive_paths=nexh, simulated=nsimb, with_tick_and_sweep=nontrivial)

    # ---- C
    trp = os.path.join(ctx.scratch, "registry_traces.ndjson")
    ntr, nops = (400, 300) if thorough else (40, 150)
    ctx.go_test(PKG, FILES, "lib", "^TestVerifRegistryRandom$", env={"VERIF_OUT": trp, "VERIF_TRACES": ntr, "VERIF_OPS": nops})
    events = ctx.read_results(trp)
    traces, cur = [], None
    for e in events:
        if e["a"] == "Reset":
            cur = []
            traces.append(cur)
        else:
            cur.append(e)
    ok, reached, total, tr = ctx.validate_traces(sdir, "Trace_Registry.tla", "Trace_Registry.cfg", traces, timeout=1500)
    ctx.log("C: %d traces / %d events, accepted=%s reached=%d" % (len(traces), total, ok, reached))
    if not ok:
        flat = []
        for t in traces:
            flat.append({"a": "Reset"})
            flat += t
        bad = flat[reached] if reached < len(flat) else None
        if tr["inv"]:
            ctx.violation("trace:invariant:%s" % tr["inv"], "recorded real trace reaches a state violating %s" % tr["inv"],
                          {"tlc": tr["out"][-3000:]})
        else:
            ctx.violation("trace:rejected:%s" % (bad or {}).get("a"),
                          "recorded real trace is not a behaviour of Registry.tla at event %d: %s" % (reached, json.dumps(bad)[:600]),
                          {"event_index": reached, "event": bad, "previous": flat[max(0, reached - 6):reached]})
    else:
        # demonstrate the binding: one corrupted field must make TLC reject
        bad = copy.deepcopy(traces[:3])
        done = False
        for t in bad:
            for e in t:
                if e["a"] == "Sweep" and e["expired"] > 0:
                    e["expired"] += 1
                    done = True
                    break
                if e["a"] == "Register" and e["st"]["reg"]:
                    e["st"]["reg"][0]["valid"] = not e["st"]["reg"][0]["valid"]
                    done = True
                    break
            if done:
                break
        if not done:
            raise vlib.InfraError("no event to corrupt for the binding demonstration")
        ok2, reached2, total2, _ = ctx.validate_traces(sdir, "Trace_Registry.tla", "Trace_Registry.cfg", bad, timeout=600)
        if ok2:
            raise vlib.InfraError("binding is vacuous: corrupted trace accepted")
        ctx.stage("C", corrupted_trace_rejected_at=reached2)
    ctx.cov["traces_validated_against_impl"] = len(traces)
    ctx.sample({"stage": "C", "trace_prefix": [fmt_op(x) for x in traces[0][:12]]})
    ctx.stage("C", traces=len(traces), events=total, accepted=ok)

    # ---- D: connection vs sweep under real concurrency (interleavings INSIDE the locked methods, which no gate reaches):
    # every registration must end in one of the two serial outcomes (used and kept / removed and never used)
    sp = os.path.join(ctx.scratch, "sweepmark.ndjson")
    rs = ctx.go_test(PKG, STRESS_FILES, "lib", "^TestVerifSweepMarkStress$", env={"VERIF_OUT": sp, "VERIF_ROUNDS": 300 if thorough else 40}, timeout=240)
    st = ctx.stall_sites(rs)
    if st:
        ctx.violation("deadlock:sweep-vs-connection:%s" % "+".join(st), "sweep racing with connections hung: goroutines blocked for good in %s" % ", ".join(st),
                      {"dump": rs["out"][-6000:]})
        return
    srows = ctx.read_results(sp)
    ssum = [x for x in srows if x.get("kind") == "summary"]
    if not ssum:
        raise vlib.InfraError("sweep/mark stress did not finish")
    for x in srows:
        if x.get("kind") == "prop":
            ctx.violation("concurrent:%s" % x["prop"], "sweep racing with connections: %s" % x["detail"], x)
    if ssum[0]["used_kept"] == 0 or ssum[0]["removed"] == 0:
        raise vlib.InfraError("sweep/mark stress is vacuous (one side always wins): %s" % ssum[0])
    ctx.stage("D", **{k: v for k, v in ssum[0].items() if k != "kind"})

    # ---- E: PostSweepExact at scale: a population as large as a registration burst (tens of thousands over hundreds of phantoms, in every
    # age / use class), ONE sweep - exactly the unexpired ones are left (TU = 10 min, TA = 6 h: Registry.tla's Expired)
    ri = ctx.tlc(sdir, "Registry.tla", "MC_Registry_emptyindex.cfg", timeout=300, count=False)
    if ri["inv"] != "IndexExact":
        raise vlib.InfraError("the instance that leaves an empty per-phantom entry behind should violate IndexExact, TLC says %s" % ri["inv"])
    rc = ctx.tlc(sdir, "Registry.tla", "MC_Registry_sweepcap.cfg", timeout=300, count=False)
    if rc["inv"] != "PostSweepExact":
        raise vlib.InfraError("the instance whose sweep stops after a fixed number of removals should violate PostSweepExact, got %s" % rc["inv"])
    scp = os.path.join(ctx.scratch, "scale.ndjson")
    ctx.go_test(PKG, FILES, "lib", "^TestVerifRegistryScale$", env={"VERIF_OUT": scp, "VERIF_SCALE": 120000 if thorough else 24000}, timeout=900)
    srows2 = ctx.read_results(scp)
    ssum2 = [x for x in srows2 if x.get("kind") == "summary"]
    if not ssum2:
        raise vlib.InfraError("scale driver did not finish")
    left = 0
    for x in srows2:
        if x.get("kind") != "class":
            continue
        expired = x["age_s"] > (21600 if x["used"] else 600)      # Expired(t) of Registry.tla with the real lifetimes
        want = 0 if expired else x["before"]
        left += want
        for f in ("tracked", "records") + (("matching",) if x["valid"] else ()):
            if x[f] != want:
                ctx.violation("scale:PostSweepExact:%s:%s" % (x["class"], f),
                              "after ONE sweep over a population of %d registrations, %d of the %d in class %s (%s) are still %s - expected %d"
                              % (ssum2[0]["population"], x[f], x["before"], x["class"], "expired" if expired else "not expired", f, want), x)
    if ssum2[0]["expiry_records_left"] != left:
        ctx.violation("scale:PostSweepExact:records-left", "%d expiry records are left after the sweep, %d registrations are unexpired"
                      % (ssum2[0]["expiry_records_left"], left), ssum2[0])
    ctx.stage("E", nonvacuity="SweepCap = 1 violates PostSweepExact", **{k: v for k, v in ssum2[0].items() if k != "kind"})
    ctx.cov["evaluations"] = summ["behaviours"] + len(traces)
    ctx.cov["distinct_nontrivial"] = nontrivial
    ctx.cov["exhaustive"] = False
    ctx.cov["rule"] = ("stage B behaviours are distinct by construction (hash of the action sequence, de-duplicated); "
                       "non-trivial = contains at least one Tick and one Sweep; stage C traces counted separately")
    ctx.assumptions += ["time is advanced by back-dating DecoyTimeout.registrationTime (age classes around 10 min / 6 h, +-2 s)",
                        "the sweep is run to completion by one caller (interleaved sweeps are C09's scenario)",
                        "detector announcements are observed by replacing registerForDetector/updateInDetector in-package"]


def fmt_op(x):
    if "p" in x and "t" in x:
        return "%s(%s,%s,%s)" % (x["a"], x["p"], x["t"], x["s"])
    if "d" in x:
        return "Tick(%s)" % x["d"]
    if "p" in x:
        return "%s(%s)" % (x["a"], x["p"])
    return x["a"]


def canon(v):
    if isinstance(v, dict):
        return "{" + ",".join("%s:%s" % (k, canon(v[k])) for k in sorted(v)) + "}"
    if isinstance(v, list):
        return "[" + ",".join(sorted(canon(e) for e in v)) + "]"
    return json.dumps(v)


def diff_fields(want, got):
    d = []
    for k in sorted(set(want) | set(got)):
        if k == "st":
            for kk in sorted(set(want.get("st", {})) | set(got.get("st", {}) or {})):
                if canon(want.get("st", {}).get(kk)) != canon((got.get("st") or {}).get(kk)):
                    d.append("st." + kk)
        elif canon(want.get(k)) != canon(got.get(k)):
            d.append(k)
    return d
