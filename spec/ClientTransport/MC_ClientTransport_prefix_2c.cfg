\* prefix as found: two connections on one transport
SPECIFICATION Spec
CONSTANTS
  Kind = "prefix"
  Variant = "asfound"
  KnownIds = {0, 1}
  FieldIds = {}
  SetArgs <- SetArgsW2
  OvArgs <- OvArgsW2
  Secrets = {"s1", "s2"}
  ReaderOk = {TRUE}
  Seeds = {"sd1"}
  DeadConns = {FALSE}
  MaxConns = 2
  MaxWrites = 1
  WriteSizes = {0, 3}
  MaxPeer = 0
  PeerSizes = {4}
VIEW view
INVARIANTS TypeOK HeaderOnce HeaderAlone DataExact OwnPrefixKnown
PROPERTIES Core
CHECK_DEADLOCK FALSE
