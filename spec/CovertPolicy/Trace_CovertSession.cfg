SPECIFICATION TraceSpec
CONSTANT DupMode = "any"
CONSTANT MaxMsgs = 4
CONSTANT MaxConns = 4
CONSTANT Classes = {"litP1", "litP2", "litF", "nameP", "nameRebind", "nameF", "nameFlip", "nameNx", "blocked", "malformed"}
VIEW TraceView
INVARIANTS DialedWasChecked CheckedArePermitted StoredIsCheckedLiteral NoLookupAtDial ResolvedOnce NothingWithoutAdmission PermittedFirstAccepted
POSTCONDITION Post
CHECK_DEADLOCK FALSE
