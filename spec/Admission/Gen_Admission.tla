---------------------------- MODULE Gen_Admission ----------------------------
(* Emits rows of the admission table with the outcome the specification computes for them (one JSON object per row).
   Mode "near": every row in which at least one family is admitted plus all their single-condition flips (the rows that
   decide whether a condition is checked at all); "all": the full table; "sample": a random subset. *)
EXTENDS Admission, Json, Randomization
CONSTANT Mode, SampleSize
Admitted == {r \in Rows : \E f \in Fam : Admit(r, f)}
Keys == {"payload", "transportD", "transportU", "params", "gen", "covertB", "covertM", "covertA"}
Flips(r) == {Flip(r, k) : k \in Keys} \cup
            {[r EXCEPT !.c4 = ~@], [r EXCEPT !.c6 = ~@], [r EXCEPT !.s4 = ~@], [r EXCEPT !.s6 = ~@],
             [r EXCEPT !.blocked4 = ~@], [r EXCEPT !.blocked6 = ~@], [r EXCEPT !.live = ~@], [r EXCEPT !.prescanned = ~@],
             [r EXCEPT !.share = ~@]} \cup
            {[r EXCEPT !.registrant = x] : x \in Registrant} \cup {[r EXCEPT !.source = x] : x \in Source} \cup
            {[r EXCEPT !.ovr = x] : x \in Override}
\* single-condition neighbours of r (every flip is (close to) an involution, so r is a neighbour of an admitted row
\* iff one of r's flips is admitted)
Near(r) == (\E f \in Fam : Admit(r, f)) \/ (\E r2 \in Flips(r) : \E f \in Fam : Admit(r2, f))
Keep(r) == Mode # "near" \/ Near(r)
GenInit == /\ row \in (IF Mode = "sample" THEN RandomSubset(SampleSize \div 2, RowsPlain) \cup RandomSubset(SampleSize \div 2, RowsOvr)
                        ELSE Rows)
           /\ out = [none |-> TRUE] /\ done = FALSE
GenNext == /\ ~done /\ Keep(row) /\ out' = Code(row) /\ done' = TRUE /\ UNCHANGED row
GenSpec == GenInit /\ [][GenNext]_vars
Emit == done => PrintT(ToJson([row |-> row, out |-> out, admit |-> {f \in Fam : Admit(row, f)}]))
=============================================================================
