SPECIFICATION Spec
CONSTANTS
  Starts = {"C", "X"}
  PDs = {"open", "drop"}
  PLs = {"open", "drop", "nobind"}
  Nats = {"icmp", "silent"}
  Dnats = {"ok"}
  Dups = {FALSE}
  Keys = {"good"}
  Prios = {"none"}
  Coord = "none"
  LeakOnRefuse = TRUE
  CancelInSctp = FALSE
  TimeoutMode = "any"
  Broken = "doublestat"
VIEW view
INVARIANTS StatsLegal

CHECK_DEADLOCK FALSE
