--------------------------- MODULE Gen_Accounting ---------------------------
(* Behaviour generator for stage B (spec -> implementation replay) at the object level: carries the history of
   observations and prints every behaviour that is complete (Depth steps, or nothing left to do) as JSON.
   Exhaustive mode enumerates every path (hist is part of the state); -simulate samples long ones.
   Order breaks the symmetry between connection ids (c2 only starts once c1 has). *)
EXTENDS Accounting, Json
CONSTANTS Depth
Order == <<"c1", "c2", "c3", "k1", "k2">>
VARIABLE hist
GenInit == Init /\ hist = <<>>
GenNext == /\ Len(hist) < Depth
           /\ NextObj
           /\ hist' = Append(hist, obs')
GenSpec == GenInit /\ [][GenNext]_<<vars, hist>>
Canon == \A i \in 1..(Len(Order) - 1) :
           /\ (Order[i] \in Conns /\ Order[i + 1] \in Conns) => (conn[Order[i + 1]].st # "idle" => conn[Order[i]].st # "idle")
           /\ (Order[i] \in Kons /\ Order[i + 1] \in Kons) => (kst[Order[i + 1]].st # "idle" => kst[Order[i]].st # "idle")
Complete == Len(hist) = Depth \/ ~ENABLED NextObj
Emit == ~Complete \/ PrintT(ToJson(hist))
=============================================================================
