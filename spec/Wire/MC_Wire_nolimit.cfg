\* a DNS parser without the compression-pointer limit: a name that points at itself never returns
SPECIFICATION Spec
CONSTANTS
  EPs = {"responder"}
  Strength = 2
  Thin = FALSE
  MissingGuards = {"dns.ptr_limit"}
INVARIANTS TypeOK NeverHangs NeverCrash NoFourthValue
CHECK_DEADLOCK FALSE
