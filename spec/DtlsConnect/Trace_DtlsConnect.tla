------------------------- MODULE Trace_DtlsConnect -------------------------
(* Stage C (implementation -> spec): validates the event logs recorded from real runs of the connecting DTLS transport
   (real ClientTransport dialer against the real station Transport over loopback UDP).  One mutex orders the log.  A
   *Call line is written BEFORE the call is made (the specification's call step may only happen after it); every other
   line is written AFTER the thing it reports happened, so it is accepted in any state in which that thing has happened
   (all such facts are stable).  The steps of the two sides' goroutines and of the handshakes are not logged: TLC composes
   them silently (TimeoutMode "any", every interleaving).

     Start(scr)                      next scenario, with its script
     SCall  SDnat(ok)  SAcceptCall  SAcceptRet(ok, err)  SStat(k)  SRet(res)  SClose
     CCall  CSock(role, ok)  CClose(role)  CRet(res)
     Data(res)                       a tagged message was exchanged over the two returned connections: ok | fail | na
     Post(keyreg, sleak, cleak)      what was left once both calls had returned (winners still open)
     Final(keyreg, ssock, slopen, copen)   what was left after the callers closed the winners

   Acceptance: the whole log is consumed (high-water mark of the log index, -workers 1). *)
EXTENDS DtlsConnect, Json, TLCExt
TraceLog == ndJsonDeserialize("trace.ndjson")
VARIABLES l, go, cnt
tvars == <<vars, l, go, cnt>>

Mark(i) == IF i > TLCGet(1) THEN TLCSet(1, i) ELSE TRUE
Dummy == [start |-> "X", pD |-> "drop", pL |-> "drop", nat |-> "silent", dnat |-> "ok", dup |-> FALSE, key |-> "good", prio |-> "none"]
Cnt0 == [dialOK |-> 0, listenOK |-> 0, sret |-> 0, cret |-> 0]

TraceInit == st = InitState(Dummy) /\ obs = [a |-> "Init"] /\ l = 1 /\ go = {} /\ cnt = Cnt0 /\ TLCSet(1, 1)

Has(e, f) == f \in DOMAIN e

\* facts (stable state predicates) reported by the log lines
Fact(e) ==
  CASE e.a = "SDnat"      -> st.sd \notin {"idle", "dnat"} /\ (e.ok <=> st.scr.dnat = "ok")
    [] e.a = "SAcceptCall" -> st.sm # "idle"
    [] e.a = "SAcceptRet"  -> IF e.ok THEN st.sl \in {"offer", "handed", "done"} /\ st.slc # "none"
                              ELSE /\ st.sl \in {"erroffer", "done"} /\ st.slc = "none"
                                   /\ (e.err = "already") <=> st.scr.dup
    [] e.a = "SStat"       -> e.k \in {"dialOK", "listenOK"} => cnt[e.k] + 1 <= st.stats[e.k]
    [] e.a = "SRet"        -> st.sm = "ret" /\ st.sres = e.res /\ cnt.sret = 0
    [] e.a = "SClose"      -> st.slc = "closed"
    [] e.a = "CSock"       -> IF e.ok THEN (e.role \in Ends => st.csock[e.role] # "none") /\ st.cm # "idle"
                              ELSE \/ e.role \in {"listen", "probe"} /\ st.scr.pL = "nobind"
                                   \* the dialer was handed a context that was already cancelled
                                   \/ e.role \in {"listen", "probe"} /\ CDone /\ st.csock.listen = "none"
                                   \/ e.role = "dial" /\ CDone /\ st.csock.dial = "none"
    [] e.a = "CClose"      -> e.role \in Ends => st.csock[e.role] = "closed"
    [] e.a = "CRet"        -> st.cm = "ret" /\ st.cres = e.res /\ cnt.cret = 0
    [] e.a = "Data"        -> st.sm = "ret" /\ st.cm = "ret" /\ Agree = e.res
    [] e.a = "Post"        -> /\ st.post # None /\ st.post.keyreg = e.keyreg /\ st.post.sleak = e.sleak
                              /\ st.post.cleak = e.cleak /\ st.post.slleak = e.slleak
    [] e.a = "Final"       -> /\ Terminal /\ (st.skey = "me") = e.keyreg
                              /\ (IF st.ssock \in {"open", "leaked"} THEN 1 ELSE 0) = e.ssock
                              /\ (IF st.slc = "open" THEN 1 ELSE 0) = e.slopen
                              /\ Cardinality({w \in Ends : st.csock[w] = "open"}) = e.copen
    [] OTHER               -> FALSE

Count(e) == IF e.a = "SStat" /\ e.k \in {"dialOK", "listenOK"} THEN [cnt EXCEPT ![e.k] = @ + 1]
            ELSE IF e.a = "SRet" THEN [cnt EXCEPT !.sret = 1]
            ELSE IF e.a = "CRet" THEN [cnt EXCEPT !.cret = 1] ELSE cnt

TraceEvent ==
  /\ l <= Len(TraceLog)
  /\ l' = l + 1
  /\ LET e == TraceLog[l] IN
     CASE e.a = "Start" -> st' = InitState(e.scr) /\ obs' = [a |-> "Init"] /\ go' = {} /\ cnt' = Cnt0
       [] e.a = "SCall" -> go' = go \cup {"S"} /\ UNCHANGED <<vars, cnt>>
       [] e.a = "CCall" -> go' = go \cup {"C"} /\ UNCHANGED <<vars, cnt>>
       [] OTHER         -> Fact(e) /\ cnt' = Count(e) /\ UNCHANGED <<vars, go>>
  /\ Mark(l + 1)   \* last conjunct: only evaluated when the line was accepted

\* the specification's steps; the two calls happen only after their log line, whatever the script's start order says
TraceSCall == "S" \in go /\ st.sm = "idle" /\ SCallBody
TraceCCall == "C" \in go /\ st.cm = "idle" /\ CCallBody
TraceSilent == /\ Core \/ Release \/ SExpire \/ CExpire \/ Callers \/ TraceSCall \/ TraceCCall
               /\ UNCHANGED <<l, go, cnt>>
TraceNext == TraceEvent \/ TraceSilent
TraceSpec == TraceInit /\ [][TraceNext]_tvars
TraceView == <<st, l, go, cnt>>
Reached == PrintT(<<"TRACE_REACHED", TLCGet(1) - 1>>)
Post == Reached /\ TLCGet(1) - 1 = Len(TraceLog)
=============================================================================
