\* object level, as found, two connections over two print / reset calls
SPECIFICATION SpecObj
CONSTANTS
  Conns = {"c1", "c2"}
  Kons = {}
  Asns = {"a1"}
  CCs = {"", "US"}
  Variant = "as_found"
  Broken = "none"
  MaxLoops = 0
  MaxPrints = 2
  MaxAuth = 0
VIEW view
CONSTRAINT Canon
INVARIANTS TypeOK GaugeExact NoDoubleCount AsnLedger OutcomeSum AsnSumsEpoch QuiescentZero
PROPERTIES PrintKeepsGauges
CHECK_DEADLOCK FALSE
