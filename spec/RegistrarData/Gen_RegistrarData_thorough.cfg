SPECIFICATION Spec
CONSTANTS
  Transports = {"min", "prefix", "obfs4"}
  Families = {"v4", "v6", "dual"}
  OverrideSets = {"none", "rand", "fixed"}
  SubnetCfgs = {"none", "one", "two", "zero", "three", "shared"}
  Exclusions = {"none", "orig", "other"}
  Percents = {"neither", "both", "minonly", "prefixonly"}
  ForgedKinds = {"none", "resp", "sig", "both"}
  Outdated = {FALSE, TRUE}
  Variant = "intended"
INVARIANT Emit
CHECK_DEADLOCK FALSE
