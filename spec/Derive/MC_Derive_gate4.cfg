SPECIFICATION Spec
CONSTANTS
  StationLegacySkip = 104
  StationRandMinVer = 4
INVARIANTS Agreement
CHECK_DEADLOCK FALSE
