//go:build verif

package prefix

// X08 adapter for the prefix client transport (see x08_shared_verif_test.go).

import (
	"bytes"
	"errors"
	"sort"

	"github.com/refraction-networking/conjure/pkg/core"
	"github.com/refraction-networking/conjure/pkg/transports"
	pb "github.com/refraction-networking/conjure/proto"
	"google.golang.org/protobuf/proto"
	"google.golang.org/protobuf/types/known/anypb"
)

// the bytes a station expects for the ten default prefixes (the driver's own copy: a change of what the client puts on the
// wire must not go unnoticed because both ends read the same table)
var x08Known = [][]byte{
	{},
	[]byte("GET / HTTP/1.1\r\n"),
	[]byte("POST / HTTP/1.1\r\n"),
	[]byte("HTTP/1.1 200\r\n"),
	[]byte("\x16\x03\x03\x40\x00\x01"),
	[]byte("\x16\x03\x03\x40\x00\x02\r\n"),
	[]byte("\x15\x03\x01\x00\x02"),
	[]byte("\x15\x03\x02\x00\x02"),
	[]byte("\x05\xDC\x5F\xE0\x01\x20"),
	[]byte("SSH-2.0-OpenSSH_8.9p1"),
}

type x08PrefixAd struct {
	priv, pub [32]byte
	toks      map[string][]byte
	order     []string
}

func x08NewAdapter() x08Adapter {
	a := &x08PrefixAd{toks: map[string][]byte{}}
	a.priv, a.pub = x08StationKeys()
	for k, v := range x08Custom {
		a.toks[k] = v
	}
	for i := 1; i < len(x08Known); i++ {
		a.toks["k"+string(rune('0'+i))] = x08Known[i]
	}
	for k := range a.toks {
		a.order = append(a.order, k)
	}
	sort.Slice(a.order, func(i, j int) bool {
		if len(a.toks[a.order[i]]) != len(a.toks[a.order[j]]) {
			return len(a.toks[a.order[i]]) > len(a.toks[a.order[j]])
		}
		return a.order[i] < a.order[j]
	})
	return a
}

func (a *x08PrefixAd) Kind() string   { return "prefix" }
func (a *x08PrefixAd) UsesRand() bool { return true }
func (a *x08PrefixAd) New(field int) x08T {
	if field >= 0 {
		return &ClientTransport{Prefix: DefaultPrefixes[PrefixID(field)]}
	}
	return &ClientTransport{}
}

func (a *x08PrefixAd) tokOf(b []byte) string {
	for _, k := range a.order {
		if bytes.Equal(a.toks[k], b) {
			return k
		}
	}
	return "?"
}

func (a *x08PrefixAd) pbParams(m map[string]any) *pb.PrefixTransportParams {
	id, fl := int32(x08Int(m["id"])), int32(x08Int(m["flush"]))
	rnd, _ := m["rand"].(bool)
	tok, _ := m["bytes"].(string)
	p := &pb.PrefixTransportParams{}
	sparse := (int(id)*3+int(fl))%2 == 0 // optional fields at their zero value are left unset in half of the alphabet
	if !(sparse && id == 0) {
		p.PrefixId = proto.Int32(id)
	}
	if !(sparse && fl == 0) {
		p.CustomFlushPolicy = proto.Int32(fl)
	}
	if !(sparse && !rnd) {
		p.RandomizeDstPort = proto.Bool(rnd)
	}
	if !(sparse && tok == "") {
		p.Prefix = append([]byte{}, a.toks[tok]...)
	}
	return p
}

func (a *x08PrefixAd) SetArg(arg map[string]any) any {
	switch arg["t"] {
	case "nil":
		return nil
	case "pnil":
		return (*pb.PrefixTransportParams)(nil)
	case "cnil":
		return (*ClientParams)(nil)
	case "gen":
		r, _ := arg["rand"].(bool)
		return &pb.GenericTransportParams{RandomizeDstPort: proto.Bool(r)}
	case "pb":
		return a.pbParams(arg)
	case "cpp", "cpv":
		r, _ := arg["rand"].(bool)
		cp := ClientParams{RandomizeDstPort: r, FlushPolicy: int32(x08Int(arg["flush"])), PrefixID: int32(x08Int(arg["id"]))}
		if arg["t"] == "cpp" {
			return &cp
		}
		return cp
	}
	return "not parameters"
}

func (a *x08PrefixAd) Inc(inc map[string]any) *anypb.Any {
	switch inc["t"] {
	case "nil":
		return nil
	case "gen":
		r, _ := inc["rand"].(bool)
		x, _ := anypb.New(&pb.GenericTransportParams{RandomizeDstPort: proto.Bool(r)})
		return x
	case "pb":
		x, _ := anypb.New(a.pbParams(inc))
		if x08Int(inc["flush"]) == 1 { // older registrars name the package "tapdance"
			x.TypeUrl = "type.googleapis.com/tapdance.PrefixTransportParams"
		}
		return x
	}
	return &anypb.Any{TypeUrl: "type.googleapis.com/proto.ClientToStation", Value: []byte{0xff, 0xff, 0xff}}
}

func (a *x08PrefixAd) projParams(p *pb.PrefixTransportParams) any {
	if p == nil {
		return x08None
	}
	return map[string]any{"id": int(p.GetPrefixId()), "rand": p.GetRandomizeDstPort(), "flush": int(p.GetCustomFlushPolicy()), "bytes": a.tokOf(p.GetPrefix())}
}

func (a *x08PrefixAd) Proj(tt x08T) (P, S, pfx, keys any) {
	t := tt.(*ClientTransport)
	P, S = a.projParams(t.parameters), a.projParams(t.sessionParams)
	pfx = x08None
	if t.Prefix != nil {
		pfx = map[string]any{"id": int(t.Prefix.ID()), "bytes": a.tokOf(t.Prefix.Bytes()), "flush": int(t.Prefix.FlushPolicy()), "port": int(t.Prefix.DstPort(nil))}
	}
	keys = x08None
	if t.connectTag != nil {
		keys = map[string]any{"sec": "?"}
		for _, sec := range x08SecretNames {
			if bytes.Equal(t.connectTag, core.ConjureHMAC(vSecret(sec), "PrefixTransportHMACString")) && t.stationPublicKey == a.pub {
				keys = map[string]any{"sec": sec}
			}
		}
	}
	return
}

func (a *x08PrefixAd) ProjMsg(m proto.Message) any {
	if m == nil {
		return x08None
	}
	if p, ok := m.(*pb.PrefixTransportParams); ok {
		return a.projParams(p)
	}
	return map[string]any{"type": string(m.ProtoReflect().Descriptor().FullName())}
}

func (a *x08PrefixAd) Why(err error) string {
	switch {
	case errors.Is(err, ErrUnknownPrefix):
		return "unknown"
	case errors.Is(err, ErrBadParams):
		return "badparams"
	}
	return "other"
}

func (a *x08PrefixAd) Port(seedName string, seed []byte, port uint16) any {
	if p, err := transports.PortSelectorRange(portRangeMin, portRangeMax, seed); err == nil && p == port {
		return map[string]any{"k": "seeded", "seed": seedName, "v": 0}
	}
	return map[string]any{"k": "fixed", "seed": "-", "v": int(port)}
}

// Header: the stream must start with the bytes of a named prefix followed by 64 bytes that the station's key reveals to the
// HMAC of a named secret
func (a *x08PrefixAd) Header(raw []byte) (string, string, int, int) {
	if len(raw) == 0 {
		return "", "none", 0, 0
	}
	for _, k := range a.order {
		pb := a.toks[k]
		if len(raw) < len(pb)+minTagLength || !bytes.HasPrefix(raw, pb) {
			continue
		}
		plain, err := transports.CTRObfuscator{}.TryReveal(raw[len(pb):len(pb)+minTagLength], a.priv)
		if err != nil {
			continue
		}
		for _, sec := range x08SecretNames {
			if bytes.Equal(plain, core.ConjureHMAC(vSecret(sec), "PrefixTransportHMACString")) {
				return k, sec, len(pb), minTagLength
			}
		}
	}
	return "?", "none", 0, 0
}

func (a *x08PrefixAd) StartPeer(p *x08Pipe, sec string) *x08Peer { return nil }
