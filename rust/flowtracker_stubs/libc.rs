// stub of the `libc` crate: the one type src/process_packet.rs uses
#[allow(non_camel_case_types)] pub type size_t = usize;
