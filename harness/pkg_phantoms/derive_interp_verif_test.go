//go:build verif

package PKGNAME

// Independent interpreter for the derivation steps the specifications (spec/Derive, spec/Phantom) name:
// HKDF (RFC 5869) and HMAC written against crypto/hmac + crypto/sha256 only, and the rejection sampling
// of crypto/rand.Int transcribed.  Nothing here imports the repository's packages or x/crypto/hkdf, so
// a change in pkg/core, pkg/phantoms or pkg/transports cannot move this view along with the code.

import (
	"crypto/hmac"
	"crypto/sha256"
	"errors"
	"io"
	"math/big"
)

// vdHKDF is the output stream of HKDF-SHA256(secret, salt, info) (extract-then-expand), read sequentially.
type vdHKDF struct {
	prk  []byte
	info []byte
	prev []byte
	ctr  int
	buf  []byte
}

func vdNewHKDF(secret, salt, info []byte) *vdHKDF {
	if salt == nil {
		salt = make([]byte, sha256.Size)
	}
	ext := hmac.New(sha256.New, salt)
	ext.Write(secret)
	return &vdHKDF{prk: ext.Sum(nil), info: info}
}

func (h *vdHKDF) Read(p []byte) (int, error) {
	n := 0
	for n < len(p) {
		if len(h.buf) == 0 {
			if h.ctr >= 255 {
				return n, errors.New("hkdf: entropy limit reached")
			}
			h.ctr++
			m := hmac.New(sha256.New, h.prk)
			m.Write(h.prev)
			m.Write(h.info)
			m.Write([]byte{byte(h.ctr)})
			h.prev = m.Sum(nil)
			h.buf = h.prev
		}
		c := copy(p[n:], h.buf)
		h.buf = h.buf[c:]
		n += c
	}
	return n, nil
}

func vdHMAC(key []byte, msg string) []byte {
	m := hmac.New(sha256.New, key)
	m.Write([]byte(msg))
	return m.Sum(nil)
}

// vdRandInt: uniform value in [0, max) by rejection sampling, as crypto/rand.Int consumes its reader:
// k = bytes needed for max-1, top byte masked to the bit length, retry while >= max; max = 1 reads nothing.
func vdRandInt(r io.Reader, max *big.Int) (*big.Int, error) {
	if max.Sign() <= 0 {
		return nil, errors.New("max <= 0")
	}
	n := new(big.Int).Sub(max, big.NewInt(1))
	bitLen := n.BitLen()
	if bitLen == 0 {
		return new(big.Int), nil
	}
	k := (bitLen + 7) / 8
	b := uint(bitLen % 8)
	if b == 0 {
		b = 8
	}
	buf := make([]byte, k)
	for {
		if _, err := io.ReadFull(r, buf); err != nil {
			return nil, err
		}
		buf[0] &= uint8(int(1<<b) - 1)
		n.SetBytes(buf)
		if n.Cmp(max) < 0 {
			return n, nil
		}
	}
}

func vdRandInt64(r io.Reader, max int64) (int64, error) {
	v, err := vdRandInt(r, big.NewInt(max))
	if err != nil {
		return 0, err
	}
	return v.Int64(), nil
}

// vdPortRange: the seeded port rule "randint(hkdf(seed, nil, label), max-min) + min".
func vdPortRange(min, max int64, seed []byte, label string) (uint16, error) {
	v, err := vdRandInt64(vdNewHKDF(seed, nil, []byte(label)), max-min)
	if err != nil {
		return 0, err
	}
	return uint16(v + min), nil
}
