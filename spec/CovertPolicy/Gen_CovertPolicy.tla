-------------------------- MODULE Gen_CovertPolicy --------------------------
(* Emits every (input, policy) row with the outcome the specification computes: result (rejected / address), lookups. *)
EXTENDS CovertPolicy, Json
Emit == pc = "done" => PrintT(ToJson([inp |-> inp, pol |-> pol, result |-> result, lookups |-> lookups, dialed |-> dialed]))
=============================================================================
