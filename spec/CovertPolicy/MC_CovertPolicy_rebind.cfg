SPECIFICATION Spec
CONSTANT StoreLiteral = FALSE
INVARIANTS DialedIsChecked CheckedIsPermitted ResolvedOnce PermittedLiteralAccepted MalformedRejected
CHECK_DEADLOCK FALSE
