------------------------------ MODULE Gen_Codec ------------------------------
(* Case generator for stage B: the module is evaluated at the REAL limits
   (255 / 63 / 255 / 255 / 65535, 10 pointers, Noise-N overheads 48 / 16, 1232-byte
   datagrams) on the boundary partition that the exhaustive scaled run explores
   in full -- empty, 1, Max-1, Max, Max+1, k*chunk-1, k*chunk, k*chunk+1 -- plus
   the seeded samples in between that checks/C15.py writes into the cfg
   (the Samples constants).  Every evaluation is printed as one JSON case: the
   expected verdict (accept / reject), encoded length, prefix bytes, chunk
   structure and round-trip result; the drivers in the real packages instantiate
   the case with seeded random content and compare. *)
EXTENDS Codec, Json
CONSTANTS SamplesReq, SamplesResp, SamplesTxt, SamplesExResp

Near(S) == UNION {{x - 1, x, x + 1} : x \in S} \ {0 - 1}
NearMult(m, ks) == UNION {{k * m - 1, k * m, k * m + 1} : k \in ks}
Rep(n, x) == [i \in 1..n |-> x]

GReqLens  == {0, 1, 2} \cup NearMult(B, {1, 2}) \cup {300} \cup SamplesReq
GRespLens == {0, 1} \cup NearMult(B, {1}) \cup NearMult(B * B, {1, 2}) \cup SamplesResp
GLabelLens == 0..170                       \* every payload length up to beyond the longest name
GDomains == {<<>>, <<1>>, <<1, 7, 3>>, <<1, 10, 7>>, <<MaxLabel, MaxLabel, 40>>}
GTxtLens == {0, 1} \cup NearMult(MaxTxtChunk, 1..4) \cup {1100} \cup SamplesTxt
GRRLens == {0, 1} \cup NearMult(B * B, {1})
GCounts == {0, 1, 2} \cup NearMult(B * B, {1})
GChains == 1..(PtrLimit + 4)
GShapes == {<<>>, <<1>>, <<0>>, <<MaxLabel - 1>>, <<MaxLabel>>, <<MaxLabel + 1>>, <<1, 0, 1>>, <<3, MaxLabel + 1, 3>>,
            <<MaxLabel, MaxLabel, MaxLabel, MaxName - 3 * (MaxLabel + 1) - 3>>,       \* wire length MaxName - 1
            <<MaxLabel, MaxLabel, MaxLabel, MaxName - 3 * (MaxLabel + 1) - 2>>,       \* exactly MaxName
            <<MaxLabel, MaxLabel, MaxLabel, MaxName - 3 * (MaxLabel + 1) - 1>>,       \* MaxName + 1
            <<MaxLabel, MaxLabel, MaxLabel, MaxLabel>>,
            Rep((MaxName - 1) \div 2, 1), Rep((MaxName - 1) \div 2 + 1, 1), Rep((MaxName - 1) \div 2 - 1, 1) \o <<2>>,
            <<5, 1, 7, 3>>}
GTagLens == {1, 2, 15, 16, 17, 31, 32, 33, 48, 100, 255}
GExReq == {0, 1, 40} \cup 95..101 \cup {150} \cup Near({MaxU8 - ReqOverhead}) \cup {300}
GExResp == {0, 1, 100} \cup SamplesExResp \cup 1050..1080 \cup 905..930

GenNext == obs.a = "Init" /\
        \/ \E n \in GReqLens : ReqFrame(n)
        \/ \E n \in GRespLens : RespFrame(n)
        \/ \E n \in GLabelLens, dom \in GDomains : Labels(n, dom)
        \/ \E sh \in GShapes : NameWire(sh)
        \/ \E n \in GTxtLens : Txt(n)
        \/ \E n \in GRRLens : RRData(n)
        \/ \E n \in GCounts : Count(n)
        \/ \E k \in GChains : MsgNames(k)
        \/ \E kind \in ObfKinds, n \in GTagLens : ObfTwice(kind, n, "k1", "k2", 1, 2)
        \/ \E a \in GExReq, b \in GExResp, dom \in {<<1, 7, 3>>, <<1, 10, 7>>} : Exchange(a, b, dom)
        \/ \E ty \in ParamTypes, url \in UrlModes, m \in MsgShapes, d \in DstStates : AnyPack(ty, url, m, d)
GenSpec == Init /\ [][GenNext]_vars
Emit == obs.a = "Init" \/ PrintT(ToJson(obs))
=============================================================================
