"""C20 - the client's stored ClientConf is replaced atomically (pkg/client/assets/assets.go).

A  TLC exhaustive on spec/AtomicStore (Mode "rename"): TargetAlwaysWhole in every state incl. after Crash,
   FailedStoreKeepsOldOnDisk, FailedReplaceKeepsOldInMemory, TempInSameDirectory (+ secondary invariants);
   the "inplace" / "tmpdir" / "norollback" instances must violate their invariant (non-vacuity).
B  Gen_AtomicStore enumerates every behaviour with one environment fault (Fail(step, errno) at any step of any
   store, Crash in any state).  Each distinct case is run on the REAL assets package: a child built from the
   repository's working tree performs the stores on one OS thread under `strace -f -e inject=...`
   (Fail -> error injected into that step's syscall, Crash -> SIGKILL at the entry of the next syscall; where the
   injection landed is verified from the strace log).  After the run the target is parsed with proto.Unmarshal
   and compared with the configurations TLC allows; per-operation results, in-memory and on-disk digests reported
   by the child are compared with TLC's observations.  Complemented by real environment faults (RLIMIT_FSIZE
   short write + EFBIG, unwritable directory as an unprivileged user, vanished directory, directory path under
   a regular file; where the sandbox allows it also a full 1 MiB tmpfs -> real ENOSPC, a read-only remount ->
   EROFS, an immutable target -> rename fails with EPERM) and random-instant SIGKILLs during a tight store loop.
   If strace / ptrace is unavailable the check exits 2 (no verdict).
C  The strace log of every uninjected and every injected run is an implementation trace validated by
   Trace_AtomicStore; a corrupted trace (create on the target) must be rejected.
"""
import json, os, re, shutil, subprocess, threading, time, random, copy, signal, zlib
from concurrent.futures import ThreadPoolExecutor
import vlib

PKG = "pkg/client/assets"
FILES = ["common/vcommon_test.go", "pkg_assets/store_verif_test.go"]
TRACE_SET = "openat,write,close,rename,renameat,renameat2,unlink,unlinkat,fsync,mkdirat"
TMPNAMES = ["tmp%d" % i for i in range(1, 13)]
# errno names the trace spec's cfg lists (the specification does not distinguish errnos; anything else is "other")
KNOWN_ERRNOS = {"EACCES", "ENOSPC", "EIO", "ENOENT", "ENOTDIR", "EFBIG", "EROFS", "EPERM", "EXDEV", "EDQUOT", "EISDIR"}
SETTERS = ["gen", "pubkey", "decoys", "subnets"]
NPAR = 6


# ------------------------------------------------------------------------------------------------ build / tools
def build(ctx):
    ov = ctx.overlay(PKG, FILES, "assets")
    bdir = ctx.sub("bin")
    os.chmod(ctx.scratch, 0o755)
    os.chmod(bdir, 0o755)
    binp = os.path.join(bdir, "assets.test")
    p = subprocess.run(["go", "test", "-c", "-o", binp, "-vet=off", "-tags", "verif", "-overlay", ov, "./" + PKG],
                       cwd=ctx.repo, env=ctx.go_env(), stdout=subprocess.PIPE, stderr=subprocess.STDOUT, text=True)
    if p.returncode != 0 or not os.path.exists(binp):
        raise vlib.InfraError("go build of the assets child failed:\n" + p.stdout[-4000:])
    os.chmod(binp, 0o755)
    return binp


class Verifier:
    """long-running oracle process (proto.Unmarshal + proto.Equal against abstract configurations)"""

    def __init__(self, ctx, binp):
        self.lock = threading.Lock()
        self.p = subprocess.Popen([binp, "-test.run", "^TestVerifStoreVerifier$"], stdin=subprocess.PIPE, stdout=subprocess.PIPE,
                                  env=ctx.go_env({"VERIF_ROLE": "verifier"}), text=True)

    def ask(self, req):
        with self.lock:
            self.p.stdin.write(json.dumps(req) + "\n")
            self.p.stdin.flush()
            line = self.p.stdout.readline()
        if not line.startswith("{"):
            raise vlib.InfraError("verifier died: %r" % line)
        return json.loads(line)

    def close(self):
        try:
            self.p.stdin.close()
            self.p.wait(timeout=10)
        except Exception:
            self.p.kill()


def strace_probe(ctx):
    if not shutil.which("strace"):
        raise vlib.InfraError("strace not installed: syscall-level fault injection unavailable")
    log = os.path.join(ctx.scratch, "probe.log")
    p = subprocess.run(["strace", "-f", "-o", log, "-e", "trace=write", "-e", "inject=write:error=ENOSPC:when=1", "/bin/echo", "x"],
                       stdout=subprocess.PIPE, stderr=subprocess.PIPE, text=True)
    txt = open(log).read() if os.path.exists(log) else ""
    if "INJECTED" not in txt:
        raise vlib.InfraError("ptrace/strace fault injection unavailable here (rc=%s): %s" % (p.returncode, (p.stderr or txt)[-400:]))


# ------------------------------------------------------------------------------------------------ strace log parsing
LINE = re.compile(r"^(\d+)\s+(.*)$")


def parse_strace(path):
    """-> list of dicts {pid, name, args, ret, err, injected, raw} in completion order, plus 'killed' pseudo entries."""
    out = []
    pending = {}
    with open(path, errors="replace") as f:
        for raw in f:
            m = LINE.match(raw.rstrip("\n"))
            if not m:
                continue
            pid, rest = int(m.group(1)), m.group(2)
            if rest.startswith("+++ killed by SIGKILL"):
                out.append({"pid": pid, "name": "+killed"})
                continue
            if rest.startswith("+++") or rest.startswith("---"):
                continue
            if rest.endswith("<unfinished ...>"):
                pending[pid] = rest[:-len("<unfinished ...>")].rstrip()
                continue
            mm = re.match(r"<\.\.\. (\w+) resumed>(.*)$", rest)
            if mm:
                rest = pending.pop(pid, mm.group(1) + "(") + mm.group(2)
            mm = re.match(r"(\w+)\((.*)\)\s+= (\S+)(.*)$", rest)
            if not mm:
                mm2 = re.match(r"(\w+)\((.*)$", rest)
                if mm2:
                    out.append({"pid": pid, "name": mm2.group(1), "args": mm2.group(2), "ret": "?", "err": None, "injected": False, "raw": rest})
                continue
            name, args, ret, tail = mm.groups()
            err = None
            if ret == "-1":
                me = re.match(r"\s*(E\w+)", tail)
                err = me.group(1) if me else "other"
            if err is not None and err not in KNOWN_ERRNOS:
                err = "other"
            out.append({"pid": pid, "name": name, "args": args, "ret": ret, "err": err, "injected": "(INJECTED)" in tail, "raw": rest})
    return out


def strs(args):
    return re.findall(r'"((?:[^"\\]|\\.)*)"', args)


class Extract:
    """maps the syscalls touching the store's files to Trace_AtomicStore events and locates each store step"""

    def __init__(self, entries, d):
        self.events = []        # events for the trace spec
        self.steps = []         # (entry_index, op, step, kidx) for every store-step syscall incl. markers
        self.killed = False
        target = os.path.join(d, "ClientConf")
        # files that are (attempted to be) renamed onto the target are part of the protocol wherever they live
        extra = set()
        for e in entries:
            if e["name"] in ("rename", "renameat", "renameat2"):
                s = strs(e["args"])
                if len(s) >= 2 and s[-1] == target:
                    extra.add(s[0])
        rel = lambda p: p == target or os.path.dirname(p) == d or p in extra
        names, inuse, fdmap = {}, set(), {}

        def nm(p):
            if p == target:
                return ("d", "ClientConf")
            if p not in names:
                free = [n for n in TMPNAMES if n not in inuse]
                names[p] = free[0] if free else "tmp12"
                inuse.add(names[p])
            return ("d" if os.path.dirname(p) == d else "t", names[p])

        def release(p):
            if p in names:
                inuse.discard(names.pop(p))

        op, nwrite = 0, 0
        inop = set()            # threads currently between a Begin and a Return marker: everything they create,
        #                         rename or unlink there is done by the store, wherever the file lives
        for idx, e in enumerate(entries):
            n = e["name"]
            if n == "+killed":
                if not self.killed:
                    self.killed = True
                    self.events.append({"a": "Crash"})
                continue
            if n == "openat":
                s = strs(e["args"])
                if not s:
                    continue
                p = s[0]
                if p.startswith("/verif-marker/"):
                    parts = p.split("/")[2:]
                    if parts[0] == "B":
                        op, nwrite = int(parts[1]), 0
                        inop.add(e["pid"])
                        self.steps.append((idx, op, "begin", 0))
                        if e["ret"] != "?":
                            self.events.append({"a": "Begin", "i": op, "kind": parts[2]})
                    elif parts[0] == "E":
                        inop.discard(e["pid"])
                        self.steps.append((idx, int(parts[1]), "return", 0))
                        if e["ret"] != "?":
                            self.events.append({"a": "Return", "i": int(parts[1]), "ok": parts[2] == "ok"})
                    continue
                flags = e["args"].split('",', 1)[1] if '",' in e["args"] else ""
                if not (rel(p) or e["pid"] in inop) or not re.search(r"O_WRONLY|O_RDWR|O_CREAT|O_TRUNC|O_APPEND", flags):
                    continue
                self.steps.append((idx, op, "create", 0))
                if e["ret"] == "?":
                    continue
                if e["err"]:
                    self.events.append({"a": "Fail", "step": "create", "errno": e["err"], "injected": e["injected"]})
                else:
                    dn = nm(p)
                    fdmap[e["ret"]] = p
                    self.events.append({"a": "Create", "dir": dn[0], "name": dn[1], "trunc": "O_TRUNC" in flags})
            elif n in ("write", "close", "fsync"):
                fd = e["args"].split(",")[0].strip()
                if fd not in fdmap:
                    continue
                p = fdmap[fd]
                if n == "fsync":
                    continue
                self.steps.append((idx, op, n, nwrite if n == "write" else 0))
                if e["ret"] == "?":
                    continue
                if e["err"]:
                    self.events.append({"a": "Fail", "step": n, "errno": e["err"], "injected": e["injected"]})
                    continue
                dn = nm(p)
                if n == "write":
                    nwrite += 1
                    self.events.append({"a": "Write", "dir": dn[0], "name": dn[1], "n": int(e["ret"])})
                else:
                    del fdmap[fd]
                    self.events.append({"a": "Close", "dir": dn[0], "name": dn[1]})
            elif n in ("rename", "renameat", "renameat2"):
                s = strs(e["args"])
                if len(s) < 2 or not (rel(s[0]) or rel(s[1]) or e["pid"] in inop):
                    continue
                self.steps.append((idx, op, "rename", 0))
                if e["ret"] == "?":
                    continue
                if e["err"]:
                    self.events.append({"a": "Fail", "step": "rename", "errno": e["err"], "injected": e["injected"]})
                    continue
                f, t = nm(s[0]), nm(s[1])
                self.events.append({"a": "Rename", "fdir": f[0], "fname": f[1], "tdir": t[0], "tname": t[1]})
                release(s[0])
            elif n in ("unlink", "unlinkat"):
                s = strs(e["args"])
                if not s or not (rel(s[0]) or e["pid"] in inop) or e["err"] or e["ret"] == "?":
                    continue
                dn = nm(s[0])
                self.events.append({"a": "Unlink", "dir": dn[0], "name": dn[1]})
                release(s[0])


def when_of(entries, idx):
    """1-based invocation number of entries[idx] among the syscalls of the same name by the same thread"""
    e = entries[idx]
    return sum(1 for x in entries[:idx + 1] if x.get("pid") == e["pid"] and x["name"] == e["name"])


# ------------------------------------------------------------------------------------------------ plans and cases
def mk_plan(ctx, kinds, variant, large_decoys, envs=None, init_size="small", big=None):
    """big: index of the one operation that must store megabytes (all others small), or None: sizes alternate"""
    ops = []
    for j, k in enumerate(kinds, start=1):
        size = "large" if (j + variant) % 2 == 0 else "small"
        if big is not None:
            size = "large" if j == big else "small"
        o = {"id": j, "kind": k, "size": size, "setter": "", "env": (envs or {}).get(j, "")}
        if k == "Partial":
            o["setter"] = SETTERS[(ctx.seed + j + variant) % 4]
            if big is not None:
                o["setter"] = "decoys" if j == big else SETTERS[(ctx.seed + j) % 2]      # gen / pubkey keep the size
            if o["setter"] != "decoys":
                o["size"] = ""
        ops.append(o)
    return {"seed": ctx.seed, "dir": "", "init_size": init_size, "ops": ops, "stop_on_error": False, "markers": True,
            "large_decoys": large_decoys}


def plan_key(plan):
    return json.dumps([[o["kind"], o["setter"], o["size"], o["env"]] for o in plan["ops"]] + [plan["init_size"]])


def behaviour_case(b):
    """TLC behaviour (list of obs) -> abstract case: kinds, fault, crash, expectations"""
    kinds, fails, crash, rets = [], [], None, {}
    nw = {}
    for o in b:
        a = o["a"]
        if a == "Begin":
            kinds.append(o["kind"])
        elif a == "Write":
            nw[o["i"]] = o["k"]
        elif a == "Fail":
            fails.append((o["i"], o["step"], o["k"], o["errno"]))
        elif a == "Return":
            rets[o["i"]] = {"ok": o["ok"], "mem": o["st"]["mem"], "disk": o["st"]["target"]["c"]}
        elif a == "Crash":
            at = o["at"]
            i = o["i"]
            k = nw.get(i, 0) if at == "write" else 0
            if at == "marshal":
                at = "create"
            crash = (i, at, k)
    final = b[-1]["st"]
    return {"kinds": kinds, "fails": fails, "crash": crash, "rets": rets,
            "final_disk": final["target"]["c"], "allowed": final["allowed"], "final_whole": final["target"]["whole"]}


def case_key(c):
    return json.dumps([c["kinds"], c["fails"], c["crash"]])


# ------------------------------------------------------------------------------------------------ running the child
class Runner:
    def __init__(self, ctx, binp, ver):
        self.ctx, self.bin, self.ver = ctx, binp, ver
        self.n = 0
        self.lock = threading.Lock()
        self.base = ctx.sub("runs")
        os.chmod(self.base, 0o755)
        self.mounts = set()

    def newdir(self):
        with self.lock:
            self.n += 1
            d = os.path.join(self.base, "r%d" % self.n)
        os.makedirs(d)
        os.chmod(d, 0o755)
        return d

    def run(self, plan, inject=(), unpriv=False, tmpfs=None):
        """one child run under strace; returns dict(entries, ex, report, dir, rc)"""
        rd = self.newdir()
        d = os.path.join(rd, "assets")
        os.makedirs(d)
        if tmpfs:
            p = subprocess.run(["mount", "-t", "tmpfs", "-o", "size=%s" % tmpfs, "tmpfs", d], stdout=subprocess.PIPE, stderr=subprocess.STDOUT, text=True)
            if p.returncode != 0:
                raise vlib.InfraError("mount tmpfs failed: %s" % p.stdout)
            with self.lock:
                self.mounts.add(d)
        plan = dict(plan, dir=d)
        r = self.ver.ask({"q": "init", "plan": plan})
        if r.get("err") != "<nil>":
            raise vlib.InfraError("cannot initialise ClientConf: %s" % r)
        pf, outp, log = os.path.join(rd, "plan.json"), os.path.join(rd, "out.ndjson"), os.path.join(rd, "strace.log")
        json.dump(plan, open(pf, "w"))
        cmd = ["strace", "-f", "-s", "0", "-o", log, "-e", "trace=" + TRACE_SET]
        for i in inject:
            cmd += ["-e", "inject=" + i]
        if unpriv:
            for p in (rd, d):
                os.chown(p, 65534, 65534)
            os.chown(os.path.join(d, "ClientConf"), 65534, 65534)
            cmd += ["-u", "nobody"]
        cmd += [self.bin, "-test.run", "^TestVerifStoreChild$"]
        env = self.ctx.go_env({"VERIF_ROLE": "child", "VERIF_PLAN": pf, "VERIF_OUT": outp, "HOME": rd, "GOCACHE": "off"})
        try:
            p = subprocess.run(cmd, env=env, stdout=subprocess.PIPE, stderr=subprocess.STDOUT, text=True, timeout=120, cwd=rd)
        except subprocess.TimeoutExpired:
            raise vlib.InfraError("child under strace timed out: %s" % " ".join(cmd))
        entries = parse_strace(log) if os.path.exists(log) else []
        report = []
        if os.path.exists(outp):
            for l in open(outp):
                if l.strip():
                    report.append(json.loads(l))
        res = {"entries": entries, "ex": Extract(entries, d), "report": report, "dir": d, "rd": rd, "rc": p.returncode,
               "immutable": any(o.get("env") == "immutable" for o in plan["ops"]),
               "out": p.stdout[:1500] + " ... " + p.stdout[-300:], "plan": plan}
        return res

    def unmount(self, d):
        subprocess.run(["umount", "-l", d], stdout=subprocess.DEVNULL, stderr=subprocess.DEVNULL)
        with self.lock:
            self.mounts.discard(d)

    def done(self, res):
        if res["dir"] in self.mounts:
            self.unmount(res["dir"])
        if res.get("immutable"):
            subprocess.run(["chattr", "-R", "-i", res["rd"]], stdout=subprocess.DEVNULL, stderr=subprocess.DEVNULL)
        if not os.environ.get("VERIF_KEEP"):
            shutil.rmtree(res["rd"], ignore_errors=True)

    def cleanup(self):
        for d in list(self.mounts):
            self.unmount(d)
        subprocess.run(["chattr", "-R", "-i", self.base], stdout=subprocess.DEVNULL, stderr=subprocess.DEVNULL)


def inject_for(base, op, step, k, what, rename_sys):
    """strace inject expression hitting the syscall of (op, step, k) as located in the baseline run"""
    for (idx, o, s, kk) in base["ex"].steps:
        if o == op and s == step and kk == k:
            e = base["entries"][idx]
            return "%s:%s:when=%d" % (e["name"], what, when_of(base["entries"], idx)), e["name"]
    return None, None


def landed(res, op, step, k, kill):
    """was the injected fault applied to the syscall we aimed at?"""
    ents, ex = res["entries"], res["ex"]
    hit = None
    for (idx, o, s, kk) in ex.steps:
        e = ents[idx]
        if (kill and e["ret"] == "?") or (not kill and e["injected"]):
            hit = (o, s, kk)
    if kill and not ex.killed:
        return False
    return hit == (op, step, k)


# ------------------------------------------------------------------------------------------------ the check
def run(ctx):
    ctx.level = "fault_enumeration"
    thorough = ctx.tier == "thorough"
    sdir = ctx.spec_copy("AtomicStore")
    strace_probe(ctx)
    binp = build(ctx)
    large_decoys = 60000

    # ---- A
    r = ctx.tlc(sdir, "AtomicStore.tla", "MC_AtomicStore_thorough.cfg" if thorough else "MC_AtomicStore.cfg", timeout=1500)
    ctx.require_design_ok(r, "AtomicStore Mode=rename")
    ctx.log("A: exhaustive %d distinct states, %d generated, depth %d (%.1fs)" % (r["distinct"], r["generated"], r["depth"], r["wall_s"]))
    nonvac = {}
    for mode, inv in (("inplace", "TargetAlwaysWhole"), ("tmpdir", "TempInSameDirectory"), ("norollback", "FailedReplaceKeepsOldInMemory")):
        r2 = ctx.tlc(sdir, "AtomicStore.tla", "MC_AtomicStore_%s.cfg" % mode, timeout=300, count=False, workers=4)
        if r2["inv"] != inv:
            raise vlib.InfraError("Mode=%s instance should violate %s, got %s" % (mode, inv, r2["inv"]))
        nonvac[mode] = inv
    ctx.stage("A", invariants=["TypeOK", "TargetAlwaysWhole", "FailedStoreKeepsOldOnDisk", "FailedReplaceKeepsOldInMemory",
                               "TempInSameDirectory", "SuccessfulStoreSyncs", "TempIsPrefixOfAStoredValue", "PublishedOnlyWhenComplete"],
              nonvacuity="broken instances violate as expected: %s" % nonvac)

    # ---- B: cases from TLC
    g = ctx.tlc(sdir, "Gen_AtomicStore.tla", "Gen_AtomicStore_thorough.cfg" if thorough else "Gen_AtomicStore.cfg",
                timeout=1500, workers=8, count=False)
    if g["inv"]:
        raise vlib.InfraError("generator failed: %s" % g["out"][-2000:])
    cases = {}
    nbeh = 0
    with open(g["beh_file"]) as f:
        for line in f:
            nbeh += 1
            c = behaviour_case(json.loads(line))
            cases.setdefault(case_key(c), c)
    ctx.log("B: %d TLC behaviours -> %d distinct abstract cases" % (nbeh, len(cases)))
    if len(cases) < 500:
        raise vlib.InfraError("too few cases generated")
    allc = [cases[k] for k in sorted(cases)]
    ctx.rng.shuffle(allc)
    single = [c for c in allc if len(c["fails"]) + (1 if c["crash"] else 0) == 1]
    multi = [c for c in allc if len(c["fails"]) + (1 if c["crash"] else 0) >= 2]
    nofault = [c for c in allc if not c["fails"] and not c["crash"]]
    # stratify: every (fault kind, step, errno/at, k, op index, kind of the faulted op) class at least once
    def cls(c):
        if c["crash"]:
            i, at, k = c["crash"]
            return ("crash", at, k, i, c["kinds"][i - 1] if 0 < i <= len(c["kinds"]) else "-")
        i, step, k, e = c["fails"][0]
        return ("fail", step, k, e, i, c["kinds"][i - 1])
    chosen, seen_cls = [], set()
    for c in single:
        if cls(c) not in seen_cls:
            seen_cls.add(cls(c))
            chosen.append(c)
    budget = 6000 if thorough else 330
    rest = [c for c in single if c not in chosen]
    chosen += rest[:max(0, budget - len(chosen))]
    chosen += nofault[:27 if thorough else 6]
    chosen += multi[:1500 if thorough else 30]
    ctx.log("B: %d cases selected (%d fault classes)" % (len(chosen), len(seen_cls)))

    ver = Verifier(ctx, binp)
    rn = Runner(ctx, binp, ver)
    traces_base, traces_inj = [], []
    tlock = threading.Lock()
    stats = {"runs": 0, "crash": 0, "fail": 0, "nofault": 0, "uninstantiable": 0, "misplaced": 0, "exact_crash_state": 0, "multi": 0,
             "syscall_conflict": 0}
    distinct = set()
    try:
        # baselines: one uninjected run per plan
        plans = {}
        for c in chosen:
            for variant in ((0, 1) if thorough else ((ctx.seed + zlib.crc32(case_key(c).encode())) % 2,)):
                kinds = list(c["kinds"])
                if c["crash"] and c["crash"][1] == "idle" and c["crash"][0] == len(kinds):
                    kinds.append("Replace")       # the kill is hung on the next operation's begin marker
                pl = mk_plan(ctx, kinds, variant, large_decoys)
                c.setdefault("plans", []).append(plan_key(pl))
                plans.setdefault(plan_key(pl), pl)
        ctx.log("B: %d baseline (uninjected) runs" % len(plans))
        base = {}

        def do_base(pk):
            res = rn.run(plans[pk])
            if res["rc"] != 0 or not res["report"]:
                raise vlib.InfraError("uninjected child failed rc=%s: %s" % (res["rc"], res["out"]))
            with tlock:
                traces_base.append(res["ex"].events)
            # the uninjected runs must themselves agree with the specification's fault-free observations
            check_report(ctx, ver, res, None, "nofault")
            rn.done(res)
            return pk, res

        with ThreadPoolExecutor(NPAR) as ex:
            for pk, res in ex.map(do_base, list(plans)):
                base[pk] = res
        anyb = next(iter(base.values()))
        rename_sys = [anyb["entries"][i]["name"] for (i, o, s, k) in anyb["ex"].steps if s == "rename"] or ["(none)"]
        # stage C on the uninjected runs first: if the code does not follow the protocol at all this says so plainly
        validate(ctx, sdir, "uninjected", traces_base)
        K = max(len([1 for (i, o, s, k) in b["ex"].steps if o == 1 and s not in ("begin", "return")]) for b in base.values())
        ctx.stage("B", syscalls_per_store=K, rename_syscall=rename_sys[0])

        def do_case(args):
            c, pk = args
            faults = [(i, step, k, "error=" + e, False) for (i, step, k, e) in c["fails"]]
            if c["crash"]:
                i, at, k = c["crash"]
                step = {"idle": "begin", "done": "return", "failed": "return"}.get(at, at)
                faults.append((i + 1 if at == "idle" else i, step, k, "signal=KILL", True))
            faults.sort(key=lambda f: (f[0], f[4]))
            b, inj, used, res = base[pk], [], set(), None
            for n, (i, step, k, what, kill) in enumerate(faults):
                # locate the syscall of this fault in a run that already contains the earlier faults
                x, sysname = inject_for(b, i, step, k, what, rename_sys[0])
                if n > 0:
                    rn.done(b)
                if x is None:
                    return ("uninstantiable", c, None)
                if sysname in used:
                    return ("syscall_conflict", c, None)
                used.add(sysname)
                inj.append(x)
                for attempt in (0, 1):
                    res = rn.run(plans[pk], inject=inj)
                    # (an injected error must leave a child that still reports; a Go runtime crash means the
                    #  injection also hit a runtime-internal syscall of another thread -> not a run of the case)
                    ok = landed(res, i, step, k, kill) and (kill or bool(res["report"]))
                    if ok:
                        break
                    if os.environ.get("VERIF_DEBUG"):
                        print("MISPLACED", inj, (i, step, k, kill), [e["raw"] for e in res["entries"] if e.get("injected") or e.get("ret") == "?"],
                              res["ex"].killed, res["rc"])
                    rn.done(res)
                if not ok:
                    return ("misplaced", c, None)
                b = res
            if res is None:
                res = rn.run(plans[pk])
            return ("ran", c, res)

        work = [(c, pk) for c in chosen for pk in c.get("plans", [])]
        ctx.log("B: %d injected runs" % len(work))
        with ThreadPoolExecutor(NPAR) as ex:
            for status, c, res in ex.map(do_case, work):
                if status != "ran":
                    stats[status] += 1
                    continue
                stats["runs"] += 1
                kind = "crash" if c["crash"] else ("fail" if c["fails"] else "nofault")
                stats[kind] += 1
                if len(c["fails"]) + (1 if c["crash"] else 0) > 1:
                    stats["multi"] += 1
                check_report(ctx, ver, res, c, kind, stats)
                sizes = [o["size"] or "-" for o in res["plan"]["ops"]]
                if c["crash"]:
                    i, at, k = c["crash"]
                    distinct.add(("crash", at, k, i, sizes[min(i, len(sizes)) - 1] if i else "-"))
                for (i, step, k, e) in c["fails"]:
                    distinct.add(("fail", step, k, e, i, sizes[i - 1], c["kinds"][i - 1]))
                with tlock:
                    traces_inj.append(res["ex"].events)
                    if stats["runs"] in (3, 40):
                        ctx.sample({"stage": "B", "case": {"kinds": c["kinds"], "fails": c["fails"], "crash": c["crash"]},
                                    "events": [fmt_ev(e) for e in res["ex"].events][-8:]})
                rn.done(res)
        ctx.log("B: injected runs %s" % stats)
        if not ctx.violations:
            # (when the real code already diverged from the protocol the enumeration cannot be expected to be complete)
            if stats["misplaced"] > max(5, len(work) // 10):
                raise vlib.InfraError("too many injections did not land on the intended syscall (%d of %d)" % (stats["misplaced"], len(work)))
            if stats["crash"] < 20 or stats["fail"] < 40:
                raise vlib.InfraError("too few injected runs executed: %s" % stats)

        # ---- B2: real environment faults (no injection): every Fail(create|write) case of TLC with a real cause
        envstats = env_faults(ctx, rn, ver, cases, large_decoys, traces_inj, distinct)
        # ---- B3: random-instant SIGKILL during a tight store loop
        kstats = random_kills(ctx, binp, ver, 4000 if thorough else 160, large_decoys)
        distinct.add(("randomkill", kstats["inflight"] > 0))
        ctx.stage("B", **stats)
        ctx.stage("B_env", **envstats)
        ctx.stage("B_randomkill", **kstats)
    finally:
        rn.cleanup()
        ver.close()

    # ---- C
    validate(ctx, sdir, "injected", traces_inj)
    bad = copy.deepcopy(traces_base[:2])
    for e in bad[0]:
        if e["a"] == "Create":
            e["name"] = "ClientConf"      # = open(target, O_WRONLY|O_TRUNC)
            break
    ok2, reached2, _, _ = ctx.validate_traces(sdir, "Trace_AtomicStore.tla", "Trace_AtomicStore.cfg", bad, timeout=300)
    if ok2:
        raise vlib.InfraError("binding is vacuous: a trace that creates the target in place was accepted")
    bad = copy.deepcopy(traces_base[:2])
    for i, e in enumerate(bad[0]):
        if e["a"] == "Close":
            bad[0][i], bad[0][i + 1] = bad[0][i + 1], bad[0][i]   # rename before close
            break
    ok3, reached3, _, _ = ctx.validate_traces(sdir, "Trace_AtomicStore.tla", "Trace_AtomicStore.cfg", bad, timeout=300)
    if ok3:
        raise vlib.InfraError("binding is vacuous: rename-before-close trace accepted")
    ctx.stage("C", corrupted_trace_rejected_at=[reached2, reached3], uninjected=len(traces_base), injected=len(traces_inj))
    ctx.cov["traces_validated_against_impl"] = len(traces_base) + len(traces_inj)
    ctx.sample({"stage": "C", "trace": [fmt_ev(e) for e in traces_base[0][:14]]})

    ctx.cov["evaluations"] = stats["runs"] + len(traces_base) + envstats["runs"] + kstats["kills"]
    ctx.cov["distinct_nontrivial"] = len(distinct)
    ctx.cov["exhaustive"] = False
    ctx.cov["rule"] = ("a case is (fault kind, step / crash point, write index, errno, operation index, size class of the faulted "
                       "store, kind of store) as actually hit according to the strace log; uninjected runs, random kills (one class) and "
                       "repeated plans are not counted")
    ctx.assumptions += [
        "a SIGKILL injected by strace lands at syscall entry, before the syscall takes effect: crash points are the gaps between the "
        "store's syscalls; a kill in the middle of a write is produced only by the random-instant kills and the RLIMIT_FSIZE short write",
        "os.WriteFile issues one write(2) per store on this platform: Fail/Crash at the second chunk is instantiated by the real "
        "RLIMIT_FSIZE short write only; TLC cases needing more chunks are counted as uninstantiable (%d)" % stats["uninstantiable"],
        "power-loss durability (fsync) is not part of the statement and not modelled",
        "stores of one process are serialised by the assets lock; concurrent writers in different processes are not modelled",
        "unwritable directory is produced by running the child as user nobody (root ignores mode bits); a full file system is "
        "produced by injected ENOSPC and by RLIMIT_FSIZE (no mount privilege is assumed)",
    ]


def validate(ctx, sdir, name, traces):
    if not traces:
        raise vlib.InfraError("no %s traces recorded" % name)
    ok, reached, total, tr = ctx.validate_traces(sdir, "Trace_AtomicStore.tla", "Trace_AtomicStore.cfg", traces, timeout=1500,
                                                 name="trace.ndjson")
    ctx.log("C: %s: %d traces / %d events accepted=%s reached=%d" % (name, len(traces), total, ok, reached))
    if ok:
        return
    flat = []
    for t in traces:
        flat.append({"a": "Reset"})
        flat += t
    bad = flat[reached] if reached < len(flat) else None
    if tr["inv"]:
        ctx.violation("trace:invariant:%s" % tr["inv"], "strace log of the real store reaches a state violating %s" % tr["inv"],
                      {"tlc": tr["out"][-3000:]})
    elif bad is None:
        raise vlib.InfraError("trace validation failed without a rejected event:\n" + tr["out"][-2000:])
    else:
        what = bad["a"] + (":" + bad.get("name", "") if bad["a"] in ("Create", "Write") and bad.get("name") == "ClientConf" else "") \
            + (":dir=" + bad["dir"] if bad.get("dir") == "t" else "")
        ctx.violation("trace:rejected:%s" % what,
                      "the real store's syscall sequence is not a behaviour of AtomicStore (temp file in the target's directory, "
                      "write*, close, rename): event %d %s" % (reached, json.dumps(bad)),
                      {"event_index": reached, "event": bad, "previous": flat[max(0, reached - 8):reached], "run": name})


def fmt_ev(e):
    return e["a"] + "(" + ",".join("%s" % v for k, v in e.items() if k not in ("a", "injected", "trunc")) + ")"


def check_report(ctx, ver, res, c, kind, stats=None):
    """compare the real run with TLC's observations (c = abstract case or None for the fault-free expectation)"""
    plan = res["plan"]
    rep = [x for x in res["report"] if x.get("kind") == "op"]
    target = os.path.join(res["dir"], "ClientConf")
    label = "nofault"
    if c is not None and c["crash"]:
        label = "crash:%s" % c["crash"][1]
    elif c is not None and c["fails"]:
        label = "fail:" + "+".join("%s:%s" % (f[1], f[3]) for f in c["fails"])
    detail = {"plan": plan["ops"], "case": None if c is None else {"kinds": c["kinds"], "fails": c["fails"], "crash": c["crash"]},
              "report": rep, "events": [fmt_ev(e) for e in res["ex"].events][-14:]}
    if c is None:
        # fault-free expectation: every op succeeds unless BadMarshal; computed by the same fold as the spec
        mem, disk, rets = [0], [0], {}
        for o in plan["ops"]:
            if o["kind"] == "BadMarshal":
                rets[o["id"]] = {"ok": False, "mem": mem, "disk": disk}
                continue
            mem = mem + [o["id"]] if o["kind"] == "Partial" else [o["id"]]
            disk = mem
            rets[o["id"]] = {"ok": True, "mem": mem, "disk": disk}
        c = {"rets": rets, "crash": None, "final_disk": disk, "allowed": [disk], "fails": [], "kinds": [o["kind"] for o in plan["ops"]]}
    # digests of every abstract configuration TLC mentions
    absl = []
    for r in c["rets"].values():
        for a in (r["mem"], r["disk"]):
            if a not in absl:
                absl.append(a)
    for a in c["allowed"] + [c["final_disk"]]:
        if a not in absl:
            absl.append(a)
    dg = ver.ask({"q": "digest", "plan": plan, "cands": absl})["digests"]
    dig = {json.dumps(a): d for a, d in zip(absl, dg)}
    for x in rep:
        if x.get("panic"):
            ctx.violation("%s:panic" % label, "store operation %d panicked: %s" % (x["i"], x["panic"]), detail)
        exp = c["rets"].get(x["i"])
        if exp is None:
            continue    # op not completed in the TLC behaviour (crash) - cannot happen for a written report
        ok = x["err"] == ""
        if ok != exp["ok"]:
            ctx.violation("%s:result" % label, "operation %d returned %s, the specification says %s" %
                          (x["i"], "nil" if ok else x["err"], "success" if exp["ok"] else "error"), detail)
            continue
        if x["disk"] != dig[json.dumps(exp["disk"])]:
            what = "unparseable" if x["disk"] in ("unparseable", "missing") else "different"
            ctx.violation("%s:disk%s" % (label, "" if ok else ":after-failed-store"),
                          "after operation %d (%s) the ClientConf file is %s (%s): expected configuration %s" %
                          (x["i"], "ok" if ok else "failed: " + x["err"], what, x["disk"], exp["disk"]), detail)
        if x["mem"] != dig[json.dumps(exp["mem"])]:
            kindop = plan["ops"][x["i"] - 1]["kind"]
            ctx.violation("%s:mem%s" % (label, (":after-failed-" + kindop) if not ok else ""),
                          "after operation %d (%s, %s) the in-memory configuration is not %s" %
                          (x["i"], kindop, "ok" if ok else "failed: " + x["err"], exp["mem"]), detail)
    if c["crash"] is None and len(rep) != len(plan["ops"]):
        raise vlib.InfraError("child report incomplete (%d of %d ops) rc=%s: %s\n%s" % (len(rep), len(plan["ops"]), res["rc"], res["out"],
                              [e["raw"] for e in res["entries"] if e.get("injected") or e.get("ret") == "?"]))
    # the file as a new process would find it
    cands = [a for a in c["allowed"]]
    if c["final_disk"] not in cands:
        cands.append(c["final_disk"])
    fr = ver.ask({"q": "file", "plan": plan, "path": target, "cands": cands})
    if not fr.get("exists") or not fr.get("parse_ok"):
        ctx.violation("%s:target-unparseable" % label, "after the run the ClientConf file is %s" %
                      ("missing" if not fr.get("exists") else "not parseable: %s" % fr.get("parse_err")), dict(detail, file=fr))
    elif not fr["match"]:
        ctx.violation("%s:target-neither-old-nor-new" % label,
                      "after the run the ClientConf file (%d bytes, generation %s, %s decoys) equals neither the previous nor the new "
                      "configuration %s" % (fr["size"], fr.get("gen"), fr.get("ndecoys"), c["allowed"]), dict(detail, file=fr))
    elif c["crash"] is not None and stats is not None:
        if cands.index(c["final_disk"]) in fr["match"]:
            stats["exact_crash_state"] += 1
    elif c["crash"] is None and cands.index(c["final_disk"]) not in fr["match"]:
        ctx.violation("%s:final-disk" % label, "final ClientConf differs from the specification's %s" % c["final_disk"], dict(detail, file=fr))


def env_faults(ctx, rn, ver, cases, large_decoys, traces_inj, distinct):
    """real causes for Fail(create, *) and Fail(write k=1, *): TLC's expectation is taken from the generated case with the same shape"""
    st = {"runs": 0, "kinds": {}}
    index = {}
    for c in cases.values():
        if len(c["fails"]) == 1 and not c["crash"]:
            i, step, k, e = c["fails"][0]
            index.setdefault((tuple(c["kinds"]), i, step, k), c)
    envs = [("movedir", "create", 0, False), ("filedir", "create", 0, False), ("rodir", "create", 0, True), ("fsize", "write", 1, False)]
    try:
        import pwd
        pwd.getpwnam("nobody")
    except Exception:
        envs = [e for e in envs if e[0] != "rodir"]       # no unprivileged account to run the child as
    # privileged mechanisms, used when this sandbox allows them (probed; otherwise recorded as not exercised)
    priv = probe_privileged(ctx)
    st["privileged_mechanisms"] = priv
    if priv["tmpfs"]:
        envs += [("tmpfs_full", "write", None, False), ("rofs", "create", 0, False)]
    if priv["chattr"]:
        envs += [("immutable", "rename", 0, False)]
    kindsets = [k for k in sorted({tuple(c["kinds"]) for c in cases.values() if len(c["kinds"]) == 3})]
    ctx.rng.shuffle(kindsets)
    work = []
    for env, step, k, unpriv in envs:
        n = 0
        for kinds in kindsets:
            for i in (1, 2, 3):
                if kinds[i - 1] == "BadMarshal":
                    continue
                if env in ("fsize", "tmpfs_full"):
                    # needs a multi-megabyte store at op i and small ones elsewhere (for the full file system: as the last
                    # operation, since the left-over temp file keeps the file system full)
                    if env == "tmpfs_full" and i != 3:
                        continue
                    pl = mk_plan(ctx, list(kinds), 0, large_decoys, envs={} if env == "tmpfs_full" else {i: env}, big=i)
                else:
                    pl = mk_plan(ctx, list(kinds), (ctx.seed + n) % 2, large_decoys, envs={i: env})
                c = index.get((kinds, i, step, k if k is not None else 1))
                if c is None:
                    continue
                work.append((env, unpriv, pl, c, i))
                n += 1
                if n >= (40 if ctx.tier == "thorough" else 6):
                    break
            if n >= (40 if ctx.tier == "thorough" else 6):
                break

    def one(w):
        env, unpriv, pl, c, i = w
        res = rn.run(pl, unpriv=unpriv, tmpfs={"tmpfs_full": "1m", "rofs": "16m"}.get(env))
        return w, res

    with ThreadPoolExecutor(NPAR) as ex:
        for (env, unpriv, pl, c, i), res in ex.map(one, work):
            if res["rc"] != 0 or not res["report"]:
                raise vlib.InfraError("environment-fault child failed (%s) rc=%s: %s" % (env, res["rc"], res["out"]))
            rep = [x for x in res["report"] if x.get("kind") == "op"]
            got = [x for x in rep if x["i"] == i]
            if not got or got[0]["err"] == "":
                # the environment fault did not make the store fail: the harness's problem - unless the code already
                # left the protocol (e.g. writes the existing target in place, which needs no permission on the directory)
                if ctx.violations:
                    rn.done(res)
                    continue
                raise vlib.InfraError("environment fault %s did not fail the store: %s" % (env, rep))
            if env == "tmpfs_full":
                # how many pieces reached the file before the file system was full is the kernel's choice: take the
                # specification's case for the number observed
                nw = len([1 for (idx, o, s_, kk) in res["ex"].steps if o == i and s_ == "write" and not res["entries"][idx]["err"]])
                c = index.get((tuple(x["kind"] for x in pl["ops"]), i, "write", nw))
                if c is None:
                    raise vlib.InfraError("no TLC case for a store failing after %d complete writes" % nw)
            cc = dict(c, fails=[(i, c["fails"][0][1], c["fails"][0][2], got[0]["errno"])])
            check_report(ctx, ver, res, cc, "fail")
            st["runs"] += 1
            st["kinds"][env + ":" + got[0]["errno"]] = st["kinds"].get(env + ":" + got[0]["errno"], 0) + 1
            distinct.add(("env", env, got[0]["errno"], i, pl["ops"][i - 1]["kind"]))
            traces_inj.append(res["ex"].events)
            if st["runs"] == 1:
                ctx.sample({"stage": "B_env", "env": env, "events": [fmt_ev(e) for e in res["ex"].events][-8:], "op": got[0]})
            rn.done(res)
    # directory removed for good: nothing is left on disk to compare; the setter must fail and roll back
    pl = mk_plan(ctx, ["Replace", "Replace"], 0, large_decoys, envs={2: "rmdir"})
    res = rn.run(pl)
    rep = [x for x in res["report"] if x.get("kind") == "op"]
    if len(rep) != 2:
        raise vlib.InfraError("rmdir child failed: %s" % res["out"])
    dg = ver.ask({"q": "digest", "plan": res["plan"], "cands": [[1]]})["digests"][0]
    if rep[1]["err"] == "":
        ctx.violation("fail:create:ENOENT:result", "SetClientConf reported success although the assets directory no longer exists", rep)
    elif rep[1]["mem"] != dg:
        ctx.violation("fail:create:ENOENT:mem:after-failed-Replace", "in-memory configuration not rolled back after a store into a removed directory", rep)
    st["runs"] += 1
    st["kinds"]["rmdir:" + rep[1]["errno"]] = 1
    rn.done(res)
    need = {e[0] for e in envs if e[0] in ("movedir", "filedir", "rodir", "fsize")} | ({"tmpfs_full", "rofs"} if priv["tmpfs"] else set()) | ({"immutable"} if priv["chattr"] else set())
    have = {k.split(":")[0] for k in st["kinds"]}
    if need - have and not ctx.violations:
        raise vlib.InfraError("environment faults not exercised: %s" % (need - have))
    return st


def probe_privileged(ctx):
    """can this sandbox mount a size-limited tmpfs / set the immutable attribute?  (both need privileges beyond uid 0)"""
    res = {"tmpfs": False, "chattr": False}
    d = ctx.sub("probe_mnt")
    p = subprocess.run(["mount", "-t", "tmpfs", "-o", "size=1m", "tmpfs", d], stdout=subprocess.DEVNULL, stderr=subprocess.DEVNULL)
    if p.returncode == 0:
        res["tmpfs"] = subprocess.run(["umount", d], stdout=subprocess.DEVNULL, stderr=subprocess.DEVNULL).returncode == 0
        if not res["tmpfs"]:
            subprocess.run(["umount", "-l", d], stdout=subprocess.DEVNULL, stderr=subprocess.DEVNULL)
    f = os.path.join(ctx.scratch, "probe_immutable")
    open(f, "w").close()
    if shutil.which("chattr") and subprocess.run(["chattr", "+i", f], stdout=subprocess.DEVNULL, stderr=subprocess.DEVNULL).returncode == 0:
        try:
            os.rename(f, f + ".x")
            os.rename(f + ".x", f)
        except OSError:
            res["chattr"] = True
        subprocess.run(["chattr", "-i", f], stdout=subprocess.DEVNULL, stderr=subprocess.DEVNULL)
    os.unlink(f)
    return res


def random_kills(ctx, binp, ver, nkills, large_decoys):
    st = {"kills": 0, "inflight": 0, "between": 0, "new": 0, "old": 0, "max_op": 0}
    base = ctx.sub("kills")
    lock = threading.Lock()
    seeds = [ctx.rng.random() for _ in range(nkills)]

    def one(n):
        rd = os.path.join(base, "k%d" % n)
        d = os.path.join(rd, "assets")
        os.makedirs(d)
        plan = {"seed": ctx.seed, "dir": d, "init_size": "small", "ops": [], "markers": False, "large_decoys": large_decoys}
        ver.ask({"q": "init", "plan": plan})
        pf = os.path.join(rd, "plan.json")
        json.dump(plan, open(pf, "w"))
        p = subprocess.Popen([binp, "-test.run", "^TestVerifStoreChild$"], stdout=subprocess.PIPE, stderr=subprocess.DEVNULL,
                             env=ctx.go_env({"VERIF_ROLE": "loop", "VERIF_PLAN": pf}), cwd=rd)
        try:
            first = p.stdout.readline()
            if first.strip() != b"READY":
                raise vlib.InfraError("loop child did not start: %r" % first)
            # a store takes ~0.1 ms (small) to ~30 ms (multi-megabyte): spread the kill over a few of them
            time.sleep(seeds[n] * (0.12 if n % 4 else 0.02))
            p.send_signal(signal.SIGKILL)
            rest = p.stdout.read().decode(errors="replace").split("\n")
            p.wait()
        finally:
            if p.poll() is None:
                p.kill()
        # every progress line is one small write to the pipe, so lines are never cut
        lines = [l for l in rest if re.fullmatch(r"[BE] \d+", l) or l.startswith("F ")]
        if any(l.startswith("F ") for l in lines):
            raise vlib.InfraError("store loop reported a failed store without any fault: %s" % lines[-1])
        if not lines:
            lastk, j = "E", 0
        else:
            lastk, j = lines[-1].split()[0], int(lines[-1].split()[1])
        cand = [j - 1, j] if lastk == "B" else [j]
        fr = ver.ask({"q": "file", "plan": plan, "path": os.path.join(d, "ClientConf"), "loop": cand})
        shutil.rmtree(rd, ignore_errors=True)
        return lastk, j, cand, fr

    with ThreadPoolExecutor(NPAR) as ex:
        for lastk, j, cand, fr in ex.map(one, range(nkills)):
            st["kills"] += 1
            st["max_op"] = max(st["max_op"], j)
            if lastk == "B":
                st["inflight"] += 1
            else:
                st["between"] += 1
            detail = {"last_progress": "%s %d" % (lastk, j), "allowed_ops": cand, "file": fr}
            if not fr.get("exists") or not fr.get("parse_ok"):
                ctx.violation("randomkill:target-unparseable", "after SIGKILL during store #%d the ClientConf file is %s" %
                              (j, "missing" if not fr.get("exists") else "not parseable"), detail)
            elif not fr["match"]:
                ctx.violation("randomkill:target-neither-old-nor-new",
                              "after SIGKILL during store #%d the ClientConf file (%d bytes, generation %s, %s decoys) equals neither "
                              "configuration #%s" % (j, fr["size"], fr.get("gen"), fr.get("ndecoys"), " nor #".join(map(str, cand))), detail)
            elif lastk == "B":
                st["new" if fr["match"] == [1] else "old"] += 1
    ctx.log("B3: random kills %s" % st)
    if st["inflight"] < nkills // 4 and not ctx.violations:
        raise vlib.InfraError("random kills rarely hit a store in flight: %s" % st)
    return st
