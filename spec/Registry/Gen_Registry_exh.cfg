SPECIFICATION GenSpec
CONSTANTS
  Secrets = {"s1"}
  Phantoms = {"p4", "p6"}
  Transports = {"min", "prefix"}
  KeyMode = "ident"
  TU = 2
  TA = 5
  MaxAge = 6
  MaxCount = 1000
  TickSteps = {1, 3}
  MaxTracked = 4
  StaleMark = "ignore"
  SweepCap = 0
  IndexMode = "exact"
  Depth = 4
INVARIANT Emit
CHECK_DEADLOCK FALSE
