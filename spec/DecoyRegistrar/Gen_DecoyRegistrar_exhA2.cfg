SPECIFICATION GenSpec
CONSTANTS
  Variant = "asfound"
  Widths = {1}
  ChanCap = "width"
  Rounds = 2
  Deadlines = {FALSE}
  PreCancel = {TRUE, FALSE}
  DialOut = {"ok", "unreach", "refused"}
  TlsOut = {"ok", "err"}
  WriteOut = {"ok"}
  LingerOut = {"byte", "eof"}
  FullLast = FALSE
  MaxSlow = 1
  Depth = 70
INVARIANT Emit
CHECK_DEADLOCK FALSE
