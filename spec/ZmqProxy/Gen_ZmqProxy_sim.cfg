SPECIFICATION GenSpec
CONSTANTS
  Ups = {"n1", "c1", "c2", "xk1", "xn1"}
  BadUps = {"xk1", "xn1"}
  MaxSend = 1000
  ChanCap = 2
  MaxEpochs = 1000
  AuthEnforced = TRUE
  StatsMode = "loadstore"
  ShutdownMode = "onmessage"
  Depth = 30
  Lifecycle = FALSE
  SimPad = TRUE
INVARIANT Emit
CHECK_DEADLOCK FALSE
