\* deliberately broken instance (loop guard off by one): must violate AttemptBound
SPECIFICATION Spec
CONSTANTS
  Variant = "offbyone"
  Configs <- CfgMC
  ApiOutcomes = {"neterr", "s500", "R1", "RB"}
  DnsOutcomes = {"servfail", "nosuccess", "R1", "RB"}
VIEW view
INVARIANTS TypeOK AttemptBound
CHECK_DEADLOCK FALSE
