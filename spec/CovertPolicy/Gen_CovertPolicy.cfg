SPECIFICATION Spec
CONSTANT MatchMode = "search"
CONSTANT PubMode = "all"
CONSTANT StoreLiteral = TRUE
INVARIANT Emit
CHECK_DEADLOCK FALSE
