//go:build verif

package remotemap

// X02 - conformance drivers for spec/DnsTunnel/RemoteMap.tla.
//
//   TestVerifRemoteMapReplay    stage B: every behaviour TLC generated (Gen_RemoteMap) is stepped through a real RemoteMap:
//                               Lookup = the public GetChan, Expire = the sweeper's critical section (lock + removeExpired,
//                               exactly what the goroutine in NewRemoteMap runs), Tick = every record's LastSeen moved into the
//                               past (order preserving).  After every step the real byAge slice (slot by slot), the index map,
//                               the channel identities and which channels are closed are compared with the specification.
//   TestVerifRemoteMapRealtime  the real sweeper goroutine with a short timeout (one-sided bounds with slack) and concurrent
//                               GetChan callers: an active peer keeps its channel, an idle one loses it, the index stays consistent.

import (
	"encoding/json"
	"fmt"
	"sync"
	"testing"
	"time"
)

type vrmAddr string

func (a vrmAddr) Network() string { return "verif" }
func (a vrmAddr) String() string  { return string(a) }

const vrmUnit = time.Hour

type vrmWorld struct {
	m     *RemoteMap
	T     int
	ids   map[chan []byte]int
	chans []chan []byte
	last  time.Time
}

func vrmNew(T int) *vrmWorld {
	return &vrmWorld{m: NewRemoteMap(0), T: T, ids: map[chan []byte]int{}}
}

func (w *vrmWorld) id(ch chan []byte) int {
	if i, ok := w.ids[ch]; ok {
		return i
	}
	w.chans = append(w.chans, ch)
	w.ids[ch] = len(w.chans)
	return len(w.chans)
}

func vrmClosed(ch chan []byte) bool {
	select {
	case _, ok := <-ch:
		return !ok
	default:
		return false
	}
}

func (w *vrmWorld) project() map[string]any {
	w.m.lock.Lock()
	defer w.m.lock.Unlock()
	now := time.Now()
	heap := []map[string]any{}
	for i, r := range w.m.inner.byAge {
		e := map[string]any{"i": i + 1, "addr": r.Addr.String(), "age": int(now.Sub(r.LastSeen) / vrmUnit), "ch": w.id(r.Chan)}
		if j, ok := w.m.inner.byAddr[r.Addr.String()]; !ok || j != i {
			e["index_inconsistent"] = fmt.Sprintf("byAddr=%d,%v", j, ok)
		}
		heap = append(heap, e)
	}
	st := map[string]any{"heap": heap}
	if len(w.m.inner.byAddr) != len(w.m.inner.byAge) {
		st["index_size"] = len(w.m.inner.byAddr)
	}
	closed := []int{}
	for i, ch := range w.chans {
		if vrmClosed(ch) {
			closed = append(closed, i+1)
		}
	}
	st["closed"] = closed
	return st
}

func (w *vrmWorld) apply(step map[string]any) map[string]any {
	a, _ := step["a"].(string)
	got := map[string]any{"a": a}
	switch a {
	case "Lookup":
		addr, _ := step["addr"].(string)
		for !time.Now().After(w.last) { // LastSeen must order the calls strictly
		}
		ch, isNew := w.m.GetChan(vrmAddr(addr))
		w.last = time.Now()
		for !time.Now().After(w.last) {
		}
		got["addr"], got["ch"], got["isnew"] = addr, w.id(ch), isNew
		if ch2 := w.m.Chan(vrmAddr(addr)); ch2 != ch {
			got["chan_unstable"] = true
		}
		w.last = time.Now()
	case "Expire":
		// the sweeper's critical section
		w.m.lock.Lock()
		n0 := len(w.m.inner.byAge)
		w.m.inner.removeExpired(time.Now(), time.Duration(w.T)*vrmUnit)
		n1 := len(w.m.inner.byAge)
		w.m.lock.Unlock()
		got["removed"] = n0 - n1
	case "Tick":
		d := int(step["d"].(float64))
		got["d"] = d
		w.m.lock.Lock()
		for _, r := range w.m.inner.byAge {
			r.LastSeen = r.LastSeen.Add(-time.Duration(d) * vrmUnit)
		}
		w.m.lock.Unlock()
	default:
		panic("unknown action " + a)
	}
	got["st"] = w.project()
	return got
}

func TestVerifRemoteMapReplay(t *testing.T) {
	out := vOpenOut(t)
	defer out.Close()
	nb, ns, nm, T := 0, 0, 0, 2
	nexp := 0
	vReadLines(t, func(line []byte) {
		if line[0] == '{' {
			var cfg map[string]any
			if err := json.Unmarshal(line, &cfg); err != nil {
				t.Fatalf("bad config line: %v", err)
			}
			T = int(cfg["T"].(float64))
			return
		}
		var beh []map[string]any
		if err := json.Unmarshal(line, &beh); err != nil {
			t.Fatalf("bad behaviour: %v", err)
		}
		nb++
		if nm >= 25 {
			return // enough divergences to report; do not wait out the rest
		}
		w := vrmNew(T)
		for i, step := range beh {
			ns++
			var got any
			func() {
				defer func() {
					if r := recover(); r != nil {
						got = map[string]any{"a": step["a"], "panic": fmt.Sprint(r)}
					}
				}()
				got = vNorm(w.apply(step))
			}()
			if step["a"] == "Expire" && step["removed"].(float64) > 0 {
				nexp++
			}
			if vCanon(got) != vCanon(step) {
				nm++
				if nm <= 100 {
					ops := []string{}
					for _, s := range beh[:i+1] {
						o := fmt.Sprint(s["a"])
						if s["addr"] != nil {
							o += fmt.Sprintf("(%v)", s["addr"])
						} else if s["d"] != nil {
							o += fmt.Sprintf("(%v)", s["d"])
						}
						ops = append(ops, o)
					}
					out.Emit(map[string]any{"kind": "mismatch", "beh": nb, "step": i, "want": step, "got": got, "ops": ops, "T": T})
				}
				break
			}
		}
	})
	out.Emit(map[string]any{"kind": "summary", "behaviours": nb, "steps": ns, "mismatches": nm, "expiring_sweeps": nexp})
}

func TestVerifRemoteMapRealtime(t *testing.T) {
	out := vOpenOut(t)
	defer out.Close()
	prop := func(p, detail string) { out.Emit(map[string]any{"kind": "prop", "prop": p, "detail": detail}) }
	run := func(timeout time.Duration) (problems [][2]string) {
		bad := func(p, d string) { problems = append(problems, [2]string{p, d}) }
		m := NewRemoteMap(timeout)
		active, idle := vrmAddr("active"), vrmAddr("idle")
		chA, newA := m.GetChan(active)
		chI, newI := m.GetChan(idle)
		if !newA || !newI {
			bad("rt:first-lookup-not-new", "GetChan of an unknown address did not report a new channel")
		}
		// keep one peer active for 4 timeouts, touching it every timeout/8; hammer other addresses concurrently
		var wg sync.WaitGroup
		stop := make(chan struct{})
		for g := 0; g < 4; g++ {
			wg.Add(1)
			go func(g int) {
				defer wg.Done()
				defer func() {
					if r := recover(); r != nil {
						bad("rt:panic", fmt.Sprint(r))
					}
				}()
				for i := 0; ; i++ {
					select {
					case <-stop:
						return
					default:
					}
					m.Chan(vrmAddr(fmt.Sprintf("peer-%d", (i*7+g)%23)))
					if i%64 == 0 {
						time.Sleep(time.Millisecond)
					}
				}
			}(g)
		}
		t0 := time.Now()
		maxGap := time.Duration(0)
		lastTouch := t0
		for time.Since(t0) < 4*timeout {
			time.Sleep(timeout / 8)
			gap := time.Since(lastTouch)
			if gap > maxGap {
				maxGap = gap
			}
			ch, isNew := m.GetChan(active)
			lastTouch = time.Now()
			if (isNew || ch != chA) && maxGap < timeout/2 {
				bad("rt:active-peer-expired", fmt.Sprintf("a peer touched every %v (max gap %v) lost its channel with timeout %v", timeout/8, maxGap, timeout))
				chA = ch
			} else if isNew || ch != chA {
				chA = ch // the machine stalled us for longer than the timeout allows: no verdict
			}
		}
		close(stop)
		wg.Wait()
		if vrmClosed(chA) && maxGap < timeout/2 {
			bad("rt:active-channel-closed", "the active peer's channel is closed")
		}
		// the idle peer was last seen 4 timeouts ago; the sweeper runs every timeout/2
		if !vrmClosed(chI) {
			time.Sleep(2 * timeout)
			if !vrmClosed(chI) {
				bad("rt:idle-peer-kept", fmt.Sprintf("a peer idle for %v still has an open channel (timeout %v)", time.Since(t0), timeout))
			}
		}
		if _, isNew := m.GetChan(idle); !isNew {
			bad("rt:idle-peer-record-kept", "GetChan after expiry does not report a new channel")
		}
		m.lock.Lock()
		in := &m.inner
		if len(in.byAddr) != len(in.byAge) {
			bad("rt:index-size", fmt.Sprintf("%d addresses, %d records", len(in.byAddr), len(in.byAge)))
		}
		for i, r := range in.byAge {
			if j, ok := in.byAddr[r.Addr.String()]; !ok || j != i {
				bad("rt:index-inconsistent", fmt.Sprintf("record %d (%s) indexed at %d", i, r.Addr, j))
			}
			if i > 0 && r.LastSeen.Before(in.byAge[(i-1)/2].LastSeen) {
				bad("rt:heap-order", fmt.Sprintf("record %d is older than its parent", i))
			}
		}
		m.lock.Unlock()
		return
	}
	pr := run(80 * time.Millisecond)
	if len(pr) > 0 {
		pr = run(400 * time.Millisecond) // retry once with five times the slack
	}
	for _, p := range pr {
		prop(p[0], p[1])
	}
	out.Emit(map[string]any{"kind": "summary", "driver": "realtime", "problems": len(pr)})
}
