---- MODULE Registry_TTrace_1790398753 ----
EXTENDS Sequences, TLCExt, Toolbox, Naturals, TLC, Registry

_expression ==
    LET Registry_TEExpression == INSTANCE Registry_TEExpression
    IN Registry_TEExpression!expression
----

_trace ==
    LET Registry_TETrace == INSTANCE Registry_TETrace
    IN Registry_TETrace!trace
----

_inv ==
    ~(
        TLCGet("level") = Len(_TETrace)
        /\
        obs = ([p |-> "p4", t |-> "prefix", s |-> "s1", a |-> "Track", st |-> [reg |-> {[p |-> "p4", t |-> "min", s |-> "s1", valid |-> TRUE, count |-> 1], [p |-> "p4", t |-> "prefix", s |-> "s1", valid |-> FALSE, count |-> 1]}, tmo |-> {[used |-> FALSE, age |-> 0, p |-> "p4", t |-> "prefix", s |-> "s1"]}, look |-> [p4 |-> [count |-> 2, found |-> {[t |-> "min", s |-> "s1"]}], p6 |-> [count |-> 0, found |-> {}]]]])
        /\
        reg = ((<<"p4", "min", "s1">> :> [valid |-> TRUE, count |-> 1] @@ <<"p4", "min", "s2">> :> [none |-> TRUE] @@ <<"p4", "prefix", "s1">> :> [valid |-> FALSE, count |-> 1] @@ <<"p4", "prefix", "s2">> :> [none |-> TRUE] @@ <<"p6", "min", "s1">> :> [none |-> TRUE] @@ <<"p6", "min", "s2">> :> [none |-> TRUE] @@ <<"p6", "prefix", "s1">> :> [none |-> TRUE] @@ <<"p6", "prefix", "s2">> :> [none |-> TRUE]))
        /\
        tmo = ((<<"p4", "*", "s1">> :> [k |-> <<"p4", "prefix", "s1">>, used |-> FALSE, age |-> 0] @@ <<"p4", "*", "s2">> :> [none |-> TRUE] @@ <<"p6", "*", "s1">> :> [none |-> TRUE] @@ <<"p6", "*", "s2">> :> [none |-> TRUE]))
        /\
        swept = (TRUE)
    )
----

_init ==
    /\ tmo = _TETrace[1].tmo
    /\ swept = _TETrace[1].swept
    /\ reg = _TETrace[1].reg
    /\ obs = _TETrace[1].obs
----

_next ==
    /\ \E i,j \in DOMAIN _TETrace:
        /\ \/ /\ j = i + 1
              /\ i = TLCGet("level")
        /\ tmo  = _TETrace[i].tmo
        /\ tmo' = _TETrace[j].tmo
        /\ swept  = _TETrace[i].swept
        /\ swept' = _TETrace[j].swept
        /\ reg  = _TETrace[i].reg
        /\ reg' = _TETrace[j].reg
        /\ obs  = _TETrace[i].obs
        /\ obs' = _TETrace[j].obs

\* Uncomment the ASSUME below to write the states of the error trace
\* to the given file in Json format. Note that you can pass any tuple
\* to `JsonSerialize`. For example, a sub-sequence of _TETrace.
    \* ASSUME
    \*     LET J == INSTANCE Json
    \*         IN J!JsonSerialize("Registry_TTrace_1790398753.json", _TETrace)

=============================================================================

 Note that you can extract this module `Registry_TEExpression`
  to a dedicated file to reuse `expression` (the module in the 
  dedicated `Registry_TEExpression.tla` file takes precedence 
  over the module `Registry_TEExpression` below).

---- MODULE Registry_TEExpression ----
EXTENDS Sequences, TLCExt, Toolbox, Naturals, TLC, Registry

expression == 
    [
        \* To hide variables of the `Registry` spec from the error trace,
        \* remove the variables below.  The trace will be written in the order
        \* of the fields of this record.
        tmo |-> tmo
        ,swept |-> swept
        ,reg |-> reg
        ,obs |-> obs
        
        \* Put additional constant-, state-, and action-level expressions here:
        \* ,_stateNumber |-> _TEPosition
        \* ,_tmoUnchanged |-> tmo = tmo'
        
        \* Format the `tmo` variable as Json value.
        \* ,_tmoJson |->
        \*     LET J == INSTANCE Json
        \*     IN J!ToJson(tmo)
        
        \* Lastly, you may build expressions over arbitrary sets of states by
        \* leveraging the _TETrace operator.  For example, this is how to
        \* count the number of times a spec variable changed up to the current
        \* state in the trace.
        \* ,_tmoModCount |->
        \*     LET F[s \in DOMAIN _TETrace] ==
        \*         IF s = 1 THEN 0
        \*         ELSE IF _TETrace[s].tmo # _TETrace[s-1].tmo
        \*             THEN 1 + F[s-1] ELSE F[s-1]
        \*     IN F[_TEPosition - 1]
    ]

=============================================================================



Parsing and semantic processing can take forever if the trace below is long.
 In this case, it is advised to uncomment the module below to deserialize the
 trace from a generated binary file.

\*
\*---- MODULE Registry_TETrace ----
\*EXTENDS IOUtils, TLC, Registry
\*
\*trace == IODeserialize("Registry_TTrace_1790398753.bin", TRUE)
\*
\*=============================================================================
\*

---- MODULE Registry_TETrace ----
EXTENDS TLC, Registry

trace == 
    <<
    ([obs |-> [a |-> "Init"],reg |-> (<<"p4", "min", "s1">> :> [none |-> TRUE] @@ <<"p4", "min", "s2">> :> [none |-> TRUE] @@ <<"p4", "prefix", "s1">> :> [none |-> TRUE] @@ <<"p4", "prefix", "s2">> :> [none |-> TRUE] @@ <<"p6", "min", "s1">> :> [none |-> TRUE] @@ <<"p6", "min", "s2">> :> [none |-> TRUE] @@ <<"p6", "prefix", "s1">> :> [none |-> TRUE] @@ <<"p6", "prefix", "s2">> :> [none |-> TRUE]),tmo |-> (<<"p4", "*", "s1">> :> [none |-> TRUE] @@ <<"p4", "*", "s2">> :> [none |-> TRUE] @@ <<"p6", "*", "s1">> :> [none |-> TRUE] @@ <<"p6", "*", "s2">> :> [none |-> TRUE]),swept |-> TRUE]),
    ([obs |-> [p |-> "p4", t |-> "min", s |-> "s1", a |-> "Register", st |-> [reg |-> {[p |-> "p4", t |-> "min", s |-> "s1", valid |-> TRUE, count |-> 1]}, tmo |-> {[used |-> FALSE, age |-> 0, p |-> "p4", t |-> "min", s |-> "s1"]}, look |-> [p4 |-> [count |-> 1, found |-> {[t |-> "min", s |-> "s1"]}], p6 |-> [count |-> 0, found |-> {}]]], announced |-> TRUE],reg |-> (<<"p4", "min", "s1">> :> [valid |-> TRUE, count |-> 1] @@ <<"p4", "min", "s2">> :> [none |-> TRUE] @@ <<"p4", "prefix", "s1">> :> [none |-> TRUE] @@ <<"p4", "prefix", "s2">> :> [none |-> TRUE] @@ <<"p6", "min", "s1">> :> [none |-> TRUE] @@ <<"p6", "min", "s2">> :> [none |-> TRUE] @@ <<"p6", "prefix", "s1">> :> [none |-> TRUE] @@ <<"p6", "prefix", "s2">> :> [none |-> TRUE]),tmo |-> (<<"p4", "*", "s1">> :> [k |-> <<"p4", "min", "s1">>, used |-> FALSE, age |-> 0] @@ <<"p4", "*", "s2">> :> [none |-> TRUE] @@ <<"p6", "*", "s1">> :> [none |-> TRUE] @@ <<"p6", "*", "s2">> :> [none |-> TRUE]),swept |-> TRUE]),
    ([obs |-> [p |-> "p4", t |-> "prefix", s |-> "s1", a |-> "Track", st |-> [reg |-> {[p |-> "p4", t |-> "min", s |-> "s1", valid |-> TRUE, count |-> 1], [p |-> "p4", t |-> "prefix", s |-> "s1", valid |-> FALSE, count |-> 1]}, tmo |-> {[used |-> FALSE, age |-> 0, p |-> "p4", t |-> "prefix", s |-> "s1"]}, look |-> [p4 |-> [count |-> 2, found |-> {[t |-> "min", s |-> "s1"]}], p6 |-> [count |-> 0, found |-> {}]]]],reg |-> (<<"p4", "min", "s1">> :> [valid |-> TRUE, count |-> 1] @@ <<"p4", "min", "s2">> :> [none |-> TRUE] @@ <<"p4", "prefix", "s1">> :> [valid |-> FALSE, count |-> 1] @@ <<"p4", "prefix", "s2">> :> [none |-> TRUE] @@ <<"p6", "min", "s1">> :> [none |-> TRUE] @@ <<"p6", "min", "s2">> :> [none |-> TRUE] @@ <<"p6", "prefix", "s1">> :> [none |-> TRUE] @@ <<"p6", "prefix", "s2">> :> [none |-> TRUE]),tmo |-> (<<"p4", "*", "s1">> :> [k |-> <<"p4", "prefix", "s1">>, used |-> FALSE, age |-> 0] @@ <<"p4", "*", "s2">> :> [none |-> TRUE] @@ <<"p6", "*", "s1">> :> [none |-> TRUE] @@ <<"p6", "*", "s2">> :> [none |-> TRUE]),swept |-> TRUE])
    >>
----


=============================================================================

---- CONFIG Registry_TTrace_1790398753 ----
CONSTANTS
    Secrets = { "s1" , "s2" }
    Phantoms = { "p4" , "p6" }
    Transports = { "min" , "prefix" }
    KeyMode = "secret"
    TU = 2
    TA = 5
    MaxAge = 6
    MaxCount = 2
    TickSteps = { 1 , 3 }
    MaxTracked = 2

INVARIANT
    _inv

CHECK_DEADLOCK
    \* CHECK_DEADLOCK off because of PROPERTY or INVARIANT above.
    FALSE

INIT
    _init

NEXT
    _next

CONSTANT
    _TETrace <- _trace

ALIAS
    _expression
=============================================================================
\* Generated on Sat Sep 26 04:59:14 UTC 2026