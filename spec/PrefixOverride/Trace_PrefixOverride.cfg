SPECIFICATION TraceSpec
CONSTANTS
  Profile = "tiny"
  Defects = {"scanErrIgnored", "badWeightSkipped", "wsRejects", "noRangeCheck", "deadKept", "typeUrlRewritten", "chainNotAtomic", "chainMixesPort", "randIgnoresReader", "pkgIgnoresFlag", "callerNeverSetsPsr", "callerRecomputesPort"}
  Broken = {}
INVARIANTS TypeOK ShareExact ParseAgreesWithGrammar NothingInvented MalformedRejects NeverDeadLine NoByteWithoutDraw OnlyPrefixTransport MissingIsAnError UntouchedUnlessWritten ErrorMeansNoWrite ResponseMatchesEntry PortRule ClientFieldsKept ParOnlyNormalised FirstErrorStops LastWriterWins NotWrittenNotChanged
POSTCONDITION Post
CHECK_DEADLOCK FALSE
