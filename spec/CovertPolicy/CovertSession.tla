---------------------------- MODULE CovertSession ----------------------------
(***************************************************************************)
(* The covert policy over the HISTORY of one session (property C06).       *)
(*                                                                         *)
(* CovertPolicy.tla is the policy applied to ONE covert string.  A session *)
(* (one shared secret => one phantom and one transport identifier) can     *)
(* receive any number of registration MESSAGES: the client repeats it      *)
(* through a second registrar, re-sends it, or an adversary replays it     *)
(* with another covert address.  Only the first message of a session runs  *)
(* through the admission pipeline of registration_ingest.go; later ones    *)
(* are "duplicates" (registration.go TrackIfNotExists) and ingest returns  *)
(* before the covert step.  What the property demands of the whole history:*)
(* whatever a later connection makes the station dial (proxies.go Proxy    *)
(* dials the tracked registration's Covert verbatim) is an address that    *)
(* passed the policy FOR THIS SESSION, stored as a literal, with no name   *)
(* resolution at dial time.                                                *)
(*                                                                         *)
(* Messages are abstract policy classes (their concrete spellings, the     *)
(* policy's CIDRs / patterns and the resolver scripts are the driver's):   *)
(*   litP1 litP2   literal IP:port of a permitted address (two different)  *)
(*   litF          literal of a forbidden address (blocklisted subnet /    *)
(*                 outside the allowlist, per pk)                          *)
(*   nameP         host name, every lookup answers P2                      *)
(*   nameRebind    first lookup P1, every later one F  (DNS rebinding)     *)
(*   nameF         every lookup F                                          *)
(*   nameFlip      first lookup F, later ones P1                           *)
(*   nameNx        does not resolve                                        *)
(*   blocked       host name a blocklisted domain pattern matches          *)
(*                 (resolves to P1, but is rejected before any lookup)     *)
(*   malformed     not host:port                                           *)
(*                                                                         *)
(* phase: none -> (First) pending | dropped;  pending -> (Admit) valid.    *)
(* "pending" is the first message's worker between storing the checked     *)
(* literal and AddRegistration (liveness scan, sharing): duplicates and    *)
(* connections can arrive in that window.                                  *)
(***************************************************************************)
EXTENDS Naturals, Sequences, FiniteSets, TLC

CONSTANT DupMode    \* what a duplicate message does to the tracked registration:
                    \*  "ignore"  nothing (as built: only the duplicate counter moves)
                    \*  "recheck" its covert runs through the policy and replaces the stored literal when admitted
                    \*  "any"     either of the two, or the policy runs and its result is dropped - every conforming implementation
                    \*            (used to validate recorded traces)
                    \*  "refresh" the client-supplied fields of the tracked registration, the covert string among them, are
                    \*            replaced by the newer message's WITHOUT the policy (a broken instance: must violate)
CONSTANT MaxMsgs, MaxConns
CONSTANT Classes    \* the message classes in play (a subset of AllClasses)

Addr == {"P1", "P2", "F"}
Permitted(a) == a \in {"P1", "P2"}
NoAddr == "none"
AllClasses == {"litP1", "litP2", "litF", "nameP", "nameRebind", "nameF", "nameFlip", "nameNx", "blocked", "malformed"}
ASSUME Classes \subseteq AllClasses
ASSUME DupMode \in {"ignore", "recheck", "any", "refresh"}

IsLit(c) == c \in {"litP1", "litP2", "litF"}
LitAddr(c) == IF c = "litP1" THEN "P1" ELSE IF c = "litP2" THEN "P2" ELSE "F"
Resolvable == {"nameP", "nameRebind", "nameF", "nameFlip", "nameNx"}
IsHost(c) == c \in Resolvable \cup {"blocked"}          \* a dial of the raw string would resolve it
Answers(c) == CASE c = "nameP"      -> <<"P2", "P2", "P2", "P2">>
                [] c = "nameRebind" -> <<"P1", "F", "F", "F">>
                [] c = "nameF"      -> <<"F", "F", "F", "F">>
                [] c = "nameFlip"   -> <<"F", "P1", "P1", "P1">>
                [] c = "blocked"    -> <<"P1", "P1", "P1", "P1">>
                [] OTHER            -> <<>>
\* the policy of CovertPolicy.tla on a message of class c whose name has been looked up n times before:
\* parse -> domain pattern -> (port) -> ONE resolution -> subnet / allowlist -> the literal, or "rejected"
EvalRes(c, n) == IF IsLit(c) THEN (IF Permitted(LitAddr(c)) THEN LitAddr(c) ELSE "rejected")
                 ELSE IF c \in Resolvable /\ Len(Answers(c)) > n /\ Permitted(Answers(c)[n + 1]) THEN Answers(c)[n + 1]
                 ELSE "rejected"
EvalLooks(c) == IF c \in Resolvable THEN 1 ELSE 0

VARIABLES
  pk,           \* how the policy forbids F: "block" (blocklisted subnet) / "allow" (outside the allowlist) - concretisation only
  msgs,         \* the classes of the messages ingested for this session, in order
  phase,        \* "none" | "pending" | "valid" | "dropped" (tracked, refused by the policy: never valid)
  stored,       \* what the tracked registration's Covert holds while pending / valid: a checked literal, or "raw"
  rawOf,        \* 0, or the index of the message whose unchecked client string is stored (only in the broken instance)
  checked,      \* ghost: the addresses that passed the policy for THIS session
  lookups,      \* per message: how often its host name has been looked up
  dialLookups,  \* lookups made at dial time
  dialed,       \* per connection: the address dialed, "failed" (a dial that reached nothing), "nothing" (no usable registration)
  obs
vars == <<pk, msgs, phase, stored, rawOf, checked, lookups, dialLookups, dialed, obs>>
view == <<pk, msgs, phase, stored, rawOf, checked, lookups, dialLookups, dialed>>

St == [phase |-> phase', stored |-> stored', lookups |-> SubSeq(lookups', 1, Len(msgs')), dialLookups |-> dialLookups', dialed |-> dialed']

Init == /\ pk \in {"block", "allow"} /\ msgs = <<>> /\ phase = "none" /\ stored = NoAddr /\ rawOf = 0 /\ checked = {}
        /\ lookups = [i \in 1..MaxMsgs |-> 0] /\ dialLookups = 0 /\ dialed = <<>>
        /\ obs = [a |-> "Init"]

\* first message of the session: tracked, policy applied, the registration's covert overwritten with the checked literal
First(c) == /\ phase = "none" /\ Len(msgs) < MaxMsgs
            /\ LET i == Len(msgs) + 1
                   r == EvalRes(c, 0) IN
               /\ msgs' = Append(msgs, c)
               /\ lookups' = [lookups EXCEPT ![i] = EvalLooks(c)]
               /\ IF r # "rejected" THEN stored' = r /\ checked' = checked \cup {r} /\ phase' = "pending"
                                    ELSE stored' = stored /\ checked' = checked /\ phase' = "dropped"
            /\ UNCHANGED <<pk, rawOf, dialLookups, dialed>>
            /\ obs' = [a |-> "First", c |-> c, pk |-> pk, st |-> St]

\* the first message's worker finishes: the registration becomes valid (visible to connections)
Admit == /\ phase = "pending" /\ phase' = "valid"
         /\ UNCHANGED <<pk, msgs, stored, rawOf, checked, lookups, dialLookups, dialed>>
         /\ obs' = [a |-> "Admit", st |-> St]

DupIgnore == UNCHANGED <<phase, stored, rawOf, checked, lookups>>
DupRecheck(c, i) == LET r == EvalRes(c, 0) IN
                    /\ lookups' = [lookups EXCEPT ![i] = EvalLooks(c)]
                    /\ IF r # "rejected"
                         THEN /\ stored' = r /\ rawOf' = 0 /\ checked' = checked \cup {r}
                              /\ phase' = IF phase = "dropped" THEN "valid" ELSE phase
                         ELSE UNCHANGED <<phase, stored, rawOf, checked>>
\* the policy runs on the duplicate's covert (its name is looked up) and the result is not used
DupLookOnly(c, i) == /\ lookups' = [lookups EXCEPT ![i] = EvalLooks(c)]
                     /\ UNCHANGED <<phase, stored, rawOf, checked>>
DupRefresh(i) == /\ UNCHANGED <<phase, checked, lookups>>
                 /\ IF phase = "dropped" THEN UNCHANGED <<stored, rawOf>> ELSE stored' = "raw" /\ rawOf' = i
\* a later message for the session that is already tracked
Dup(c) == /\ phase # "none" /\ Len(msgs) < MaxMsgs
          /\ msgs' = Append(msgs, c)
          /\ LET i == Len(msgs) + 1 IN
             CASE DupMode = "ignore"  -> DupIgnore
               [] DupMode = "recheck" -> DupRecheck(c, i)
               [] DupMode = "any"     -> DupIgnore \/ DupRecheck(c, i) \/ DupLookOnly(c, i)
               [] DupMode = "refresh" -> DupRefresh(i)
          /\ UNCHANGED <<pk, dialLookups, dialed>>
          /\ obs' = [a |-> "Dup", c |-> c, st |-> St]

\* a connection for the session: the handler finds the valid registration and the proxy dials its Covert verbatim
Connect == /\ Len(dialed) < MaxConns
           /\ IF phase # "valid" THEN dialed' = Append(dialed, "nothing") /\ UNCHANGED <<lookups, dialLookups>>
              ELSE IF rawOf = 0 THEN dialed' = Append(dialed, stored) /\ UNCHANGED <<lookups, dialLookups>>
              ELSE LET c == msgs[rawOf]
                       n == lookups[rawOf] IN
                   IF IsLit(c) THEN dialed' = Append(dialed, LitAddr(c)) /\ UNCHANGED <<lookups, dialLookups>>
                   ELSE IF IsHost(c)
                     THEN /\ lookups' = [lookups EXCEPT ![rawOf] = n + 1] /\ dialLookups' = dialLookups + 1
                          /\ dialed' = Append(dialed, IF Len(Answers(c)) > n THEN Answers(c)[n + 1] ELSE "failed")
                     ELSE dialed' = Append(dialed, "failed") /\ UNCHANGED <<lookups, dialLookups>>
           /\ UNCHANGED <<pk, msgs, phase, stored, rawOf, checked>>
           /\ obs' = [a |-> "Connect", st |-> St]

Next == (\E c \in Classes : First(c) \/ Dup(c)) \/ Admit \/ Connect
Spec == Init /\ [][Next]_vars

\* ------------------------------ properties ------------------------------
\* the address that is dialed is an address that was checked - for this session
DialedWasChecked == \A k \in DOMAIN dialed : dialed[k] \in Addr => dialed[k] \in checked
\* whatever was checked is permitted
CheckedArePermitted == \A a \in checked : Permitted(a)
\* what a usable (or about to be usable) registration holds is a checked literal, never the client's string
StoredIsCheckedLiteral == phase \in {"pending", "valid"} => stored \in checked
\* names are resolved once, at admission: never at dial time, never twice
NoLookupAtDial == dialLookups = 0
ResolvedOnce == \A i \in 1..MaxMsgs : lookups[i] <= 1
\* a session whose first message was refused by the policy is never dialed for, unless a later message passed the policy
NothingWithoutAdmission == checked = {} => \A k \in DOMAIN dialed : dialed[k] = "nothing"
\* a well-formed permitted IP:port in the first message is accepted
PermittedFirstAccepted == (Len(msgs) >= 1 /\ msgs[1] \in {"litP1", "litP2"}) => (phase \in {"pending", "valid"} /\ LitAddr(msgs[1]) \in checked)
=============================================================================
