SPECIFICATION GenSpec
CONSTANTS
  ReqV4 = {"f1"}
  ReqV6 = {"s1"}
  ReqDual = {"d1"}
  ReqFail = {}
  ReqFail6 = {}
  ErrorPath = "plain"
  Reloads = {"m1"}
  ToB = {"m1"}
  Bad = {}
  ReloadOrder = "load-first"
  Protocol = "per-selection"
INVARIANT Emit
CHECK_DEADLOCK FALSE
