SPECIFICATION GenSpec
CONSTANTS
  Regs <- GenRegs
  TU = 600
  TA = 21600
  MaxT = 60000
  TickSteps = {250, 500, 21000}
  LifeEvents = TRUE
  KeepAlive = 300
  ClearWhen = "always"
  DupMode = "ignore"
  ClearFirst = TRUE
  Depth = 9
INVARIANT Emit
CHECK_DEADLOCK FALSE
