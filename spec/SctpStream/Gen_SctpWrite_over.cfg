SPECIFICATION GenSpec
CONSTANTS
  L = 4
  TH = 2
  WriteSizes = {2}
  DrainSizes = {3}
  Writers = {"w1", "w2"}
  MaxCalls = 7
  Mode = "asimpl"
  Depth = 7
INVARIANT Emit
CHECK_DEADLOCK FALSE
