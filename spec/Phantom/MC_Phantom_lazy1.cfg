SPECIFICATION Spec
CONSTANTS
  CfgNames = {"wts", "mix3"}
  LibVers = {0, 1, 2}
  Fams = {4, 6}
  NSel = 1
  Mode = "proc"
  ProcSeedKs = {0, 1, 2, 3}
  RNG = "local"
  AddrBytes = "fill"
  NetBase = "masked"
  DerivedMode = "lazy-unsynchronised"
VIEW view
INVARIANTS TypeOK DerivedSound Pure Contained RandPortFromSubnet
CHECK_DEADLOCK FALSE
