//go:build verif

package lib

// Conformance drivers for spec/Config (property C19).
//
//   TestVerifConfigReplay  stage B: every behaviour TLC generated (Gen_Config: one start-up + reloads) is executed with
//                          the code main.go runs: a TOML file (and a phantom subnets file) is written for the abstract
//                          row, CJ_STATION_CONFIG / PHANTOM_SUBNET_LOCATION are set, then ParseConfig ->
//                          NewRegistrationManager -> AddTransport -> registration of the stats modules; a reload is
//                          ParseConfig + OnReload exactly as in main.go's SIGHUP branch.  After EVERY action the station
//                          is measured: each named policy entry is probed through ParseOrResolveBlocklisted /
//                          IsBlocklistedPhantom, the selector is identified by its content, and the whole housekeeping
//                          suite (every module's PrintAndReset / PrintStats, the aggregator's PrintStats(false|true),
//                          RemoveOldRegistrations) is run under recover().
//   TestVerifConfigRandom  stage C: seeded random sequences (not derived from the spec) of start-up, single statistics
//                          ticks, sweeps and reloads, recorded as ndjson for Trace_Config.
//   TestVerifConfigChild   helper: start-up in a child process, for rows whose liveness durations do not parse
//                          (NewRegistrationManager calls logger.Fatal there).

import (
	"context"
	"crypto/sha256"
	"encoding/json"
	"errors"
	"fmt"
	"io"
	"math/rand"
	"net"
	"os"
	"os/exec"
	"path/filepath"
	"runtime"
	"sort"
	"strings"
	"sync"
	"sync/atomic"
	"testing"
	"time"

	"github.com/refraction-networking/conjure/pkg/core"
	"github.com/refraction-networking/conjure/pkg/station/liveness"
	"github.com/refraction-networking/conjure/pkg/station/log"
	"github.com/refraction-networking/conjure/pkg/transports/wrapping/min"
	"github.com/refraction-networking/conjure/pkg/transports/wrapping/obfs4"
	"github.com/refraction-networking/conjure/pkg/transports/wrapping/prefix"
	pb "github.com/refraction-networking/conjure/proto"
	"google.golang.org/protobuf/proto"
)

// ------------------------------------------------------------------ abstract value -> concrete text

var vcfgDurLive = map[string]string{"zero": "0s", "valid": "2.0h", "bad": "2 hours"}
var vcfgDurNon = map[string]string{"zero": "0s", "valid": "5m", "bad": "five minutes"}
var vcfgCapLive = map[string]int{"zero": 0, "valid": 2, "neg": -1}
var vcfgCapNon = map[string]int{"zero": 0, "valid": 3, "neg": -7}
var vcfgWorkers = map[string]int{"zero": 0, "valid": 4}

type vcfgEntry struct{ text, probe string }

// named entries: the text written into the TOML list and a probe address inside that entry and no other
var vcfgEntries = map[string]vcfgEntry{
	"c198":  {"198.51.100.0/24", "198.51.100.77"},
	"cdb8b": {"2001:db8:b::/48", "2001:db8:b::77"},
	"c100":  {"100.64.0.0/10", "100.64.3.77"},
	"cws":   {"2001:db8:c::/48 ", "2001:db8:c::77"},
	"cBAD":  {"300.1.2.0/24", ""},
	"a203":  {"203.0.113.0/24", "203.0.113.77"},
	"adb8a": {"2001:db8:a::/48", "2001:db8:a::77"},
	"aws":   {" 198.18.0.0/15", "198.18.5.77"},
	"aBAD":  {"203.0.113.0/33", ""},
	"dblk":  {`blocked\.example$`, "x.blocked.example"},
	"dloc":  {`^internal\.example$`, "internal.example"},
	"doth":  {`other\.example$`, "y.other.example"},
	"dBAD":  {"(unclosed", ""},
	"p192":  {"192.122.190.0/28", "192.122.190.7"},
	"pws":   {"2001:48a8:687f:1::/96 ", "2001:48a8:687f:1::7"},
	"pBAD":  {"192.122.190.0/33", ""},
	// entries of the shipped cmd/application/app_config.toml (text comes from the file itself)
	"s127": {"", "127.0.0.1"}, "s10": {"", "10.9.8.7"}, "s172": {"", "172.20.1.1"}, "s192": {"", "192.168.7.7"},
	"sfc00ws": {"", "fd12:3456::1"}, "sfe80": {"", "fe80:1::1234"}, "sv6lo": {"", "::1"}, "sdloc": {"", "localhost"},
	// in no list / a local interface address
	// ("lonet": another address of the loopback interface's subnet - 127.0.0.1/8 - than the interface address itself)
	"out": {"", "8.8.8.8"}, "lo": {"", "127.0.0.1"}, "lonet": {"", "127.0.0.2"},
}

// further addresses inside the same entries, for machines whose interfaces cover the default probe
var vcfgAltProbes = map[string][]string{
	"c198": {"198.51.100.201", "198.51.100.9"}, "cdb8b": {"2001:db8:b:5::1", "2001:db8:b:ffff::9"}, "c100": {"100.99.1.1", "100.127.200.9"},
	"cws": {"2001:db8:c:5::1", "2001:db8:c:ffff::9"}, "a203": {"203.0.113.201", "203.0.113.9"}, "adb8a": {"2001:db8:a:5::1", "2001:db8:a:ffff::9"},
	"aws": {"198.19.200.1", "198.18.99.9"}, "p192": {"192.122.190.3", "192.122.190.12"}, "pws": {"2001:48a8:687f:1::b", "2001:48a8:687f:1::ff"},
	"s10": {"10.200.1.1", "10.77.77.77", "10.1.2.3"}, "s172": {"172.31.200.1", "172.16.5.5", "172.25.0.9"}, "s192": {"192.168.200.9", "192.168.1.77", "192.168.99.1"},
	"sfc00ws": {"fd77:1:2::3", "fc00:9::1", "fdfe:dcba::1"}, "sfe80": {"fe80:5::1", "fe80:ffff::9"}, "out": {"9.9.9.9", "1.1.1.1"},
}

var vcfgLists = map[string]map[string][]string{
	"cbs": {"empty": {}, "A": {"c198", "cdb8b"}, "B": {"c100"}, "ws": {"c198", "cws"}, "bad": {"c198", "cBAD"}, "badfirst": {"cBAD", "c198"}},
	"cas": {"empty": {}, "A": {"a203", "adb8a"}, "ws": {"aws"}, "bad": {"a203", "aBAD"}, "badfirst": {"aBAD", "a203"}, "badonly": {"aBAD"}},
	"cbd": {"A": {"dblk", "dloc"}, "B": {"doth"}, "bad": {"dblk", "dBAD"}, "badfirst": {"dBAD", "dblk"}},
	"pbl": {"empty": {}, "A": {"p192"}, "ws": {"p192", "pws"}, "bad": {"p192", "pBAD"}, "badfirst": {"pBAD", "p192"}},
}
var vcfgListKey = map[string]string{"cbs": "covert_blocklist_subnets", "cas": "covert_allowlist_subnets",
	"cbd": "covert_blocklist_domains", "pbl": "phantom_blocklist"}

var vcfgCovertProbes = []string{"c198", "cdb8b", "c100", "cws", "a203", "adb8a", "aws", "out", "lo", "lonet",
	"s127", "s10", "s172", "s192", "sfc00ws", "sfe80", "sv6lo"}
var vcfgDomainProbes = []string{"dblk", "dloc", "doth", "sdloc"}
var vcfgPhantomProbes = []string{"p192", "pws"}
var vcfgLocalProbes = map[string]bool{"lo": true, "lonet": true, "s127": true, "sv6lo": true}

const vcfgSubnetsS1 = `
[Networks]
    [Networks.1]
        Generation = 1
        [[Networks.1.WeightedSubnets]]
            Weight = 9
            Subnets = ["192.122.190.0/24", "2001:48a8:687f:1::/64"]
    [Networks.957]
        Generation = 957
        [[Networks.957.WeightedSubnets]]
            Weight = 9
            RandomizeDstPort = true
            Subnets = ["192.122.190.0/24", "2001:48a8:687f:1::/64"]
        [[Networks.957.WeightedSubnets]]
            Weight = 1
            Subnets = ["141.219.0.0/16", "35.8.0.0/16"]
`
const vcfgSubnetsS2 = vcfgSubnetsS1 + `
    [Networks.958]
        Generation = 958
        [[Networks.958.WeightedSubnets]]
            Weight = 1
            Subnets = ["192.122.200.0/24", "2001:48a8:687f:2::/64"]
`
const vcfgSubnetsBadGen = `
[Networks]
    [Networks.abc]
        Generation = 1
        [[Networks.abc.WeightedSubnets]]
            Weight = 9
            Subnets = ["192.122.190.0/24"]
`

type vcfgFiles struct {
	dir   string
	n     int
	paths map[string]string // content -> path: every distinct file is written once
}

func (f *vcfgFiles) file(ext, txt string) string {
	if p, ok := f.paths[ext+txt]; ok {
		return p
	}
	f.n++
	p := filepath.Join(f.dir, fmt.Sprintf("f%d%s", f.n, ext))
	if err := os.WriteFile(p, []byte(txt), 0o644); err != nil {
		panic(err)
	}
	f.paths[ext+txt] = p
	return p
}

func vcfgStr(m map[string]any, k string) string { s, _ := m[k].(string); return s }

// vcfgToml renders the abstract row; returns the path CJ_STATION_CONFIG must point to and the text (for the report)
func (f *vcfgFiles) toml(row map[string]any) (string, string) {
	switch vcfgStr(row, "fk") {
	case "unreadable":
		return filepath.Join(f.dir, "does-not-exist.toml"), "(no such file)"
	case "shipped":
		return "../../../cmd/application/app_config.toml", "(the shipped file)"
	case "syntax":
		txt := "log_level = \"error\"\ncovert_blocklist_subnets = [ \"10.0.0.0/8\", \n= = not toml\n"
		return f.file(".toml", txt), txt
	case "wrongtype":
		txt := "log_level = \"error\"\ncovert_blocklist_subnets = \"10.0.0.0/8\"\ncache_capacity = \"ten\"\n"
		return f.file(".toml", txt), txt
	}
	var b strings.Builder
	// keys of Config and ZMQConfig (never of RegConfig): always present
	b.WriteString("log_level = \"error\"\nprivkey_path = \"\"\nzmq_privkey_path = \"\"\nsocket_name = \"zmq-proxy\"\nheartbeat_interval = 30000\nheartbeat_timeout = 1000\n")
	if v, ok := vcfgDurLive[vcfgStr(row, "ld")]; ok {
		fmt.Fprintf(&b, "cache_expiration_time = %q\n", v)
	}
	if v, ok := vcfgCapLive[vcfgStr(row, "lc")]; ok {
		fmt.Fprintf(&b, "cache_capacity = %d\n", v)
	}
	if v, ok := vcfgDurNon[vcfgStr(row, "nd")]; ok {
		fmt.Fprintf(&b, "cache_expiration_nonlive = %q\n", v)
	}
	if v, ok := vcfgCapNon[vcfgStr(row, "nc")]; ok {
		fmt.Fprintf(&b, "cache_capacity_nonlive = %d\n", v)
	}
	for _, k := range []string{"cbs", "cas", "cbd", "pbl"} {
		names, ok := vcfgLists[k][vcfgStr(row, k)]
		if !ok {
			continue
		}
		q := []string{}
		for _, n := range names {
			q = append(q, fmt.Sprintf("%q", vcfgEntries[n].text))
		}
		fmt.Fprintf(&b, "%s = [%s]\n", vcfgListKey[k], strings.Join(q, ", "))
	}
	switch vcfgStr(row, "geo") {
	case "empty":
		b.WriteString("geoip_cc_db_path = \"\"\ngeoip_asn_db_path = \"\"\n")
	case "missing":
		fmt.Fprintf(&b, "geoip_cc_db_path = %q\ngeoip_asn_db_path = %q\n", filepath.Join(f.dir, "no-cc.mmdb"), filepath.Join(f.dir, "no-asn.mmdb"))
	case "garbage":
		g := f.file(".mmdb", "this is not a MaxMind database\n")
		fmt.Fprintf(&b, "geoip_cc_db_path = %q\ngeoip_asn_db_path = %q\n", g, g)
	}
	if v, ok := vcfgWorkers[vcfgStr(row, "wk")]; ok {
		fmt.Fprintf(&b, "ingest_worker_count = %d\n", v)
	}
	if vcfgStr(row, "pub") == "true" {
		b.WriteString("covert_blocklist_public_addrs = true\n")
	}
	return f.file(".toml", b.String()), b.String()
}

func (f *vcfgFiles) subnets(sf string) string {
	var txt string
	switch sf {
	case "S1":
		txt = vcfgSubnetsS1
	case "S2":
		txt = vcfgSubnetsS2
	case "malformed":
		txt = "[Networks\n  Generation = = 1\n"
	case "badgen":
		txt = vcfgSubnetsBadGen
	case "missing":
		return filepath.Join(f.dir, "no-such-subnets.toml")
	default:
		panic("subnets file state " + sf)
	}
	return f.file(".subnets.toml", txt)
}

// ------------------------------------------------------------------ the station as main.go assembles it

type vcfgConnStub struct{ prints int }

func (c *vcfgConnStub) PrintAndReset(logger *log.Logger)                           { c.prints++; logger.Infof("conn-stats: stub") }
func (c *vcfgConnStub) Reset()                                                     {}
func (c *vcfgConnStub) AddCreatedConnecting(asn uint, cc string, tp string)        {}
func (c *vcfgConnStub) AddCreatedToSuccessfulConnecting(asn uint, cc, tp string)   {}
func (c *vcfgConnStub) AddCreatedToTimeoutConnecting(asn uint, cc, tp string)      {}
func (c *vcfgConnStub) AddSuccessfulToDiscardedConnecting(asn uint, cc, tp string) {}
func (c *vcfgConnStub) AddOtherFailConnecting(asn uint, cc string, tp string)      {}

type vcfgStation struct {
	rm      *RegistrationManager
	agg     *Stats
	zmq     *ZMQIngester
	conn    *vcfgConnStub
	logger  *log.Logger
	cancel  context.CancelFunc
	regChan chan interface{}
	wg      *sync.WaitGroup
	nreg    int
}

var vcfgChildCache = map[string]string{}
var vcfgChildren int

// vcfgChild runs the start-up in a child process and classifies how it ended
func vcfgChild() string {
	// the fatal exit is decided by the liveness options alone (first thing NewRegistrationManager does): one child
	// per distinct set of liveness lines
	txt, _ := os.ReadFile(os.Getenv("CJ_STATION_CONFIG"))
	lines := []string{}
	for _, l := range strings.Split(string(txt), "\n") {
		if strings.HasPrefix(l, "cache_") {
			lines = append(lines, l)
		}
	}
	key := fmt.Sprintf("%x", sha256.Sum256([]byte(strings.Join(lines, "\n"))))
	if r, ok := vcfgChildCache[key]; ok {
		return r
	}
	vcfgChildren++
	cmd := exec.Command(os.Args[0], "-test.run=^TestVerifConfigChild$", "-test.v")
	cmd.Env = append(os.Environ(), "VERIF_CHILD=1")
	out, err := cmd.CombinedOutput()
	r := ""
	var ee *exec.ExitError
	switch {
	case err == nil && strings.Contains(string(out), "VERIF-CHILD manager=true"):
		r = "accepted"
	case err == nil && strings.Contains(string(out), "VERIF-CHILD manager=false"):
		r = "nil-manager"
	case err == nil && strings.Contains(string(out), "VERIF-CHILD parse-error"):
		r = "parse-error"
	case errors.As(err, &ee) && strings.Contains(string(out), "panic:"):
		r = "panic: " + vcfgFirstLine(string(out), "panic:")
	case errors.As(err, &ee) && ee.ExitCode() == 1:
		r = "fatal"
	default:
		r = fmt.Sprintf("child failed: %v: %s", err, vcfgTail(string(out)))
	}
	vcfgChildCache[key] = r
	return r
}

func vcfgFirstLine(s, marker string) string {
	for _, l := range strings.Split(s, "\n") {
		if strings.Contains(l, marker) {
			return strings.TrimSpace(l)
		}
	}
	return ""
}

func vcfgTail(s string) string {
	if len(s) > 300 {
		return s[len(s)-300:]
	}
	return s
}

func TestVerifConfigChild(t *testing.T) {
	if os.Getenv("VERIF_CHILD") != "1" {
		t.Skip("helper for TestVerifConfigReplay")
	}
	conf, err := ParseConfig()
	if err != nil {
		fmt.Println("VERIF-CHILD parse-error", err)
		return
	}
	conf.RegConfig.ConnectingStats = &vcfgConnStub{}
	rm := NewRegistrationManager(conf.RegConfig)
	fmt.Printf("VERIF-CHILD manager=%v\n", rm != nil)
}

func vcfgPanicText(r any) string {
	s := fmt.Sprint(r)
	if len(s) > 160 {
		s = s[:160]
	}
	return s
}

// vcfgLoad is main.go's start-up sequence up to the point where the loops start
func vcfgLoad(f *vcfgFiles, row map[string]any, sf string, pipeline bool) (s *vcfgStation, res string, panicked bool, how string) {
	cfgPath, _ := f.toml(row)
	os.Setenv("CJ_STATION_CONFIG", cfgPath)
	os.Setenv("PHANTOM_SUBNET_LOCATION", f.subnets(sf))
	defer func() {
		if r := recover(); r != nil {
			s, res, panicked, how = nil, "rejected", true, "panic: "+vcfgPanicText(r)
		}
	}()
	conf, err := ParseConfig()
	if err != nil {
		return nil, "rejected", false, "parse-error"
	}
	conn := &vcfgConnStub{}
	conf.RegConfig.ConnectingStats = conn // as main.go does right after ParseConfig
	// NewRegistrationManager calls logger.Fatal when liveness.New fails: ask liveness.New first and, if it
	// does fail, watch the real start-up die in a child process instead of in this one
	if _, lerr := liveness.New(conf.RegConfig.LivenessConfig()); lerr != nil {
		switch c := vcfgChild(); {
		case c == "fatal" || c == "nil-manager" || c == "parse-error":
			return nil, "rejected", false, c
		case strings.HasPrefix(c, "panic"):
			return nil, "rejected", true, c
		default:
			return nil, "child:" + c, false, c
		}
	}
	rm := NewRegistrationManager(conf.RegConfig)
	if rm == nil {
		return nil, "rejected", false, "nil-manager"
	}
	s = &vcfgStation{rm: rm, conn: conn, logger: log.New(io.Discard, "[STATS] ", 0)}
	rm.registeredDecoys.registerForDetector = func(*DecoyRegistration) {}
	rm.registeredDecoys.updateInDetector = func(*DecoyRegistration) {}
	for tt, tr := range map[pb.TransportType]Transport{pb.TransportType_Min: min.Transport{}, pb.TransportType_Obfs4: obfs4.Transport{},
		pb.TransportType_Prefix: prefix.Transport{}} {
		if err := rm.AddTransport(tt, tr); err != nil {
			panic(err)
		}
	}
	s.regChan = make(chan interface{}, 100)
	var key [32]byte
	copy(key[:], vSecret("zmq"))
	s.zmq, err = NewZMQIngest("ipc://@verif-zmq", s.regChan, key, conf.ZMQConfig)
	if err != nil {
		panic("NewZMQIngest: " + err.Error())
	}
	// the statistics aggregator with the modules in main.go's order (the connection manager lives in package
	// main; a stub stands in for it on the verbose list)
	s.agg = &Stats{logger: s.logger, generations: make(map[uint32]int64), genMutex: &sync.Mutex{}}
	s.agg.AddStatsModule(s.zmq, false)
	s.agg.AddStatsModule(rm.LivenessTester, false)
	s.agg.AddStatsModule(GetProxyStats(), false)
	s.agg.AddStatsModule(rm, false)
	s.agg.AddStatsModule(conn, true)
	if !liveness.VerifSetProbe(rm.LivenessTester, func(address string) (bool, error) {
		if strings.HasPrefix(address, "192.122.190.1") {
			return true, liveness.ErrLiveHost
		}
		return false, liveness.NotLive
	}) {
		panic(fmt.Sprintf("unknown liveness tester %T", rm.LivenessTester))
	}
	// the ingest pipeline with the configured number of workers
	if !pipeline && vcfgStr(row, "wk") == "unset" {
		return s, "accepted", false, "in-process"
	}
	ctx, cancel := context.WithCancel(context.Background())
	s.cancel = cancel
	s.wg = new(sync.WaitGroup)
	s.wg.Add(1)
	go rm.HandleRegUpdates(ctx, s.regChan, s.wg)
	s.regChan <- []byte("not a registration")
	for i := 0; i < 20000 && atomic.LoadInt64(&rm.totalIngestMessages) == 0; i++ {
		runtime.Gosched()
		if i > 1000 {
			time.Sleep(50 * time.Microsecond)
		}
	}
	return s, "accepted", false, "in-process"
}

func (s *vcfgStation) stop() {
	if s == nil || s.cancel == nil {
		return
	}
	s.cancel()
	close(s.regChan)
	s.wg.Wait()
	s.cancel = nil
}

// vcfgReload is the body of main.go's SIGHUP branch
func (s *vcfgStation) reload(f *vcfgFiles, row map[string]any, sf string) (res string, panicked bool, selNew bool, how string) {
	cfgPath, _ := f.toml(row)
	os.Setenv("CJ_STATION_CONFIG", cfgPath)
	os.Setenv("PHANTOM_SUBNET_LOCATION", f.subnets(sf))
	before := s.rm.PhantomSelector
	defer func() {
		if r := recover(); r != nil {
			res, panicked, selNew, how = "rejected", true, s.rm.PhantomSelector != before, "panic: "+vcfgPanicText(r)
		}
	}()
	newConf, err := ParseConfig()
	if err != nil {
		return "rejected", false, s.rm.PhantomSelector != before, "parse-error"
	}
	s.rm.OnReload(newConf.RegConfig)
	return "applied", false, s.rm.PhantomSelector != before, ""
}

func (s *vcfgStation) mkReg(i int, phantom string) *DecoyRegistration {
	secret := vSecret(fmt.Sprintf("cfg-%d", i))
	keys, err := core.GenSharedKeys(uint(core.CurrentClientLibraryVersion()), secret, pb.TransportType_Min)
	if err != nil {
		panic(err)
	}
	src := pb.RegistrationSource_API
	return &DecoyRegistration{PhantomIp: net.ParseIP(phantom), PhantomPort: 443, Keys: &keys, Transport: pb.TransportType_Min,
		RegistrationSource: &src, RegistrationTime: time.Now(), registrationAddr: net.ParseIP("198.51.100.7"), DecoyListVersion: 957}
}

// something for the housekeeping to chew on: registrations (one of them expired), counters, liveness verdicts
func (s *vcfgStation) populate() {
	for i, ph := range []string{"192.122.190.21", "192.122.190.22", "2001:48a8:687f:1::22"} {
		s.nreg++
		d := s.mkReg(s.nreg, ph)
		if err := s.rm.TrackRegistration(d); err != nil {
			panic(err)
		}
		if i != 1 {
			s.rm.AddRegistration(d)
			s.rm.AddRegStats(d)
		}
	}
	for _, to := range s.rm.registeredDecoys.decoysTimeouts {
		if strings.HasSuffix(to.decoy, ".22") {
			to.registrationTime = time.Now().Add(-7 * time.Hour)
		}
	}
	s.rm.AddErrReg()
	s.rm.AddDupReg()
	for _, a := range []string{"192.122.190.11", "192.122.190.12", "192.122.190.31", "192.122.190.32", "192.122.190.11"} {
		s.rm.LivenessTester.PhantomIsLive(a, 443)
	}
	s.zmq.addZMQMessage()
	s.zmq.addDroppedZMQMessage()
}

// vcfgServed counts the control registrations (phantom in no blocklist entry) the serving-level measurement saw served
var vcfgServedControls, vcfgServedSkipped int64

// a covert address the policy in force admits (the serving-level measurement needs a registration that passes every
// OTHER admission test)
func (s *vcfgStation) admittedCovert() string {
	for _, n := range append([]string{"out"}, vcfgCovertProbes...) {
		if out, _ := s.rm.ParseOrResolveBlocklisted(net.JoinHostPort(vcfgEntries[n].probe, "443")); out != "" {
			return out
		}
	}
	return ""
}

// served pushes one registration on phantom ph through the real ingestRegistration and reports whether the station
// ends up with a VALID registration there (= it would serve a connection to it)
func (s *vcfgStation) served(ph string, src pb.RegistrationSource, sharing bool, covert string) bool {
	s.nreg++
	d := s.mkReg(s.nreg, ph)
	d.RegistrationSource = &src
	d.Covert = covert
	if src == pb.RegistrationSource_DetectorPrescan {
		d.Flags = &pb.RegistrationFlags{Prescanned: proto.Bool(true)}
	}
	oldShare, oldEP := s.rm.EnableShareOverAPI, s.rm.PreshareEndpoint
	s.rm.EnableShareOverAPI, s.rm.PreshareEndpoint = sharing, "http://127.0.0.1:1/verif-no-peer"
	s.rm.ingestRegistration(d)
	s.rm.EnableShareOverAPI, s.rm.PreshareEndpoint = oldShare, oldEP
	for _, r := range vMapAs[*DecoyRegistration](s.rm.registeredDecoys.getRegistrations(net.ParseIP(ph))) {
		if r == d && r.Valid {
			return true
		}
	}
	return false
}

// phantomRefused: the entry is enforced where it matters - no registration on a phantom inside it is served, from whatever
// source it arrives (ValidateRegistration applies the list to every source but the local detector, ingestRegistration to
// the local detector after the share) and whether enable_share_over_api is on or off
func (s *vcfgStation) phantomRefused(ph, entry string, notes *[]string) bool {
	covert := s.admittedCovert()
	if covert == "" {
		atomic.AddInt64(&vcfgServedSkipped, 1)
		return true // no registration at all can be served under this policy
	}
	control := "192.122.190.77"
	if net.ParseIP(ph).To4() == nil {
		control = "2001:48a8:687f:9::77"
	}
	if !s.rm.IsBlocklistedPhantom(net.ParseIP(control)) && s.served(control, pb.RegistrationSource_Detector, false, covert) {
		atomic.AddInt64(&vcfgServedControls, 1)
	}
	ok := true
	for _, src := range []pb.RegistrationSource{pb.RegistrationSource_Detector, pb.RegistrationSource_API, pb.RegistrationSource_DetectorPrescan} {
		for _, sharing := range []bool{false, true} {
			if s.served(ph, src, sharing, covert) {
				ok = false
				if notes != nil {
					*notes = append(*notes, fmt.Sprintf("phantom entry %s: a %v registration on %s is served (sharing=%v)", entry, src, ph, sharing))
				}
			}
		}
	}
	return ok
}

func vcfgTry(f func()) (msg string) {
	defer func() {
		if r := recover(); r != nil {
			msg = "panic: " + vcfgPanicText(r)
		}
	}()
	f()
	return ""
}

// one housekeeping call of module m, as the 5 s / 60 s tickers and the 3 min sweep make it
func (s *vcfgStation) housekeep(m string) string {
	switch m {
	case "zmq":
		return vcfgTry(func() { s.zmq.PrintAndReset(s.logger) })
	case "liveness":
		return vcfgTry(func() { s.rm.LivenessTester.PrintAndReset(s.logger); s.rm.LivenessTester.PrintStats(s.logger) })
	case "proxy":
		return vcfgTry(func() { GetProxyStats().PrintAndReset(s.logger) })
	case "reg":
		return vcfgTry(func() { s.rm.PrintAndReset(s.logger) })
	case "stats":
		return vcfgTry(func() { s.agg.PrintStats(false); s.agg.PrintStats(true) })
	case "sweep":
		return vcfgTry(func() { s.rm.RemoveOldRegistrations() })
	}
	panic("module " + m)
}

var vcfgModules = []string{"zmq", "liveness", "proxy", "reg", "stats", "sweep"}

func vcfgSelName(rm *RegistrationManager) string {
	if rm.PhantomSelector == nil {
		return "nil"
	}
	gens := []int{}
	for g := range rm.PhantomSelector.Networks {
		gens = append(gens, int(g))
	}
	sort.Ints(gens)
	switch fmt.Sprint(gens) {
	case "[1 957]":
		return "S1"
	case "[1 957 958]":
		return "S2"
	}
	return fmt.Sprint(gens)
}

var vcfgDown = map[string]any{"up": false, "covert": []string{}, "domain": []string{}, "phantom": []string{}, "sel": "none", "geo": "none", "hk": []string{}}

// project measures the station: which probes are refused, which selector is in force, which housekeeping calls survive
func (s *vcfgStation) project(withHK bool, notes *[]string) map[string]any {
	if s == nil {
		return vcfgDown
	}
	covert, domain, phantom, hk := []string{}, []string{}, []string{}, []string{}
	for _, n := range vcfgCovertProbes {
		if out, _ := s.rm.ParseOrResolveBlocklisted(net.JoinHostPort(vcfgEntries[n].probe, "443")); out == "" {
			covert = append(covert, n)
		}
	}
	for _, n := range vcfgDomainProbes {
		// refused by a domain pattern <=> empty result WITHOUT a lookup having been attempted
		if out, lookup := s.rm.ParseOrResolveBlocklisted(vcfgEntries[n].probe + ":443"); out == "" && !lookup {
			domain = append(domain, n)
		}
	}
	for _, n := range vcfgPhantomProbes {
		if s.rm.IsBlocklistedPhantom(net.ParseIP(vcfgEntries[n].probe)) && s.phantomRefused(vcfgEntries[n].probe, n, notes) {
			phantom = append(phantom, n)
		}
	}
	geo := fmt.Sprintf("%T", s.rm.GeoIP)
	if geo == "*geoip.EmptyDatabase" {
		geo = "empty"
	}
	st := map[string]any{"up": true, "covert": covert, "domain": domain, "phantom": phantom, "sel": vcfgSelName(s.rm), "geo": geo}
	if withHK {
		// ordinary station traffic under this configuration (ingest, statistics, liveness queries): a panic here is as fatal
		// as one in the housekeeping itself - no module counts as having run safely then
		if msg := vcfgTry(s.populate); msg != "" {
			if notes != nil {
				*notes = append(*notes, "traffic: "+msg)
			}
			st["hk"] = hk
			return st
		}
		for _, m := range vcfgModules {
			if msg := s.housekeep(m); msg == "" {
				hk = append(hk, m)
			} else if notes != nil {
				*notes = append(*notes, m+": "+msg)
			}
		}
		st["hk"] = hk
	}
	return st
}

func vcfgSetup(t *testing.T) (*vcfgFiles, func()) {
	dir, err := os.MkdirTemp("", "verif_cfg_")
	if err != nil {
		t.Fatal(err)
	}
	// probes must not fall into a local interface subnet (covert_blocklist_public_addrs adds those): where the
	// default probe of an entry does, another address inside the same entry is taken
	local := []*net.IPNet{}
	ifaces, _ := net.Interfaces()
	for _, i := range ifaces {
		addrs, _ := i.Addrs()
		for _, a := range addrs {
			if n, ok := a.(*net.IPNet); ok {
				local = append(local, n)
			}
		}
	}
	isLocal := func(ip string) bool {
		for _, n := range local {
			if n.Contains(net.ParseIP(ip)) {
				return true
			}
		}
		return false
	}
	for name, e := range vcfgEntries {
		if e.probe == "" || vcfgLocalProbes[name] || net.ParseIP(e.probe) == nil || !isLocal(e.probe) {
			continue
		}
		found := false
		for _, alt := range vcfgAltProbes[name] {
			if !isLocal(alt) {
				e.probe, found = alt, true
				vcfgEntries[name] = e
				break
			}
		}
		if !found {
			t.Fatalf("every probe address of entry %s lies in a local interface subnet (%v)", name, local)
		}
	}
	// names that no pattern refuses are resolved: fail fast and offline (/etc/hosts still answers localhost)
	oldRes := net.DefaultResolver
	net.DefaultResolver = &net.Resolver{PreferGo: true, Dial: func(ctx context.Context, network, address string) (net.Conn, error) {
		return nil, errors.New("verif: no DNS in the sandbox")
	}}
	// the station's loggers write to os.Stdout (thousands of start-ups): silence them for the duration
	oldOut := os.Stdout
	devnull, _ := os.OpenFile(os.DevNull, os.O_WRONLY, 0)
	os.Stdout = devnull
	oldCfg, oldSub := os.Getenv("CJ_STATION_CONFIG"), os.Getenv("PHANTOM_SUBNET_LOCATION")
	return &vcfgFiles{dir: dir, paths: map[string]string{}}, func() {
		os.Stdout = oldOut
		devnull.Close()
		net.DefaultResolver = oldRes
		os.Setenv("CJ_STATION_CONFIG", oldCfg)
		os.Setenv("PHANTOM_SUBNET_LOCATION", oldSub)
		os.RemoveAll(dir)
	}
}

func vcfgRowKey(row map[string]any) string {
	ks := []string{}
	for k := range row {
		ks = append(ks, k)
	}
	sort.Strings(ks)
	p := []string{}
	for _, k := range ks {
		if v := vcfgStr(row, k); v != "unset" && !(k == "fk" && v == "ok") {
			p = append(p, k+"="+v)
		}
	}
	if len(p) == 0 {
		return "(no registration key)"
	}
	return strings.Join(p, ",")
}

func vcfgOps(beh []map[string]any) []string {
	ops := []string{}
	for _, s := range beh {
		switch s["a"] {
		case "Load", "Reload":
			ops = append(ops, fmt.Sprintf("%v[%s | subnets %v]", s["a"], vcfgRowKey(s["row"].(map[string]any)), s["sf"]))
		case "Print":
			ops = append(ops, fmt.Sprintf("Print(%v)", s["m"]))
		default:
			ops = append(ops, fmt.Sprint(s["a"]))
		}
	}
	return ops
}

// apply executes one abstract action with the real code; returns the observation in the spec's obs format
func vcfgApply(f *vcfgFiles, cur **vcfgStation, step map[string]any, withHK bool, pipeline bool, notes *[]string) map[string]any {
	a := vcfgStr(step, "a")
	got := map[string]any{"a": a}
	switch a {
	case "Load":
		row := step["row"].(map[string]any)
		sf := vcfgStr(step, "sf")
		s, res, panicked, how := vcfgLoad(f, row, sf, pipeline)
		*cur = s
		got["row"], got["sf"], got["res"], got["panicked"] = row, sf, res, panicked
		*notes = append(*notes, "load: "+how)
	case "Reload":
		row := step["row"].(map[string]any)
		sf := vcfgStr(step, "sf")
		res, panicked, selNew, how := (*cur).reload(f, row, sf)
		got["row"], got["sf"], got["res"], got["panicked"], got["selNew"] = row, sf, res, panicked, selNew
		if how != "" {
			*notes = append(*notes, "reload: "+how)
		}
	case "Print":
		m := vcfgStr(step, "m")
		got["m"] = m
		(*cur).populate()
		if msg := (*cur).housekeep(m); msg == "" {
			got["res"] = "ok"
		} else {
			got["res"] = "panic"
			*notes = append(*notes, m+": "+msg)
		}
	case "Sweep":
		(*cur).populate()
		if msg := (*cur).housekeep("sweep"); msg == "" {
			got["res"] = "ok"
		} else {
			got["res"] = "panic"
			*notes = append(*notes, "sweep: "+msg)
		}
	default:
		panic("unknown action " + a)
	}
	got["st"] = (*cur).project(withHK, notes)
	return got
}

func TestVerifConfigReplay(t *testing.T) {
	out := vOpenOut(t)
	defer out.Close()
	f, restore := vcfgSetup(t)
	defer restore()
	nb, ns, nm, nacc := 0, 0, 0, 0
	hows := map[string]int{}
	sigs := map[string]int{}
	vReadLines(t, func(line []byte) {
		var beh []map[string]any
		if err := json.Unmarshal(line, &beh); err != nil {
			t.Fatalf("bad behaviour: %v", err)
		}
		nb++
		var cur *vcfgStation
		for i, step := range beh {
			ns++
			notes := []string{}
			// the ingest pipeline (300 workers by default) is started for decision-table rows and sampled rows, and
			// in reload sequences only when a worker count is configured
			got := vcfgApply(f, &cur, step, true, len(beh) == 1 || nb%4 == 0, &notes)
			if i == 0 {
				if got["res"] == "accepted" {
					nacc++
				}
				for _, n := range notes {
					if strings.HasPrefix(n, "load: ") {
						h := strings.TrimPrefix(n, "load: ")
						if strings.HasPrefix(h, "panic") {
							h = "panic"
						}
						hows[h]++
					}
				}
			}
			if vCanon(vNorm(got)) != vCanon(step) {
				nm++
				// keep up to 30 examples of every KIND of divergence (action, outcome, which measured parts differ)
				gn := vNorm(got).(map[string]any)
				sig := fmt.Sprintf("%v|%v|%v|%v", step["a"], gn["res"], gn["panicked"], gn["selNew"])
				ws, _ := step["st"].(map[string]any)
				gs, _ := gn["st"].(map[string]any)
				for _, k := range []string{"up", "covert", "domain", "phantom", "sel", "geo", "hk"} {
					if vCanon(ws[k]) != vCanon(gs[k]) {
						sig += "|" + k
					}
				}
				sigs[sig]++
				if sigs[sig] <= 30 {
					out.Emit(map[string]any{"kind": "mismatch", "beh": nb, "step": i, "want": step, "got": vNorm(got), "ops": vcfgOps(beh[:i+1]), "notes": notes, "start": beh[0]["row"]})
				}
				break
			}
			if cur == nil {
				break
			}
		}
		cur.stop()
	})
	out.Emit(map[string]any{"kind": "summary", "behaviours": nb, "steps": ns, "mismatches": nm, "accepted": nacc, "how": hows, "children": vcfgChildren, "kinds": sigs,
		"served_controls": atomic.LoadInt64(&vcfgServedControls), "served_skipped": atomic.LoadInt64(&vcfgServedSkipped)})
}

// random sequences, with housekeeping as separate events (one module at a time) - not derived from the spec
func TestVerifConfigRandom(t *testing.T) {
	out := vOpenOut(t)
	defer out.Close()
	f, restore := vcfgSetup(t)
	defer restore()
	rng := rand.New(rand.NewSource(vSeed()*104729 + 19))
	ntr := vEnvInt("VERIF_TRACES", 60)
	nops := vEnvInt("VERIF_OPS", 12)
	pick := func(xs ...string) string { return xs[rng.Intn(len(xs))] }
	// mostly loadable values, some that must make the load fail
	row := func(reload bool) map[string]any {
		r := map[string]any{"ld": "unset", "lc": "unset", "nd": "unset", "nc": "unset", "wk": "unset", "fk": "ok"}
		if !reload {
			r["ld"] = pick("unset", "zero", "valid", "valid", "valid", "bad")
			r["lc"] = pick("unset", "unset", "zero", "valid", "neg")
			r["nd"] = pick("unset", "unset", "zero", "valid", "valid", "bad")
			r["nc"] = pick("unset", "unset", "zero", "valid", "neg")
			r["wk"] = pick("unset", "zero", "valid")
		}
		r["cbs"] = pick("unset", "empty", "A", "A", "B", "ws", "ws", "bad", "badfirst")
		r["cas"] = pick("unset", "unset", "unset", "empty", "A", "ws", "bad", "badfirst", "badonly")
		r["cbd"] = pick("unset", "A", "A", "B", "bad", "badfirst")
		r["pbl"] = pick("unset", "empty", "A", "ws", "bad", "badfirst")
		r["geo"] = pick("unset", "unset", "empty", "empty", "missing", "garbage")
		r["pub"] = pick("unset", "true")
		switch rng.Intn(14) {
		case 0:
			return map[string]any{"ld": "unset", "lc": "unset", "nd": "unset", "nc": "unset", "cbs": "unset", "cas": "unset", "cbd": "unset",
				"pbl": "unset", "geo": "unset", "wk": "unset", "pub": "unset", "fk": pick("ok", "syntax", "wrongtype", "unreadable")}
		case 1:
			return map[string]any{"ld": "valid", "lc": "zero", "nd": "valid", "nc": "zero", "cbs": "shipped", "cas": "empty", "cbd": "shipped",
				"pbl": "empty", "geo": "empty", "wk": "valid", "pub": "true", "fk": "shipped"}
		}
		if reload && r["geo"] == "garbage" {
			r["geo"] = "missing"
		}
		return r
	}
	for tr := 0; tr < ntr; tr++ {
		out.Emit(map[string]any{"a": "Reset"})
		var cur *vcfgStation
		notes := []string{}
		sf := pick("S1", "S1", "S1", "S2", "malformed", "missing", "badgen")
		out.Emit(vcfgApply(f, &cur, map[string]any{"a": "Load", "row": row(false), "sf": sf}, false, true, &notes))
		for i := 0; i < nops && cur != nil; i++ {
			var step map[string]any
			switch x := rng.Intn(100); {
			case x < 45:
				step = map[string]any{"a": "Print", "m": pick("zmq", "liveness", "proxy", "reg", "stats")}
			case x < 55:
				step = map[string]any{"a": "Sweep"}
			default:
				step = map[string]any{"a": "Reload", "row": row(true), "sf": pick("S1", "S2", "S2", "malformed", "missing", "badgen")}
			}
			out.Emit(vcfgApply(f, &cur, step, false, true, &notes))
		}
		cur.stop()
	}
}
