------------------------- MODULE Gen_DecoyRegistrar -------------------------
(* Behaviour generator for stage B (spec -> implementation replay).  The real code offers gates only where a peer, a timer
   or the caller acts (the injected dialer, the decoy's side of the connection, the context, the sleep timer); whatever
   the code does by itself - Report, Recv, Decide, the return after a failure or a cut sleep - follows at once.  So the
   generator emits behaviours in RUN-TO-COMPLETION form: an environment step is taken only when no internal step is
   enabled.  (Stage A checks every interleaving of the specification; the ungated stress stage runs the real goroutines
   without any gate.)  A behaviour is printed when it is complete: Register has returned in every round and every sender
   is through.  Exhaustive mode enumerates EVERY complete behaviour of the configured instance (hist is part of the
   state); -simulate samples behaviours of larger instances.
   FullLast = TRUE lets the sleep timer fire only when every sender is through (keeps the exhaustive instances small; the
   simulated ones place it anywhere).
   Two steps take real time on the real code: the sleep (3 .. 7.5 s) and a dial that ends by Send's own deadline
   (1.9 .. 4.0 s after the call).  The specification has no clock, the real world orders the two timers: the generator
   does not ask for a dial timeout while the sleep timer is running, and asks for at most MaxSlow slow steps in a
   behaviour (replay time). *)
EXTENDS DecoyRegistrar, Json
CONSTANTS Depth, FullLast, MaxSlow
VARIABLE hist
IsSlow(e) == (e.a = "DialRet" /\ e.o = "timeout") \/ (e.a = "Return" /\ e.slept = "full")
Slow(h) == Cardinality({k \in 1..Len(h) : IsSlow(h[k])})
GenInit == Init /\ hist = <<>>
GenEnv == \/ \E n \in Widths, dl \in Deadlines, pre \in PreCancel : Call(n, dl, pre)
          \/ CtxEnd
          \/ Peer /\ ~(cpc = "sleep" /\ obs'.a = "DialRet" /\ obs'.o = "timeout")
          \/ (FullLast => AllQuiet) /\ Return("full")
GenNext == /\ Len(hist) < Depth
           /\ IF InternalEnabled THEN Internal ELSE GenEnv
           /\ hist' = Append(hist, obs')
           /\ IsSlow(obs') => Slow(hist) < MaxSlow
GenSpec == GenInit /\ [][GenNext]_<<vars, hist>>
Complete == cpc = "done" /\ AllQuiet /\ round = Rounds
Emit == ~Complete \/ PrintT(ToJson(hist))
=============================================================================
