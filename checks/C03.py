"""C03 - unauthenticated connections get no bytes and no early close; the station keeps reading until its deadline.

A  TLC exhaustive on spec/Classify (scaled thresholds): NoBytes, NoEarlyClose, KeepsReading, Terminates over every
   segmentation / pacing / peer-close position of every stream kind and registry occupancy.
C  real runs of handleNewTCPConn against probe streams (random, zeros, protocol look-alikes, every static prefix followed by
   garbage, exactly-threshold lengths, genuine flights with one bit flipped or truncated) under seeded segmentation,
   with no / one / many registrations on the probed phantom.  A scripted connection records every call (SetDeadline,
   Read, Write, Close) and honours the deadline it was given; decorated real transports record every verdict.  Each
   log is validated against Classify.tla: first deadline 5..10 s ahead, no Write, no return/Close before the deadline
   unless the peer closed, every verdict equals the specification's, everything the peer sent was read.
   Probes last 5-10 s each, so they run as one (quick) or several (thorough) parallel batches.
   Churn batch: probes in many segments (every read ends in lookups on the registration table) while registry writers - ingest
   (TrackRegistration / AddRegistration), MarkActive, the expiry sweeper - run on other goroutines, on other phantoms: every probe
   must still be read to its deadline and closed then, and the table must still answer afterwards (Classify.tla: HRLock / WAnnounce /
   WWrite, Terminates; LookupLocks = "nested" must violate).
"""
import json
import vlib
import classify_common as cc


def world():
    regs = [{"name": "rmin", "secret": "s-min", "transport": "min", "prefix_id": 0, "state": "valid", "phantom": "P1"},
            {"name": "robfs", "secret": "s-obfs", "transport": "obfs4", "prefix_id": 0, "state": "valid", "phantom": "P1"},
            {"name": "rpx1", "secret": "s-px1", "transport": "prefix", "prefix_id": 1, "state": "valid", "phantom": "P1"},
            {"name": "rpx0", "secret": "s-px0", "transport": "prefix", "prefix_id": 0, "state": "valid", "phantom": "P1"},
            {"name": "rpx9", "secret": "s-px9", "transport": "prefix", "prefix_id": 9, "state": "valid", "phantom": "P1"},
            {"name": "rtracked", "secret": "s-tr", "transport": "min", "prefix_id": 0, "state": "tracked", "phantom": "P1"},
            {"name": "rone", "secret": "s-one", "transport": "min", "prefix_id": 0, "state": "valid", "phantom": "P2"},
            {"name": "ronlytracked", "secret": "s-ot", "transport": "obfs4", "prefix_id": 0, "state": "tracked", "phantom": "P3"},
            {"name": "rmin6", "secret": "s-min6", "transport": "min", "prefix_id": 0, "state": "valid", "phantom": "V6a"},
            {"name": "rpx6", "secret": "s-px6", "transport": "prefix", "prefix_id": 4, "state": "valid", "phantom": "V6a"},
            {"name": "robfs6", "secret": "s-obfs6", "transport": "obfs4", "prefix_id": 0, "state": "valid", "phantom": "V6a"}]
    # P0 and V6c carry no registration at all
    return {"phantoms": {"P0": "192.122.190.9", "P1": "192.122.190.10", "P2": "192.122.190.11", "P3": "192.122.190.12",
                         "V6a": "2001:48a8:687f:1::a:1", "V6c": "2001:48a8:687f:1::c:3"}, "regs": regs}


def gen_cases(ctx, budget):
    rng = ctx.rng
    cases = []
    n = [0]

    def add(st, cuts=(), dst=None, **kw):
        n[0] += 1
        cases.append(cc.case("c03-%d" % n[0], dst or rng.choice(["P0", "P1", "P1", "P2", "P3", "V6a", "V6a", "V6c"]), st, cuts, **kw))

    def rcuts(L, k=None):
        if L < 2:
            return []
        k = k if k is not None else rng.choice([0, 1, 2, 4])
        return [rng.randrange(1, L) for _ in range(k)]

    lens = [0, 1, 31, 32, 33, 63, 64, 65, 100, 1000, 4096, 4097, 8191, 8192, 8193, 16384]
    for L in lens:
        for dst in ("P0", "P1", "P2"):
            add(cc.stream(gen="random", len=L), rcuts(L), dst=dst)
        add(cc.stream(gen="zeros", len=L), rcuts(L))
    for g in ("http", "tls", "ssh"):
        for L in (40, 64, 200, 9000):
            add(cc.stream(gen=g, len=L), rcuts(L))
    for pid, plen in cc.PLEN.items():
        for L in (plen + 63, plen + 64, plen + 65, plen + 500):
            add(cc.stream(gen="static:%d" % pid, len=L), rcuts(L), dst="P1")
        add(cc.stream(gen="static:%d" % pid, len=plen + 64), rcuts(plen + 64), dst="P0")
    # peer closes first: the station may close in return (the invariant exempts it)
    for L in (0, 10, 64, 500):
        add(cc.stream(gen="random", len=L), rcuts(L), peer_close=True)
    # genuine flights, one bit flipped, followed by more bytes the station must keep reading
    for bit in rng.sample(range(256), 24):
        add(cc.stream(**{"from": "rmin", "flip": bit, "early": 50, "late": 30}), rcuts(60), dst="P1")
    for pid, frm in ((0, "rpx0"), (1, "rpx1"), (9, "rpx9")):
        plen = cc.PLEN[pid]
        bits = rng.sample(range(plen * 8, (plen + 64) * 8), 10)
        # the two top bits of the representative's last byte are masked by the decoder (they carry no information) and are
        # exercised by C02 as "must still match"; skip them here
        bits = [b for b in bits if not (b // 8 == plen + 31 and b % 8 >= 6)]
        if plen:
            bits += rng.sample(range(plen * 8), 3)
        for bit in bits:
            add(cc.stream(**{"from": frm, "client_px": pid, "flip": bit, "early": 50, "late": 30}), rcuts(plen + 90), dst="P1")
    # truncated genuine flights (one byte short), then idle
    add(cc.stream(**{"from": "rmin", "trunc": 31}), [10], dst="P1")
    add(cc.stream(**{"from": "rpx1", "client_px": 1, "trunc": 79}), [20], dst="P1")
    # genuine flights replayed against phantoms that carry other / no / only unvalidated registrations
    for dst in ("P0", "P2", "P3"):
        add(cc.stream(**{"from": "rmin", "early": 40, "late": 10}), rcuts(60), dst=dst)
        add(cc.stream(**{"from": "rpx1", "client_px": 1, "early": 40}), rcuts(100), dst=dst)
    # genuine IPv4-phantom flights replayed against IPv6 phantoms and vice versa
    for frm, kw2, dsts in (("rmin", {}, ("V6a", "V6c")), ("rmin6", {}, ("P1", "P0", "V6c")), ("rpx6", {"client_px": 4}, ("P1", "V6c"))):
        for dst in dsts:
            add(cc.stream(**dict({"from": frm, "early": 40, "late": 10}, **kw2)), rcuts(60), dst=dst)
    # obfs4: flips in the representative and in the mark (no registration's mark matches any more)
    for be in rng.sample(range(16 * 8, 32 * 8), 6):
        add(cc.stream(**{"from": "robfs", "flip_end": be}), [rng.choice([64, 500])], dst="P1")
    for bit in rng.sample(range(0, 31 * 8), 6):
        add(cc.stream(**{"from": "robfs", "flip": bit}), [rng.choice([64, 500])], dst="P1")
    add(cc.stream(**{"from": "robfs", "trunc": 200}), [64], dst="P1")
    for dst in ("P0", "P2", "P3"):
        add(cc.stream(**{"from": "robfs"}), [100], dst=dst)
    # fill the budget with seeded random probes
    while len(cases) < budget:
        L = rng.choice(lens + [rng.randrange(1, 16384)])
        add(cc.stream(gen=rng.choice(["random", "random", "http", "static:%d" % rng.choice(list(cc.PLEN))]), len=L),
            rcuts(L), pace_ms=rng.choice([1, 5, 50, 400]))
    return cases


CHURN_PHANTOMS = 8


def churn_world():
    """world() plus sessions the registry writers work on: phantoms nobody connects to, not in the table when the batch starts."""
    w = world()
    for i in range(CHURN_PHANTOMS):
        w["phantoms"]["CH%d" % i] = ("2001:48a8:687f:3::%x" % (i + 1)) if i % 4 == 3 else "192.122.200.%d" % (i + 1)
    for i in range(3 * CHURN_PHANTOMS):
        t, px = [("min", 0), ("prefix", 1 + i % 9), ("obfs4", 0)][i % 3]
        w["regs"].append({"name": "churn-%d" % i, "secret": "s-churn-%d" % i, "transport": t, "prefix_id": px, "state": "absent", "phantom": "CH%d" % (i % CHURN_PHANTOMS)})
    return w


def gen_churn_cases(ctx, n):
    """Short scripted streams in many segments: each of the 10-40 reads of a connection to a populated phantom offers what has arrived
    so far to the transports that are still in the race, i.e. looks the phantom's registrations up while the writers run."""
    rng = ctx.rng
    cases = []

    def add(st, L, dst, **kw):
        k = rng.choice([10, 20, 40])
        cuts = [rng.randrange(1, L) for _ in range(k)] if L > 2 else []
        cases.append(cc.case("churn-%d" % (len(cases) + 1), dst, st, cuts, pace_ms=rng.choice([1, 2, 4]), **kw))

    populated = ["P1", "P1", "P2", "P3", "V6a"]
    while len(cases) < n:
        k = len(cases) % 10
        dst = rng.choice(populated) if k != 9 else rng.choice(["P0", "V6c"])
        if k < 5:
            L = rng.choice([65, 100, 300, 1000, 3000, 6000, 8193, 9000])
            add(cc.stream(gen=rng.choice(["random", "random", "http", "tls", "zeros", "static:%d" % rng.choice(list(cc.PLEN))]), len=L), L, dst,
                peer_close=(k == 4))
        elif k < 7:
            add(cc.stream(**{"from": "rmin", "flip": rng.randrange(256), "early": 200, "late": 30}), 230, "P1")
        elif k == 7:
            pid, frm = rng.choice([(0, "rpx0"), (1, "rpx1"), (9, "rpx9")])
            plen = cc.PLEN[pid]
            bit = rng.randrange(plen * 8, (plen + 31) * 8)
            add(cc.stream(**{"from": frm, "client_px": pid, "flip": bit, "early": 300, "late": 30}), plen + 360, "P1")
        else:
            L = rng.choice([200, 2000, 5000])
            add(cc.stream(gen="random", len=L), L, dst)
    for i, c in enumerate(cases):
        c["start_ms"] = (i % 8) * 40
    return cases


def churn_stage(ctx, thorough):
    wch = churn_world()
    ccases = gen_churn_cases(ctx, 600 if thorough else 300)
    rows = []
    ctx.log("C: %d probes in many segments while registry writers run (track / validate / mark active / sweep on other phantoms)" % len(ccases))
    cres = cc.run_cases(ctx, [(wch, ccases)], par=650, churn=3, churn_rows=rows)
    if not rows:
        raise vlib.InfraError("the classify driver reported no churn")
    ch = rows[0]
    hung = [(w, cs, r) for (w, cs, r) in cres if r["final"].get("hung")]
    blocked_at_start = sum(1 for (_, _, r) in cres if r.get("registry_blocked"))
    if hung:
        (_, cs, r) = hung[0]
        ev = r["ev"]
        last = [e for e in ev if e["a"] in ("Read", "Verdict", "SetDeadline")][-1:] or [None]
        ctx.violation("c03:churn:stopped-reading-never-closed",
                      "%d of %d probes classified while registry writers ran were never closed: the handler had not returned 6 s after the peer gave up "
                      "(12.5 s after the connection arrived, every deadline long past) - e.g. case %s to %s: %d bytes sent, %d left unread, last handler "
                      "event %s; Classify.tla: every lookup comes back, the handler reads until its deadline and returns (Terminates)"
                      % (len(hung), len(cres), cs["id"], cs["dst"], r["final"].get("c2s_written", 0), r["final"].get("unread", 0), json.dumps(last[0])),
                      {"hung": len(hung), "probes": len(cres), "case": cs, "events": ev[-12:], "final": r["final"], "churn": ch,
                       "no_deadline_set": sum(1 for (_, _, x) in hung if not x["final"].get("deadlines"))})
    if ch["registry_blocked"] or not ch["writers_back"] or blocked_at_start:
        ctx.violation("c03:churn:registry-blocked",
                      "after the churn batch the registration table %s; %d connections found it unanswering when they arrived (the handler's first step counts "
                      "the phantom's registrations)" % ("no longer answers CountRegistrations / GetRegistrations" if ch["registry_blocked"] else
                                                        "answers" if ch["writers_back"] else "answers reads, but its writers never came back", blocked_at_start), ch)
    elif not hung and ch["ops"] < 500:
        raise vlib.InfraError("only %d registry writes ran during the churn batch" % ch["ops"])
    lookups = sum(1 for (_, _, r) in cres for e in r["ev"] if e["a"] == "Verdict")
    ctx.stage("C", churn_probes=len(cres), churn_registry_writes=ch["ops"], churn_cycles=ch["cycles"], churn_write_errors=ch["errs"], churn_max_write_us=ch["max_op_us"],
              churn_verdicts=lookups, churn_hung=len(hung))
    ctx.log("C: churn: %d registry writes (slowest %d us), %d verdicts, %d handlers hung" % (ch["ops"], ch["max_op_us"], lookups, len(hung)))
    # every log goes through trace validation; of the hung ones two are enough to name the offending event
    return [x for x in cres if not x[2]["final"].get("hung")] + hung[:2]


def run(ctx):
    thorough = ctx.tier == "thorough"
    cc.stage_a(ctx, locks=True)
    w = world()
    batches = 6 if thorough else 1
    allres = []
    for b in range(batches):
        cases = gen_cases(ctx, 420)
        for c in cases:
            c["id"] = "b%d-%s" % (b, c["id"])
        ctx.log("C: batch %d: %d probes" % (b, len(cases)))
        allres += cc.run_cases(ctx, [(w, cases)], par=450)
    # statistics epochs rolling over while probes are open: the probes that idle for seconds and the ones whose peer closes after sending
    # something, on IPv4 and IPv6 phantoms alike, with the statistics printed-and-reset every 40 ms - whatever the bookkeeping does,
    # nothing may be written, closed early or crash (the crash of ONE handler takes every open connection of the station with it)
    ecases = [c for c in gen_cases(ctx, 260) if c["peer_close"] or c["stream"]["len"] <= 100][:200]
    for c in ecases:
        c["id"] = "epoch-" + c["id"]
    # ... and the history a per-family bookkeeping slip needs: connections to IPv6 and IPv4 phantoms from the same network, arriving BEFORE and
    # AFTER epoch roll-overs, sending something, idling, and their peers closing at different times
    k = 0
    for dst in ("V6a", "P1", "V6a", "P2", "V6c", "V6a", "P1", "P0"):
        for L in (1, 10, 64, 500):
            for start in (0, 70, 160, 300):
                k += 1
                c = cc.case("epoch-hist-%d" % k, dst, cc.stream(gen="random", len=L), [], pace_ms=ctx.rng.choice([60, 150, 320]), peer_close=(k % 3 != 0))
                c["start_ms"] = start
                ecases.append(c)
    ctx.log("C: %d probes with statistics epochs rolling over" % len(ecases))
    allres += cc.run_cases(ctx, [(w, ecases)], par=300, epoch_ms=40)
    # ---- the deadline is RANDOMISED: not a function of anything an outsider supplies.  A prober registers as a legacy (v0) client with a
    # secret of its choice and connects right afterwards, several times over with the same secret; one connection at a time, so that
    # nothing else draws from whatever generator the handler uses.  The deadlines it is given must not coincide.
    pcases = []
    for name in ("la", "lb", "lc"):
        for k in range(5):
            c = cc.case("c03-legacy-%s-%d" % (name, k), "P0", cc.stream(gen="random", len=40), [], peer_close=True)
            c["legacy_before"] = name
            pcases.append(c)
    for k in range(5):
        pcases.append(cc.case("c03-legacy-none-%d" % k, "P0", cc.stream(gen="random", len=40), [], peer_close=True))
    pres = cc.run_cases(ctx, [(w, pcases)], par=1)
    allres += pres
    groups = {}
    for (_, cs, rec) in pres:
        dl = [e.get("ahead", e["dl"]) for e in rec["ev"] if e["a"] == "SetDeadline"]
        if dl:
            groups.setdefault(cs.get("legacy_before", "none"), []).append(dl[0])
    for name, dls in sorted(groups.items()):
        if len(dls) >= 4 and max(dls) - min(dls) <= 3:
            ctx.violation("c03:deadline-predictable:%s" % ("after-legacy-registration" if name != "none" else "constant"),
                          "the classification deadline is not randomised: %d connections%s were given deadlines %s ms ahead"
                          % (len(dls), " each preceded by the same legacy registration (secret %r)" % name if name != "none" else "", dls),
                          {"group": name, "deadlines_ms": dls})
    ctx.stage("C", deadline_groups={k: v for k, v in groups.items()})
    allres += churn_stage(ctx, thorough)
    summary = cc.validate(ctx, "C03", allres, "c03")
    ctx.log("C: %d traces, %d accepted, %d rejected" % (summary["traces"], summary["accepted"], summary["rejected"]))
    # the deadline must be randomised: the observed first deadlines spread over the 5..10 s window
    dls = [r["final"]["deadlines"][0] for (_, _, r) in allres if r["final"].get("deadlines")]
    if len(dls) >= 100:
        spread = max(dls) - min(dls)
        buckets = len({d // 500 for d in dls})
        if spread < 3000 or buckets < 7:
            ctx.violation("c03:deadline-not-randomised", "classification deadlines of %d probes span only %d ms (%d half-second buckets); "
                          "the property requires a randomised 5-10 s deadline" % (len(dls), spread, buckets), {"min": min(dls), "max": max(dls)})
        ctx.stage("C", deadline_min_ms=min(dls), deadline_max_ms=max(dls), deadline_buckets=buckets)
    if summary["rejected"] == 0:
        ctx.stage("C", corrupted_trace_rejected_at=cc.binding_demo(ctx, allres[:80], summary["sdir"]))
    ctx.cov["traces_validated_against_impl"] = summary["accepted"]
    classes = set()
    for (_, cs, r) in allres:
        st = cs["stream"]
        L = r["final"].get("c2s_written", 0)
        lc = "0" if L == 0 else "<32" if L < 32 else "<64" if L < 64 else "<8192" if L < 8192 else ">=8192"
        classes.add((st["from"], st["gen"], lc, min(len(cs["cuts"]), 3), cs["dst"], st["flip"] >= 0 or st["flip_end"] >= 0, st["trunc"] >= 0, cs["peer_close"]))
    ctx.cov["evaluations"] = len(allres)
    ctx.cov["distinct_nontrivial"] = len({k for k in classes if k[2] != "0"})
    ctx.cov["rule"] = ("one case = (stream kind, length class, number of cuts, occupancy of the probed phantom, tamper kind, peer close); "
                       "non-trivial = at least one byte sent")
    ctx.sample({"case": allres[3][1], "events": [(e["a"], e.get("n", e.get("k", e.get("r", e.get("dl"))))) for e in allres[3][2]["ev"]][:25]})
    ctx.stage("C", probes=len(allres), **{k: v for k, v in summary.items() if k != "sdir"})
    ctx.assumptions += ["'close' is observed as the earlier of a Close call on the connection and the handler's return (its caller closes "
                        "the socket the moment it returns); handleNewConn itself needs SO_ORIGINAL_DST and cannot be driven offline",
                        "'reveals nothing' is checked as the stated observables (bytes, close time, continued reading), not as a timing side channel",
                        "the scripted connection reports a timeout exactly at the deadline it was given"]
