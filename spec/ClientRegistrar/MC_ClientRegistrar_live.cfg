\* liveness, as found: with the server answering every call returns
SPECIFICATION FairSpec
CONSTANTS
  Variant = "asfound"
  Configs <- CfgGenA
  ApiOutcomes = {"neterr", "s500", "garbage", "R1", "RB"}
  DnsOutcomes = {"servfail", "nosuccess", "nobidi", "R1", "RB"}
PROPERTIES Termination
CHECK_DEADLOCK FALSE
