---- MODULE CovertPolicy_TTrace_1790407713 ----
EXTENDS Sequences, CovertPolicy, TLCExt, Toolbox, Naturals, TLC

_expression ==
    LET CovertPolicy_TEExpression == INSTANCE CovertPolicy_TEExpression
    IN CovertPolicy_TEExpression!expression
----

_trace ==
    LET CovertPolicy_TETrace == INSTANCE CovertPolicy_TETrace
    IN CovertPolicy_TETrace!trace
----

_inv ==
    ~(
        TLCGet("level") = Len(_TETrace)
        /\
        result = ("pub4")
        /\
        lookups = (2)
        /\
        obs = ([a |-> "dial"])
        /\
        pc = ("done")
        /\
        dialed = ("none")
        /\
        stored = ("pub4")
        /\
        inp = ([form |-> "name", port |-> "ok", addr |-> "pub4", answers |-> <<"pub4">>])
        /\
        pol = ([block |-> {}, allow |-> {}, patterns |-> TRUE])
        /\
        resolved = ("pub4")
    )
----

_init ==
    /\ dialed = _TETrace[1].dialed
    /\ pol = _TETrace[1].pol
    /\ pc = _TETrace[1].pc
    /\ stored = _TETrace[1].stored
    /\ inp = _TETrace[1].inp
    /\ resolved = _TETrace[1].resolved
    /\ obs = _TETrace[1].obs
    /\ result = _TETrace[1].result
    /\ lookups = _TETrace[1].lookups
----

_next ==
    /\ \E i,j \in DOMAIN _TETrace:
        /\ \/ /\ j = i + 1
              /\ i = TLCGet("level")
        /\ dialed  = _TETrace[i].dialed
        /\ dialed' = _TETrace[j].dialed
        /\ pol  = _TETrace[i].pol
        /\ pol' = _TETrace[j].pol
        /\ pc  = _TETrace[i].pc
        /\ pc' = _TETrace[j].pc
        /\ stored  = _TETrace[i].stored
        /\ stored' = _TETrace[j].stored
        /\ inp  = _TETrace[i].inp
        /\ inp' = _TETrace[j].inp
        /\ resolved  = _TETrace[i].resolved
        /\ resolved' = _TETrace[j].resolved
        /\ obs  = _TETrace[i].obs
        /\ obs' = _TETrace[j].obs
        /\ result  = _TETrace[i].result
        /\ result' = _TETrace[j].result
        /\ lookups  = _TETrace[i].lookups
        /\ lookups' = _TETrace[j].lookups

\* Uncomment the ASSUME below to write the states of the error trace
\* to the given file in Json format. Note that you can pass any tuple
\* to `JsonSerialize`. For example, a sub-sequence of _TETrace.
    \* ASSUME
    \*     LET J == INSTANCE Json
    \*         IN J!JsonSerialize("CovertPolicy_TTrace_1790407713.json", _TETrace)

=============================================================================

 Note that you can extract this module `CovertPolicy_TEExpression`
  to a dedicated file to reuse `expression` (the module in the 
  dedicated `CovertPolicy_TEExpression.tla` file takes precedence 
  over the module `CovertPolicy_TEExpression` below).

---- MODULE CovertPolicy_TEExpression ----
EXTENDS Sequences, CovertPolicy, TLCExt, Toolbox, Naturals, TLC

expression == 
    [
        \* To hide variables of the `CovertPolicy` spec from the error trace,
        \* remove the variables below.  The trace will be written in the order
        \* of the fields of this record.
        dialed |-> dialed
        ,pol |-> pol
        ,pc |-> pc
        ,stored |-> stored
        ,inp |-> inp
        ,resolved |-> resolved
        ,obs |-> obs
        ,result |-> result
        ,lookups |-> lookups
        
        \* Put additional constant-, state-, and action-level expressions here:
        \* ,_stateNumber |-> _TEPosition
        \* ,_dialedUnchanged |-> dialed = dialed'
        
        \* Format the `dialed` variable as Json value.
        \* ,_dialedJson |->
        \*     LET J == INSTANCE Json
        \*     IN J!ToJson(dialed)
        
        \* Lastly, you may build expressions over arbitrary sets of states by
        \* leveraging the _TETrace operator.  For example, this is how to
        \* count the number of times a spec variable changed up to the current
        \* state in the trace.
        \* ,_dialedModCount |->
        \*     LET F[s \in DOMAIN _TETrace] ==
        \*         IF s = 1 THEN 0
        \*         ELSE IF _TETrace[s].dialed # _TETrace[s-1].dialed
        \*             THEN 1 + F[s-1] ELSE F[s-1]
        \*     IN F[_TEPosition - 1]
    ]

=============================================================================



Parsing and semantic processing can take forever if the trace below is long.
 In this case, it is advised to uncomment the module below to deserialize the
 trace from a generated binary file.

\*
\*---- MODULE CovertPolicy_TETrace ----
\*EXTENDS IOUtils, CovertPolicy, TLC
\*
\*trace == IODeserialize("CovertPolicy_TTrace_1790407713.bin", TRUE)
\*
\*=============================================================================
\*

---- MODULE CovertPolicy_TETrace ----
EXTENDS CovertPolicy, TLC

trace == 
    <<
    ([result |-> "none",lookups |-> 0,obs |-> [a |-> "Init"],pc |-> "parse",dialed |-> "none",stored |-> "none",inp |-> [form |-> "name", port |-> "ok", addr |-> "pub4", answers |-> <<"pub4">>],pol |-> [block |-> {}, allow |-> {}, patterns |-> TRUE],resolved |-> "none"]),
    ([result |-> "none",lookups |-> 0,obs |-> [a |-> "domain"],pc |-> "domain",dialed |-> "none",stored |-> "none",inp |-> [form |-> "name", port |-> "ok", addr |-> "pub4", answers |-> <<"pub4">>],pol |-> [block |-> {}, allow |-> {}, patterns |-> TRUE],resolved |-> "none"]),
    ([result |-> "none",lookups |-> 0,obs |-> [a |-> "port"],pc |-> "port",dialed |-> "none",stored |-> "none",inp |-> [form |-> "name", port |-> "ok", addr |-> "pub4", answers |-> <<"pub4">>],pol |-> [block |-> {}, allow |-> {}, patterns |-> TRUE],resolved |-> "none"]),
    ([result |-> "none",lookups |-> 0,obs |-> [a |-> "resolve"],pc |-> "resolve",dialed |-> "none",stored |-> "none",inp |-> [form |-> "name", port |-> "ok", addr |-> "pub4", answers |-> <<"pub4">>],pol |-> [block |-> {}, allow |-> {}, patterns |-> TRUE],resolved |-> "none"]),
    ([result |-> "none",lookups |-> 1,obs |-> [a |-> "resolved"],pc |-> "subnet",dialed |-> "none",stored |-> "none",inp |-> [form |-> "name", port |-> "ok", addr |-> "pub4", answers |-> <<"pub4">>],pol |-> [block |-> {}, allow |-> {}, patterns |-> TRUE],resolved |-> "pub4"]),
    ([result |-> "pub4",lookups |-> 1,obs |-> [a |-> "accept"],pc |-> "store",dialed |-> "none",stored |-> "none",inp |-> [form |-> "name", port |-> "ok", addr |-> "pub4", answers |-> <<"pub4">>],pol |-> [block |-> {}, allow |-> {}, patterns |-> TRUE],resolved |-> "pub4"]),
    ([result |-> "pub4",lookups |-> 1,obs |-> [a |-> "store"],pc |-> "dial",dialed |-> "none",stored |-> "pub4",inp |-> [form |-> "name", port |-> "ok", addr |-> "pub4", answers |-> <<"pub4">>],pol |-> [block |-> {}, allow |-> {}, patterns |-> TRUE],resolved |-> "pub4"]),
    ([result |-> "pub4",lookups |-> 2,obs |-> [a |-> "dial"],pc |-> "done",dialed |-> "none",stored |-> "pub4",inp |-> [form |-> "name", port |-> "ok", addr |-> "pub4", answers |-> <<"pub4">>],pol |-> [block |-> {}, allow |-> {}, patterns |-> TRUE],resolved |-> "pub4"])
    >>
----


=============================================================================

---- CONFIG CovertPolicy_TTrace_1790407713 ----
CONSTANTS
    StoreLiteral = FALSE

INVARIANT
    _inv

CHECK_DEADLOCK
    \* CHECK_DEADLOCK off because of PROPERTY or INVARIANT above.
    FALSE

INIT
    _init

NEXT
    _next

CONSTANT
    _TETrace <- _trace

ALIAS
    _expression
=============================================================================
\* Generated on Sat Sep 26 07:28:38 UTC 2026