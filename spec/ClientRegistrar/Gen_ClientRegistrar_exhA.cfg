SPECIFICATION GenSpec
CONSTANTS
  Variant = "asfound"
  Configs <- CfgGenA
  ApiOutcomes = {"neterr", "s500", "garbage", "R0", "R1", "RB", "RE"}
  DnsOutcomes = {"servfail", "garbage", "nosuccess", "nobidi", "R0", "R1", "RB", "RE"}
  Depth = 40
INVARIANT Emit
CHECK_DEADLOCK FALSE
