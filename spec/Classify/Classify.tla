------------------------------ MODULE Classify ------------------------------
(***************************************************************************)
(* Classification of a new connection to a phantom address                 *)
(* (cmd/application/conns.go handleNewTCPConn + the wrapping transports'   *)
(* WrapConnection in pkg/transports/wrapping/{min,prefix,obfs4}).          *)
(*                                                                         *)
(* Handler phases (= program points of handleNewTCPConn):                  *)
(*   init   SetDeadline(now + 5..10 s); count tracked registrations        *)
(*   read   conn.Read into the accumulated buffer (or timeout / peer close)*)
(*   offer  every remaining transport is offered ALL bytes so far:         *)
(*          again -> keep, not -> drop transport, error -> sleep,          *)
(*          match -> found                                                 *)
(*   drain  io.Copy(io.Discard) until the deadline / peer close            *)
(*          (no registration on the phantom, or no transport left)         *)
(*   sleep  transport error: no more reads, return at the deadline         *)
(*   found  clear deadline, MarkActive, Proxy                              *)
(* The deadline is RANDOMISED: drawn from a generator whose state no       *)
(* outsider knows.  Registrations are outsiders' input: a legacy (v0/v1)  *)
(* registration makes the station run the legacy phantom selection, which  *)
(* seeds a generator with a value the registrant chose (LegacySelect).     *)
(* DeadlineSource = "private": that generator is the selection's own (the  *)
(* code); "shared": it is the process-wide one the handler draws its       *)
(* deadline from - the next deadline is then known to the registrant (a    *)
(* broken instance: must violate DeadlineUnpredictable).                   *)
(* The registration table is shared with the expiry sweeper: between the   *)
(* transport's lookup (the matching verdict) and MarkActive the sweeper    *)
(* may remove the registration (SweepRemoves).  MarkActive then finds no   *)
(* expiry record and marks nothing - and, like every critical section of   *)
(* the table, leaves its lock free (regLock; MarkMode = "leak-on-missing"  *)
(* is the broken instance that returns on that path without unlocking, so  *)
(* that no later connection can even count the registrations).             *)
(* The table has a HISTORY, and connections come one after another: the    *)
(* module follows one registration R on the phantom ("the registration of  *)
(* interest"; everything else on the phantom is static and folded into the *)
(* case).  tab = what the table holds for R ("tracked" = ingested, not yet *)
(* validated; "valid"; "gone" = never seen / expired and swept); entitled  *)
(* = what the HISTORY of register / validate / expire operations says: R   *)
(* is validated and unexpired right now (a ghost - the property's words).  *)
(* Table operations between connections: Validate (the ingest's            *)
(* AddRegistration after the liveness scan), SweepIdle (R outlived its     *)
(* lifetime, the sweeper removed it), Retrack (a new registration message  *)
(* for R after it was removed).  NextConn(d) starts the next connection to *)
(* the same phantom against the table as it is now; a case with own = TRUE *)
(* is R's flight (a first connection, a reconnect, a censor's replay),     *)
(* own = FALSE is anything else (another client of the phantom, a probe).  *)
(* What a transport's lookup returns for R is Vis.  The code reads the     *)
(* table on every lookup (LookupMode = "fresh"); "stale-after-validate" is *)
(* a broken instance that memoises the per-phantom view and drops it only  *)
(* when the tracked SET changes (Retrack, sweeps) - a connection while R   *)
(* is tracked-only hides R from its own client after Validate.             *)
(* MarkMode = "reinsert-on-missing" is the broken instance whose           *)
(* MarkActive, finding no expiry record (SweepRemoves was faster), files   *)
(* the stale registration object again: R is valid in the table although   *)
(* no history entitles it, and a replay of its flight opens a tunnel.      *)
(* The peer sends its stream in arbitrary segments, may idle, may close.   *)
(*                                                                         *)
(* A case fixes what the peer's stream is, in the terms the property uses: *)
(*   t     transport whose genuine first flight the stream is ("none")     *)
(*   ok    the flight is genuine, unaltered, and a registration with the   *)
(*         same secret, transport (and prefix) is on the phantom that is   *)
(*         being connected to - currently valid there if it is one of the  *)
(*         static ones (own = FALSE); for R the table says (tab, entitled) *)
(*   terr  the flight carries a valid tag of a valid registration on this  *)
(*         phantom but for another prefix id (transport reports an error)  *)
(*   H     number of leading bytes that make up the handshake              *)
(*   pofs  length of the static prefix the stream starts with (0 if none)  *)
(*   total bytes the peer will send; occ: registrations tracked on phantom *)
(*   own   the stream is R's flight: ok / terr then say what the flight    *)
(*         is (genuine, unaltered, right transport and prefix / wrong      *)
(*         prefix) and whether R is acceptable NOW is the table's business *)
(* Thresholds are CONSTANTS: real values for trace validation, scaled ones *)
(* for exhaustive checking.                                                *)
(***************************************************************************)
EXTENDS Naturals, FiniteSets, Sequences, TLC

CONSTANTS MinTag,      \* 32  : length of the min transport's tag
          PfxTag,      \* 64  : length of the prefix transport's obfuscated tag
          ObfsMin,     \* 64  : obfs4 ClientMinHandshakeLength
          ObfsMax,     \* 8192: obfs4 MaxHandshakeLength
          MaxRead,     \* 4096: read buffer of the handler
          MaxW,        \* bound on the number of modelled writes (bounding only)
          Cases,       \* set of case records explored by TLC
          MarkMode,    \* "release" | "leak-on-missing" | "reinsert-on-missing"
          DeadlineSource, \* "private" | "shared"
          LookupMode,  \* "fresh" | "stale-after-validate"
          MaxConns,    \* connections per history (bounding only)
          LookupLocks, \* "single" | "nested": read locks a lookup takes on the table's RWMutex
          MaxWrites    \* registry writes by OTHER goroutines per history (bounding only; 0 = no concurrent writer)

Transports == {"min", "prefix", "obfs4"}
None == "none"

VARIABLES c,          \* the case
          phase, alive, todo,
          rcvd,       \* bytes in the accumulated buffer
          sent,       \* bytes the peer has sent
          readn,      \* bytes the handler has taken from the socket (accumulated + drained)
          written,    \* bytes the station wrote to the peer
          dlSet, expired, peerClosed,
          matched,    \* transport that matched, or None
          consumed,   \* bytes the matching transport consumed as handshake
          used,       \* registration marked active
          returned,
          swept,      \* the sweeper removed the matched registration before it was marked
          regLock,    \* "free" | "held": the registration table's mutex between critical sections
          seeded,     \* an outsider's registration has put the generator the deadline is drawn from into a state it knows
          dlKnown,    \* this connection's deadline was drawn from such a state
          tab,        \* what the table holds for R: "tracked" | "valid" | "gone"
          entitled,   \* ghost: by the history of register / validate / expire operations R is validated and unexpired now
          snap,       \* memoised per-phantom view of R ("none": nothing memoised; only LookupMode # "fresh" ever fills it)
          conns,      \* connections so far in this history
          rl,         \* read locks of the table's RWMutex the handler holds (inside a lookup)
          wr,         \* a registry writer on ANOTHER goroutine: "idle" | "waiting" (its Lock() is announced and waits for the readers)
          wleft,      \* writes that goroutine may still start
          obs

tbl == <<tab, entitled, snap, conns>>
lk == <<rl, wr, wleft>>
\* read locks a lookup needs before it can read the per-phantom map
Need == IF LookupLocks = "nested" THEN 2 ELSE 1
vars == <<c, phase, alive, todo, rcvd, sent, readn, written, dlSet, expired, peerClosed, matched, consumed, used, returned, swept, regLock, seeded, dlKnown, tab, entitled, snap, conns, rl, wr, wleft, obs>>
view == <<c, phase, alive, todo, rcvd, sent, readn, written, dlSet, expired, peerClosed, matched, consumed, used, returned, swept, regLock, seeded, dlKnown, tab, entitled, snap, conns, rl, wr, wleft>>

avail == sent - readn

\* ------------------------------ the table ------------------------------
\* what a transport's lookup on the phantom shows for R
Vis == IF LookupMode = "fresh" \/ snap = "none" THEN tab = "valid" ELSE snap = "valid"
OkNow   == c.ok   /\ (c.own => Vis)
TerrNow == c.terr /\ (c.own => Vis)
\* the property's side: the flight proves the secret of a registration that is validated and unexpired (or was, when this
\* connection's matching verdict was produced: swept).  It speaks about the connection while it is being handled: once the
\* handler has returned the table moves on (every state of the connection itself has been judged by then).
Ent == c.ok /\ (c.own => (entitled \/ swept \/ phase = "returned"))

\* ------------------------- transport verdicts -------------------------
\* what WrapConnection of transport t answers when offered the first n bytes of the case's stream
Verdict(t, n) ==
  CASE t = "min" ->
         IF n < MinTag THEN "again"
         ELSE IF c.t = "min" /\ OkNow THEN "match" ELSE "not"
    [] t = "prefix" ->
         IF n < PfxTag THEN "again"
         ELSE IF n < c.pofs + PfxTag THEN "again"
         ELSE IF c.t = "prefix" /\ OkNow THEN "match"
         ELSE IF c.t = "prefix" /\ TerrNow THEN "error"
         ELSE "not"
    [] t = "obfs4" ->
         IF n < ObfsMin THEN "again"
         ELSE IF c.t = "obfs4" /\ OkNow /\ n = c.H THEN "match"
         ELSE IF c.t = "obfs4" /\ TerrNow /\ n = c.H THEN "error"
         ELSE IF n < ObfsMax THEN "again" ELSE "not"

Init == /\ c \in Cases
        /\ phase = "init" /\ alive = Transports /\ todo = {}
        /\ rcvd = 0 /\ sent = 0 /\ readn = 0 /\ written = 0
        /\ dlSet = FALSE /\ expired = FALSE /\ peerClosed = FALSE
        /\ matched = None /\ consumed = 0 /\ used = FALSE /\ returned = FALSE
        /\ swept = FALSE /\ regLock = "free" /\ seeded = FALSE /\ dlKnown = FALSE
        /\ tab \in {"valid", "tracked", "gone"} /\ entitled = (tab = "valid") /\ snap = "none" /\ conns = 1
        /\ rl = 0 /\ wr = "idle" /\ wleft = MaxWrites
        /\ obs = [a |-> "Init"]

\* ------------------------------ the peer ------------------------------
Send(k) == /\ ~peerClosed /\ k > 0 /\ sent + k <= c.total
           /\ sent' = sent + k
           /\ UNCHANGED <<lk, tab, entitled, snap, conns, seeded, dlKnown, swept, regLock, c, phase, alive, todo, rcvd, readn, written, dlSet, expired, peerClosed, matched, consumed, used, returned>>
           /\ obs' = [a |-> "Send", k |-> k]
PeerClose == /\ ~peerClosed /\ peerClosed' = TRUE
             /\ UNCHANGED <<lk, tab, entitled, snap, conns, seeded, dlKnown, swept, regLock, c, phase, alive, todo, rcvd, sent, readn, written, dlSet, expired, matched, consumed, used, returned>>
             /\ obs' = [a |-> "PeerClose"]
Expire == /\ dlSet /\ ~expired /\ matched = None /\ expired' = TRUE
          /\ UNCHANGED <<lk, tab, entitled, snap, conns, seeded, dlKnown, swept, regLock, c, phase, alive, todo, rcvd, sent, readn, written, dlSet, peerClosed, matched, consumed, used, returned>>
          /\ obs' = [a |-> "Expire"]

\* ----------------------------- the handler -----------------------------
HInit == /\ phase = "init"
         /\ regLock = "free" /\ wr = "idle"     \* countRegistrations takes the table's read lock (and gives it back)
         /\ dlSet' = TRUE /\ dlKnown' = seeded
         /\ phase' = IF c.occ = 0 THEN "drain" ELSE "read"
         /\ UNCHANGED <<lk, tab, entitled, snap, conns, seeded, swept, regLock, c, alive, todo, rcvd, sent, readn, written, expired, peerClosed, matched, consumed, used, returned>>
         /\ obs' = [a |-> "SetDeadline"]

Return(why) == /\ returned' = TRUE /\ phase' = "returned"
               /\ obs' = [a |-> "Return", why |-> why]

HRead ==
  /\ phase = "read"
  /\ IF alive = {} THEN
        /\ phase' = "drain" /\ obs' = [a |-> "OutOfTransports"]
        /\ UNCHANGED <<rcvd, readn, todo, returned>>
     ELSE IF avail > 0 THEN
        \E k \in 1..(IF avail < MaxRead THEN avail ELSE MaxRead) :
          /\ rcvd' = rcvd + k /\ readn' = readn + k /\ todo' = alive /\ phase' = "offer"
          /\ obs' = [a |-> "Read", n |-> k] /\ UNCHANGED returned
     ELSE IF peerClosed THEN Return("closed") /\ UNCHANGED <<rcvd, readn, todo>>
     ELSE /\ expired /\ Return("timeout") /\ UNCHANGED <<rcvd, readn, todo>>
  /\ UNCHANGED <<lk, tab, entitled, snap, conns, seeded, dlKnown, swept, regLock, c, alive, sent, written, dlSet, expired, peerClosed, matched, consumed, used>>

HOffer(t) ==
  /\ phase = "offer" /\ t \in todo
  /\ rl = Need /\ rl' = 0 /\ UNCHANGED <<wr, wleft>>      \* the lookup reads the map under its read lock(s) and releases them
  /\ LET v == Verdict(t, rcvd) IN
     /\ obs' = [a |-> "Verdict", t |-> t, r |-> v, n |-> rcvd]
     /\ CASE v = "again" -> /\ todo' = todo \ {t} /\ UNCHANGED <<alive, matched, consumed>>
                            /\ phase' = IF todo' = {} THEN "read" ELSE "offer"
          [] v = "not"   -> /\ todo' = todo \ {t} /\ alive' = alive \ {t} /\ UNCHANGED <<matched, consumed>>
                            /\ phase' = IF todo' = {} THEN "read" ELSE "offer"
          [] v = "error" -> /\ phase' = "sleep" /\ todo' = {} /\ UNCHANGED <<alive, matched, consumed>>
          [] v = "match" -> /\ phase' = "found" /\ todo' = {} /\ matched' = t /\ consumed' = c.H /\ UNCHANGED alive
  /\ snap' = IF LookupMode # "fresh" /\ snap = "none" THEN tab ELSE snap      \* the lookup (memoised only by the broken instance)
  /\ UNCHANGED <<tab, entitled, conns, seeded, dlKnown, swept, regLock, c, rcvd, sent, readn, written, dlSet, expired, peerClosed, used, returned>>

HDrain ==
  /\ phase = "drain"
  /\ IF avail > 0 THEN \E k \in 1..avail : /\ readn' = readn + k /\ obs' = [a |-> "Read", n |-> k] /\ UNCHANGED <<returned, phase>>
     ELSE IF peerClosed THEN Return("closed") /\ UNCHANGED readn
     ELSE /\ expired /\ Return("timeout") /\ UNCHANGED readn
  /\ UNCHANGED <<lk, tab, entitled, snap, conns, seeded, dlKnown, swept, regLock, c, alive, todo, rcvd, sent, written, dlSet, expired, peerClosed, matched, consumed, used>>

HSleep == /\ phase = "sleep" /\ expired /\ Return("slept")
          /\ UNCHANGED <<lk, tab, entitled, snap, conns, seeded, dlKnown, swept, regLock, c, alive, todo, rcvd, sent, readn, written, dlSet, expired, peerClosed, matched, consumed, used>>

\* found: the deadline is cleared, the registration marked used, the relay takes over (the bytes after the
\* handshake that are already in the buffer are replayed in front of the live connection)
HFound == /\ phase = "found"
          /\ regLock = "free" /\ wr = "idle"    \* markActive takes the table's write lock ...
          /\ dlSet' = FALSE /\ used' = ~swept /\ phase' = "relay"
          /\ regLock' = IF swept /\ MarkMode = "leak-on-missing" THEN "held" ELSE "free"   \* ... and releases it on every path
          /\ tab' = IF swept /\ MarkMode = "reinsert-on-missing" THEN "valid" ELSE tab          \* ... and never files anything
          /\ UNCHANGED <<lk, entitled, snap, conns, seeded, dlKnown, swept, c, alive, todo, rcvd, sent, readn, written, expired, peerClosed, matched, consumed, returned>>
          /\ obs' = [a |-> "Found", t |-> matched]
\* the expiry sweeper (another goroutine) removes the matched registration between the lookup and MarkActive
SweepRemoves == /\ phase = "found" /\ ~swept /\ regLock = "free" /\ wr = "idle" /\ c.own
                /\ swept' = TRUE /\ tab' = "gone" /\ entitled' = FALSE /\ snap' = "none"
                /\ UNCHANGED <<lk, conns, seeded, dlKnown, regLock, c, phase, alive, todo, rcvd, sent, readn, written, dlSet, expired, peerClosed, matched, consumed, used, returned>>
                /\ obs' = [a |-> "Swept"]
\* after authentication the station may write (obfs4 server handshake, covert replies)
\* (obfs4 writes its server handshake inside WrapConnection, i.e. while the matching verdict is being produced)
HWrite == /\ \/ phase \in {"found", "relay"}
             \/ (phase = "offer" /\ \E t \in todo : Verdict(t, rcvd) = "match")
          /\ written < MaxW
          /\ written' = written + 1
          /\ UNCHANGED <<lk, tab, entitled, snap, conns, seeded, dlKnown, swept, regLock, c, phase, alive, todo, rcvd, sent, readn, dlSet, expired, peerClosed, matched, consumed, used, returned>>
          /\ obs' = [a |-> "Write"]
HRelayRead == /\ phase = "relay" /\ avail > 0
              /\ \E k \in 1..avail : readn' = readn + k /\ obs' = [a |-> "Read", n |-> k]
              /\ UNCHANGED <<lk, tab, entitled, snap, conns, seeded, dlKnown, swept, regLock, c, phase, alive, todo, rcvd, sent, written, dlSet, expired, peerClosed, matched, consumed, used, returned>>
\* the relay ends when either side ends (Relay.tla has the details); the handler then returns
HRelayReturn == /\ phase = "relay" /\ Return("relayed")
                /\ UNCHANGED <<lk, tab, entitled, snap, conns, seeded, dlKnown, swept, regLock, c, alive, todo, rcvd, sent, readn, written, dlSet, expired, peerClosed, matched, consumed, used>>

\* ------------------- the table's RWMutex: lookups against writers on other goroutines -------------------
\* Every offer is a lookup: the transport asks the table for the phantom's registrations (GetRegistrations) and reads the map under
\* the table's read lock.  Go's sync.RWMutex prefers writers: once a Lock() call has announced itself (wr = "waiting") every NEW
\* RLock() queues behind it - also the RLock() of a goroutine that already holds a read lock (the mutex is not reentrant).
\* LookupLocks = "single": one RLock per lookup (the code).  "nested": the lookup calls, while holding the read lock, a helper that
\* takes it again (a broken instance): a writer that announces itself between the two waits for the first read lock for ever, the
\* second RLock waits for the writer for ever - the handler stops reading and never reaches its deadline (Terminates is violated),
\* and so does every later lookup on the table.
HRLock == /\ phase = "offer" /\ todo # {} /\ rl < Need
          /\ regLock = "free" /\ wr = "idle"
          /\ rl' = rl + 1
          /\ UNCHANGED <<wr, wleft, tab, entitled, snap, conns, seeded, dlKnown, swept, regLock, c, phase, alive, todo, rcvd, sent, readn, written, dlSet, expired, peerClosed, matched, consumed, used, returned>>
          /\ obs' = [a |-> "RLock", k |-> rl + 1]
\* an ingest worker tracking / validating a registration, MarkActive of another connection, the expiry sweeper - for OTHER phantoms or
\* sessions: nothing this connection's case or R's entry depends on changes, only the lock is asked for
WAnnounce == /\ wr = "idle" /\ wleft > 0 /\ regLock = "free"
             /\ wr' = "waiting" /\ wleft' = wleft - 1
             /\ UNCHANGED <<rl, tab, entitled, snap, conns, seeded, dlKnown, swept, regLock, c, phase, alive, todo, rcvd, sent, readn, written, dlSet, expired, peerClosed, matched, consumed, used, returned>>
             /\ obs' = [a |-> "WLockWait"]
\* the readers have drained: the writer gets the lock, writes, unlocks
WWrite == /\ wr = "waiting" /\ rl = 0
          /\ wr' = "idle"
          /\ UNCHANGED <<rl, wleft, tab, entitled, snap, conns, seeded, dlKnown, swept, regLock, c, phase, alive, todo, rcvd, sent, readn, written, dlSet, expired, peerClosed, matched, consumed, used, returned>>
          /\ obs' = [a |-> "WWrite"]
Writer == WAnnounce \/ WWrite

Handler == HInit \/ HRLock \/ HRead \/ (\E t \in Transports : HOffer(t)) \/ HDrain \/ HSleep \/ HFound \/ HWrite \/ HRelayRead \/ HRelayReturn
\* an outsider registers as a legacy client just before it connects
LegacySelect == /\ phase = "init" /\ ~seeded
                /\ seeded' = (DeadlineSource = "shared")
                /\ UNCHANGED <<lk, tab, entitled, snap, conns, dlKnown, swept, regLock, c, phase, alive, todo, rcvd, sent, readn, written, dlSet, expired, peerClosed, matched, consumed, used, returned>>
                /\ obs' = [a |-> "LegacyReg"]

\* ------------------- the table between connections, the next connection -------------------
conn == <<c, phase, alive, todo, rcvd, sent, readn, written, dlSet, expired, peerClosed, matched, consumed, used, returned, swept, dlKnown>>
Idle == phase = "returned" /\ conns < MaxConns /\ regLock = "free" /\ wr = "idle"
\* the ingest worker that tracked R has finished its covert / liveness checks: AddRegistration
Validate == /\ Idle /\ tab = "tracked"
            /\ tab' = "valid" /\ entitled' = TRUE
            /\ UNCHANGED <<lk, snap, conns, conn, regLock, seeded>>     \* (nothing memoised may survive this - "fresh" never memoises)
            /\ obs' = [a |-> "Validate"]
\* R outlived its (unused or active) lifetime and the sweeper removed it
SweepIdle == /\ Idle /\ tab # "gone"
             /\ tab' = "gone" /\ entitled' = FALSE /\ snap' = "none"
             /\ UNCHANGED <<lk, conns, conn, regLock, seeded>>
             /\ obs' = [a |-> "SweepIdle"]
\* a new registration message for R: tracked again, to be validated again
Retrack == /\ Idle /\ tab = "gone"
           /\ tab' = "tracked" /\ snap' = "none"
           /\ UNCHANGED <<lk, entitled, conns, conn, regLock, seeded>>
           /\ obs' = [a |-> "Retrack"]
\* the next connection to the phantom meets the table (its lock, the generator) as the history left it
NextConn(d) == /\ phase = "returned" /\ conns < MaxConns
               /\ c' = d /\ conns' = conns + 1
               /\ phase' = "init" /\ alive' = Transports /\ todo' = {}
               /\ rcvd' = 0 /\ sent' = 0 /\ readn' = 0 /\ written' = 0
               /\ dlSet' = FALSE /\ expired' = FALSE /\ peerClosed' = FALSE
               /\ matched' = None /\ consumed' = 0 /\ used' = FALSE /\ returned' = FALSE
               /\ swept' = FALSE /\ dlKnown' = FALSE
               /\ UNCHANGED <<lk, tab, entitled, snap, regLock, seeded>>
               /\ obs' = [a |-> "NextConn", c |-> d]
Table == Validate \/ SweepIdle \/ Retrack \/ (\E d \in Cases : NextConn(d))
Peer == (\E k \in 1..3 : Send(k)) \/ PeerClose \/ Expire \/ SweepRemoves \/ LegacySelect \/ Table \/ Writer
Next == Handler \/ Peer
Spec == Init /\ [][Next]_vars /\ WF_vars(Handler) /\ WF_vars(Expire) /\ WF_vars(WWrite)

\* ------------------------------ properties ------------------------------
\* C03: nothing is written to a peer that has not authenticated
NoBytes == written > 0 => (Ent /\ rcvd >= c.H)
\* C03: no close (= return of the handler) before the deadline unless the peer closed first
NoEarlyClose == (returned /\ matched = None /\ ~peerClosed) => expired
\* C03: while unauthenticated and before the deadline the handler never stops reading; the only phase that does not
\* read ("sleep") needs a valid tag
KeepsReading == phase = "sleep" => c.terr
\* C02: a match names the registration whose secret the flight proves, on this phantom, validated and unexpired
MatchSound == matched # None => (Ent /\ matched = c.t)
\* C02: the table says "valid" exactly for what the history entitles (what lookups hand to the transports)
TableSound == (tab = "valid") <=> entitled
\* C04: the transport consumes exactly the handshake bytes
ConsumeExact == matched # None => consumed = c.H
\* C04: whatever the segmentation, once the complete handshake has been read the registration is found
\* (the handler is never back in "read" with a complete valid handshake in its buffer)
FoundWhenComplete == (Ent /\ phase = "read" /\ c.t \in alive) =>
                        (IF c.t = "obfs4" THEN rcvd # c.H ELSE rcvd < c.H)
NeverDropsMatching == (Ent /\ matched = None /\ phase \in {"read", "offer"} /\ rcvd <= c.H) => c.t \in alive
MarkedUsed == phase = "relay" => (used \/ swept)
\* C03: the classification deadline is drawn from a state no registrant has set
DeadlineUnpredictable == ~dlKnown
\* C04: the registration table stays usable for the next connection, whatever this one met
RegistryFree == regLock = "free"
\* C03 / C04: a lookup never asks for the table's read lock while it holds it (what makes a queued writer fatal)
LockOnce == rl <= 1
\* liveness: a complete valid flight is eventually recognised; every connection eventually ends or is relayed
Recognised == (Ent /\ sent >= c.H /\ ~peerClosed) ~> (matched # None \/ peerClosed \/ expired)
Terminates == []<>(returned \/ phase = "relay")
=============================================================================
