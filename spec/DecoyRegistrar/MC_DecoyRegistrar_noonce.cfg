\* deliberately broken instance: setTCPToDecoy / setTLSToDecoy called without sync.Once
SPECIFICATION Spec
CONSTANTS
  Variant = "noonce"
  Widths = {2}
  ChanCap = "width"
  Rounds = 1
  Deadlines = {FALSE}
  PreCancel = {FALSE}
  DialOut = {"ok", "unreach", "refused"}
  TlsOut = {"ok", "err", "nokeystream"}
  WriteOut = {"ok", "err"}
  LingerOut = {"byte", "eof"}
VIEW view
PROPERTIES OnceTCP
CHECK_DEADLOCK FALSE
