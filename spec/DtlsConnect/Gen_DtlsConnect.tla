-------------------------- MODULE Gen_DtlsConnect --------------------------
(* Stage B (spec -> implementation): the outcome table.  A "behaviour" of this module is a script together with
   everything it may end in: the run is exhaustive over all interleavings of the script (TimeoutMode "last": a context
   expires only when nothing else can happen, which is how the replay driver chooses its timeouts; prio "D" / "L" hold the
   other path until nothing else can happen, which is how the driver releases it), and every distinct terminal state
   prints [scr, out].  checks/X06.py groups the lines by script; the real run of a script must end in one of them. *)
EXTENDS DtlsConnect, Json
Emit == ~Terminal \/ PrintT(ToJson([scr |-> st.scr, out |-> Outcome]))
=============================================================================
