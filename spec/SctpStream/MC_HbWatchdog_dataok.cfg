SPECIFICATION Spec
CONSTANTS
  TPI = 2
  MaxTicks = 12
  Mode = "dataok"
VIEW view
INVARIANTS TypeOK DeadPeerCloses
PROPERTIES NoEarlyClose
CHECK_DEADLOCK FALSE
