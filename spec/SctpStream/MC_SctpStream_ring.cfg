SPECIFICATION Spec
CONSTANTS
  M = 3
  MsgLens = {1, 2, 3}
  ErrLens = {0, 2}
  ReadSizes = {1, 2, 3, 4}
  MaxItems = 5
  MaxPostErr = 1
  Mode = "intended"
  Cap = 2
  BufMode = "ring"
  RingSize = 2
VIEW view
INVARIANTS TypeOK QueueBounded HeldMeansFull StreamFidelity
CHECK_DEADLOCK FALSE
