SPECIFICATION Spec
CONSTANTS
  Ups = {"n1", "c1", "xk1"}
  BadUps = {"xk1"}
  MaxSend = 2
  ChanCap = 1
  MaxEpochs = 1
  AuthEnforced = TRUE
  StatsMode = "loadstore"
  ShutdownMode = "onmessage"
VIEW view
INVARIANTS TypeOK OnlyAuthenticated NothingInvented PathExact ChanOrdered Accounted PrintSane
PROPERTIES DropOnlyWhenFull
CHECK_DEADLOCK FALSE
