--------------------------- MODULE PrefixOverride ---------------------------
(***************************************************************************)
(* The registrar's file-driven registration overrides                      *)
(* (pkg/regserver/overrides/prefix_transport.go, pkg/core/interfaces       *)
(* Overrides).  Three parts, one state machine:                            *)
(*                                                                         *)
(*   Load(file, chain, fid)  ParsePrefixes on an override file (a sequence *)
(*       of abstract line shapes) - the grammar as a staged transcription  *)
(*       of the scanner loop (ParseFrom) next to the declarative rule      *)
(*       (Verdict) - then the registrar is configured with the chain of    *)
(*       overrides `chain` (interfaces.Overrides, kinds "file" =           *)
(*       PrefixOverride, "fixed" = FixedPrefixOverride(DefaultPrefixes     *)
(*       [fid]), "rand" = RandPrefixOverride, "fail" = an override that    *)
(*       returns an error).                                                *)
(*   Arrive(reg, bytes)      a registration (abstract shape of the         *)
(*       C2SWrapper) is handed to Overrides.Override together with a       *)
(*       random reader that will deliver exactly `bytes`.                  *)
(*   Step                    the next override of the chain runs: guards,  *)
(*       selection (prefixes.selectPrefix / barPrefix.selectPrefix on top  *)
(*       of crypto/rand.Int, modelled byte by byte incl. its rejection     *)
(*       sampling), unmarshalling of the client's parameters, the rewrite  *)
(*       of RegistrationResponse.TransportParams and the DstPort rule.     *)
(*   Return                  Overrides.Override returns (first error stops *)
(*       the chain).                                                       *)
(*                                                                         *)
(* The real grammar is  `max bar id port prefix`  (exactly five blank-     *)
(* separated fields, numbers in Go base-0 syntax): there is no flush       *)
(* column (NoAddedFlush is hard-wired) and the weights are NOT cumulative: *)
(* with N > 1 lines one line is drawn uniformly, then chosen with          *)
(* probability bar/max; "0 0 ..." lines are dropped while loading.         *)
(*                                                                         *)
(* Defects switches on what the code was found to do where a user of the   *)
(* package would expect otherwise; conformance binds the instance with all *)
(* of them on (as found), Defects = {} is the intended instance.           *)
(*   "scanErrIgnored"   bufio.Scanner's error is never looked at: a line   *)
(*                      of >= 65536 bytes or a read error silently ends    *)
(*                      the file - the load SUCCEEDS with the lines before *)
(*   "badWeightSkipped" max == 0 && bar == 0 is tested on the values       *)
(*                      ParseInt returned BEFORE its errors are looked at  *)
(*                      (a syntax error yields 0) and before id / port are *)
(*                      parsed: `abc def 1 80 P`, `abc 0 ..`, `0 0 zz zz P`*)
(*                      are skipped silently instead of rejecting the file *)
(*   "wsRejects"        a line of blanks only (and an indented comment)    *)
(*                      rejects the whole file; only len(line)==0 is blank *)
(*   "noRangeCheck"     negative weights, ports > 65535, ids beyond int32  *)
(*                      are accepted; Override narrows them (int32(id),    *)
(*                      uint32(port)) when it writes                       *)
(*   "deadKept"         lines that can never be selected (bar <= 0 or      *)
(*                      max <= 0, other than 0 0) stay in the table and    *)
(*                      take their 1/N share of the uniform line draw      *)
(*   "typeUrlRewritten" UnmarshalAnypbTo rewrites the TypeUrl of the       *)
(*                      CLIENT's TransportParams in place (also on the     *)
(*                      error path): the payload is not passed through     *)
(*                      bit-identical                                      *)
(*   "chainNotAtomic"   an error of a later override leaves what earlier   *)
(*                      ones wrote                                         *)
(*   "chainMixesPort"   a later override rewrites the parameters but keeps *)
(*                      the port an earlier override wrote (randomising    *)
(*                      client): prefix of one entry, port of another      *)
(*   "randIgnoresReader" RandPrefixOverride draws from the process-wide    *)
(*                      crypto/rand.Reader, not from the reader passed in  *)
(*   "pkgIgnoresFlag"   no Override looks at disable_registrar_overrides   *)
(*                      (the only guard is in the caller, C12)             *)
(*   "callerNeverSetsPsr"  (the caller, regprocessor.processBdReq) nothing  *)
(*                      ever sets phantoms_support_port_rand in the        *)
(*                      response handed to the overrides: they always see  *)
(*                      FALSE and write port 443                           *)
(*   "callerRecomputesPort" after the overrides ran the caller recomputes  *)
(*                      DstPort from the CLIENT's own parameters: the port *)
(*                      column of the file never reaches the client        *)
(* Broken: deliberately wrong instances for non-vacuity                    *)
(*   "barInclusive" (q <= bar), "anyTransport" (transport guard missing),  *)
(*   "keepOldParams" (response parameters present are not replaced),       *)
(*   "commentAnywhere" (a '#' after blanks starts a comment in the staged  *)
(*   parser only).                                                         *)
(***************************************************************************)
EXTENDS Integers, Sequences, FiniteSets, TLC

CONSTANTS Profile,   \* input alphabet Next quantifies over (see the end of the module)
          Defects, Broken

VARIABLES cfg,   \* None | [tbl, chain, fid]       the configured registrar
          cur,   \* None | the Overrides.Override call in progress
          obs
vars == <<cfg, cur, obs>>
view == <<cfg, cur>>

None == [none |-> TRUE]
AllDefects == {"scanErrIgnored", "badWeightSkipped", "wsRejects", "noRangeCheck", "deadKept", "typeUrlRewritten",
               "chainNotAtomic", "chainMixesPort", "randIgnoresReader", "pkgIgnoresFlag", "callerNeverSetsPsr", "callerRecomputesPort"}
D(x) == x \in Defects
B(x) == x \in Broken

Min2(a, b) == IF a < b THEN a ELSE b
RECURSIVE Pow2(_)
Pow2(k) == IF k = 0 THEN 1 ELSE 2 * Pow2(k - 1)
RECURSIVE BitLen(_)
BitLen(n) == IF n <= 0 THEN 0 ELSE 1 + BitLen(n \div 2)

\* ------------------------------------------------------------------ numbers as written in the file
\* t: "n" a number ParseInt(s, 0, 0) accepts, value hi * 2^32 + v (TLC integers are 32 bit);
\*    "bad" syntax error (ParseInt returns 0);  "over" / "under" range error (ParseInt returns +-2^63)
Tok(v)  == [t |-> "n", v |-> v, hi |-> 0]
Big(v)  == [t |-> "n", v |-> v, hi |-> 1]
BadTok  == [t |-> "bad", v |-> 0, hi |-> 0]
OverTok == [t |-> "over", v |-> 0, hi |-> 0]
UnderTok == [t |-> "under", v |-> 0, hi |-> 0]
IsTok(x) == /\ DOMAIN x = {"t", "v", "hi"} /\ x.t \in {"n", "bad", "over", "under"} /\ x.v \in Int /\ x.hi \in {0, 1}
ReturnsZero(x) == x.t = "bad" \/ (x.t = "n" /\ x.v = 0 /\ x.hi = 0)       \* what ParseInt hands back is 0
IsZero(x) == x.t = "n" /\ x.v = 0 /\ x.hi = 0

\* ------------------------------------------------------------------ lines and files
\* k: blank | comment | ws (blanks only) | icomment (blanks, then #) | entry (5 fields) | few (4) | many (6)
\*    | ioerr (not a line: the reader fails here, at a line boundary)
\* n: length of the line in bytes: short | m1 (65534) | max (65535) | over (65536); fmt: how numbers / separators are written
LineKinds == {"blank", "comment", "ws", "icomment", "entry", "few", "many", "ioerr"}
Lens == {"short", "m1", "max", "over"}
Fmts == {"dec", "hex", "oct", "und", "plus", "tabs"}
Ln(k, n) == [k |-> k, max |-> Tok(0), bar |-> Tok(0), id |-> Tok(0), port |-> Tok(0), pfx |-> "-", fmt |-> "dec", n |-> n]
En(k, mx, br, id, pt, px, f, n) == [k |-> k, max |-> mx, bar |-> br, id |-> id, port |-> pt, pfx |-> px, fmt |-> f, n |-> n]
E(mx, br, id, pt, px) == En("entry", Tok(mx), Tok(br), Tok(id), Tok(pt), px, "dec", "short")
IsLine(l) == /\ DOMAIN l = {"k", "max", "bar", "id", "port", "pfx", "fmt", "n"}
             /\ l.k \in LineKinds /\ IsTok(l.max) /\ IsTok(l.bar) /\ IsTok(l.id) /\ IsTok(l.port)
             /\ l.fmt \in Fmts /\ l.n \in Lens
IsFile(f) == /\ DOMAIN f = {"lines", "nl", "eol"} /\ f.nl \in BOOLEAN /\ f.eol \in {"lf", "crlf"}
             /\ \A i \in DOMAIN f.lines : IsLine(f.lines[i])

ScanLimit == 65536                       \* bufio.MaxScanTokenSize: no line terminator within that many bytes -> ErrTooLong
Chars(l) == CASE l.n = "m1" -> 65534 [] l.n = "max" -> 65535 [] l.n = "over" -> 65536 [] OTHER -> 10
HasEol(f, i) == i < Len(f.lines) \/ f.nl
\* with CRLF the '\r' counts: it is dropped only after the '\n' was found inside the buffer
TooLong(f, i) == Chars(f.lines[i]) + (IF f.eol = "crlf" /\ HasEol(f, i) THEN 1 ELSE 0) >= ScanLimit
ScanStops(f, i) == f.lines[i].k = "ioerr" \/ TooLong(f, i)
NFields(l) == CASE l.k = "entry" -> 5 [] l.k = "few" -> 4 [] l.k = "many" -> 6 [] l.k = "icomment" -> 2 [] OTHER -> 0

Toks(l) == <<l.max, l.bar, l.id, l.port>>
FirstBad(l) == IF \E j \in 1..4 : Toks(l)[j].t # "n" THEN CHOOSE j \in 1..4 : Toks(l)[j].t # "n" /\ \A m \in 1..(j - 1) : Toks(l)[m].t = "n" ELSE 0
\* the values a (well-formed) line contributes
Ent(l) == [max |-> l.max.v, bar |-> l.bar.v, id |-> [v |-> l.id.v, hi |-> l.id.hi], port |-> [v |-> l.port.v, hi |-> l.port.hi],
           pfx |-> l.pfx, n |-> l.n, flush |-> 1]
IsEntry(e) == /\ DOMAIN e = {"max", "bar", "id", "port", "pfx", "n", "flush"} /\ e.max \in Int /\ e.bar \in Int /\ e.flush \in Int
Live(e) == e.bar > 0 /\ e.max > 0
InRange(e) == /\ e.max > 0 /\ e.bar >= 0
              /\ e.id.hi = 0                                  \* (ids beyond int32 are written with hi = 1 here)
              /\ e.port.hi = 0 /\ e.port.v <= 65535

Accept(acc)        == [res |-> "accepted", why |-> "none", at |-> 0, tok |-> -1, tbl |-> acc]
Reject(why, i, tk) == [res |-> "rejected", why |-> why, at |-> i, tok |-> tk, tbl |-> <<>>]

\* how a line that reached the number stage is classified: "skip" | "keep" | "number" (syntax / range error of token .tok)
\*                                                         | "range" (intended only)
NumStage(l) ==
  LET fb == FirstBad(l) IN
  IF D("badWeightSkipped")
    THEN IF ReturnsZero(l.max) /\ ReturnsZero(l.bar) THEN [c |-> "skip", tok |-> -1]
         ELSE IF fb # 0 THEN [c |-> "number", tok |-> fb - 1] ELSE [c |-> "keep", tok |-> -1]
    ELSE IF fb # 0 THEN [c |-> "number", tok |-> fb - 1]
         ELSE IF IsZero(l.max) /\ IsZero(l.bar) THEN [c |-> "skip", tok |-> -1] ELSE [c |-> "keep", tok |-> -1]
\* after the number stage (intended instance only): range check, dead lines dropped
PostStage(l) ==
  LET e == Ent(l) IN
  IF ~D("noRangeCheck") /\ ~InRange(e) THEN "range"
  ELSE IF ~D("deadKept") /\ ~Live(e) THEN "skip" ELSE "keep"

\* ---- the scanner loop of ParsePrefixes, stage by stage
RECURSIVE ParseFrom(_, _, _)
ParseFrom(f, i, acc) ==
  IF i > Len(f.lines) THEN Accept(acc)
  ELSE LET l == f.lines[i] IN
    IF ScanStops(f, i)                                                     \* scanner.Scan() returns false
      THEN IF D("scanErrIgnored") THEN Accept(acc) ELSE Reject(IF l.k = "ioerr" THEN "io" ELSE "toolong", i, -1)
    ELSE IF l.k \in {"blank", "comment"} THEN ParseFrom(f, i + 1, acc)     \* len(line) == 0, line[0] == '#'
    ELSE IF l.k = "icomment" /\ B("commentAnywhere") THEN ParseFrom(f, i + 1, acc)
    ELSE IF l.k \in {"ws", "icomment"} /\ ~D("wsRejects") THEN ParseFrom(f, i + 1, acc)
    ELSE IF NFields(l) # 5 THEN Reject("malformed", i, -1)                 \* len(strings.Fields(line)) != 5
    ELSE LET ns == NumStage(l) IN
      IF ns.c = "skip" THEN ParseFrom(f, i + 1, acc)
      ELSE IF ns.c = "number" THEN Reject("number", i, ns.tok)
      ELSE LET ps == PostStage(l) IN
        IF ps = "range" THEN Reject("range", i, -1)
        ELSE IF ps = "skip" THEN ParseFrom(f, i + 1, acc)
        ELSE ParseFrom(f, i + 1, Append(acc, Ent(l)))
Parse(f) == ParseFrom(f, 1, <<>>)

\* ---- the grammar, declaratively: what each line is, then the file's verdict
LineClass(f, i) ==
  LET l == f.lines[i] IN
  IF ScanStops(f, i) THEN "stop"
  ELSE IF l.k \in {"blank", "comment"} THEN "skip"
  ELSE IF l.k \in {"ws", "icomment"} THEN (IF D("wsRejects") THEN "malformed" ELSE "skip")
  ELSE IF l.k # "entry" THEN "malformed"
  ELSE LET ns == NumStage(l) IN IF ns.c # "keep" THEN ns.c ELSE PostStage(l)
Verdict(f) ==
  LET n     == Len(f.lines)
      stops == {i \in 1..n : LineClass(f, i) = "stop"}
      stop  == IF stops = {} THEN n + 1 ELSE CHOOSE i \in stops : \A j \in stops : i <= j
      vis   == 1..(stop - 1)                                                \* the lines the scanner delivers
      bad   == {i \in vis : LineClass(f, i) \in {"malformed", "number", "range"}}
      first == CHOOSE i \in bad : \A j \in bad : i <= j
      cut   == IF bad = {} THEN stop ELSE first
      keep  == SelectSeq([i \in 1..n |-> i], LAMBDA i : i < cut /\ LineClass(f, i) = "keep")
      tbl   == [j \in 1..Len(keep) |-> Ent(f.lines[keep[j]])]
  IN IF bad # {} THEN Reject(LineClass(f, first), first,
                             IF LineClass(f, first) = "number" THEN NumStage(f.lines[first]).tok ELSE -1)
     ELSE IF stops # {} /\ ~D("scanErrIgnored")
       THEN Reject(IF f.lines[stop].k = "ioerr" THEN "io" ELSE "toolong", stop, -1)
     ELSE Accept(tbl)

\* ------------------------------------------------------------------ crypto/rand.Int(reader, N) on a scripted reader
\* returns [ok, v, rest]: k = ceil(bitlen(N-1)/8) bytes per attempt, the first byte masked to the bit length, big endian,
\* candidates >= N are discarded and drawn again; a short read fails (and has consumed what was left)
BE(s) == IF Len(s) = 1 THEN s[1] ELSE IF Len(s) = 2 THEN s[1] * 256 + s[2]
         ELSE IF Len(s) = 3 THEN (s[1] * 256 + s[2]) * 256 + s[3] ELSE ((s[1] * 256 + s[2]) * 256 + s[3]) * 256 + s[4]
RECURSIVE Draw(_, _, _, _)
Draw(bytes, N, k, b) ==
  IF Len(bytes) < k THEN [ok |-> FALSE, v |-> 0, rest |-> <<>>]
  ELSE LET cand == BE(<<bytes[1] % Pow2(b)>> \o SubSeq(bytes, 2, k))
           rest == SubSeq(bytes, k + 1, Len(bytes))
       IN IF cand < N THEN [ok |-> TRUE, v |-> cand, rest |-> rest] ELSE Draw(rest, N, k, b)
RandInt(bytes, N) ==
  LET bl == BitLen(N - 1) IN
  IF bl = 0 THEN [ok |-> TRUE, v |-> 0, rest |-> bytes]                      \* N = 1: nothing is read
  ELSE Draw(bytes, N, (bl + 7) \div 8, IF bl % 8 = 0 THEN 8 ELSE bl % 8)

\* ------------------------------------------------------------------ selection
BarChosen(e, q) == IF B("barInclusive") THEN q <= e.bar ELSE q < e.bar       \* q.Cmp(B) < 0
\* barPrefix.selectPrefix
BarSelect(e, bytes) ==
  IF e.bar <= 0 \/ e.max <= 0 THEN [ok |-> FALSE, rest |-> bytes]
  ELSE IF e.bar >= e.max THEN [ok |-> TRUE, rest |-> bytes]
  ELSE LET r == RandInt(bytes, e.max) IN
       IF ~r.ok THEN [ok |-> FALSE, rest |-> <<>>] ELSE [ok |-> BarChosen(e, r.v), rest |-> r.rest]
\* prefixes.selectPrefix: [ok, idx (the line looked at, 0 = none), rest]
Select(tbl, bytes) ==
  IF Len(tbl) = 0 THEN [ok |-> FALSE, idx |-> 0, rest |-> bytes]
  ELSE IF Len(tbl) = 1 THEN LET s == BarSelect(tbl[1], bytes) IN [ok |-> s.ok, idx |-> 1, rest |-> s.rest]
  ELSE LET r == RandInt(bytes, Len(tbl)) IN
       IF ~r.ok THEN [ok |-> FALSE, idx |-> 0, rest |-> <<>>]
       ELSE LET s == BarSelect(tbl[r.v + 1], r.rest) IN [ok |-> s.ok, idx |-> r.v + 1, rest |-> s.rest]

\* the draws (line j of N uniformly, q of max uniformly) that end in line i being written
Hits(tbl, i) == IF ~Live(tbl[i]) THEN {}
                ELSE IF tbl[i].bar >= tbl[i].max THEN 0..(tbl[i].max - 1)
                ELSE {q \in 0..(tbl[i].max - 1) : BarChosen(tbl[i], q)}

\* ------------------------------------------------------------------ registrations
\* wrap: nil | nopayload | ok;  tt: prefix | min | unset;  dis (disable_registrar_overrides): unset | no | yes
\* par (the client's TransportParams): nil | emptyurl | proto | tapdance (legacy "tapdance." type URL) | tdgeneric (legacy URL of
\*     GenericTransportParams) | pgeneric | junkurl | badvalue (right URL, undecodable bytes);  rnd (randomize_dst_port): unset | false | true
\* resp: None | [port (0 = unset / 0), psr (phantoms_support_port_rand), tp]   tp: None | [old |-> TRUE] | the parameters written
Wraps == {"nil", "nopayload", "ok"}
TTs == {"prefix", "min", "unset"}
Diss == {"unset", "no", "yes"}
Pars == {"nil", "emptyurl", "proto", "tapdance", "tdgeneric", "pgeneric", "junkurl", "badvalue"}
Rnds == {"unset", "false", "true"}
OldTp == [old |-> TRUE]
IsReg(r) == /\ DOMAIN r = {"wrap", "tt", "dis", "par", "rnd", "resp"}
            /\ r.wrap \in Wraps /\ r.tt \in TTs /\ r.dis \in Diss /\ r.par \in Pars /\ r.rnd \in Rnds /\ (r.par = "nil" => r.rnd = "unset")
            /\ (r.resp = None \/ (DOMAIN r.resp = {"port", "psr", "tp"} /\ r.resp.port \in Nat /\ r.resp.psr \in BOOLEAN))
EmptyResp == [port |-> 0, psr |-> FALSE, tp |-> None]
ClientRnd(r) == IF r.par = "nil" THEN "unset" ELSE r.rnd

\* UnmarshalAnypbTo(client params, &PrefixTransportParams{}): [err, par (the client's params afterwards)]
Unmarshal(par) ==
  LET rw(p) == IF D("typeUrlRewritten") THEN p ELSE par IN
  CASE par = "nil"       -> [err |-> "none", par |-> par]
    [] par = "emptyurl"  -> [err |-> "none", par |-> rw("proto")]
    [] par = "proto"     -> [err |-> "none", par |-> par]
    [] par = "tapdance"  -> [err |-> "none", par |-> rw("proto")]
    [] par = "tdgeneric" -> [err |-> "typeurl", par |-> rw("pgeneric")]
    [] par = "pgeneric"  -> [err |-> "typeurl", par |-> par]
    [] par = "junkurl"   -> [err |-> "typeurl", par |-> par]
    [] OTHER             -> [err |-> "wire", par |-> par]

\* the prefixes the transport package knows (prefix.DefaultPrefixes): id -> name, default port; flush policy NoAddedFlush (1)
DefIds == 0..9
DefName(id) == <<"def0", "def1", "def2", "def3", "def4", "def5", "def6", "def7", "def8", "def9">>[id + 1]
DefPort(id) == CASE id \in {1, 2, 3} -> 80 [] id = 8 -> 53 [] id = 9 -> 22 [] OTHER -> 443
\* what an override wants to write: [pfx, id (as int32), pos (port > 0), portw (uint32(port)), flush, n]
FromTbl(e) == [pfx |-> e.pfx, id |-> e.id.v, pos |-> (e.port.hi = 1 \/ e.port.v > 0), portw |-> e.port.v, flush |-> e.flush, n |-> e.n]
FromDef(id) == [pfx |-> DefName(id), id |-> id, pos |-> TRUE, portw |-> DefPort(id), flush |-> 1, n |-> "short"]
NoFields == [pfx |-> "-", id |-> 0, pos |-> FALSE, portw |-> 0, flush |-> 0, n |-> "short"]

\* which entry the override of kind `kind` settles on: [ok, err, e, idx, rest]
Pick(kind, tbl, fid, pid, rd) ==
  CASE kind = "file"  -> LET s == Select(tbl, rd) IN
                         [ok |-> s.ok, err |-> "none", e |-> IF s.ok THEN FromTbl(tbl[s.idx]) ELSE NoFields, idx |-> s.idx, rest |-> s.rest]
    [] kind = "fixed" -> [ok |-> TRUE, err |-> "none", e |-> FromDef(fid), idx |-> 0, rest |-> rd]
    [] OTHER          -> \* "rand": TryFromID(Rand) = pickRandomPrefix(reader) = DefaultPrefixes[rand.Int(reader, 10)]
         IF D("randIgnoresReader") THEN [ok |-> TRUE, err |-> "none", e |-> FromDef(pid), idx |-> 0, rest |-> rd]
         ELSE LET r == RandInt(rd, 10) IN
              IF r.ok THEN [ok |-> TRUE, err |-> "none", e |-> FromDef(r.v), idx |-> 0, rest |-> r.rest]
              ELSE [ok |-> FALSE, err |-> "reader", e |-> NoFields, idx |-> 0, rest |-> <<>>]

\* the port rule shared by the three Override methods (r0: the response before, never None here)
PortAfter(r0, e, rndOn, laterInChain) ==
  IF r0.psr
    THEN IF (~rndOn \/ r0.port = 0 \/ (laterInChain /\ ~D("chainMixesPort"))) /\ e.pos THEN e.portw ELSE r0.port
    ELSE 443

\* one Override call of kind `kind` on registration r: [reg, rest, err, wrote, idx (the table line consulted, 0 = none), e]
Ovr(kind, r, rd, tbl, fid, pid, portBy) ==
  LET res(r2, rest, err, wrote, idx, e) == [reg |-> r2, rest |-> rest, err |-> err, wrote |-> wrote, idx |-> idx, e |-> e] IN
  IF kind = "fail" THEN res(r, rd, "stub", FALSE, 0, NoFields)                        \* (a foreign override that fails, whatever it is given)
  ELSE IF r.wrap # "ok" THEN res(r, rd, "missing", FALSE, 0, NoFields)                \* ErrMissingRegistration
  ELSE IF r.tt # "prefix" /\ ~B("anyTransport") THEN res(r, rd, "none", FALSE, 0, NoFields)
  ELSE IF ~D("pkgIgnoresFlag") /\ r.dis = "yes" THEN res(r, rd, "none", FALSE, 0, NoFields)
  ELSE LET p == Pick(kind, tbl, fid, pid, rd) IN
    IF p.err # "none" THEN res(r, p.rest, p.err, FALSE, 0, NoFields)
    ELSE IF ~p.ok THEN res(r, p.rest, "none", FALSE, p.idx, NoFields)                 \* no line selected: nothing changes
    ELSE LET u == Unmarshal(r.par) IN
      IF u.err # "none" THEN res([r EXCEPT !.par = u.par], p.rest, u.err, FALSE, p.idx, p.e)
      ELSE LET r0   == IF r.resp = None THEN EmptyResp ELSE r.resp
               prm  == [pfx |-> p.e.pfx, id |-> p.e.id, flush |-> p.e.flush, rnd |-> ClientRnd(r), n |-> p.e.n]
               port == PortAfter(r0, p.e, ClientRnd(r) = "true", portBy # 0)
               tp   == IF B("keepOldParams") /\ r0.tp = OldTp THEN r0.tp ELSE prm
           IN res([r EXCEPT !.par = u.par, !.resp = [port |-> port, psr |-> r0.psr, tp |-> tp]], p.rest, "none", TRUE, p.idx, p.e)

\* ------------------------------------------------------------------ input alphabets (per Profile)
Kinds == {"file", "fixed", "rand", "fail"}
Good1 == E(2, 1, 33, 80, "P")
Good2 == E(3, 3, 34, 2222, "Q")
ParseLines ==
  {Ln("blank", "short"), Ln("comment", "short"), Ln("comment", "m1"), Ln("comment", "max"), Ln("comment", "over"),
   Ln("ws", "short"), Ln("icomment", "short"), Ln("ioerr", "short"),
   [Good1 EXCEPT !.k = "few"], [Good1 EXCEPT !.k = "many"], Good2,
   [Good1 EXCEPT !.n = "m1"], [Good1 EXCEPT !.n = "max"], [Good1 EXCEPT !.n = "over"],
   E(1, 0, 35, 80, "R"), E(0, 5, 35, 80, "R"), E(-5, 3, 35, 80, "R"), E(5, -3, 35, 80, "R"), E(0, 0, 35, 80, "R"),
   [Good1 EXCEPT !.max = BadTok, !.bar = BadTok], [Good1 EXCEPT !.max = BadTok, !.bar = Tok(0)],
   [Good1 EXCEPT !.max = Tok(0), !.bar = BadTok], [Good1 EXCEPT !.max = Tok(0), !.bar = Tok(0), !.id = BadTok, !.port = BadTok],
   [Good1 EXCEPT !.max = BadTok], [Good1 EXCEPT !.bar = BadTok], [Good1 EXCEPT !.id = BadTok], [Good1 EXCEPT !.port = BadTok],
   [Good1 EXCEPT !.max = OverTok], [Good1 EXCEPT !.max = OverTok, !.bar = OverTok], [Good1 EXCEPT !.bar = UnderTok],
   [Good1 EXCEPT !.max = BadTok, !.bar = OverTok], [Good1 EXCEPT !.id = OverTok], [Good1 EXCEPT !.port = UnderTok],
   [Good1 EXCEPT !.id = Big(1)], [Good1 EXCEPT !.id = Tok(-1)], [Good1 EXCEPT !.port = Big(443)], [Good1 EXCEPT !.port = Tok(70000)],
   [Good1 EXCEPT !.port = Tok(65535)], [Good1 EXCEPT !.port = Tok(-1)], [Good1 EXCEPT !.port = Tok(0)],
   E(2, 1, 33, 81, "Q")} \cup
  {[Good1 EXCEPT !.fmt = f] : f \in Fmts}
FilesOver(L, maxlen, variants) ==
  LET seqs(n) == [1..n -> L] IN
  {[lines |-> s, nl |-> TRUE, eol |-> "lf"] : s \in UNION {seqs(n) : n \in 0..maxlen}} \cup
  (IF variants THEN {[lines |-> s, nl |-> v[1], eol |-> v[2]] : s \in UNION {seqs(n) : n \in 1..Min2(maxlen, 2)},
                                                                  v \in {<<FALSE, "lf">>, <<TRUE, "crlf">>, <<FALSE, "crlf">>}}
   ELSE {})
WeightLines(Ms, Bs) == {E(m, b, 40 + m * 8 + b + 1, 1000 + m * 8 + b + 1, "P") : m \in Ms, b \in Bs}
ByteSeqs(A, n) == UNION {[1..k -> A] : k \in 0..n}
File1(s) == [lines |-> s, nl |-> TRUE, eol |-> "lf"]

PrefixReg(par, rnd, resp) == [wrap |-> "ok", tt |-> "prefix", dis |-> "no", par |-> par, rnd |-> rnd, resp |-> resp]
PlainReg == PrefixReg("proto", "false", [port |-> 0, psr |-> TRUE, tp |-> None])
Resps(ports) == {None} \cup {[port |-> p, psr |-> s, tp |-> t] : p \in ports, s \in BOOLEAN, t \in {None, OldTp}}
RegsFull(ports) ==
  {[wrap |-> w, tt |-> "prefix", dis |-> "unset", par |-> "nil", rnd |-> "unset", resp |-> None] : w \in {"nil", "nopayload"}} \cup
  {x \in {[wrap |-> "ok", tt |-> t, dis |-> d, par |-> p, rnd |-> r, resp |-> rs] :
              t \in TTs, d \in Diss, p \in Pars \ {"pgeneric"}, r \in Rnds, rs \in Resps(ports)} : x.par = "nil" => x.rnd = "unset"}
RegsMid(ports) == {r \in RegsFull(ports) : r.wrap = "ok" => (r.tt # "unset" /\ (r.dis = "unset" => (r.par = "proto" /\ r.rnd = "false")))}
\* the registration shapes that matter to more than one guard at once
RegsCore(ports) ==
  {r \in RegsFull(ports) : /\ r.wrap = "ok" => (r.par = "nil" => r.rnd = "unset")
                           /\ r.wrap = "ok" => (r.par \in {"junkurl", "badvalue", "tdgeneric", "emptyurl"} => r.rnd = "true")
                           /\ r.wrap = "ok" => (r.tt # "prefix" => (r.par = "proto" /\ r.rnd = "true" /\ r.dis = "no"))
                           /\ r.wrap = "ok" => (r.dis = "unset" => (r.par = "proto" /\ r.rnd = "false"))}

Tables ==      \* files that load, for the override profiles
  {File1(<<Good1>>), File1(<<Good2>>), File1(<<Good2, E(1, 1, 35, -1, "R")>>), File1(<<>>),
   File1(<<[Good2 EXCEPT !.id = Big(1), !.port = Big(443)]>>), File1(<<E(1, 1, -1, 70000, "R")>>), File1(<<E(1, 1, 36, 0, "R")>>)}
Chains1 == {<<k>> : k \in Kinds}
Chains2 == {<<a, b>> : a \in Kinds, b \in Kinds}

Inputs ==
  CASE Profile = "parse" ->
         [files |-> FilesOver(ParseLines, 2, TRUE), chains |-> {<<"file">>}, fids |-> {3}, regs |-> {}, bytes |-> {<<>>}, pids |-> {0}]
    [] Profile = "parse3" ->
         [files |-> FilesOver(ParseLines, 3, TRUE), chains |-> {<<"file">>}, fids |-> {3}, regs |-> {}, bytes |-> {<<>>}, pids |-> {0}]
    [] Profile = "select" ->
         [files |-> FilesOver(WeightLines({1, 3, 4}, {-1, 0, 1, 3, 4}), 2, FALSE),
          chains |-> {<<"file">>}, fids |-> {3}, regs |-> {PlainReg},
          bytes |-> ByteSeqs({0, 1, 2, 3, 255}, 3), pids |-> {0}]
    [] Profile = "selectT" ->
         [files |-> FilesOver(WeightLines({0, 1, 3, 4}, {-1, 0, 1, 2, 3, 4}), 2, FALSE),
          chains |-> {<<"file">>}, fids |-> {3}, regs |-> {PlainReg, [PlainReg EXCEPT !.tt = "min"]},
          bytes |-> ByteSeqs({0, 1, 2, 3, 6, 255}, 3), pids |-> {0}]
    [] Profile = "select3" ->       \* three lines: the line draw itself rejects (N = 3 needs two bits)
         [files |-> FilesOver(WeightLines({3, 4}, {0, 1, 3}), 3, FALSE) , chains |-> {<<"file">>}, fids |-> {3}, regs |-> {PlainReg},
          bytes |-> ByteSeqs({0, 1, 2, 3, 255}, 3), pids |-> {0}]
    [] Profile = "select2" ->       \* draws of two bytes (max = 1000: 10 bits), boundaries of bar and of the rejection
         [files |-> {File1(<<E(1000, 10, 33, 80, "P")>>), File1(<<E(1000, 10, 33, 80, "P"), E(300, 299, 34, 22, "Q")>>)},
          chains |-> {<<"file">>}, fids |-> {3}, regs |-> {PlainReg},
          bytes |-> ByteSeqs({0, 1, 3, 4, 9, 10, 11, 42, 43, 44, 231, 232, 255}, 3), pids |-> {0}]
    [] Profile = "override" ->
         [files |-> Tables \ {File1(<<Good2>>)}, chains |-> Chains1, fids |-> {9}, regs |-> RegsMid({0, 1024}),
          bytes |-> {<<>>, <<1, 0>>}, pids |-> {0, 9}]
    [] Profile = "overrideT" ->
         [files |-> Tables, chains |-> Chains1, fids |-> {3, 9}, regs |-> RegsFull({0, 443, 1024}),
          bytes |-> {<<>>, <<1, 0>>}, pids |-> {0, 9}]
    [] Profile = "chain" ->
         [files |-> {File1(<<Good2>>), File1(<<Good2, E(1, 1, 35, -1, "R")>>)}, chains |-> Chains1 \cup Chains2 \cup {<<"file", "fixed", "rand">>, <<"fixed", "file", "fail">>},
          fids |-> {9}, regs |-> RegsCore({0, 1024}), bytes |-> {<<>>, <<1, 0>>}, pids |-> {0, 9}]
    [] Profile = "chainT" ->
         [files |-> {File1(<<Good1>>), File1(<<Good2>>), File1(<<Good2, E(1, 1, 35, -1, "R")>>)}, chains |-> Chains1 \cup Chains2 \cup {<<"file", "fixed", "rand">>, <<"fixed", "file", "fail">>},
          fids |-> {3, 9}, regs |-> RegsCore({0, 1024}), bytes |-> {<<>>, <<1, 0>>}, pids |-> {0, 9}]
    [] Profile = "gselect" ->  \* stage B: boundaries of every bar, of the line draw (N = 1, 2, 3) and of rand.Int's rejection
         [files |-> FilesOver({E(3, 1, 41, 1001, "P"), E(3, 2, 42, 1002, "Q"), E(4, 1, 43, 1003, "R"), E(4, 3, 44, -1, "P"), E(1, 0, 45, 1005, "Q"),
                               E(3, 3, 46, 1006, "R"), E(-1, 2, 47, 1007, "P")}, 2, FALSE) \cup
                    {File1(<<E(3, 1, 41, 1001, "P"), E(4, 3, 44, -1, "Q"), E(3, 3, 46, 1006, "R")>>),
                     File1(<<E(1, 0, 45, 1005, "Q"), E(3, 2, 42, 1002, "Q"), E(4, 1, 43, 1003, "R")>>)},
          chains |-> {<<"file">>}, fids |-> {3}, regs |-> {PlainReg}, bytes |-> ByteSeqs({0, 1, 2, 3, 255}, 3), pids |-> {0}]
    [] Profile = "goverride" ->
         [files |-> {File1(<<Good2>>), File1(<<Good2, E(1, 1, 35, -1, "R")>>), File1(<<>>), File1(<<[Good2 EXCEPT !.id = Big(1), !.port = Big(443)]>>),
                     File1(<<E(1, 1, -1, 70000, "R")>>), File1(<<E(1, 1, 36, 0, "R")>>)},
          chains |-> Chains1, fids |-> {9}, regs |-> RegsMid({0, 1024}), bytes |-> {<<1, 0>>}, pids |-> {0, 9}]
    [] Profile = "gchain" ->
         [files |-> {File1(<<Good2>>), File1(<<Good2, E(1, 1, 35, -1, "R")>>)}, chains |-> Chains2 \cup {<<"file", "fixed", "rand">>, <<"fixed", "file", "fail">>},
          fids |-> {9}, regs |-> RegsCore({0, 1024}), bytes |-> {<<1, 0>>}, pids |-> {9}]
    [] Profile = "gapsP" ->    \* one witness per divergence of the grammar
         [files |-> FilesOver({Good2, Ln("ws", "short"), Ln("comment", "over"), Ln("ioerr", "short"), [Good1 EXCEPT !.max = BadTok, !.bar = BadTok],
                               E(1, 0, 35, 80, "R"), [Good1 EXCEPT !.port = Tok(70000)]}, 2, FALSE),
          chains |-> {<<"file">>}, fids |-> {3}, regs |-> {}, bytes |-> {<<>>}, pids |-> {0}]
    [] Profile = "gapsC" ->    \* one witness per divergence of Override / Overrides
         [files |-> {File1(<<Good2>>)}, chains |-> {<<"file">>, <<"rand">>, <<"file", "fail">>, <<"file", "fixed">>}, fids |-> {3},
          regs |-> {PlainReg, [PlainReg EXCEPT !.dis = "yes"], [PlainReg EXCEPT !.par = "tapdance"], [PlainReg EXCEPT !.par = "tdgeneric"],
                    [PlainReg EXCEPT !.rnd = "true"]},
          bytes |-> {<<>>}, pids |-> {9}]
    [] Profile = "caller" ->
         [files |-> {}, chains |-> {}, fids |-> {}, regs |-> {}, bytes |-> {}, pids |-> {0}]
    [] OTHER ->  \* "tiny": smoke
         [files |-> {File1(<<Good1>>), File1(<<[Good1 EXCEPT !.k = "few"]>>)}, chains |-> {<<"file">>, <<"fixed", "fail">>}, fids |-> {3},
          regs |-> {PlainReg, [PlainReg EXCEPT !.tt = "min"], [PlainReg EXCEPT !.resp = [port |-> 1024, psr |-> TRUE, tp |-> OldTp]]},
          bytes |-> {<<>>, <<0>>, <<1>>}, pids |-> {0}]


\* ------------------------------------------------------------------ the caller: regprocessor.processBdReq around the overrides
\* One row per (client's disable flag, the selected phantom subnets support random ports, client randomises, port column of the
\* file); the file has one line that is always selected (1 1 4 <fport> X: no draw), the client asked for another prefix (its
\* default port: "client").  port: where the DstPort the client is finally told comes from - "file" | "client" | "range" (derived
\* from the seed in 1024..65535 because the client randomises) | "443".
CallerRow(dis, psr, rnd, fport) ==
  LET tblC    == <<[max |-> 1, bar |-> 1, id |-> [v |-> 4, hi |-> 0], port |-> [v |-> fport, hi |-> 0], pfx |-> "X", n |-> "short", flush |-> 1]>>
      r0      == [wrap |-> "ok", tt |-> "prefix", dis |-> dis, par |-> "proto", rnd |-> rnd,
                  resp |-> [port |-> 0, psr |-> (psr /\ ~D("callerNeverSetsPsr")), tp |-> None]]
      guarded == dis # "yes"                            \* p.regOverrides != nil && !c2s.GetDisableRegistrarOverrides()
      o       == Ovr("file", r0, <<>>, tblC, 0, 0, 0)
      over    == guarded /\ o.wrote
      after   == IF guarded THEN o.reg.resp ELSE r0.resp
      own     == IF psr THEN (IF rnd = "true" THEN "range" ELSE "client") ELSE "443"     \* t.GetDstPort(libver, seed, client's params) / 443
      port    == IF D("callerRecomputesPort") \/ ~over THEN own
                 ELSE IF ~after.psr THEN "443" ELSE IF after.port = fport /\ fport > 0 THEN "file" ELSE own
  IN [a |-> "Caller", dis |-> dis, psr |-> psr, rnd |-> rnd, fport |-> fport, err |-> "none", over |-> over,
      tp |-> IF over THEN "file" ELSE "none", port |-> port, seenpsr |-> after.psr]
Callers == IF Profile = "caller" THEN Diss \X BOOLEAN \X Rnds \X {-1, 2222} ELSE {}
Caller(dis, psr, rnd, fport) == cur = None /\ obs' = CallerRow(dis, psr, rnd, fport) /\ UNCHANGED <<cfg, cur>>

\* ------------------------------------------------------------------ actions
Init == cfg = None /\ cur = None /\ obs = [a |-> "Init"]

Load(f, chain, fid) ==
  /\ cur = None
  /\ LET p == Parse(f) IN
     /\ cfg' = IF p.res = "accepted" THEN [tbl |-> p.tbl, chain |-> chain, fid |-> fid] ELSE cfg   \* a rejected load changes nothing
     /\ obs' = [a |-> "Load", file |-> f, chain |-> chain, fid |-> fid, res |-> p.res, why |-> p.why, at |-> p.at, tok |-> p.tok, tbl |-> p.tbl]
  /\ UNCHANGED cur

Arrive(r, bytes) ==
  /\ cfg # None /\ cur = None
  /\ cur' = [reg |-> r, orig |-> r, rd |-> bytes, k |-> 1, err |-> "none", portBy |-> 0, last |-> None, wrote |-> FALSE]
  /\ obs' = [a |-> "Arrive", reg |-> r, bytes |-> bytes]
  /\ UNCHANGED cfg

StepWith(pid) ==
  /\ cur # None /\ cur.err = "none" /\ cur.k <= Len(cfg.chain)
  /\ LET kind == cfg.chain[cur.k]
         o == Ovr(kind, cur.reg, cur.rd, cfg.tbl, cfg.fid, pid, cur.portBy)
     IN /\ cur' = [cur EXCEPT !.reg = o.reg, !.rd = o.rest, !.k = cur.k + 1, !.err = o.err,
                              !.portBy = IF o.wrote /\ o.e.pos THEN cur.k ELSE cur.portBy,
                              !.last = IF o.wrote THEN o.e ELSE cur.last, !.wrote = cur.wrote \/ o.wrote]
        /\ obs' = [a |-> "Step", kind |-> kind, k |-> cur.k, err |-> o.err, wrote |-> o.wrote, idx |-> o.idx,
                   used |-> Len(cur.rd) - Len(o.rest), pid |-> IF kind = "rand" /\ o.wrote THEN o.e.id ELSE -1,
                   before |-> cur.reg, reg |-> o.reg, e |-> o.e, keep |-> TRUE]
  /\ UNCHANGED cfg
Step == \E pid \in (IF cfg # None /\ cur # None /\ cur.k <= Len(cfg.chain) /\ cfg.chain[cur.k] = "rand" /\ D("randIgnoresReader")
                    THEN Inputs.pids ELSE {0}) : StepWith(pid)

Return ==
  /\ cur # None /\ (cur.err # "none" \/ cur.k > Len(cfg.chain))
  /\ LET final == IF cur.err # "none" /\ ~D("chainNotAtomic") THEN cur.orig ELSE cur.reg IN
     obs' = [a |-> "Return", err |-> cur.err, reg |-> final, orig |-> cur.orig, same |-> (final = cur.orig),
             ran |-> cur.k - 1, of |-> Len(cfg.chain), left |-> Len(cur.rd), last |-> cur.last, wrote |-> cur.wrote]
  /\ cur' = None
  /\ UNCHANGED cfg

\* every file is loaded into a fresh registrar (from the initial state); later only a few files are (re-)loaded (a load does not depend on
\* what was loaded before - RejectedLoadChangesNothing is the one thing to check there)
Reloads == {File1(<<Good2>>), File1(<<[Good1 EXCEPT !.k = "few"]>>), File1(<<>>)}
Next == \/ \E f \in (IF obs.a = "Init" THEN Inputs.files ELSE Reloads), c \in Inputs.chains, fid \in Inputs.fids : Load(f, c, fid)
        \/ \E r \in Inputs.regs, b \in Inputs.bytes : Arrive(r, b)
        \/ Step
        \/ Return
        \/ \E c \in Callers : Caller(c[1], c[2], c[3], c[4])
Spec == Init /\ [][Next]_vars

\* ------------------------------------------------------------------ invariants: the grammar
TypeOK == /\ cfg = None \/ (\A i \in DOMAIN cfg.tbl : IsEntry(cfg.tbl[i]))
          /\ cur = None \/ (IsReg(cur.reg) /\ cur.k \in 1..(Len(cfg.chain) + 1))
Loaded == obs.a = "Load"
\* the scanner loop and the declarative grammar agree (result, reason, line, token, table)
ParseAgreesWithGrammar == Loaded => Parse(obs.file) = Verdict(obs.file)
\* nothing is invented: the table is, in file order, the values of some of the file's well-formed five-field lines
NothingInvented ==
  Loaded /\ obs.res = "accepted" =>
    \E pick \in SUBSET (1..Len(obs.file.lines)) :
        LET ks == SelectSeq([i \in 1..Len(obs.file.lines) |-> i], LAMBDA i : i \in pick) IN
        /\ Len(ks) = Len(obs.tbl)
        /\ \A j \in 1..Len(ks) : obs.file.lines[ks[j]].k = "entry" /\ FirstBad(obs.file.lines[ks[j]]) = 0 /\ obs.tbl[j] = Ent(obs.file.lines[ks[j]])
\* a delivered line with the wrong number of fields, or a number error next to a non-zero weight, always rejects the file
MalformedRejects ==
  Loaded /\ obs.res = "accepted" =>
    \A i \in 1..Len(obs.file.lines) :
      (\A j \in 1..i : ~ScanStops(obs.file, j)) =>
        LET l == obs.file.lines[i] IN
        /\ l.k \notin {"few", "many"}
        /\ (l.k = "entry" /\ FirstBad(l) # 0) => (ReturnsZero(l.max) /\ ReturnsZero(l.bar))
RejectedLoadChangesNothing == [][(obs'.a = "Load" /\ obs'.res = "rejected") => cfg' = cfg]_vars
\* --- intended only
\* an accepted load has seen the whole file
I_NoSilentTruncation == Loaded /\ obs.res = "accepted" => \A i \in 1..Len(obs.file.lines) : ~ScanStops(obs.file, i)
\* a number that does not parse rejects the file, whatever stands next to it
I_MalformedNumberRejects ==
  Loaded /\ obs.res = "accepted" => \A i \in 1..Len(obs.file.lines) :
      (\A j \in 1..i : ~ScanStops(obs.file, j)) /\ obs.file.lines[i].k = "entry" => FirstBad(obs.file.lines[i]) = 0
\* lines of blanks are blank lines
I_BlankLinesIgnored ==
  Loaded /\ obs.res = "rejected" /\ obs.why = "malformed" => obs.file.lines[obs.at].k \notin {"ws", "icomment"}
\* what is loaded can be written into a registration without narrowing
I_FieldsInRange == cfg # None => \A i \in DOMAIN cfg.tbl : InRange(cfg.tbl[i])

\* ------------------------------------------------------------------ invariants: selection (on the loaded table)
\* of the max_i equally likely draws for line i exactly min(bar_i, max_i) select it - none if the line is dead:
\* P(line i) = 1/N * bar_i / max_i, every live line is reachable, no dead line is ever written
ShareExact == cfg # None => \A i \in DOMAIN cfg.tbl :
                 Cardinality(Hits(cfg.tbl, i)) = IF Live(cfg.tbl[i]) THEN Min2(cfg.tbl[i].bar, cfg.tbl[i].max) ELSE 0
Stepped == obs.a = "Step"
NeverDeadLine == Stepped /\ obs.kind = "file" /\ obs.wrote => Live(cfg.tbl[obs.idx])
\* a selection never reads more than it needs: at most one accepted draw for the line and one for the bar
NoByteWithoutDraw == Stepped /\ obs.used > 0 => obs.kind \in {"file", "rand"} /\ obs.before.wrap = "ok" /\ obs.before.tt = "prefix"
\* --- intended only: a line that can never be selected does not take a share of the line draw
I_DeadLinesDoNotDilute == cfg # None => \A i \in DOMAIN cfg.tbl : Live(cfg.tbl[i])

\* ------------------------------------------------------------------ invariants: Override
SameButPar(a, b) == [a EXCEPT !.par = b.par] = b
\* registrations of another transport pass through, without error
OnlyPrefixTransport == Stepped /\ obs.before.wrap = "ok" /\ obs.before.tt # "prefix" /\ obs.kind # "fail" =>
                          obs.reg = obs.before /\ obs.err = "none" /\ obs.used = 0
MissingIsAnError == Stepped /\ obs.before.wrap # "ok" /\ obs.kind # "fail" => obs.err = "missing" /\ obs.reg = obs.before
\* an override that did not write left the registration alone (as found: up to the type URL of the client's parameters)
UntouchedUnlessWritten == Stepped /\ ~obs.wrote => SameButPar(obs.reg, obs.before)
ErrorMeansNoWrite == Stepped /\ obs.err # "none" => ~obs.wrote
\* what was written is the entry: prefix, id, flush policy; the client's randomize flag is kept
ResponseMatchesEntry ==
  Stepped /\ obs.wrote => obs.reg.resp.tp = [pfx |-> obs.e.pfx, id |-> obs.e.id, flush |-> obs.e.flush, rnd |-> ClientRnd(obs.before), n |-> obs.e.n]
\* the port: 443 unless the phantoms support randomised ports; else the entry's port if it has one, unless the client
\* randomises and a port is already there
PortRule ==
  Stepped /\ obs.wrote =>
    LET r0 == IF obs.before.resp = None THEN EmptyResp ELSE obs.before.resp
        kept == ClientRnd(obs.before) = "true" /\ r0.port # 0
    IN /\ obs.reg.resp.psr = r0.psr
       /\ ~r0.psr => obs.reg.resp.port = 443
       /\ r0.psr /\ ~obs.e.pos => obs.reg.resp.port = r0.port
       /\ r0.psr /\ obs.e.pos /\ ~kept => obs.reg.resp.port = obs.e.portw
       /\ r0.psr /\ kept /\ obs.k = 1 => obs.reg.resp.port = r0.port
\* the client's own fields are never touched
ClientFieldsKept == Stepped => /\ obs.reg.wrap = obs.before.wrap /\ obs.reg.tt = obs.before.tt /\ obs.reg.dis = obs.before.dis
                               /\ obs.reg.rnd = obs.before.rnd /\ obs.keep
\* the client's parameters are read, not replaced: only their type URL may be normalised
ParOnlyNormalised == Stepped => obs.reg.par = obs.before.par \/ (obs.before.par \in {"emptyurl", "tapdance"} /\ obs.reg.par = "proto")
                                                           \/ (obs.before.par = "tdgeneric" /\ obs.reg.par = "pgeneric")
Returned == obs.a = "Return"
\* Overrides.Override: in order, the first error ends the chain and is returned
FirstErrorStops == Returned => (obs.err = "none" => obs.ran = obs.of) /\ obs.ran <= obs.of
\* the last override that wrote decides the parameters
LastWriterWins == Returned /\ obs.wrote /\ obs.err = "none" =>
                     obs.reg.resp.tp = [pfx |-> obs.last.pfx, id |-> obs.last.id, flush |-> obs.last.flush, rnd |-> ClientRnd(obs.orig), n |-> obs.last.n]
NotWrittenNotChanged == Returned /\ ~obs.wrote => SameButPar(obs.reg, obs.orig)
\* --- intended only
I_PayloadUntouched == Returned => obs.reg.par = obs.orig.par
I_ErrorLeavesUntouched == Returned /\ obs.err # "none" => obs.reg = obs.orig
I_FlagRespected == Returned /\ obs.orig.wrap = "ok" /\ obs.orig.dis = "yes" => obs.reg = obs.orig
I_RandUsesReader == Stepped /\ obs.kind = "rand" /\ obs.wrote => obs.used > 0
\* port and prefix of the response come from the same entry (or the port was the caller's and the client randomises)
I_ResponseConsistent ==
  Returned /\ obs.wrote /\ obs.err = "none" /\ obs.reg.resp.psr /\ obs.last.pos =>
     \/ obs.reg.resp.port = obs.last.portw
     \/ (ClientRnd(obs.orig) = "true" /\ obs.orig.resp # None /\ obs.orig.resp.port # 0 /\ obs.reg.resp.port = obs.orig.resp.port)

\* ------------------------------------------------------------------ invariants: the caller
Called == obs.a = "Caller"
\* (C12 states this on the full registrar; here it is the frame of the two laws below)
CallerRespectsFlag == Called => (obs.over <=> obs.dis # "yes") /\ (obs.tp = "file" <=> obs.over)
CallerPortNeverInvented == Called => obs.port \in {"file", "client", "range", "443"} /\ (~obs.psr => obs.port = "443")
\* --- intended only
I_PsrReachesOverrides == Called /\ obs.over => obs.seenpsr = obs.psr
I_FilePortReachesClient == Called /\ obs.over /\ obs.psr /\ obs.rnd # "true" /\ obs.fport > 0 => obs.port = "file"

\* ------------------------------------------------------------------ the laws about the last action as action properties
\* (obs is hidden by VIEW: TLC evaluates invariants only on states it has not seen, implied actions on every transition)
A_ParseAgreesWithGrammar == [][ParseAgreesWithGrammar']_vars
A_NothingInvented == [][NothingInvented']_vars
A_MalformedRejects == [][MalformedRejects']_vars
A_NeverDeadLine == [][NeverDeadLine']_vars
A_NoByteWithoutDraw == [][NoByteWithoutDraw']_vars
A_OnlyPrefixTransport == [][OnlyPrefixTransport']_vars
A_MissingIsAnError == [][MissingIsAnError']_vars
A_UntouchedUnlessWritten == [][UntouchedUnlessWritten']_vars
A_ErrorMeansNoWrite == [][ErrorMeansNoWrite']_vars
A_ResponseMatchesEntry == [][ResponseMatchesEntry']_vars
A_PortRule == [][PortRule']_vars
A_ClientFieldsKept == [][ClientFieldsKept']_vars
A_ParOnlyNormalised == [][ParOnlyNormalised']_vars
A_FirstErrorStops == [][FirstErrorStops']_vars
A_LastWriterWins == [][LastWriterWins']_vars
A_NotWrittenNotChanged == [][NotWrittenNotChanged']_vars
A_I_NoSilentTruncation == [][I_NoSilentTruncation']_vars
A_I_MalformedNumberRejects == [][I_MalformedNumberRejects']_vars
A_I_BlankLinesIgnored == [][I_BlankLinesIgnored']_vars
A_I_PayloadUntouched == [][I_PayloadUntouched']_vars
A_I_ErrorLeavesUntouched == [][I_ErrorLeavesUntouched']_vars
A_I_FlagRespected == [][I_FlagRespected']_vars
A_I_RandUsesReader == [][I_RandUsesReader']_vars
A_I_ResponseConsistent == [][I_ResponseConsistent']_vars
=============================================================================
