// stub of the `pnet` crate for the X07 harness: the packet views src/flow_tracker.rs, src/process_packet.rs and the copied
// util::IpPacket use, with the field layout and the payload rules of pnet_packet 0.33 (Ethernet II, 802.1Q left to the caller,
// IPv4 with options and total_length, IPv6 fixed header with payload_length, TCP data offset, UDP).
pub mod packet {
    pub trait Packet { fn packet(&self) -> &[u8]; fn payload(&self) -> &[u8]; }
    fn be16(b: &[u8], i: usize) -> u16 { ((b[i] as u16) << 8) | b[i + 1] as u16 }
    fn cut(b: &[u8], start: usize, len: Option<usize>) -> &[u8] {
        if b.len() <= start { return &[]; }
        let end = match len { Some(l) => std::cmp::min(start.saturating_add(l), b.len()), None => b.len() };
        &b[start..end]
    }
    pub mod ip {
        use std::fmt;
        #[derive(Copy, Clone, PartialEq, Eq, PartialOrd, Ord, Debug, Hash)]
        pub struct IpNextHeaderProtocol(pub u8);
        impl fmt::Display for IpNextHeaderProtocol {
            fn fmt(&self, f: &mut fmt::Formatter) -> fmt::Result { match self.0 { 6 => write!(f, "Tcp"), 17 => write!(f, "Udp"), n => write!(f, "proto({})", n) } }
        }
        #[allow(non_snake_case)]
        pub mod IpNextHeaderProtocols {
            use super::IpNextHeaderProtocol;
            #[allow(non_upper_case_globals)] pub const Icmp: IpNextHeaderProtocol = IpNextHeaderProtocol(1);
            #[allow(non_upper_case_globals)] pub const Tcp: IpNextHeaderProtocol = IpNextHeaderProtocol(6);
            #[allow(non_upper_case_globals)] pub const Udp: IpNextHeaderProtocol = IpNextHeaderProtocol(17);
            #[allow(non_upper_case_globals)] pub const Icmpv6: IpNextHeaderProtocol = IpNextHeaderProtocol(58);
        }
    }
    pub mod ethernet {
        use super::{be16, cut, Packet};
        #[derive(Copy, Clone, PartialEq, Eq, PartialOrd, Ord, Debug, Hash)]
        pub struct EtherType(pub u16);
        #[allow(non_snake_case)]
        pub mod EtherTypes {
            use super::EtherType;
            #[allow(non_upper_case_globals)] pub const Ipv4: EtherType = EtherType(0x0800);
            #[allow(non_upper_case_globals)] pub const Arp: EtherType = EtherType(0x0806);
            #[allow(non_upper_case_globals)] pub const Vlan: EtherType = EtherType(0x8100);
            #[allow(non_upper_case_globals)] pub const Ipv6: EtherType = EtherType(0x86DD);
        }
        pub struct EthernetPacket<'p> { buf: &'p [u8] }
        impl<'p> EthernetPacket<'p> {
            pub fn new(buf: &'p [u8]) -> Option<EthernetPacket<'p>> { if buf.len() >= 14 { Some(EthernetPacket { buf }) } else { None } }
            pub fn get_ethertype(&self) -> EtherType { EtherType(be16(self.buf, 12)) }
        }
        impl<'p> Packet for EthernetPacket<'p> { fn packet(&self) -> &[u8] { self.buf } fn payload(&self) -> &[u8] { cut(self.buf, 14, None) } }
    }
    pub mod ipv4 {
        use super::{be16, cut, Packet};
        use super::ip::IpNextHeaderProtocol;
        use std::net::Ipv4Addr;
        pub struct Ipv4Packet<'p> { buf: &'p [u8] }
        impl<'p> Ipv4Packet<'p> {
            pub fn new(buf: &'p [u8]) -> Option<Ipv4Packet<'p>> { if buf.len() >= 20 { Some(Ipv4Packet { buf }) } else { None } }
            pub fn get_version(&self) -> u8 { self.buf[0] >> 4 }
            pub fn get_header_length(&self) -> u8 { self.buf[0] & 0x0f }
            pub fn get_total_length(&self) -> u16 { be16(self.buf, 2) }
            pub fn get_next_level_protocol(&self) -> IpNextHeaderProtocol { IpNextHeaderProtocol(self.buf[9]) }
            pub fn get_source(&self) -> Ipv4Addr { Ipv4Addr::new(self.buf[12], self.buf[13], self.buf[14], self.buf[15]) }
            pub fn get_destination(&self) -> Ipv4Addr { Ipv4Addr::new(self.buf[16], self.buf[17], self.buf[18], self.buf[19]) }
        }
        impl<'p> Packet for Ipv4Packet<'p> {
            fn packet(&self) -> &[u8] { self.buf }
            fn payload(&self) -> &[u8] {
                // pnet: options = (ihl - 5) words (saturating), payload = total_length - ihl words (saturating)
                let ihl = self.get_header_length() as usize;
                let start = 20 + ihl.saturating_sub(5) * 4;
                let plen = (self.get_total_length() as usize).saturating_sub(ihl * 4);
                cut(self.buf, start, Some(plen))
            }
        }
    }
    pub mod ipv6 {
        use super::{be16, cut, Packet};
        use super::ip::IpNextHeaderProtocol;
        use std::net::Ipv6Addr;
        pub struct Ipv6Packet<'p> { buf: &'p [u8] }
        impl<'p> Ipv6Packet<'p> {
            pub fn new(buf: &'p [u8]) -> Option<Ipv6Packet<'p>> { if buf.len() >= 40 { Some(Ipv6Packet { buf }) } else { None } }
            pub fn get_payload_length(&self) -> u16 { be16(self.buf, 4) }
            pub fn get_next_header(&self) -> IpNextHeaderProtocol { IpNextHeaderProtocol(self.buf[6]) }
            fn addr(&self, o: usize) -> Ipv6Addr { let mut a = [0u8; 16]; a.copy_from_slice(&self.buf[o..o + 16]); Ipv6Addr::from(a) }
            pub fn get_source(&self) -> Ipv6Addr { self.addr(8) }
            pub fn get_destination(&self) -> Ipv6Addr { self.addr(24) }
        }
        impl<'p> Packet for Ipv6Packet<'p> {
            fn packet(&self) -> &[u8] { self.buf }
            fn payload(&self) -> &[u8] { cut(self.buf, 40, Some(self.get_payload_length() as usize)) }
        }
    }
    pub mod tcp {
        use super::{be16, cut, Packet};
        #[allow(non_snake_case)]
        pub mod TcpFlags {
            pub const FIN: u16 = 0x001; pub const SYN: u16 = 0x002; pub const RST: u16 = 0x004; pub const PSH: u16 = 0x008;
            pub const ACK: u16 = 0x010; pub const URG: u16 = 0x020; pub const ECE: u16 = 0x040; pub const CWR: u16 = 0x080; pub const NS: u16 = 0x100;
        }
        pub struct TcpPacket<'p> { buf: &'p [u8] }
        impl<'p> TcpPacket<'p> {
            pub fn new(buf: &'p [u8]) -> Option<TcpPacket<'p>> { if buf.len() >= 20 { Some(TcpPacket { buf }) } else { None } }
            pub fn get_source(&self) -> u16 { be16(self.buf, 0) }
            pub fn get_destination(&self) -> u16 { be16(self.buf, 2) }
            pub fn get_data_offset(&self) -> u8 { self.buf[12] >> 4 }
            pub fn get_flags(&self) -> u16 { (((self.buf[12] & 1) as u16) << 8) | self.buf[13] as u16 }
        }
        impl<'p> Packet for TcpPacket<'p> {
            fn packet(&self) -> &[u8] { self.buf }
            fn payload(&self) -> &[u8] { let d = self.get_data_offset() as usize; cut(self.buf, 20 + d.saturating_sub(5) * 4, None) }
        }
    }
    pub mod udp {
        use super::{be16, cut, Packet};
        pub struct UdpPacket<'p> { buf: &'p [u8] }
        impl<'p> UdpPacket<'p> {
            pub fn new(buf: &'p [u8]) -> Option<UdpPacket<'p>> { if buf.len() >= 8 { Some(UdpPacket { buf }) } else { None } }
            pub fn get_source(&self) -> u16 { be16(self.buf, 0) }
            pub fn get_destination(&self) -> u16 { be16(self.buf, 2) }
            pub fn get_length(&self) -> u16 { be16(self.buf, 4) }
        }
        impl<'p> Packet for UdpPacket<'p> { fn packet(&self) -> &[u8] { self.buf } fn payload(&self) -> &[u8] { cut(self.buf, 8, None) } }
    }
}
