SPECIFICATION GenSpec
CONSTANTS
  Ups = {"n1", "c1", "xk1"}
  BadUps = {"xk1"}
  MaxSend = 100
  ChanCap = 1
  MaxEpochs = 100
  AuthEnforced = TRUE
  StatsMode = "loadstore"
  ShutdownMode = "onmessage"
  Depth = 6
  Lifecycle = FALSE
  SimPad = FALSE
INVARIANT Emit
CHECK_DEADLOCK FALSE
