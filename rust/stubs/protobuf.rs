// stub of the `protobuf` crate: the Message trait with parse_from_bytes
#[derive(Debug)]
pub struct Error(pub String);
impl std::fmt::Display for Error { fn fmt(&self, f: &mut std::fmt::Formatter) -> std::fmt::Result { write!(f, "{}", self.0) } }
pub trait Message: Sized { fn parse_from_bytes(b: &[u8]) -> Result<Self, Error>; }
