SPECIFICATION GenSpec
CONSTANTS
  Scenario = "3same_live"
  Protocol = "atomic"
  SweepRecheck = TRUE
  ShareEnabled = TRUE
INVARIANT Emit
CHECK_DEADLOCK FALSE
