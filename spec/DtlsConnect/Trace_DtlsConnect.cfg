SPECIFICATION TraceSpec
CONSTANTS
  Starts = {"S", "C", "X"}
  PDs = {"open", "drop"}
  PLs = {"open", "drop", "nobind"}
  Nats = {"icmp", "silent"}
  Dnats = {"ok", "fail"}
  Dups = {TRUE, FALSE}
  Keys = {"good", "bad"}
  Prios = {"none", "D", "L"}
  Coord = "none"
  LeakOnRefuse = TRUE
  CancelInSctp = FALSE
  TimeoutMode = "last"
  Broken = "none"
VIEW TraceView
INVARIANTS AtMostOneHandoff HandedAuthentic KeyReleased StationReleased ClientReleased AllClosedAtEnd StatsLegal ResultsJustified
POSTCONDITION Post
CHECK_DEADLOCK FALSE
