-------------------------- MODULE Gen_DtlsListener --------------------------
(* Scenario generator for stage B.  A behaviour of the specification fixes who takes part
   (which acceptors and dialers), with which secrets (distinct, equal, unregistered, forged),
   in which order the calls arrive and where cancellations fall.  Only the calls made by the
   users of the package (AcceptStart / DialStart / Cancel) can be imposed on the real code;
   each is recorded with q = the number of internal steps the specification took since the
   previous call (q = 0: issued back to back, q > 0: issued after a pause).  Run with
   -simulate; the driver imposes the order, the invariants are checked on whatever the real
   handshakes then do. *)
EXTENDS DtlsListener, Json
CONSTANT Depth, MaxForged
VARIABLES hist, n, q
GenInit == Init /\ hist = <<>> /\ n = 0 /\ q = 0
IsExt(o) == o.a \in {"AcceptStart", "DialStart", "Cancel"}
GenNext == /\ n < Depth
           /\ Next
           /\ Cardinality({d \in Dialers : drs'[d] # dcs'[d]}) <= MaxForged
           /\ n' = n + 1
           /\ IF IsExt(obs') THEN /\ hist' = Append(hist, obs' @@ [q |-> q]) /\ q' = 0
                             ELSE /\ hist' = hist /\ q' = q + 1
GenSpec == GenInit /\ [][GenNext]_<<vars, hist, n, q>>
Emit == (n = Depth \/ ~ENABLED GenNext) => PrintT(ToJson(hist))
=============================================================================
