\* MUST VIOLATE TotalIsSum: as found reset() forgets numCreatedToClose (D3)
SPECIFICATION SpecObj
CONSTANTS
  Conns = {"c1", "c2"}
  Kons = {}
  Asns = {"a1"}
  CCs = {"", "US"}
  Variant = "as_found"
  Broken = "none"
  MaxLoops = 0
  MaxPrints = 2
  MaxAuth = 0
VIEW view
CONSTRAINT Canon
INVARIANTS TotalIsSum
CHECK_DEADLOCK FALSE
