\* AS FOUND (what the conformance stage is run against)
SPECIFICATION Spec
CONSTANTS
  Addrs = {"dummy", "a1"}
  Cap = 3
  Bursts = {1, 2, 4}
  MaxPk = 6
  ReadAfterClose = "panic"
VIEW view
INVARIANTS TypeOK FifoIn FifoOut BlockedOnlyIfEmptyAndOpen
PROPERTIES DropsOnlyWhenFull
CHECK_DEADLOCK FALSE
