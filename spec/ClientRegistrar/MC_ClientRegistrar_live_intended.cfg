\* liveness, intended: a cancelled call returns even if answers are lost
SPECIFICATION LossySpec
CONSTANTS
  Variant = "intended"
  Configs <- CfgGenA
  ApiOutcomes = {"neterr", "s500", "garbage", "R1", "RB"}
  DnsOutcomes = {"servfail", "nosuccess", "nobidi", "R1", "RB"}
PROPERTIES CancelLeadsToReturn
CHECK_DEADLOCK FALSE
