SPECIFICATION Spec
CONSTANTS
  Profile = "caller"
  Defects = {}
  Broken = {}
INVARIANTS TypeOK CallerRespectsFlag CallerPortNeverInvented I_PsrReachesOverrides I_FilePortReachesClient
PROPERTIES RejectedLoadChangesNothing
CHECK_DEADLOCK FALSE
