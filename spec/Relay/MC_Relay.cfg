SPECIFICATION FairSpec
CONSTANTS
  MaxReads = 2
  ChunkSizes = {1, 2}
  ReadErrs = {"EOF", "RST", "EPIPE", "timeout", "other", "closed"}
  WriteErrs = {"EPIPE", "RST", "timeout", "other", "closed"}
  ForwardWithErr = TRUE
  DialMayFail = TRUE
VIEW view
INVARIANTS TypeOK PrefixFidelity NothingReadIsLost InFlightOnly CountsMatch BothClosed EndedClosesBoth NoExtraClose GaugeBalanced
PROPERTIES NoWriteAfterEnd Returns AllClosesHappen
CHECK_DEADLOCK FALSE
