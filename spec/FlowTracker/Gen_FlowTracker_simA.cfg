SPECIFICATION GenSpec
CONSTANTS
  FlowInfo <- FlowsSimA
  Keys = {"k1", "k2"}
  T = 2
  K = 20
  SessTimeouts = {1, 3, 30}
  TickSteps = {1, 2, 21}
  MaxT = 0
  MaxQ = 3
  MaxLag = 2
  StaleEvent = "kills"
  DropRemoves = TRUE
  DueCmp = "le"
  KeepLonger = TRUE
  Level = "both"
  FlagKinds = {"syn", "ack", "fin", "rst"}
  PayloadKinds = {"none", "app_tag", "app_notag"}
  FrameKinds = {"eth", "vlan"}
  Depth = 30
INVARIANT Emit
CHECK_DEADLOCK FALSE
