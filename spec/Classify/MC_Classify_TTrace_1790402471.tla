---- MODULE MC_Classify_TTrace_1790402471 ----
EXTENDS Sequences, TLCExt, Toolbox, Naturals, TLC, MC_Classify

_expression ==
    LET MC_Classify_TEExpression == INSTANCE MC_Classify_TEExpression
    IN MC_Classify_TEExpression!expression
----

_trace ==
    LET MC_Classify_TETrace == INSTANCE MC_Classify_TETrace
    IN MC_Classify_TETrace!trace
----

_inv ==
    ~(
        TLCGet("level") = Len(_TETrace)
        /\
        phase = ("offer")
        /\
        consumed = (0)
        /\
        obs = ([a |-> "Write"])
        /\
        c = ([t |-> "min", ok |-> TRUE, terr |-> FALSE, H |-> 2, pofs |-> 0, total |-> 4, occ |-> 1])
        /\
        alive = ({"min", "prefix", "obfs4"})
        /\
        dlSet = (TRUE)
        /\
        rcvd = (2)
        /\
        used = (FALSE)
        /\
        readn = (2)
        /\
        sent = (2)
        /\
        todo = ({"min", "prefix", "obfs4"})
        /\
        expired = (FALSE)
        /\
        peerClosed = (FALSE)
        /\
        matched = ("none")
        /\
        written = (1)
        /\
        returned = (FALSE)
    )
----

_init ==
    /\ phase = _TETrace[1].phase
    /\ readn = _TETrace[1].readn
    /\ matched = _TETrace[1].matched
    /\ alive = _TETrace[1].alive
    /\ peerClosed = _TETrace[1].peerClosed
    /\ c = _TETrace[1].c
    /\ written = _TETrace[1].written
    /\ consumed = _TETrace[1].consumed
    /\ rcvd = _TETrace[1].rcvd
    /\ dlSet = _TETrace[1].dlSet
    /\ used = _TETrace[1].used
    /\ expired = _TETrace[1].expired
    /\ sent = _TETrace[1].sent
    /\ obs = _TETrace[1].obs
    /\ todo = _TETrace[1].todo
    /\ returned = _TETrace[1].returned
----

_next ==
    /\ \E i,j \in DOMAIN _TETrace:
        /\ \/ /\ j = i + 1
              /\ i = TLCGet("level")
        /\ phase  = _TETrace[i].phase
        /\ phase' = _TETrace[j].phase
        /\ readn  = _TETrace[i].readn
        /\ readn' = _TETrace[j].readn
        /\ matched  = _TETrace[i].matched
        /\ matched' = _TETrace[j].matched
        /\ alive  = _TETrace[i].alive
        /\ alive' = _TETrace[j].alive
        /\ peerClosed  = _TETrace[i].peerClosed
        /\ peerClosed' = _TETrace[j].peerClosed
        /\ c  = _TETrace[i].c
        /\ c' = _TETrace[j].c
        /\ written  = _TETrace[i].written
        /\ written' = _TETrace[j].written
        /\ consumed  = _TETrace[i].consumed
        /\ consumed' = _TETrace[j].consumed
        /\ rcvd  = _TETrace[i].rcvd
        /\ rcvd' = _TETrace[j].rcvd
        /\ dlSet  = _TETrace[i].dlSet
        /\ dlSet' = _TETrace[j].dlSet
        /\ used  = _TETrace[i].used
        /\ used' = _TETrace[j].used
        /\ expired  = _TETrace[i].expired
        /\ expired' = _TETrace[j].expired
        /\ sent  = _TETrace[i].sent
        /\ sent' = _TETrace[j].sent
        /\ obs  = _TETrace[i].obs
        /\ obs' = _TETrace[j].obs
        /\ todo  = _TETrace[i].todo
        /\ todo' = _TETrace[j].todo
        /\ returned  = _TETrace[i].returned
        /\ returned' = _TETrace[j].returned

\* Uncomment the ASSUME below to write the states of the error trace
\* to the given file in Json format. Note that you can pass any tuple
\* to `JsonSerialize`. For example, a sub-sequence of _TETrace.
    \* ASSUME
    \*     LET J == INSTANCE Json
    \*         IN J!JsonSerialize("MC_Classify_TTrace_1790402471.json", _TETrace)

=============================================================================

 Note that you can extract this module `MC_Classify_TEExpression`
  to a dedicated file to reuse `expression` (the module in the 
  dedicated `MC_Classify_TEExpression.tla` file takes precedence 
  over the module `MC_Classify_TEExpression` below).

---- MODULE MC_Classify_TEExpression ----
EXTENDS Sequences, TLCExt, Toolbox, Naturals, TLC, MC_Classify

expression == 
    [
        \* To hide variables of the `MC_Classify` spec from the error trace,
        \* remove the variables below.  The trace will be written in the order
        \* of the fields of this record.
        phase |-> phase
        ,readn |-> readn
        ,matched |-> matched
        ,alive |-> alive
        ,peerClosed |-> peerClosed
        ,c |-> c
        ,written |-> written
        ,consumed |-> consumed
        ,rcvd |-> rcvd
        ,dlSet |-> dlSet
        ,used |-> used
        ,expired |-> expired
        ,sent |-> sent
        ,obs |-> obs
        ,todo |-> todo
        ,returned |-> returned
        
        \* Put additional constant-, state-, and action-level expressions here:
        \* ,_stateNumber |-> _TEPosition
        \* ,_phaseUnchanged |-> phase = phase'
        
        \* Format the `phase` variable as Json value.
        \* ,_phaseJson |->
        \*     LET J == INSTANCE Json
        \*     IN J!ToJson(phase)
        
        \* Lastly, you may build expressions over arbitrary sets of states by
        \* leveraging the _TETrace operator.  For example, this is how to
        \* count the number of times a spec variable changed up to the current
        \* state in the trace.
        \* ,_phaseModCount |->
        \*     LET F[s \in DOMAIN _TETrace] ==
        \*         IF s = 1 THEN 0
        \*         ELSE IF _TETrace[s].phase # _TETrace[s-1].phase
        \*             THEN 1 + F[s-1] ELSE F[s-1]
        \*     IN F[_TEPosition - 1]
    ]

=============================================================================



Parsing and semantic processing can take forever if the trace below is long.
 In this case, it is advised to uncomment the module below to deserialize the
 trace from a generated binary file.

\*
\*---- MODULE MC_Classify_TETrace ----
\*EXTENDS IOUtils, TLC, MC_Classify
\*
\*trace == IODeserialize("MC_Classify_TTrace_1790402471.bin", TRUE)
\*
\*=============================================================================
\*

---- MODULE MC_Classify_TETrace ----
EXTENDS TLC, MC_Classify

trace == 
    <<
    ([phase |-> "init",consumed |-> 0,obs |-> [a |-> "Init"],c |-> [t |-> "min", ok |-> TRUE, terr |-> FALSE, H |-> 2, pofs |-> 0, total |-> 4, occ |-> 1],alive |-> {"min", "prefix", "obfs4"},dlSet |-> FALSE,rcvd |-> 0,used |-> FALSE,readn |-> 0,sent |-> 0,todo |-> {},expired |-> FALSE,peerClosed |-> FALSE,matched |-> "none",written |-> 0,returned |-> FALSE]),
    ([phase |-> "read",consumed |-> 0,obs |-> [a |-> "SetDeadline"],c |-> [t |-> "min", ok |-> TRUE, terr |-> FALSE, H |-> 2, pofs |-> 0, total |-> 4, occ |-> 1],alive |-> {"min", "prefix", "obfs4"},dlSet |-> TRUE,rcvd |-> 0,used |-> FALSE,readn |-> 0,sent |-> 0,todo |-> {},expired |-> FALSE,peerClosed |-> FALSE,matched |-> "none",written |-> 0,returned |-> FALSE]),
    ([phase |-> "read",consumed |-> 0,obs |-> [a |-> "Send", k |-> 2],c |-> [t |-> "min", ok |-> TRUE, terr |-> FALSE, H |-> 2, pofs |-> 0, total |-> 4, occ |-> 1],alive |-> {"min", "prefix", "obfs4"},dlSet |-> TRUE,rcvd |-> 0,used |-> FALSE,readn |-> 0,sent |-> 2,todo |-> {},expired |-> FALSE,peerClosed |-> FALSE,matched |-> "none",written |-> 0,returned |-> FALSE]),
    ([phase |-> "offer",consumed |-> 0,obs |-> [n |-> 2, a |-> "Read"],c |-> [t |-> "min", ok |-> TRUE, terr |-> FALSE, H |-> 2, pofs |-> 0, total |-> 4, occ |-> 1],alive |-> {"min", "prefix", "obfs4"},dlSet |-> TRUE,rcvd |-> 2,used |-> FALSE,readn |-> 2,sent |-> 2,todo |-> {"min", "prefix", "obfs4"},expired |-> FALSE,peerClosed |-> FALSE,matched |-> "none",written |-> 0,returned |-> FALSE]),
    ([phase |-> "offer",consumed |-> 0,obs |-> [a |-> "Write"],c |-> [t |-> "min", ok |-> TRUE, terr |-> FALSE, H |-> 2, pofs |-> 0, total |-> 4, occ |-> 1],alive |-> {"min", "prefix", "obfs4"},dlSet |-> TRUE,rcvd |-> 2,used |-> FALSE,readn |-> 2,sent |-> 2,todo |-> {"min", "prefix", "obfs4"},expired |-> FALSE,peerClosed |-> FALSE,matched |-> "none",written |-> 1,returned |-> FALSE])
    >>
----


=============================================================================

---- CONFIG MC_Classify_TTrace_1790402471 ----
CONSTANTS
    MinTag = 2
    PfxTag = 3
    ObfsMin = 3
    ObfsMax = 6
    MaxRead = 3
    MaxW = 2
    Cases <- MCCases

INVARIANT
    _inv

CHECK_DEADLOCK
    \* CHECK_DEADLOCK off because of PROPERTY or INVARIANT above.
    FALSE

INIT
    _init

NEXT
    _next

CONSTANT
    _TETrace <- _trace

ALIAS
    _expression
=============================================================================
\* Generated on Sat Sep 26 06:01:12 UTC 2026