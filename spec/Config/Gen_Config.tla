----------------------------- MODULE Gen_Config -----------------------------
(* Behaviour generator for stage B (spec -> implementation replay): one start-up followed by reloads.
   Housekeeping is not a separate step here: the projection after every step carries, for every module,
   whether its statistics tick / the sweep ran without panic (the driver runs the whole suite after every
   action), and the measured enforcement of every named entry.
   Mode "exh": every row of the configured domains (Depth = 1: the decision table "one implementation
   test per Load transition"; Depth > 1: every reload sequence).  Mode "sim" (with -simulate): each key's
   value is drawn independently with RandomElement, which samples the full product of large domains
   without enumerating it. *)
EXTENDS Config, Json
CONSTANTS Depth, Mode, GoodWeight
VARIABLE hist

\* (the dependence on hist keeps TLC from evaluating the draw once, as a constant)
\* Values that make a load fail are drawn with weight 1, all others with weight GoodWeight, so that a useful
\* share of the sampled configurations is accepted and goes on to housekeeping and reloads.
Failing == {"bad", "badfirst", "badonly", "missing", "garbage", "malformed", "badgen", "syntax", "wrongtype", "unreadable"}
RE(S) == RandomElement(IF Len(hist) >= 0
                         THEN ((S \ Failing) \X (1..GoodWeight)) \cup ((S \cap Failing) \X {1})
                         ELSE {})[1]
Pick(fk, row) == IF fk = "ok" THEN row ELSE IF fk = "shipped" THEN Shipped ELSE [Unset EXCEPT !.fk = fk]
\* the shipped file is drawn for about one row in sixteen
DrawShipped == WithShipped /\ RandomElement(IF Len(hist) >= 0 THEN 1..16 ELSE {}) = 1
RandRow == IF DrawShipped THEN Shipped ELSE
           Pick(RE(FK),
                [ld |-> RE(LD), lc |-> RE(LC), nd |-> RE(ND), nc |-> RE(NC),
                 cbs |-> RE(CBS), cas |-> RE(CAS), cbd |-> RE(CBD),
                 pbl |-> RE(PBL), geo |-> RE(GEO), wk |-> RE(WK),
                 pub |-> RE(PUB), fk |-> "ok"])
RandRRow == IF DrawShipped THEN Shipped ELSE
            Pick(RE(RFK),
                 [Unset EXCEPT !.cbs = RE(RCBS), !.cas = RE(RCAS), !.cbd = RE(RCBD),
                               !.pbl = RE(RPBL), !.geo = RE(RGEO), !.pub = RE(RPUB)])

Done == Len(hist) = Depth \/ (Len(hist) > 0 /\ st # "up")
GenInit == Init /\ hist = <<>>
GenNext == /\ ~Done
           /\ IF Mode = "sim"
                THEN IF hist = <<>> THEN Load(RandRow, RE(SF)) ELSE Reload(RandRRow, RE(RSF))
                ELSE NextNoHK
           /\ hist' = Append(hist, obs')
GenSpec == GenInit /\ [][GenNext]_<<vars, hist>>
Emit == ~Done \/ PrintT(ToJson(hist))
=============================================================================
