//go:build verif

package overrides

// X09 - conformance drivers for spec/PrefixOverride (the registrar's file-driven registration overrides).
//
//   TestVerifPrefixOverrideReplay  stage B: behaviours printed by Gen_PrefixOverride (VERIF_IN, one JSON list of events per line)
//                                  are executed on the real ParsePrefixes / NewPrefixTransportOverride, the real prefixes /
//                                  barPrefix selection under a scripted random reader, the real PrefixOverride /
//                                  FixedPrefixOverride / RandPrefixOverride inside a real interfaces.Overrides; every event the
//                                  real code produces is abstracted (independently of the expectation) and compared.
//   TestVerifPrefixOverrideRandom  stage C: a seeded random driver (not derived from the specification) records the same events
//                                  for Trace_PrefixOverride.
//
// Observation without touching the code: every element of the parsed table is wrapped in a recording prefixIface (which line
// prefixes.selectPrefix consulted), every override of the chain in a recording RegOverride (registration before / after, bytes
// the reader lost, error), the reader is a bytes.Reader.  RandPrefixOverride ignores the reader it is given (it draws from
// crypto/rand.Reader); in stage B its choice is steered by swapping the exported prefix.DefaultPrefixes map for a one-element
// map around the call, in stage C it runs unsteered and the prefix it drew is read off the response.

import (
	"bytes"
	"encoding/json"
	"errors"
	"fmt"
	"io"
	"math/rand"
	"os"
	"path/filepath"
	"strings"
	"testing"

	"github.com/refraction-networking/conjure/pkg/core/interfaces"
	"github.com/refraction-networking/conjure/pkg/transports/wrapping/prefix"
	pb "github.com/refraction-networking/conjure/proto"
	"google.golang.org/protobuf/proto"
	"google.golang.org/protobuf/types/known/anypb"
)

// ------------------------------------------------------------------ abstract inputs (as TLC prints them)

type xTok struct {
	T  string `json:"t"`
	V  int64  `json:"v"`
	Hi int64  `json:"hi"`
}

type xLine struct {
	K    string `json:"k"`
	Max  xTok   `json:"max"`
	Bar  xTok   `json:"bar"`
	Id   xTok   `json:"id"`
	Port xTok   `json:"port"`
	Pfx  string `json:"pfx"`
	Fmt  string `json:"fmt"`
	N    string `json:"n"`
}

type xFile struct {
	Lines []xLine `json:"lines"`
	Nl    bool    `json:"nl"`
	Eol   string  `json:"eol"`
}

type xReg struct {
	Wrap string         `json:"wrap"`
	Tt   string         `json:"tt"`
	Dis  string         `json:"dis"`
	Par  string         `json:"par"`
	Rnd  string         `json:"rnd"`
	Resp map[string]any `json:"resp"`
}

type xEvent struct {
	A     string  `json:"a"`
	File  *xFile  `json:"file,omitempty"`
	Chain []string `json:"chain,omitempty"`
	Fid   int     `json:"fid"`
	Reg   *xReg   `json:"reg,omitempty"`
	Bytes []int   `json:"bytes,omitempty"`
	Kind  string  `json:"kind,omitempty"`
	Pid   int     `json:"pid"`
}

const xTwo32 = int64(1) << 32

func xChars(n string) int {
	switch n {
	case "m1":
		return 65534
	case "max":
		return 65535
	case "over":
		return 65536
	}
	return 0
}

func xClass(n int) string {
	switch n {
	case 65534:
		return "m1"
	case 65535:
		return "max"
	case 65536:
		return "over"
	}
	return "short"
}

// xNum renders one numeric token.  Unparsable tokens carry the line and the position so that the error message identifies them.
func xNum(tk xTok, f string, line, pos int) string {
	switch tk.T {
	case "bad":
		return []string{fmt.Sprintf("x%dy%d", pos, line), fmt.Sprintf("1.%d%d", pos, line), fmt.Sprintf("%d%da", pos, line), fmt.Sprintf("0x%d%dg", pos, line)}[(line+pos)%4]
	case "over":
		return fmt.Sprintf("999999999999999999%d%d", line%10, pos)
	case "under":
		return fmt.Sprintf("-999999999999999999%d%d", line%10, pos)
	}
	v := tk.Hi*xTwo32 + tk.V
	if v < 0 {
		return fmt.Sprintf("%d", v)
	}
	switch f {
	case "hex":
		return fmt.Sprintf("0x%x", v)
	case "oct":
		if v > 0 {
			return fmt.Sprintf("0%o", v)
		}
	case "und":
		if v >= 1000 {
			return fmt.Sprintf("%d_%03d", v/1000, v%1000)
		}
		return fmt.Sprintf("0x_%x", v)
	case "plus":
		return fmt.Sprintf("+%d", v)
	}
	return fmt.Sprintf("%d", v)
}

func xPfxText(name string) string { return name + "-" + strings.ToLower(name) + "fx" }

func xLineText(l xLine, idx int) string {
	switch l.K {
	case "blank":
		return ""
	case "comment":
		s := "# a comment 100 1 0x21 80 X"
		if c := xChars(l.N); c > 0 {
			s += strings.Repeat("c", c-len(s))
		}
		return s
	case "ws":
		return []string{"  ", "\t", " \t  "}[idx%3]
	case "icomment":
		return []string{"  # indented", "\t#x y"}[idx%2]
	}
	f := l.Fmt
	long := xChars(l.N) > 0
	if long {
		f = "dec"
	}
	toks := []string{xNum(l.Max, f, idx, 0), xNum(l.Bar, f, idx, 1), xNum(l.Id, f, idx, 2), xNum(l.Port, f, idx, 3)}
	if l.K != "few" {
		toks = append(toks, xPfxText(l.Pfx))
	}
	if l.K == "many" {
		toks = append(toks, []string{"extra", "#", "2"}[idx%3])
	}
	if f == "tabs" && !long {
		return " " + toks[0] + "\t" + toks[1] + "  " + toks[2] + "\t \t" + strings.Join(toks[3:], " \t") + " "
	}
	s := strings.Join(toks, " ")
	if c := xChars(l.N); c > 0 {
		s += strings.Repeat("A", c-len(s))
	}
	return s
}

// xRender gives the bytes of the file and whether the reader fails after them.
func xRender(f *xFile) (string, bool, []string) {
	eol := "\n"
	if f.Eol == "crlf" {
		eol = "\r\n"
	}
	var sb strings.Builder
	texts := make([]string, len(f.Lines))
	for i, l := range f.Lines {
		if l.K == "ioerr" {
			texts[i] = "\x00ioerr"
			return sb.String(), true, texts
		}
		texts[i] = xLineText(l, i+1)
		sb.WriteString(texts[i])
		if i < len(f.Lines)-1 || f.Nl {
			sb.WriteString(eol)
		}
	}
	return sb.String(), false, texts
}

type xFailReader struct {
	r    *strings.Reader
	fail bool
}

var errXDisk = errors.New("verif: read error")

func (e *xFailReader) Read(p []byte) (int, error) {
	n, err := e.r.Read(p)
	if err == io.EOF && e.fail {
		return n, errXDisk
	}
	return n, err
}

// ------------------------------------------------------------------ abstraction of what the real code produced

var xOrigDefaults = func() map[prefix.PrefixID]prefix.Prefix {
	m := map[prefix.PrefixID]prefix.Prefix{}
	for k, v := range prefix.DefaultPrefixes {
		m[k] = v
	}
	return m
}()

func xEntryOf(bp barPrefix) map[string]any {
	split := func(v int) map[string]any {
		x := int64(v)
		if x >= xTwo32 {
			return map[string]any{"v": x - xTwo32, "hi": 1}
		}
		return map[string]any{"v": x, "hi": 0}
	}
	name, n := xPfxName(bp.prefix, fmt.Sprintf("%d %d %d %d ", bp.max, bp.bar, bp.id, bp.port))
	return map[string]any{"max": bp.max, "bar": bp.bar, "id": split(bp.id), "port": split(bp.port), "pfx": name, "n": n, "flush": bp.flushPolicy}
}

// xPfxName maps prefix bytes back to the model's name and the length class of the line they were written on.
func xPfxName(b []byte, numbers string) (string, string) {
	s := string(b)
	n := "short"
	if len(s) > 1000 {
		n = xClass(len(numbers) + len(s))
		s = strings.TrimRight(s, "A")
	}
	if i := strings.Index(s, "-"); i > 0 && s == xPfxText(s[:i]) {
		return s[:i], n
	}
	return "?" + s, n
}

type xTable struct {
	po      *PrefixOverride // the object under test (its table elements wrapped in recorders)
	entries []barPrefix
	lastIdx int
}

type xRecPrefix struct {
	inner barPrefix
	idx   int
	t     *xTable
}

func (r xRecPrefix) selectPrefix(rd io.Reader, c2s *pb.C2SWrapper) (*fieldsToOverwrite, bool) {
	r.t.lastIdx = r.idx
	return r.inner.selectPrefix(rd, c2s)
}

func xWrapTable(po *PrefixOverride) (*xTable, error) {
	t := &xTable{}
	if po == nil || po.prefixes == nil {
		return nil, fmt.Errorf("nil table")
	}
	wrapped := prefixes{}
	for i, p := range *po.prefixes {
		bp, ok := p.(barPrefix)
		if !ok {
			return nil, fmt.Errorf("table element %d is %T", i, p)
		}
		t.entries = append(t.entries, bp)
		wrapped = append(wrapped, xRecPrefix{bp, i + 1, t})
	}
	t.po = &PrefixOverride{prefixes: &wrapped}
	return t, nil
}

// xLoad runs the real loader on the rendered file and abstracts the outcome into the model's Load observation.
func xLoad(f *xFile, dir string, seq int) (map[string]any, *xTable) {
	text, fail, texts := xRender(f)
	var po *PrefixOverride
	var err error
	note := ""
	if fail {
		po, err = ParsePrefixes(&xFailReader{strings.NewReader(text), true})
	} else {
		// the path main.go uses: a file on disk
		p := filepath.Join(dir, fmt.Sprintf("prefixes_%d.conf", seq))
		if werr := os.WriteFile(p, []byte(text), 0o600); werr != nil {
			panic(werr)
		}
		var ov interfaces.RegOverride
		ov, err = NewPrefixTransportOverride(p)
		os.Remove(p)
		if err == nil {
			var ok bool
			if po, ok = ov.(*PrefixOverride); !ok {
				note = fmt.Sprintf("NewPrefixTransportOverride returned %T", ov)
			}
		}
		// and the exported parser on the same bytes must agree
		po2, err2 := ParsePrefixes(strings.NewReader(text))
		if (err == nil) != (err2 == nil) || (err != nil && err.Error() != err2.Error()) {
			note += fmt.Sprintf(" file/reader disagree: %v vs %v", err, err2)
		} else if err == nil && po != nil && len(*po.prefixes) != len(*po2.prefixes) {
			note += " file/reader tables differ"
		}
	}
	got := map[string]any{"a": "Load", "res": "accepted", "why": "none", "at": 0, "tok": -1, "tbl": []any{}}
	if note != "" {
		got["note"] = note
	}
	if err != nil {
		got["res"] = "rejected"
		msg := err.Error()
		switch {
		case strings.HasPrefix(msg, "malformed line: "):
			got["why"] = "malformed"
			lt := strings.TrimPrefix(msg, "malformed line: ")
			for i, tx := range texts {
				if tx == lt {
					got["at"] = i + 1
					break
				}
			}
		case strings.HasPrefix(msg, "prefix override parse error: ("):
			got["why"] = "number"
			tokText := msg[len("prefix override parse error: ("):]
			if j := strings.Index(tokText, ")"); j >= 0 {
				tokText = tokText[:j]
			}
		find:
			for i, l := range f.Lines {
				if l.K != "entry" {
					continue
				}
				for pos, fld := range strings.Fields(texts[i]) {
					if pos < 4 && fld == tokText {
						got["at"], got["tok"] = i+1, pos
						break find
					}
				}
			}
		default:
			got["why"] = "other: " + msg
		}
		return got, nil
	}
	t, werr := xWrapTable(po)
	if werr != nil {
		got["res"] = "broken: " + werr.Error()
		return got, nil
	}
	tbl := []any{}
	for _, bp := range t.entries {
		tbl = append(tbl, xEntryOf(bp))
	}
	got["tbl"] = tbl
	return got, t
}

// ------------------------------------------------------------------ registrations

const (
	xURLPrefix  = "type.googleapis.com/proto.PrefixTransportParams"
	xURLTd      = "type.googleapis.com/tapdance.PrefixTransportParams"
	xURLGen     = "type.googleapis.com/proto.GenericTransportParams"
	xURLTdGen   = "type.googleapis.com/tapdance.GenericTransportParams"
	xURLJunk    = "junk"
	xClientID   = 3
	xClientFl   = 2
	xOldID      = 7
	xRespIPv4   = 0x0a000001
	xCovertAddr = "192.0.2.7:443"
)

func xRndPtr(r string) *bool {
	switch r {
	case "true":
		return proto.Bool(true)
	case "false":
		return proto.Bool(false)
	}
	return nil
}

func xRndOf(p *bool) string {
	if p == nil {
		return "unset"
	}
	if *p {
		return "true"
	}
	return "false"
}

var xOldAny = func() *anypb.Any {
	a, err := anypb.New(&pb.PrefixTransportParams{PrefixId: proto.Int32(xOldID), Prefix: []byte("OLD")})
	if err != nil {
		panic(err)
	}
	return a
}()

func xBuildReg(r *xReg) *pb.C2SWrapper {
	if r.Wrap == "nil" {
		return nil
	}
	src := pb.RegistrationSource_API
	w := &pb.C2SWrapper{SharedSecret: vSecret("x09"), RegistrationSource: &src, RegistrationAddress: []byte{10, 1, 2, 3}}
	if r.Wrap == "nopayload" {
		return w
	}
	c := &pb.ClientToStation{V4Support: proto.Bool(true), ClientLibVersion: proto.Uint32(3), DecoyListGeneration: proto.Uint32(7), CovertAddress: proto.String(xCovertAddr)}
	switch r.Tt {
	case "prefix":
		t := pb.TransportType_Prefix
		c.Transport = &t
	case "min":
		t := pb.TransportType_Min
		c.Transport = &t
	}
	switch r.Dis {
	case "no":
		c.DisableRegistrarOverrides = proto.Bool(false)
	case "yes":
		c.DisableRegistrarOverrides = proto.Bool(true)
	}
	pv, _ := proto.MarshalOptions{Deterministic: true}.Marshal(&pb.PrefixTransportParams{PrefixId: proto.Int32(xClientID), CustomFlushPolicy: proto.Int32(xClientFl), RandomizeDstPort: xRndPtr(r.Rnd)})
	gv, _ := proto.MarshalOptions{Deterministic: true}.Marshal(&pb.GenericTransportParams{RandomizeDstPort: xRndPtr(r.Rnd)})
	switch r.Par {
	case "emptyurl":
		c.TransportParams = &anypb.Any{TypeUrl: "", Value: pv}
	case "proto":
		c.TransportParams = &anypb.Any{TypeUrl: xURLPrefix, Value: pv}
	case "tapdance":
		c.TransportParams = &anypb.Any{TypeUrl: xURLTd, Value: pv}
	case "tdgeneric":
		c.TransportParams = &anypb.Any{TypeUrl: xURLTdGen, Value: gv}
	case "pgeneric":
		c.TransportParams = &anypb.Any{TypeUrl: xURLGen, Value: gv}
	case "junkurl":
		c.TransportParams = &anypb.Any{TypeUrl: xURLJunk, Value: pv}
	case "badvalue":
		c.TransportParams = &anypb.Any{TypeUrl: xURLPrefix, Value: []byte{0xff, 0xff, 0xff, map[string]byte{"unset": 0x7d, "false": 0x7e, "true": 0x7f}[r.Rnd]}}
	}
	w.RegistrationPayload = c
	if _, none := r.Resp["none"]; !none && r.Resp != nil {
		rr := &pb.RegistrationResponse{Ipv4Addr: proto.Uint32(xRespIPv4), PhantomsSupportPortRand: proto.Bool(r.Resp["psr"].(bool))}
		if p := uint32(r.Resp["port"].(float64)); p != 0 {
			rr.DstPort = proto.Uint32(p)
		}
		if tp, ok := r.Resp["tp"].(map[string]any); ok {
			if _, old := tp["old"]; old {
				rr.TransportParams = proto.Clone(xOldAny).(*anypb.Any)
			}
		}
		w.RegistrationResponse = rr
	}
	return w
}

// xAbsReg abstracts a real C2SWrapper into the model's registration shape.
func xAbsReg(w *pb.C2SWrapper, t *xTable) map[string]any {
	none := map[string]any{"none": true}
	out := map[string]any{"wrap": "ok", "tt": "prefix", "dis": "unset", "par": "nil", "rnd": "unset", "resp": none}
	if w == nil {
		out["wrap"] = "nil"
		return out
	}
	c := w.RegistrationPayload
	if c == nil {
		out["wrap"] = "nopayload"
		return out
	}
	switch {
	case c.Transport == nil:
		out["tt"] = "unset"
	case *c.Transport == pb.TransportType_Prefix:
		out["tt"] = "prefix"
	case *c.Transport == pb.TransportType_Min:
		out["tt"] = "min"
	default:
		out["tt"] = "other"
	}
	if c.DisableRegistrarOverrides != nil {
		out["dis"] = map[bool]string{false: "no", true: "yes"}[*c.DisableRegistrarOverrides]
	}
	if a := c.TransportParams; a != nil {
		bad := len(a.Value) == 4 && a.Value[0] == 0xff
		switch a.TypeUrl {
		case "":
			out["par"] = "emptyurl"
		case xURLPrefix:
			out["par"] = "proto"
			if bad {
				out["par"] = "badvalue"
			}
		case xURLTd:
			out["par"] = "tapdance"
		case xURLTdGen:
			out["par"] = "tdgeneric"
		case xURLGen:
			out["par"] = "pgeneric"
		case xURLJunk:
			out["par"] = "junkurl"
		default:
			out["par"] = "?" + a.TypeUrl
		}
		if bad {
			out["rnd"] = map[byte]string{0x7d: "unset", 0x7e: "false", 0x7f: "true"}[a.Value[3]]
		} else {
			p := &pb.PrefixTransportParams{}
			if err := proto.Unmarshal(a.Value, p); err != nil {
				out["rnd"] = "?undecodable"
			} else {
				out["rnd"] = xRndOf(p.RandomizeDstPort)
			}
		}
	}
	if rr := w.RegistrationResponse; rr != nil {
		resp := map[string]any{"port": rr.GetDstPort(), "psr": rr.GetPhantomsSupportPortRand(), "tp": none}
		if a := rr.TransportParams; a != nil {
			if proto.Equal(a, xOldAny) {
				resp["tp"] = map[string]any{"old": true}
			} else {
				p := &pb.PrefixTransportParams{}
				if a.TypeUrl != xURLPrefix {
					resp["tp"] = map[string]any{"badurl": a.TypeUrl}
				} else if err := proto.Unmarshal(a.Value, p); err != nil {
					resp["tp"] = map[string]any{"undecodable": err.Error()}
				} else {
					name, n := xRespPfx(p, t)
					fl := int32(-1)
					if p.CustomFlushPolicy != nil {
						fl = *p.CustomFlushPolicy
					}
					id := any("unset")
					if p.PrefixId != nil {
						id = *p.PrefixId
					}
					resp["tp"] = map[string]any{"pfx": name, "id": id, "flush": fl, "rnd": xRndOf(p.RandomizeDstPort), "n": n}
				}
			}
		}
		out["resp"] = resp
	}
	return out
}

func xRespPfx(p *pb.PrefixTransportParams, t *xTable) (string, string) {
	b := p.GetPrefix()
	if d, ok := xOrigDefaults[prefix.PrefixID(p.GetPrefixId())]; ok && bytes.Equal(d.Bytes(), b) && !strings.Contains(string(b), "fx") {
		return fmt.Sprintf("def%d", p.GetPrefixId()), "short"
	}
	numbers := ""
	if t != nil {
		for _, e := range t.entries {
			if bytes.Equal(e.prefix, b) {
				numbers = fmt.Sprintf("%d %d %d %d ", e.max, e.bar, e.id, e.port)
				break
			}
		}
	}
	return xPfxName(b, numbers)
}

// xRest is a digest of everything the model does not describe (secret, source, addresses, the client's parameter bytes, the
// response's phantom address ...): no override may change any of it.
func xRest(w *pb.C2SWrapper) string {
	if w == nil {
		return "nil"
	}
	c := proto.Clone(w).(*pb.C2SWrapper)
	if c.RegistrationPayload != nil && c.RegistrationPayload.TransportParams != nil {
		c.RegistrationPayload.TransportParams.TypeUrl = ""
	}
	if c.RegistrationResponse == nil {
		c.RegistrationResponse = &pb.RegistrationResponse{}
	}
	c.RegistrationResponse.DstPort = nil
	c.RegistrationResponse.TransportParams = nil
	if c.RegistrationResponse.PhantomsSupportPortRand != nil && !*c.RegistrationResponse.PhantomsSupportPortRand {
		c.RegistrationResponse.PhantomsSupportPortRand = nil
	}
	b, err := proto.MarshalOptions{Deterministic: true}.Marshal(c)
	if err != nil {
		return "marshal: " + err.Error()
	}
	return string(b)
}

func xBits(w *pb.C2SWrapper) string {
	if w == nil {
		return "nil"
	}
	b, err := proto.MarshalOptions{Deterministic: true}.Marshal(w)
	if err != nil {
		return "marshal: " + err.Error()
	}
	return string(b)
}

func xErrClass(err error) string {
	switch {
	case err == nil:
		return "none"
	case errors.Is(err, ErrMissingRegistration):
		return "missing"
	case errors.Is(err, errXStub):
		return "stub"
	case strings.Contains(err.Error(), "incorrect non-empty TypeUrl"):
		return "typeurl"
	case strings.Contains(err.Error(), "cannot parse invalid wire-format data"):
		return "wire"
	}
	return "other: " + err.Error()
}

// ------------------------------------------------------------------ the chain under observation

var errXStub = errors.New("verif: stub override fails")

type xFailOverride struct{}

func (xFailOverride) Override(*pb.C2SWrapper, io.Reader) error { return errXStub }

type xCall struct {
	t      *xTable
	rd     *bytes.Reader
	events []map[string]any
	forced []int // stage B: the prefix RandPrefixOverride is made to draw, per step (-1: unsteered)
}

type xRecOverride struct {
	inner interfaces.RegOverride
	kind  string
	k     int
	c     *xCall
}

func (r *xRecOverride) Override(reg *pb.C2SWrapper, rd io.Reader) (err error) {
	c := r.c
	restBefore := xRest(reg)
	left := c.rd.Len()
	if c.t != nil {
		c.t.lastIdx = 0
	}
	var tpBefore *anypb.Any
	if reg != nil && reg.RegistrationResponse != nil {
		tpBefore = reg.RegistrationResponse.TransportParams
	}
	restore := func() {}
	if r.kind == "rand" && r.k-1 < len(c.forced) && c.forced[r.k-1] >= 0 {
		saved := prefix.DefaultPrefixes
		prefix.DefaultPrefixes = map[prefix.PrefixID]prefix.Prefix{0: xOrigDefaults[prefix.PrefixID(c.forced[r.k-1])]}
		restore = func() { prefix.DefaultPrefixes = saved }
	}
	func() {
		defer restore()
		err = r.inner.Override(reg, rd)
	}()
	wrote := reg != nil && reg.RegistrationResponse != nil && reg.RegistrationResponse.TransportParams != nil && reg.RegistrationResponse.TransportParams != tpBefore
	ev := map[string]any{"a": "Step", "kind": r.kind, "k": r.k, "err": xErrClass(err), "wrote": wrote, "idx": 0,
		"used": left - c.rd.Len(), "pid": -1, "reg": xAbsReg(reg, c.t), "keep": xRest(reg) == restBefore}
	if r.kind == "file" && c.t != nil {
		ev["idx"] = c.t.lastIdx
	}
	if r.kind == "rand" && wrote {
		if tp, ok := ev["reg"].(map[string]any)["resp"].(map[string]any)["tp"].(map[string]any); ok {
			ev["pid"] = tp["id"]
		}
	}
	c.events = append(c.events, ev)
	return err
}

func xBuildChain(kinds []string, fid int, c *xCall) interfaces.Overrides {
	var chain interfaces.Overrides
	for i, k := range kinds {
		var inner interfaces.RegOverride
		switch k {
		case "file":
			inner = c.t.po
		case "fixed":
			inner = NewFixedPrefixOverride(xOrigDefaults[prefix.PrefixID(fid)])
		case "rand":
			inner = NewRandPrefixOverride()
		case "fail":
			inner = xFailOverride{}
		default:
			panic("unknown override kind " + k)
		}
		chain = append(chain, &xRecOverride{inner, k, i + 1, c})
	}
	return chain
}

// xRunCall hands one registration to the real interfaces.Overrides and returns the Step events and the Return event.
func xRunCall(t *xTable, kinds []string, fid int, r *xReg, script []int, forced []int) (evs []map[string]any) {
	raw := make([]byte, len(script))
	for i, b := range script {
		raw[i] = byte(b)
	}
	c := &xCall{t: t, rd: bytes.NewReader(raw), forced: forced}
	reg := xBuildReg(r)
	before := xBits(reg)
	chain := xBuildChain(kinds, fid, c)
	defer func() {
		if p := recover(); p != nil {
			evs = append(c.events, map[string]any{"a": "panic", "msg": fmt.Sprint(p)})
		}
	}()
	err := chain.Override(reg, c.rd)
	ret := map[string]any{"a": "Return", "err": xErrClass(err), "reg": xAbsReg(reg, t), "same": xBits(reg) == before,
		"ran": len(c.events), "of": len(kinds), "left": c.rd.Len()}
	return append(c.events, ret)
}

// ------------------------------------------------------------------ comparison

func xJ(v any) string {
	b, err := json.Marshal(vNorm(v))
	if err != nil {
		panic(err)
	}
	return string(b)
}

// xSame compares the fields the real code can be observed on (named per event kind) between the model's and the real event.
func xSame(want map[string]any, got map[string]any) (bool, []string) {
	var fields []string
	switch want["a"] {
	case "Load":
		fields = []string{"a", "res", "why", "at", "tok", "tbl"}
	case "Step":
		fields = []string{"a", "kind", "k", "err", "wrote", "idx", "used", "pid", "reg", "keep"}
	case "Return":
		fields = []string{"a", "err", "reg", "same", "ran", "of", "left"}
	default:
		fields = []string{"a"}
	}
	var diff []string
	for _, f := range fields {
		if xJ(want[f]) != xJ(got[f]) {
			diff = append(diff, f)
		}
	}
	if n, ok := got["note"]; ok && n != "" {
		diff = append(diff, "note")
	}
	return len(diff) == 0, diff
}

// ------------------------------------------------------------------ stage B

func TestVerifPrefixOverrideReplay(t *testing.T) {
	out := vOpenOut(t)
	defer out.Close()
	dir := t.TempDir()
	nb, steps, mism, panics, loads, calls := 0, 0, 0, 0, 0, 0
	idx := -1
	vReadLines(t, func(line []byte) {
		idx++
		var raw []map[string]any
		var typed []xEvent
		if err := json.Unmarshal(line, &raw); err != nil {
			t.Fatalf("behaviour %d: %v", idx, err)
		}
		if err := json.Unmarshal(line, &typed); err != nil {
			t.Fatalf("behaviour %d: %v", idx, err)
		}
		nb++
		report := func(at int, want, got map[string]any, diff []string) {
			mism++
			if mism <= 200 {
				out.Emit(map[string]any{"kind": "mismatch", "idx": idx, "at": at, "want_event": want, "got_event": got, "diff": diff, "want": raw})
			}
		}
		if len(typed) == 0 || typed[0].A != "Load" {
			t.Fatalf("behaviour %d does not start with Load", idx)
		}
		got, tbl := xLoad(typed[0].File, dir, idx)
		loads++
		steps++
		if ok, diff := xSame(raw[0], got); !ok {
			report(0, raw[0], got, diff)
			return
		}
		if len(typed) == 1 {
			return
		}
		if typed[1].A != "Arrive" || tbl == nil {
			t.Fatalf("behaviour %d: event 1 is %s (table %v)", idx, typed[1].A, tbl != nil)
		}
		var forced []int
		for _, e := range typed[2:] {
			if e.A == "Step" {
				forced = append(forced, e.Pid)
			}
		}
		calls++
		evs := xRunCall(tbl, typed[0].Chain, typed[0].Fid, typed[1].Reg, typed[1].Bytes, forced)
		for i := 2; i < len(raw) || i-2 < len(evs); i++ {
			steps++
			var w, g map[string]any
			if i < len(raw) {
				w = raw[i]
			}
			if i-2 < len(evs) {
				g = evs[i-2]
			}
			if g != nil && g["a"] == "panic" {
				panics++
			}
			if w == nil || g == nil {
				report(i, w, g, []string{"length"})
				return
			}
			if ok, diff := xSame(w, g); !ok {
				report(i, w, g, diff)
				return
			}
		}
	})
	out.Emit(map[string]any{"kind": "summary", "behaviours": nb, "steps": steps, "mismatches": mism, "panics": panics, "loads": loads, "calls": calls})
}

// ------------------------------------------------------------------ stage C

func xRandTok(r *rand.Rand, vals []int64) xTok {
	switch x := r.Intn(120); {
	case x == 0:
		return xTok{T: "bad"}
	case x == 1:
		return xTok{T: "over"}
	case x == 2:
		return xTok{T: "under"}
	}
	return xTok{T: "n", V: vals[r.Intn(len(vals))]}
}

func xRandLine(r *rand.Rand) xLine {
	pf := []string{"P", "Q", "R", "S"}[r.Intn(4)]
	zero := xTok{T: "n"}
	plain := xLine{Max: zero, Bar: zero, Id: zero, Port: zero, Pfx: "-", Fmt: "dec", N: "short"}
	lens := []string{"short", "short", "short", "m1", "max", "over"}
	switch x := r.Intn(100); {
	case x < 8:
		plain.K = "blank"
		return plain
	case x < 16:
		plain.K = "comment"
		if r.Intn(4) == 0 {
			plain.N = lens[r.Intn(len(lens))]
		}
		return plain
	case x < 19:
		plain.K = "ws"
		return plain
	case x < 21:
		plain.K = "icomment"
		return plain
	case x < 23:
		plain.K = "ioerr"
		return plain
	}
	weights := []int64{0, 0, 1, 1, 2, 3, 4, 5, 7, 8, 10, 100, 255, 256, 257, 1000, 4095, -1, -7}
	ids := []int64{0, 1, 9, 10, 33, 34, -1, 2147483647, -2147483647}
	ports := []int64{-1, 0, 22, 80, 443, 1024, 65535, 65536, 70000}
	l := xLine{K: "entry", Max: xRandTok(r, weights), Bar: xRandTok(r, weights), Id: xRandTok(r, ids), Port: xRandTok(r, ports), Pfx: pf,
		Fmt: []string{"dec", "dec", "hex", "oct", "und", "plus", "tabs"}[r.Intn(7)], N: "short"}
	if r.Intn(12) == 0 {
		l.Max.V = l.Bar.V // guaranteed selection
	}
	if r.Intn(25) == 0 && l.Id.T == "n" && l.Id.V >= 0 {
		l.Id.Hi = 1
	}
	if r.Intn(25) == 0 && l.Port.T == "n" && l.Port.V >= 0 {
		l.Port.Hi = 1
	}
	switch x := r.Intn(30); {
	case x == 0:
		l.K = "few"
	case x == 1:
		l.K = "many"
	case x == 2:
		l.N = lens[3+r.Intn(3)]
	}
	return l
}

func xRandReg(r *rand.Rand) *xReg {
	none := map[string]any{"none": true}
	switch r.Intn(25) {
	case 0:
		return &xReg{Wrap: "nil", Tt: "prefix", Dis: "unset", Par: "nil", Rnd: "unset", Resp: none}
	case 1:
		return &xReg{Wrap: "nopayload", Tt: "prefix", Dis: "unset", Par: "nil", Rnd: "unset", Resp: none}
	}
	g := &xReg{Wrap: "ok", Resp: none}
	g.Tt = []string{"prefix", "prefix", "prefix", "prefix", "prefix", "min", "unset"}[r.Intn(7)]
	g.Dis = []string{"unset", "no", "no", "yes"}[r.Intn(4)]
	g.Par = []string{"nil", "emptyurl", "proto", "proto", "proto", "tapdance", "tdgeneric", "pgeneric", "junkurl", "badvalue"}[r.Intn(10)]
	g.Rnd = []string{"unset", "false", "true"}[r.Intn(3)]
	if g.Par == "nil" {
		g.Rnd = "unset"
	}
	if r.Intn(5) > 0 {
		tp := any(none)
		if r.Intn(3) == 0 {
			tp = map[string]any{"old": true}
		}
		g.Resp = map[string]any{"port": float64([]int{0, 0, 443, 1024, 50000}[r.Intn(5)]), "psr": r.Intn(3) > 0, "tp": tp}
	}
	return g
}

func TestVerifPrefixOverrideRandom(t *testing.T) {
	out := vOpenOut(t)
	defer out.Close()
	dir := t.TempDir()
	n := vEnvInt("VERIF_TRACES", 400)
	only := vEnvInt("VERIF_ONLY", -1)
	kinds := []string{"file", "file", "file", "fixed", "rand", "fail"}
	for tr := 0; tr < n; tr++ {
		r := rand.New(rand.NewSource(vSeed()*1000003 + int64(tr)))
		if only >= 0 && tr != only {
			continue
		}
		out.Emit(map[string]any{"a": "Reset", "trace": tr})
		var tbl *xTable
		var chain []string
		fid := 0
		for round := 0; round < 1+r.Intn(3); round++ {
			f := &xFile{Nl: r.Intn(4) > 0, Eol: []string{"lf", "lf", "crlf"}[r.Intn(3)], Lines: []xLine{}}
			for i, nl := 0, r.Intn(7); i < nl; i++ {
				f.Lines = append(f.Lines, xRandLine(r))
			}
			ch := []string{}
			for i, nk := 0, 1+r.Intn(3); i < nk; i++ {
				ch = append(ch, kinds[r.Intn(len(kinds))])
			}
			fd := r.Intn(10)
			got, t2 := xLoad(f, dir, tr*10+round)
			got["file"], got["chain"], got["fid"] = f, ch, fd
			out.Emit(got)
			if t2 != nil { // a rejected load leaves the registrar as it was
				tbl, chain, fid = t2, ch, fd
			}
			if tbl == nil {
				continue
			}
			for call := 0; call < 1+r.Intn(4); call++ {
				reg := xRandReg(r)
				script := make([]int, r.Intn(7))
				for i := range script {
					if r.Intn(3) == 0 {
						script[i] = []int{0, 1, 255, 128, 3}[r.Intn(5)]
					} else {
						script[i] = r.Intn(256)
					}
				}
				out.Emit(map[string]any{"a": "Arrive", "reg": reg, "bytes": script})
				for _, ev := range xRunCall(tbl, chain, fid, reg, script, nil) {
					out.Emit(ev)
				}
			}
		}
	}
}
